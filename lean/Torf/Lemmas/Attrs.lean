/-
  Torf.Lemmas.Attrs — helper lemmas for property C09 (attribute-layer invariant).
-/
import Torf.Spec.Attrs
namespace Torf.Attrs

/-! ### `calculate_piece_size` -/

theorem pow2Search_pow (size mp : Nat) : ∀ fuel e, ∃ k, e ≤ k ∧ pow2Search size mp fuel e = 2 ^ k := by
  intro fuel
  induction fuel with
  | zero => intro e; exact ⟨e, Nat.le_refl _, rfl⟩
  | succ n ih =>
    intro e
    unfold pow2Search
    split
    · exact ⟨e, Nat.le_refl _, rfl⟩
    · obtain ⟨k, hk, h⟩ := ih (e + 1)
      exact ⟨k, by omega, h⟩

/-- the search result is large enough as soon as the fuel reaches a large enough exponent -/
theorem pow2Search_ge (size mp : Nat) : ∀ fuel e, size ≤ 2 ^ (e + fuel) * mp →
    size ≤ pow2Search size mp fuel e * mp := by
  intro fuel
  induction fuel with
  | zero => intro e h; simpa [pow2Search] using h
  | succ n ih =>
    intro e h
    unfold pow2Search
    split
    · assumption
    · apply ih (e + 1)
      have : e + 1 + n = e + (n + 1) := by omega
      rw [this]; exact h

/-- … and it is the least such power of two above the starting exponent -/
theorem pow2Search_least (size mp : Nat) : ∀ fuel e k, pow2Search size mp fuel e = 2 ^ k → e < k →
    ¬ size ≤ 2 ^ (k - 1) * mp := by
  intro fuel
  induction fuel with
  | zero =>
    intro e k h hk
    simp only [pow2Search] at h
    have := (Nat.pow_right_inj (by omega : 1 < 2)).mp h
    omega
  | succ n ih =>
    intro e k h hk
    unfold pow2Search at h
    split at h
    · have := (Nat.pow_right_inj (by omega : 1 < 2)).mp h
      omega
    · rename_i hne
      by_cases hk1 : e + 1 < k
      · exact ih (e + 1) k h hk1
      · have : k - 1 = e := by omega
        rw [this]; exact hne

theorem lt_two_pow_self' (n : Nat) : n ≤ 2 ^ n := Nat.le_of_lt Nat.lt_two_pow_self

theorem maxPieces_pos (size : Nat) : 0 < maxPieces size := by
  unfold maxPieces; split <;> (try split) <;> (try split) <;> omega

theorem rawPieceSize_cases (size : Nat) :
    rawPieceSize size = 0 ∨ ∃ k, rawPieceSize size = 2 ^ k := by
  unfold rawPieceSize
  simp only
  split
  · exact Or.inl rfl
  · obtain ⟨k, _, h⟩ := pow2Search_pow size (maxPieces size) size 0
    exact Or.inr ⟨k, h⟩

theorem pow_mult16 (k : Nat) (h : 16384 < 2 ^ k) : 2 ^ k % 16384 = 0 := by
  have hk : 14 < k := by
    apply Nat.lt_of_not_le
    intro hle
    have := Nat.pow_le_pow_right (n := 2) (by omega) hle
    omega
  have : 2 ^ k = 16384 * 2 ^ (k - 14) := by
    have e : k = 14 + (k - 14) := by omega
    calc 2 ^ k = 2 ^ (14 + (k - 14)) := by rw [← e]
      _ = 2 ^ 14 * 2 ^ (k - 14) := Nat.pow_add ..
      _ = 16384 * 2 ^ (k - 14) := by rw [show (2:Nat) ^ 14 = 16384 from rfl]
  rw [this]; exact Nat.mul_mod_right ..

theorem calc_shape (size mn mx : Nat) :
    (∃ k, calcPieceSize size mn mx = 2 ^ k) ∨ calcPieceSize size mn mx = mn ∨
      calcPieceSize size mn mx = mx := by
  unfold calcPieceSize
  rcases rawPieceSize_cases size with h | ⟨k, h⟩
  · rw [h]; right
    rcases Nat.le_total mn mx with h1 | h1
    · left; omega
    · right; omega
  · rw [h]
    by_cases h1 : 2 ^ k ≤ mn
    · right
      rcases Nat.le_total mn mx with h2 | h2
      · left; omega
      · right; omega
    · by_cases h2 : 2 ^ k ≤ mx
      · left; exact ⟨k, by omega⟩
      · right; right; omega

theorem calc_bounds (size mn mx : Nat) (h : mn ≤ mx) :
    mn ≤ calcPieceSize size mn mx ∧ calcPieceSize size mn mx ≤ mx := by
  unfold calcPieceSize; omega

theorem calc_mult16 (size mn mx : Nat) (h : mn ≤ mx) (hmn : Mult16 mn) (hmx : Mult16 mx) :
    Mult16 (calcPieceSize size mn mx) := by
  unfold Mult16 at *
  unfold calcPieceSize
  rcases rawPieceSize_cases size with h0 | ⟨k, h0⟩
  · rw [h0]
    have : min (max 0 mn) mx = mn := by omega
    rw [this]; exact hmn
  · rw [h0]
    by_cases h1 : 2 ^ k ≤ mn
    · have : min (max (2 ^ k) mn) mx = mn := by omega
      rw [this]; exact hmn
    · by_cases h2 : 2 ^ k ≤ mx
      · have : min (max (2 ^ k) mn) mx = 2 ^ k := by omega
        rw [this]
        have := pow_mult16 k (by omega)
        omega
      · have : min (max (2 ^ k) mn) mx = mx := by omega
        rw [this]; exact hmx

/-! ### sizes -/

theorem sumSizes_pos_of_any (fs : List FileEnt) (h : fs.any (fun f => decide (0 < f.size)) = true) :
    0 < sumSizes fs := by
  induction fs with
  | nil => simp at h
  | cons a t ih =>
    simp only [List.any_cons, Bool.or_eq_true, decide_eq_true_eq] at h
    simp only [sumSizes, List.map_cons, List.sum_cons] at *
    rcases h with h | h
    · omega
    · have := ih h; omega

theorem sizeC_pos (c : Content) (h : ContentOk c) (hne : c ≠ .none) : 0 < sizeC c := by
  cases c with
  | none => exact absurd rfl hne
  | single n => exact h
  | multi fs => exact sumSizes_pos_of_any fs h

theorem any_sortFiles (fs : List FileEnt) (p : FileEnt → Bool) :
    (sortFiles fs).any p = fs.any p := by
  unfold sortFiles
  apply Bool.eq_iff_iff.mpr
  simp only [List.any_eq_true, List.mem_mergeSort]

theorem place_contentOk (nm : Option String) (kept : List (Path × Nat)) (bp : Path) :
    ContentOk (place nm kept bp).1 := by
  unfold place
  split
  · exact True.intro
  · rename_i hc
    simp only [Bool.or_eq_true, not_or, Bool.not_eq_true] at hc
    obtain ⟨_, hall⟩ := hc
    have hex : ∃ f ∈ kept, 0 < f.2 := by
      apply Classical.byContradiction
      intro hn
      have : kept.all (fun f => f.2 == 0) = true := by
        simp only [List.all_eq_true, beq_iff_eq]
        intro f hf
        apply Classical.byContradiction
        intro hz
        exact hn ⟨f, hf, by omega⟩
      rw [this] at hall; exact Bool.noConfusion hall
    have multi_ok : ContentOk (.multi (sortFiles (kept.map fun f => ⟨f.1.drop bp.length, f.2⟩))) := by
      show (sortFiles _).any _ = true
      rw [any_sortFiles]
      obtain ⟨f, hf, hp⟩ := hex
      simp only [List.any_map, List.any_eq_true, Function.comp, decide_eq_true_eq]
      exact ⟨f, hf, hp⟩
    split
    · rename_i f
      obtain ⟨g, hg, hp⟩ := hex
      simp only [List.mem_singleton] at hg
      subst hg
      split
      · exact hp
      · exact multi_ok
    · exact multi_ok

/-! ### the invariant through the setters -/

/-- everything in `Inv` except the two clauses about the piece length -/
def Pre (s : St) : Prop :=
  s.pmin ≤ s.pmax ∧ Mult16 s.pmin ∧ Mult16 s.pmax ∧ ContentOk s.content ∧ StampOk s

theorem Inv.pre {s : St} (h : Inv s) : Pre s := ⟨h.1, h.2.1, h.2.2.1, h.2.2.2.2.2.1, h.2.2.2.2.2.2⟩

theorem Inv.weak {s : St} (h : Inv s) : InvW s :=
  ⟨h.1, h.2.1, h.2.2.1, h.2.2.2.1, h.2.2.2.2.2.1, h.2.2.2.2.2.2⟩

theorem Inv.plp {s : St} (h : Inv s) : PlPresent s := h.2.2.2.2.1

theorem Inv.of_weak {s : St} (h : InvW s) (hp : PlPresent s) : Inv s :=
  ⟨h.1, h.2.1, h.2.2.1, h.2.2.2.1, hp, h.2.2.2.2.1, h.2.2.2.2.2⟩

theorem InvW.pre {s : St} (h : InvW s) : Pre s := ⟨h.1, h.2.1, h.2.2.1, h.2.2.2.2.1, h.2.2.2.2.2⟩

theorem InvW.stamp {s : St} (h : InvW s) : InvS s := ⟨h.2.2.2.2.1, h.2.2.2.2.2⟩

theorem Inv.stamp {s : St} (h : Inv s) : InvS s := h.weak.stamp

/-- the state written by a successful `piece_size` assignment -/
def stored (s : St) (n : Nat) : St :=
  { s with pieces := if s.pl ≠ some n then none else s.pieces, pl := some n }

theorem stored_stampOk {s : St} (hs : StampOk s) (n : Nat) : StampOk (stored s n) := by
  unfold StampOk stored
  by_cases hpl : s.pl = some n
  · simp only [hpl, ne_eq, not_true_eq_false, if_false]
    unfold StampOk at hs
    split
    · exact True.intro
    · rename_i g hg
      rw [hg] at hs
      obtain ⟨a, b, c, d, e⟩ := hs
      exact ⟨a, b, by rw [← c, hpl], d, e⟩
  · simp only [ne_eq, hpl, not_false_eq_true, if_true]

theorem stored_inv {s : St} (h : Pre s) (n : Nat) (hn : Mult16 n) (h1 : s.pmin ≤ n) (h2 : n ≤ s.pmax) :
    Inv (stored s n) := by
  obtain ⟨hb, hmn, hmx, hc, hs⟩ := h
  refine ⟨hb, hmn, hmx, ?_, ?_, hc, stored_stampOk hs n⟩
  · show PlOk (stored s n)
    unfold PlOk stored; exact ⟨hn, h1, h2⟩
  · intro _; rfl

theorem checkAndStore_cases (s : St) (x : Int) :
    checkAndStore s x = (s, .err .pieceSize) ∨
    ∃ n : Nat, (n : Int) = x ∧ Mult16 n ∧ s.pmin ≤ n ∧ n ≤ s.pmax ∧
      checkAndStore s x = (stored s n, .ok) := by
  unfold checkAndStore
  split
  · exact Or.inl rfl
  · rename_i hd
    split
    · exact Or.inl rfl
    · rename_i hb
      right
      simp only [divisible, Bool.not_eq_true, Bool.and_eq_false_iff, not_or, Bool.not_eq_false,
        decide_eq_true_eq, beq_iff_eq, Bool.and_eq_true, Bool.not_eq_eq_eq_not, Bool.not_true] at hd hb
      refine ⟨x.toNat, by omega, ⟨by omega, by omega⟩, by omega, by omega, rfl⟩

theorem checkAndStore_inv {s : St} (h : Inv s) (x : Int) : Inv (checkAndStore s x).1 := by
  rcases checkAndStore_cases s x with h1 | ⟨n, _, hn, ha, hb, h1⟩
  · rw [h1]; exact h
  · rw [h1]; exact stored_inv h.pre n hn ha hb

theorem checkAndStore_invW {s : St} (h : InvW s) (x : Int) : InvW (checkAndStore s x).1 := by
  rcases checkAndStore_cases s x with h1 | ⟨n, _, hn, ha, hb, h1⟩
  · rw [h1]; exact h
  · rw [h1]; exact (stored_inv h.pre n hn ha hb).weak

theorem checkAndStore_invS {s : St} (h : InvS s) (x : Int) : InvS (checkAndStore s x).1 := by
  rcases checkAndStore_cases s x with h1 | ⟨n, _, _, _, _, h1⟩
  · rw [h1]; exact h
  · rw [h1]; exact ⟨h.1, stored_stampOk h.2 n⟩

theorem checkAndStore_plp {s : St} (h : PlPresent s) (x : Int) : PlPresent (checkAndStore s x).1 := by
  rcases checkAndStore_cases s x with h1 | ⟨n, _, _, _, _, h1⟩
  · rw [h1]; exact h
  · rw [h1]; intro _; rfl

theorem checkAndStore_pre {s : St} (h : Pre s) (n : Nat) (hn : Mult16 n) (h1 : s.pmin ≤ n)
    (h2 : n ≤ s.pmax) : Inv (checkAndStore s (n : Int)).1 := by
  rcases checkAndStore_cases s n with he | ⟨m, hm, _, _, _, he⟩
  · -- impossible: the value passes both checks
    exfalso
    unfold checkAndStore at he
    have hd : divisible (n : Int) = true := by
      unfold Mult16 at hn
      simp only [divisible, Bool.and_eq_true, decide_eq_true_eq, beq_iff_eq]; omega
    have hbnd : ((s.pmin : Int) ≤ n && (n : Int) ≤ s.pmax) = true := by
      simp only [Bool.and_eq_true, decide_eq_true_eq]; omega
    simp only [hd, hbnd, Bool.not_true, Bool.false_eq_true, if_false] at he
    have := congrArg Prod.snd he
    simp at this
  · have : m = n := by omega
    subst this
    rw [he]; exact stored_inv h m hn h1 h2

theorem setPieceSize_none_inv {s : St} (h : Pre s) : Inv (setPieceSize s none).1 := by
  unfold setPieceSize
  simp only
  split
  · rename_i hz
    obtain ⟨hb, hmn, hmx, hc, hs⟩ := h
    show Inv { s with pl := none }
    refine ⟨hb, hmn, hmx, ?_, ?_, hc, ?_⟩
    · show PlOk { s with pl := none }
      unfold PlOk; exact True.intro
    · intro hpos
      change 0 < size s at hpos
      omega
    · unfold StampOk at hs ⊢
      show match s.pieces with | none => True | some g => Current { s with pl := none } g
      split
      · exact True.intro
      · rename_i g hg
        rw [hg] at hs
        have := hs.2.2.2.2
        omega
  · have hb := calc_bounds (size s) s.pmin s.pmax h.1
    exact checkAndStore_pre h _ (calc_mult16 _ _ _ h.1 h.2.1 h.2.2.1) hb.1 hb.2

/-! ### the recalculation of the piece length (`piece_size = None`), which may fail -/

/-- how `piece_size = None` ends: no content (the piece length is removed), a failure inside the
    recalculation (the state is untouched), or a stored piece length that passed the checks -/
theorem recalc_cases (env : Env) (s : St) :
    (size s ≤ 0 ∧ recalc env s = ({ s with pl := none }, .ok)) ∨
    (0 < size s ∧ (recalc env s).1 = s ∧ (recalc env s).2.faulted = true) ∨
    (0 < size s ∧ ∃ n : Nat, Mult16 n ∧ s.pmin ≤ n ∧ n ≤ s.pmax ∧ recalc env s = (stored s n, .ok)) := by
  unfold recalc
  split
  · rename_i hz; exact Or.inl ⟨hz, rfl⟩
  · rename_i hz
    have hpos : 0 < size s := by omega
    right
    split
    · left; exact ⟨hpos, rfl, rfl⟩
    · rename_i x _
      rcases checkAndStore_cases s x with h1 | ⟨n, _, hn, ha, hb, h1⟩
      · left; rw [h1]; exact ⟨hpos, rfl, rfl⟩
      · right; rw [h1]; exact ⟨hpos, n, hn, ha, hb, rfl⟩

theorem stampOk_dropPl {s : St} (hs : StampOk s) (hz : size s ≤ 0) : StampOk { s with pl := none } := by
  unfold StampOk at hs ⊢
  show match s.pieces with | none => True | some g => Current { s with pl := none } g
  split
  · exact True.intro
  · rename_i g hg
    rw [hg] at hs
    have := hs.2.2.2.2
    omega

theorem recalc_invW {s : St} (h : InvW s) (env : Env) : InvW (recalc env s).1 := by
  rcases recalc_cases env s with ⟨hz, e⟩ | ⟨_, e, _⟩ | ⟨_, n, hn, ha, hb, e⟩
  · rw [e]
    obtain ⟨hb, hmn, hmx, _, hc, hs⟩ := h
    refine ⟨hb, hmn, hmx, ?_, hc, stampOk_dropPl hs hz⟩
    show PlOk { s with pl := none }
    unfold PlOk; exact True.intro
  · rw [e]; exact h
  · rw [e]; exact (stored_inv h.pre n hn ha hb).weak

theorem recalc_invS {s : St} (h : InvS s) (env : Env) : InvS (recalc env s).1 := by
  rcases recalc_cases env s with ⟨hz, e⟩ | ⟨_, e, _⟩ | ⟨_, n, _, _, _, e⟩
  · rw [e]; exact ⟨h.1, stampOk_dropPl h.2 hz⟩
  · rw [e]; exact h
  · rw [e]; exact ⟨h.1, stored_stampOk h.2 n⟩

/-- a recalculation that does not fail leaves a piece length for content of positive size —
    whatever the state was -/
theorem recalc_plp (env : Env) (s : St) (hnf : (recalc env s).2.faulted = false) :
    PlPresent (recalc env s).1 := by
  rcases recalc_cases env s with ⟨hz, e⟩ | ⟨_, _, hf⟩ | ⟨_, n, _, _, _, e⟩
  · rw [e]; intro hpos; change 0 < size s at hpos; omega
  · rw [hf] at hnf; exact Bool.noConfusion hnf
  · rw [e]; intro _; rfl

theorem recalc_ok_or_faulted (env : Env) (s : St) :
    (recalc env s).2 = .ok ∨ (recalc env s).2.faulted = true := by
  rcases recalc_cases env s with ⟨_, e⟩ | ⟨_, _, hf⟩ | ⟨_, n, _, _, _, e⟩
  · left; rw [e]
  · right; exact hf
  · left; rw [e]

/-- the state a recalculation leaves, for the frame lemmas -/
theorem recalc_state (env : Env) (s : St) :
    (size s ≤ 0 ∧ (recalc env s).1 = { s with pl := none }) ∨ (recalc env s).1 = s ∨
    ∃ n, (recalc env s).1 = stored s n := by
  rcases recalc_cases env s with ⟨hz, e⟩ | ⟨_, e, _⟩ | ⟨_, n, _, _, _, e⟩
  · left; rw [e]; exact ⟨hz, rfl⟩
  · right; left; exact e
  · right; right; exact ⟨n, by rw [e]⟩

/-- **bridge to the stock class**: where the class's `calculate_piece_size` is the integer
    function (no clause of an override applies, the size is below the float limit), the `None`
    route leaves exactly the state of `setPieceSize s none` -/
theorem recalc_stock (env : Env) (s : St)
    (hc : calcOf env (size s) s.pmin s.pmax = .value (calcPieceSize (size s) s.pmin s.pmax : Nat)) :
    (recalc env s).1 = (setPieceSize s none).1 ∧
    ((recalc env s).2 = .ok ↔ (setPieceSize s none).2 = .ok) := by
  unfold recalc setPieceSize
  simp only
  split
  · exact ⟨rfl, Iff.rfl⟩
  · rw [hc]
    simp only
    generalize checkAndStore s _ = r
    obtain ⟨s', res⟩ := r
    cases res <;> simp

theorem setPieceSizeE_invW {s : St} (h : InvW s) (env : Env) (v : Option Int) :
    InvW (setPieceSizeE env s v).1 := by
  cases v with
  | none => exact recalc_invW h env
  | some x => exact checkAndStore_invW h x

theorem divisible_toNat {x : Int} (h : divisible x = true) : Mult16 x.toNat ∧ (x.toNat : Int) = x := by
  simp only [divisible, Bool.and_eq_true, decide_eq_true_eq, beq_iff_eq] at h
  unfold Mult16; omega

/-- the tail of a bound setter: nothing, or a `piece_size` assignment -/
theorem clampMin_cases (s1 : St) :
    (clampMin s1).1 = s1 ∨ ∃ y, (clampMin s1).1 = (checkAndStore s1 y).1 := by
  unfold clampMin
  split
  · split
    · right; exact ⟨_, rfl⟩
    · left; rfl
  · left; rfl

theorem clampMax_cases (s1 : St) :
    (clampMax s1).1 = s1 ∨ ∃ y, (clampMax s1).1 = (checkAndStore s1 y).1 := by
  unfold clampMax
  split
  · split
    · right; exact ⟨_, rfl⟩
    · left; rfl
  · left; rfl

/-- what a minimum assignment (a value or `None`) can leave behind: nothing changed (rejected
    value), the stored bound `m`, or the stored bound followed by a `piece_size` assignment -/
theorem setMin_cases (s : St) (v : Option Int) :
    (setMin s v).1 = s ∨ ∃ m, (setMin s v).1 = { s with pmin := m } ∨
    ∃ y, (setMin s v).1 = (checkAndStore { s with pmin := m } y).1 := by
  unfold setMin
  split
  · right
    refine ⟨defaultMin, ?_⟩
    rcases clampMin_cases { s with pmin := defaultMin } with e | ⟨y, e⟩
    · left; exact e
    · right; exact ⟨y, e⟩
  · rename_i x
    split
    · left; rfl
    · right
      refine ⟨x.toNat, ?_⟩
      rcases clampMin_cases { s with pmin := x.toNat } with e | ⟨y, e⟩
      · left; exact e
      · right; exact ⟨y, e⟩

theorem setMax_cases (s : St) (v : Option Int) :
    (setMax s v).1 = s ∨ ∃ m, (setMax s v).1 = { s with pmax := m } ∨
    ∃ y, (setMax s v).1 = (checkAndStore { s with pmax := m } y).1 := by
  unfold setMax
  split
  · right
    refine ⟨defaultMax, ?_⟩
    rcases clampMax_cases { s with pmax := defaultMax } with e | ⟨y, e⟩
    · left; exact e
    · right; exact ⟨y, e⟩
  · rename_i x
    split
    · left; rfl
    · right
      refine ⟨x.toNat, ?_⟩
      rcases clampMax_cases { s with pmax := x.toNat } with e | ⟨y, e⟩
      · left; exact e
      · right; exact ⟨y, e⟩

/-- a `piece_size = v` / bound assignment fails only with the setter's own `PieceSizeError`: that is
    never a failure of the recalculation -/
theorem checkAndStore_not_faulted (s : St) (x : Int) : (checkAndStore s x).2.faulted = false := by
  rcases checkAndStore_cases s x with h1 | ⟨n, _, _, _, _, h1⟩ <;> rw [h1] <;> rfl

theorem setMin_not_faulted (s : St) (v : Option Int) : (setMin s v).2.faulted = false := by
  have cl : ∀ s1, (clampMin s1).2.faulted = false := by
    intro s1; unfold clampMin
    split
    · split
      · exact checkAndStore_not_faulted ..
      · rfl
    · rfl
  unfold setMin
  split
  · exact cl _
  · split
    · rfl
    · exact cl _

theorem setMax_not_faulted (s : St) (v : Option Int) : (setMax s v).2.faulted = false := by
  have cl : ∀ s1, (clampMax s1).2.faulted = false := by
    intro s1; unfold clampMax
    split
    · split
      · exact checkAndStore_not_faulted ..
      · rfl
    · rfl
  unfold setMax
  split
  · exact cl _
  · split
    · rfl
    · exact cl _

/-- the bound setters never touch the content, so "content has a piece length" survives them -/
theorem setMin_plp {s : St} (h : PlPresent s) (v : Option Int) : PlPresent (setMin s v).1 := by
  rcases setMin_cases s v with e | ⟨m, e | ⟨y, e⟩⟩ <;> rw [e]
  · exact h
  · exact h
  · exact checkAndStore_plp (s := { s with pmin := m }) h y

theorem setMax_plp {s : St} (h : PlPresent s) (v : Option Int) : PlPresent (setMax s v).1 := by
  rcases setMax_cases s v with e | ⟨m, e | ⟨y, e⟩⟩ <;> rw [e]
  · exact h
  · exact h
  · exact checkAndStore_plp (s := { s with pmax := m }) h y

theorem setMin_invS {s : St} (h : InvS s) (v : Option Int) : InvS (setMin s v).1 := by
  rcases setMin_cases s v with e | ⟨m, e | ⟨y, e⟩⟩ <;> rw [e]
  · exact h
  · exact h
  · exact checkAndStore_invS (s := { s with pmin := m }) h y

theorem setMax_invS {s : St} (h : InvS s) (v : Option Int) : InvS (setMax s v).1 := by
  rcases setMax_cases s v with e | ⟨m, e | ⟨y, e⟩⟩ <;> rw [e]
  · exact h
  · exact h
  · exact checkAndStore_invS (s := { s with pmax := m }) h y

/-- storing a legal minimum that does not cross the maximum, then clamping -/
theorem clampMin_invW {s : St} (h : InvW s) (m : Nat) (hm : Mult16 m) (hle : m ≤ s.pmax) :
    InvW (clampMin { s with pmin := m }).1 := by
  obtain ⟨hb, hmn, hmx, hpl, hc, hs⟩ := h
  have hpre : Pre { s with pmin := m } := ⟨hle, hm, hmx, hc, hs⟩
  unfold clampMin
  simp only
  split
  · rename_i pl hp
    have hp' : s.pl = some pl := hp
    unfold PlOk at hpl; rw [hp'] at hpl
    split
    · show InvW (checkAndStore { s with pmin := m } (max ((m : Nat) : Int) (pl : Int))).1
      have e : max ((m : Nat) : Int) (pl : Int) = ((max m pl : Nat) : Int) := by omega
      rw [e]
      apply Inv.weak
      apply checkAndStore_pre hpre
      · have := hpl.1; unfold Mult16 at this hm ⊢
        rcases Nat.le_total m pl with h1 | h1
        · rw [Nat.max_eq_right h1]; exact this
        · rw [Nat.max_eq_left h1]; exact hm
      · show m ≤ max m pl; omega
      · show max m pl ≤ s.pmax; have := hpl.2.2; omega
    · rename_i hz
      have hz0 : pl = 0 := by omega
      obtain ⟨a, b⟩ := hpl.1; omega
  · rename_i hp
    have hp' : s.pl = none := hp
    refine ⟨hpre.1, hm, hmx, ?_, hc, hs⟩
    show PlOk { s with pmin := m }
    unfold PlOk
    show match s.pl with | none => True | some pl => _
    rw [hp']; exact True.intro

theorem setMin_invW {s : St} (h : InvW s) (v : Option Int) (hok : OpOk s (.setMin v)) :
    InvW (setMin s v).1 := by
  cases v with
  | none =>
    -- the class default is the smallest legal value: it cannot cross a legal maximum
    apply clampMin_invW h defaultMin (by decide)
    obtain ⟨a, b⟩ := h.2.2.1
    show (16384 : Nat) ≤ s.pmax
    omega
  | some x =>
    unfold setMin
    simp only
    split
    · exact h
    · rename_i hd
      have hd' : divisible x = true := by simpa using hd
      obtain ⟨hm, hx⟩ := divisible_toNat hd'
      have hle : x ≤ (s.pmax : Int) := hok hd'
      exact clampMin_invW h x.toNat hm (by omega)

theorem setMin_inv {s : St} (h : Inv s) (v : Option Int) (hok : OpOk s (.setMin v)) :
    Inv (setMin s v).1 :=
  Inv.of_weak (setMin_invW h.weak v hok) (setMin_plp h.plp v)

/-- storing a legal maximum that does not cross the minimum, then clamping -/
theorem clampMax_invW {s : St} (h : InvW s) (m : Nat) (hm : Mult16 m) (hle : s.pmin ≤ m) :
    InvW (clampMax { s with pmax := m }).1 := by
  obtain ⟨hb, hmn, hmx, hpl, hc, hs⟩ := h
  have hpre : Pre { s with pmax := m } := ⟨hle, hmn, hm, hc, hs⟩
  unfold clampMax
  simp only
  split
  · rename_i pl hp
    have hp' : s.pl = some pl := hp
    unfold PlOk at hpl; rw [hp'] at hpl
    split
    · show InvW (checkAndStore { s with pmax := m } (min ((m : Nat) : Int) (pl : Int))).1
      have e : min ((m : Nat) : Int) (pl : Int) = ((min m pl : Nat) : Int) := by omega
      rw [e]
      apply Inv.weak
      apply checkAndStore_pre hpre
      · have := hpl.1; unfold Mult16 at this hm ⊢
        rcases Nat.le_total m pl with h1 | h1
        · rw [Nat.min_eq_left h1]; exact hm
        · rw [Nat.min_eq_right h1]; exact this
      · show s.pmin ≤ min m pl; have := hpl.2.1; omega
      · show min m pl ≤ m; omega
    · rename_i hz
      have hz0 : pl = 0 := by omega
      obtain ⟨a, b⟩ := hpl.1; omega
  · rename_i hp
    have hp' : s.pl = none := hp
    refine ⟨hpre.1, hmn, hm, ?_, hc, hs⟩
    show PlOk { s with pmax := m }
    unfold PlOk
    show match s.pl with | none => True | some pl => _
    rw [hp']; exact True.intro

theorem setMax_invW {s : St} (h : InvW s) (v : Option Int) (hok : OpOk s (.setMax v)) :
    InvW (setMax s v).1 := by
  cases v with
  | none => exact clampMax_invW h defaultMax (by decide) hok
  | some x =>
    unfold setMax
    simp only
    split
    · exact h
    · rename_i hd
      have hd' : divisible x = true := by simpa using hd
      obtain ⟨hm, hx⟩ := divisible_toNat hd'
      have hle : (s.pmin : Int) ≤ x := hok hd'
      exact clampMax_invW h x.toNat hm (by omega)

theorem setMax_inv {s : St} (h : Inv s) (v : Option Int) (hok : OpOk s (.setMax v)) :
    Inv (setMax s v).1 :=
  Inv.of_weak (setMax_invW h.weak v hok) (setMax_plp h.plp v)

/-! ### how the content setters end -/

/-- the forms in which a content setter (and the callback of the filter lists) ends: rejected
    before anything was changed (an exception that is not the recalculation's), nothing to do,
    `path = None`, or `_set_files` -/
inductive Ends (env : Env) (s : St) : St × Res → Prop
  | rejected (e : Err) (he : (Res.err e).faulted = false) : Ends env s (s, .err e)
  | noop : Ends env s (s, .ok)
  | pathNone : Ends env s ({ s with path := none, pieces := none }, .ok)
  | core (files : List (Path × Nat)) (bp : Option Path) : Ends env s (setFilesCore env s files bp)

theorem setPath_ends (env : Env) (s : St) (v : Option Path) : Ends env s (setPath env s v) := by
  cases v with
  | none => exact .pathNone
  | some p =>
    unfold setPath; simp only
    split
    · exact .core _ _
    · split
      · exact .core _ _
      · exact .rejected _ rfl

theorem setFilesAttr_ends (env : Env) (s : St) (fs : List (Path × Nat)) :
    Ends env s (setFilesAttr env s fs) := by
  unfold setFilesAttr
  split
  · exact .rejected _ rfl
  · split
    · exact .core _ _
    · simp only
      split
      · exact .rejected _ rfl
      · exact .core _ _

theorem setFilepathsAttr_ends (env : Env) (s : St) (ps : List Path) :
    Ends env s (setFilepathsAttr env s ps) := by
  unfold setFilepathsAttr
  simp only
  split
  · exact .core _ _
  · split
    · exact .rejected _ rfl
    · exact .core _ _

theorem filtersChanged_ends (env : Env) (s : St) : Ends env s (filtersChanged env s) := by
  unfold filtersChanged
  split
  · exact setPath_ends ..
  · exact setFilesAttr_ends ..

/-- `_set_files` ends with the recalculation: completed, or failed inside it -/
theorem setFilesCore_ok_or_faulted (env : Env) (s : St) (files : List (Path × Nat)) (bp : Option Path) :
    (setFilesCore env s files bp).2 = .ok ∨ (setFilesCore env s files bp).2.faulted = true := by
  unfold setFilesCore; exact recalc_ok_or_faulted ..

/-- a predicate on states that `_set_files` keeps whenever its outcome satisfies `C`, that
    `path = None` keeps, and that holds of `.ok` outcomes -/
structure Pres (env : Env) (P : St → Prop) (C : Res → Prop) : Prop where
  ok : C .ok
  core : ∀ s files bp, P s → C (setFilesCore env s files bp).2 → P (setFilesCore env s files bp).1
  pathNone : ∀ s, P s → P { s with path := none, pieces := none }

theorem Ends.pres {env : Env} {P : St → Prop} {C : Res → Prop} (hp : Pres env P C) {s : St}
    {r : St × Res} (he : Ends env s r) (h : P s) (hc : C r.2) : P r.1 := by
  cases he with
  | rejected e _ => exact h
  | noop => exact h
  | pathNone => exact hp.pathNone s h
  | core files bp => exact hp.core s files bp h hc

/-! ### operations on a filter list (generic in the list: `get`/`put` select it) -/

/-- how an operation on a filter list ends: rejected / nothing to do (state untouched), the list
    written and the callback run, or two such stages in a row of which the first completed -/
inductive EndsL (env : Env) {α : Type} (put : St → List α → St) : St → St × Res → Prop
  | rejected (s : St) (e : Err) (he : (Res.err e).faulted = false) : EndsL env put s (s, .err e)
  | noop (s : St) : EndsL env put s (s, .ok)
  | changed (s : St) (l : List α) : EndsL env put s (filtersChanged env (put s l))
  | seq (s s1 : St) (r : St × Res) : EndsL env put s (s1, .ok) → EndsL env put s1 r → EndsL env put s r

theorem EndsL.pres {env : Env} {α : Type} {put : St → List α → St} {P : St → Prop} {C : Res → Prop}
    (hp : Pres env P C) (hput : ∀ s l, P s → P (put s l)) {s : St} {r : St × Res}
    (he : EndsL env put s r) : P s → C r.2 → P r.1 := by
  induction he with
  | rejected s e _ => intro h _; exact h
  | noop s => intro h _; exact h
  | changed s l => intro h hc; exact (filtersChanged_ends env (put s l)).pres hp (hput _ _ h) hc
  | seq s s1 r _ _ ih1 ih2 => intro h hc; exact ih2 (ih1 h hp.ok) hc

section filterList
variable {α : Type} [DecidableEq α]
variable (env : Env) (valid : α → Bool) (get : St → List α) (put : St → List α → St)

theorem setSliceL_endsL (s : St) (a : Nat) (b : Option Nat) (vs : List α) :
    EndsL env put s (setSliceL env valid get put s a b vs) := by
  unfold setSliceL; split
  · exact .rejected _ _ rfl
  · exact .changed _ _

theorem appendL_endsL (s : St) (v : α) : EndsL env put s (appendL env valid get put s v) := by
  unfold appendL; split
  · exact .rejected _ _ rfl
  · exact .changed _ _

/-- `extend` is a run of `append`s that stops at the first one that raises -/
theorem extendL_cons (s : St) (v : α) (vs : List α) :
    extendL env valid get put s (v :: vs) =
      if (appendL env valid get put s v).2 = .ok
      then extendL env valid get put (appendL env valid get put s v).1 vs
      else appendL env valid get put s v := by
  rw [extendL]
  generalize appendL env valid get put s v = r
  obtain ⟨s', res⟩ := r
  cases res <;> simp

theorem extendL_endsL (vs : List α) : ∀ s : St, EndsL env put s (extendL env valid get put s vs) := by
  induction vs with
  | nil => intro s; exact .noop _
  | cons v vs ih =>
    intro s
    rw [extendL_cons]
    split
    · rename_i hok
      refine .seq s (appendL env valid get put s v).1 _ ?_ (ih _)
      have := appendL_endsL env valid get put s v
      rw [← hok]; exact this
    · exact appendL_endsL env valid get put s v

/-- `torrent.x += vs` is `extend(vs)` and, if that did not raise, `lst[:] = lst` -/
theorem iaddAttr_eq (s : St) (vs : List α) :
    applyL env valid get put s (.iaddAttr vs) =
      if (extendL env valid get put s vs).2 = .ok
      then setSliceL env valid get put (extendL env valid get put s vs).1 0 none
             (get (extendL env valid get put s vs).1)
      else extendL env valid get put s vs := by
  rw [applyL]
  generalize extendL env valid get put s vs = r
  obtain ⟨s', res⟩ := r
  cases res <;> simp

theorem applyL_endsL (s : St) (o : LOp α) : EndsL env put s (applyL env valid get put s o) := by
  cases o with
  | setSlice a b vs => exact setSliceL_endsL env valid get put s a b vs
  | setIndex i v =>
    simp only [applyL, setIndexL]; split
    · exact .rejected _ _ rfl
    · split
      · exact .rejected _ _ rfl
      · exact .changed _ _
  | append v => exact appendL_endsL env valid get put s v
  | extend vs => exact extendL_endsL env valid get put vs s
  | del i =>
    simp only [applyL]; split
    · exact .noop _
    · exact .changed _ _
  | clear => exact .changed _ _
  | insert i v =>
    simp only [applyL, insertL]; split
    · exact .rejected _ _ rfl
    · exact .changed _ _
  | pop i =>
    simp only [applyL, popL]; split
    · exact .rejected _ _ rfl
    · exact .changed _ _
  | remove v =>
    simp only [applyL, removeL]; split
    · exact .changed _ _
    · exact .rejected _ _ rfl
  | delSlice a b => exact .changed _ _
  | reverse => exact setSliceL_endsL env valid get put s 0 none _
  | assignSelf => exact setSliceL_endsL env valid get put s 0 none _
  | iaddAttr vs =>
    rw [iaddAttr_eq]; split
    · rename_i hok
      refine .seq s (extendL env valid get put s vs).1 _ ?_ (setSliceL_endsL env valid get put _ 0 none _)
      have := extendL_endsL env valid get put vs s
      rw [← hok]; exact this
    · exact extendL_endsL env valid get put vs s

theorem applyL_pres {P : St → Prop} {C : Res → Prop} (hp : Pres env P C)
    (hput : ∀ s l, P s → P (put s l)) {s : St} (h : P s) (o : LOp α)
    (hc : C (applyL env valid get put s o).2) : P (applyL env valid get put s o).1 :=
  (applyL_endsL env valid get put s o).pres hp hput h hc

theorem extendL_pres {P : St → Prop} {C : Res → Prop} (hp : Pres env P C)
    (hput : ∀ s l, P s → P (put s l)) {s : St} (h : P s) (vs : List α)
    (hc : C (extendL env valid get put s vs).2) : P (extendL env valid get put s vs).1 :=
  (extendL_endsL env valid get put vs s).pres hp hput h hc

end filterList

/-! ### one step of a history -/

/-- what else a predicate must survive to be kept by every operation other than the two bound
    assignments -/
structure PresOps (env : Env) (P : St → Prop) (C : Res → Prop) : Prop extends Pres env P C where
  putG : ∀ s inc l, P s → P (putGlobs s inc l)
  putR : ∀ s inc l, P s → P (putRxs s inc l)
  name : ∀ s n, P s → P (setName s n)
  store : ∀ s x, P s → P (checkAndStore s x).1
  recalc : ∀ s, P s → C (recalc env s).2 → P (recalc env s).1
  gen : ∀ s, P s → P (generate env s).1
  comment : ∀ s c, P s → P { s with comment := c }

theorem apply_pres {env : Env} {P : St → Prop} {C : Res → Prop} (hp : PresOps env P C) {s : St}
    (h : P s) (op : Op) (hc : C (apply env s op).2)
    (hmin : ∀ v, op = .setMin v → P (setMin s v).1) (hmax : ∀ v, op = .setMax v → P (setMax s v).1) :
    P (apply env s op).1 := by
  cases op with
  | setPath p => exact (setPath_ends env s p).pres hp.toPres h hc
  | setFiles fs => exact (setFilesAttr_ends env s fs).pres hp.toPres h hc
  | filesDel i =>
    simp only [apply] at hc ⊢; split
    · exact h
    · rename_i h1; rw [if_neg h1] at hc; exact (setFilesAttr_ends env s _).pres hp.toPres h hc
  | filesAppend f => exact (setFilesAttr_ends env s _).pres hp.toPres h hc
  | filesClear => exact (setFilesAttr_ends env s _).pres hp.toPres h hc
  | setFilepaths ps => exact (setFilepathsAttr_ends env s ps).pres hp.toPres h hc
  | fpDel i =>
    simp only [apply] at hc ⊢; split
    · exact h
    · rename_i h1; rw [if_neg h1] at hc; exact (setFilepathsAttr_ends env s _).pres hp.toPres h hc
  | fpAppend p => exact (setFilepathsAttr_ends env s _).pres hp.toPres h hc
  | fpClear => exact (setFilepathsAttr_ends env s _).pres hp.toPres h hc
  | glob inc o => exact applyL_pres env _ _ _ hp.toPres (fun s l h => hp.putG s inc l h) h o hc
  | rx inc o => exact applyL_pres env _ _ _ hp.toPres (fun s l h => hp.putR s inc l h) h o hc
  | setName n => exact hp.name s n h
  | setPieceSize v =>
    cases v with
    | none => exact hp.recalc s h hc
    | some x => exact hp.store s x h
  | setMin v => exact hmin v rfl
  | setMax v => exact hmax v rfl
  | generate => exact hp.gen s h
  | setComment c => exact hp.comment s c h

theorem putGlobs_inv {s : St} (h : Inv s) (inc : Bool) (gs : List Glob) : Inv (putGlobs s inc gs) := by
  unfold putGlobs; split <;> exact h

theorem putRxs_inv {s : St} (h : Inv s) (inc : Bool) (rs : List Rx) : Inv (putRxs s inc rs) := by
  unfold putRxs; split <;> exact h

theorem putGlobs_invW {s : St} (h : InvW s) (inc : Bool) (gs : List Glob) : InvW (putGlobs s inc gs) := by
  unfold putGlobs; split <;> exact h

theorem putRxs_invW {s : St} (h : InvW s) (inc : Bool) (rs : List Rx) : InvW (putRxs s inc rs) := by
  unfold putRxs; split <;> exact h

theorem putGlobs_invS {s : St} (h : InvS s) (inc : Bool) (gs : List Glob) : InvS (putGlobs s inc gs) := by
  unfold putGlobs; split <;> exact h

theorem putRxs_invS {s : St} (h : InvS s) (inc : Bool) (rs : List Rx) : InvS (putRxs s inc rs) := by
  unfold putRxs; split <;> exact h

theorem putGlobs_plp {s : St} (h : PlPresent s) (inc : Bool) (gs : List Glob) :
    PlPresent (putGlobs s inc gs) := by
  unfold putGlobs; split <;> exact h

theorem putRxs_plp {s : St} (h : PlPresent s) (inc : Bool) (rs : List Rx) :
    PlPresent (putRxs s inc rs) := by
  unfold putRxs; split <;> exact h

theorem filepathsOf_none {s : St} (h : s.content = .none) : filepathsOf s = [] := by
  unfold filepathsOf; split
  · rfl
  · rw [h]

/-- `generate()` stores a stamp that describes the current state -/
theorem generate_stampOk {s : St} (hc : ContentOk s.content) (hs : StampOk s) (env : Env) :
    StampOk (generate env s).1 := by
  unfold generate
  split
  · exact hs
  · rename_i p hp
    split
    · exact hs
    · rename_i d hd
      split
      · exact hs
      · rename_i hd1
        split
        · exact hs
        · rename_i pl hpl
          have hne : s.content ≠ .none := by
            intro hcn
            have : diskSize env s = some 0 := by
              unfold diskSize; rw [filepathsOf_none hcn]; rfl
            rw [this] at hd
            have : d = 0 := by injection hd with e; exact e.symm
            omega
          have hpos := sizeC_pos s.content hc hne
          exact ⟨hp, rfl, hpl, rfl, hpos⟩

/-- everything but the hashes is left alone by `generate()` -/
theorem generate_frame (env : Env) (s : St) :
    (generate env s).1.content = s.content ∧ (generate env s).1.pl = s.pl ∧
    (generate env s).1.pmin = s.pmin ∧ (generate env s).1.pmax = s.pmax := by
  unfold generate
  split
  · exact ⟨rfl, rfl, rfl, rfl⟩
  · split
    · exact ⟨rfl, rfl, rfl, rfl⟩
    · split
      · exact ⟨rfl, rfl, rfl, rfl⟩
      · split <;> exact ⟨rfl, rfl, rfl, rfl⟩

theorem generate_invS {s : St} (h : InvS s) (env : Env) : InvS (generate env s).1 := by
  refine ⟨?_, generate_stampOk h.1 h.2 env⟩
  rw [(generate_frame env s).1]; exact h.1

theorem generate_invW {s : St} (h : InvW s) (env : Env) : InvW (generate env s).1 := by
  obtain ⟨hb, hmn, hmx, hpl, hc, hs⟩ := h
  obtain ⟨e1, e2, e3, e4⟩ := generate_frame env s
  refine ⟨by rw [e3, e4]; exact hb, by rw [e3]; exact hmn, by rw [e4]; exact hmx, ?_,
    by rw [e1]; exact hc, generate_stampOk hc hs env⟩
  unfold PlOk at hpl ⊢
  rw [e2, e3, e4]; exact hpl

theorem generate_plp {s : St} (h : PlPresent s) (env : Env) : PlPresent (generate env s).1 := by
  obtain ⟨e1, e2, _, _⟩ := generate_frame env s
  unfold PlPresent size at h ⊢
  rw [e1, e2]; exact h

theorem setName_inv {s : St} (h : Inv s) (v : Option String) : Inv (setName s v) := by
  unfold setName; split <;> exact h

/-- `_set_files` starts from the new file list without hashes: whatever the recalculation does,
    no stale hashes can be left -/
theorem setFilesCore_invS (env : Env) (s : St) (files : List (Path × Nat)) (bp : Option Path) :
    InvS (setFilesCore env s files bp).1 := by
  unfold setFilesCore
  simp only
  apply recalc_invS
  exact ⟨place_contentOk _ _ _, True.intro⟩

theorem setFilesCore_invW {s : St} (h : InvW s) (env : Env) (files : List (Path × Nat))
    (bp : Option Path) : InvW (setFilesCore env s files bp).1 := by
  unfold setFilesCore
  simp only
  apply recalc_invW
  obtain ⟨hb, hmn, hmx, hpl, _, _⟩ := h
  exact ⟨hb, hmn, hmx, hpl, place_contentOk _ _ _, True.intro⟩

theorem setFilesCore_plp (env : Env) (s : St) (files : List (Path × Nat)) (bp : Option Path)
    (hnf : (setFilesCore env s files bp).2.faulted = false) :
    PlPresent (setFilesCore env s files bp).1 := by
  unfold setFilesCore at hnf ⊢
  exact recalc_plp _ _ hnf

/-- **unconditional**: `InvS` survives every operation of the alphabet -/
theorem presOps_invS (env : Env) : PresOps env InvS (fun _ => True) where
  ok := True.intro
  core := fun s files bp _ _ => setFilesCore_invS env s files bp
  pathNone := fun _ h => ⟨h.1, True.intro⟩
  putG := fun _ inc l h => putGlobs_invS h inc l
  putR := fun _ inc l h => putRxs_invS h inc l
  name := fun s n h => by unfold setName; split <;> exact h
  store := fun _ x h => checkAndStore_invS h x
  recalc := fun _ h _ => recalc_invS h env
  gen := fun _ h => generate_invS h env
  comment := fun _ _ h => h

theorem presOps_invW (env : Env) : PresOps env InvW (fun _ => True) where
  ok := True.intro
  core := fun _ files bp h _ => setFilesCore_invW h env files bp
  pathNone := fun _ h => ⟨h.1, h.2.1, h.2.2.1, h.2.2.2.1, h.2.2.2.2.1, True.intro⟩
  putG := fun _ inc l h => putGlobs_invW h inc l
  putR := fun _ inc l h => putRxs_invW h inc l
  name := fun s n h => by unfold setName; split <;> exact h
  store := fun _ x h => checkAndStore_invW h x
  recalc := fun _ h _ => recalc_invW h env
  gen := fun _ h => generate_invW h env
  comment := fun _ _ h => h

/-- "content has a piece length" survives every operation that does not fail inside the
    recalculation -/
theorem presOps_plp (env : Env) : PresOps env PlPresent (fun r => r.faulted = false) where
  ok := rfl
  core := fun s files bp _ hnf => setFilesCore_plp env s files bp hnf
  pathNone := fun _ h => h
  putG := fun _ inc l h => putGlobs_plp h inc l
  putR := fun _ inc l h => putRxs_plp h inc l
  name := fun s n h => by unfold setName; split <;> exact h
  store := fun _ x h => checkAndStore_plp h x
  recalc := fun s _ hnf => recalc_plp env s hnf
  gen := fun _ h => generate_plp h env
  comment := fun _ _ h => h

/-- **one step, no hypothesis**: whatever the operation, whatever the file system and the class's
    `calculate_piece_size` do, and whether the operation completes or fails half-way — afterwards
    the mode matches the file list and hashes, if present, belong to the current layout -/
theorem apply_invS {s : St} (h : InvS s) (env : Env) (op : Op) : InvS (apply env s op).1 :=
  apply_pres (presOps_invS env) h op True.intro (fun v _ => setMin_invS h v) (fun v _ => setMax_invS h v)

/-- **one step that may fail inside the recalculation**: under `OpOk` everything of the invariant
    survives except "content has a piece length" -/
theorem apply_invW {s : St} (h : InvW s) (env : Env) (op : Op) (hok : OpOk s op) :
    InvW (apply env s op).1 :=
  apply_pres (presOps_invW env) h op True.intro
    (fun v e => setMin_invW h v (e ▸ hok)) (fun v e => setMax_invW h v (e ▸ hok))

theorem apply_plp {s : St} (h : PlPresent s) (env : Env) (op : Op)
    (hnf : (apply env s op).2.faulted = false) : PlPresent (apply env s op).1 :=
  apply_pres (presOps_plp env) h op hnf (fun v _ => setMin_plp h v) (fun v _ => setMax_plp h v)

/-- **one step**: every operation that satisfies `StepOk` (`OpOk`, and no failure inside the
    recalculation) preserves the invariant, whatever the file system looks like and whether or
    not the operation raises -/
theorem apply_inv {s : St} (h : Inv s) (env : Env) (op : Op) (hok : StepOk env s op) :
    Inv (apply env s op).1 :=
  Inv.of_weak (apply_invW h.weak env op hok.1) (apply_plp h.plp env op hok.2)

theorem setFilesCore_ok_plp (env : Env) (s : St) (files : List (Path × Nat)) (bp : Option Path)
    (hok : (setFilesCore env s files bp).2 = .ok) : PlPresent (setFilesCore env s files bp).1 := by
  apply setFilesCore_plp; rw [hok]; rfl

theorem setFilesAttr_restores (env : Env) (s : St) (fs : List (Path × Nat))
    (hok : (setFilesAttr env s fs).2 = .ok) : PlPresent (setFilesAttr env s fs).1 := by
  unfold setFilesAttr at hok ⊢
  split
  · rename_i h1; rw [if_pos h1] at hok; exact absurd hok (by simp)
  · rename_i h1; rw [if_neg h1] at hok
    split
    · rename_i h2; rw [if_pos h2] at hok; exact setFilesCore_ok_plp _ _ _ _ hok
    · rename_i h2; rw [if_neg h2] at hok
      simp only at hok ⊢
      split
      · rename_i h3; rw [if_pos h3] at hok; exact absurd hok (by simp)
      · rename_i h3; rw [if_neg h3] at hok; exact setFilesCore_ok_plp _ _ _ _ hok

theorem setFilepathsAttr_restores (env : Env) (s : St) (ps : List Path)
    (hok : (setFilepathsAttr env s ps).2 = .ok) : PlPresent (setFilepathsAttr env s ps).1 := by
  unfold setFilepathsAttr at hok ⊢
  simp only at hok ⊢
  split
  · rename_i h1; rw [if_pos h1] at hok; exact setFilesCore_ok_plp _ _ _ _ hok
  · rename_i h1; rw [if_neg h1] at hok
    split
    · rename_i hf; rw [hf] at hok; exact absurd hok (by simp)
    · rename_i files hf; rw [hf] at hok; exact setFilesCore_ok_plp _ _ _ _ hok

/-- a completed content or `piece_size` assignment ends with a piece length for the content it
    leaves — whatever the state was (in particular: after a failed operation) -/
theorem apply_restores (env : Env) (s : St) (op : Op) (hr : restores op = true)
    (hok : (apply env s op).2 = .ok) : PlPresent (apply env s op).1 := by
  have core : ∀ files bp, (setFilesCore env s files bp).2 = .ok →
      PlPresent (setFilesCore env s files bp).1 := fun files bp h => setFilesCore_ok_plp env s files bp h
  cases op with
  | setPath p =>
    cases p with
    | none => exact absurd hr (by simp [restores])
    | some p =>
      simp only [apply, setPath] at hok ⊢
      split
      · rename_i h1; rw [if_pos h1] at hok; exact core _ _ hok
      · rename_i h1; rw [if_neg h1] at hok
        split
        · rename_i h2; rw [if_pos h2] at hok; exact core _ _ hok
        · rename_i h2; rw [if_neg h2] at hok; exact absurd hok (by simp)
  | setFiles fs => exact setFilesAttr_restores env s fs hok
  | filesAppend f => exact setFilesAttr_restores env s _ hok
  | filesClear => exact setFilesAttr_restores env s _ hok
  | setFilepaths ps => exact setFilepathsAttr_restores env s ps hok
  | fpAppend p => exact setFilepathsAttr_restores env s _ hok
  | fpClear => exact setFilepathsAttr_restores env s _ hok
  | setPieceSize v =>
    cases v with
    | none => apply recalc_plp; simp only [apply, setPieceSizeE] at hok; rw [hok]; rfl
    | some x =>
      simp only [apply, setPieceSizeE] at hok ⊢
      rcases checkAndStore_cases s x with h1 | ⟨n, _, _, _, _, h1⟩
      · rw [h1] at hok; exact absurd hok (by simp)
      · rw [h1]; intro _; rfl
  | filesDel i => exact absurd hr (by simp [restores])
  | fpDel i => exact absurd hr (by simp [restores])
  | glob inc o => exact absurd hr (by simp [restores])
  | rx inc o => exact absurd hr (by simp [restores])
  | setName n => exact absurd hr (by simp [restores])
  | setMin v => exact absurd hr (by simp [restores])
  | setMax v => exact absurd hr (by simp [restores])
  | generate => exact absurd hr (by simp [restores])
  | setComment c => exact absurd hr (by simp [restores])

/-! ### discard: surviving piece hashes imply that nothing they depend on changed -/

/-- nothing the piece hashes depend on (and no filter list) differs between `s` and `s'` -/
def Same (s s' : St) : Prop :=
  s'.pieces = s.pieces ∧ s'.path = s.path ∧ s'.content = s.content ∧ s'.pl = s.pl ∧
  s'.exGlobs = s.exGlobs ∧ s'.inGlobs = s.inGlobs ∧ s'.exRegexs = s.exRegexs ∧
  s'.inRegexs = s.inRegexs

theorem Same.rfl' (s : St) : Same s s := ⟨rfl, rfl, rfl, rfl, rfl, rfl, rfl, rfl⟩

theorem stored_same (s : St) (n : Nat) (g : Ghost) (hg : (stored s n).pieces = some g) :
    Same s (stored s n) := by
  unfold stored at hg ⊢
  by_cases hpl : s.pl = some n
  · simp only [hpl, ne_eq, not_true_eq_false, if_false]
    exact ⟨rfl, rfl, rfl, hpl.symm, rfl, rfl, rfl, rfl⟩
  · simp only [ne_eq, hpl, not_false_eq_true, if_true] at hg
    exact absurd hg (by simp)

theorem checkAndStore_same (s : St) (x : Int) (g : Ghost)
    (hg : (checkAndStore s x).1.pieces = some g) : Same s (checkAndStore s x).1 := by
  rcases checkAndStore_cases s x with h1 | ⟨n, _, _, _, _, h1⟩
  · rw [h1]; exact Same.rfl' s
  · rw [h1] at hg ⊢
    exact stored_same s n g hg

theorem checkAndStore_none (s : St) (x : Int) (h : s.pieces = none) :
    (checkAndStore s x).1.pieces = none := by
  rcases checkAndStore_cases s x with h1 | ⟨n, _, _, _, _, h1⟩
  · rw [h1]; exact h
  · rw [h1]; unfold stored; simp only [h, ite_self]

theorem setPieceSize_none (s : St) (v : Option Int) (h : s.pieces = none) :
    (setPieceSize s v).1.pieces = none := by
  unfold setPieceSize
  cases v with
  | none =>
    simp only
    split
    · exact h
    · exact checkAndStore_none s _ h
  | some x => exact checkAndStore_none s x h

theorem recalc_none (env : Env) (s : St) (h : s.pieces = none) : (recalc env s).1.pieces = none := by
  rcases recalc_state env s with ⟨_, e⟩ | e | ⟨n, e⟩ <;> rw [e]
  · exact h
  · exact h
  · unfold stored; simp only [h, ite_self]

/-- a recalculation — completed or failed — never brings hashes back, and keeps them only if it
    changed nothing they depend on -/
theorem recalc_same {s : St} (hs : StampOk s) (env : Env) (g : Ghost)
    (hg : (recalc env s).1.pieces = some g) : Same s (recalc env s).1 := by
  rcases recalc_state env s with ⟨hz, e⟩ | e | ⟨n, e⟩
  · rw [e] at hg
    have hg' : s.pieces = some g := hg
    unfold StampOk at hs; rw [hg'] at hs
    have := hs.2.2.2.2
    omega
  · rw [e]; exact Same.rfl' s
  · rw [e] at hg ⊢; exact stored_same s n g hg

theorem setPieceSizeE_same {s : St} (hs : StampOk s) (env : Env) (v : Option Int) (g : Ghost)
    (hg : (setPieceSizeE env s v).1.pieces = some g) : Same s (setPieceSizeE env s v).1 := by
  cases v with
  | some x => exact checkAndStore_same s x g hg
  | none => exact recalc_same hs env g hg

theorem setFilesCore_none (env : Env) (s : St) (files : List (Path × Nat)) (bp : Option Path) :
    (setFilesCore env s files bp).1.pieces = none := by
  unfold setFilesCore
  exact recalc_none _ _ rfl

theorem setPieceSize_same {s : St} (h : Inv s) (v : Option Int) (g : Ghost)
    (hg : (setPieceSize s v).1.pieces = some g) : Same s (setPieceSize s v).1 := by
  cases v with
  | some x => exact checkAndStore_same s x g hg
  | none =>
    unfold setPieceSize at hg ⊢
    simp only at hg ⊢
    split
    · rename_i hz
      rw [if_pos hz] at hg
      have hs := h.2.2.2.2.2.2
      have hg' : s.pieces = some g := hg
      unfold StampOk at hs; rw [hg'] at hs
      have := hs.2.2.2.2
      omega
    · rename_i hz
      rw [if_neg hz] at hg
      exact checkAndStore_same s _ g hg

theorem setPath_same (env : Env) (s : St) (v : Option Path) (g : Ghost)
    (hg : (setPath env s v).1.pieces = some g) : Same s (setPath env s v).1 := by
  cases v with
  | none => exact absurd hg (by simp [setPath])
  | some p =>
    unfold setPath at hg ⊢
    simp only at hg ⊢
    split
    · rename_i h1; rw [if_pos h1, setFilesCore_none] at hg; exact absurd hg (by simp)
    · rename_i h1
      rw [if_neg h1] at hg
      split
      · rename_i h2; rw [if_pos h2, setFilesCore_none] at hg; exact absurd hg (by simp)
      · exact Same.rfl' s

theorem setFilesAttr_same (env : Env) (s : St) (fs : List (Path × Nat)) (g : Ghost)
    (hg : (setFilesAttr env s fs).1.pieces = some g) : Same s (setFilesAttr env s fs).1 := by
  unfold setFilesAttr at hg ⊢
  split
  · exact Same.rfl' s
  · rename_i h1
    rw [if_neg h1] at hg
    split
    · rename_i h2; rw [if_pos h2, setFilesCore_none] at hg; exact absurd hg (by simp)
    · rename_i h2
      rw [if_neg h2] at hg
      simp only at hg ⊢
      split
      · exact Same.rfl' s
      · rename_i h3; rw [if_neg h3, setFilesCore_none] at hg; exact absurd hg (by simp)

theorem setFilepathsAttr_same (env : Env) (s : St) (ps : List Path) (g : Ghost)
    (hg : (setFilepathsAttr env s ps).1.pieces = some g) : Same s (setFilepathsAttr env s ps).1 := by
  unfold setFilepathsAttr at hg ⊢
  simp only at hg ⊢
  split
  · rename_i h1; rw [if_pos h1, setFilesCore_none] at hg; exact absurd hg (by simp)
  · rename_i h1
    rw [if_neg h1] at hg
    split
    · exact Same.rfl' s
    · rename_i files hf
      rw [hf] at hg
      simp only [setFilesCore_none] at hg
      exact absurd hg (by simp)

/-- a filter-list edit always re-runs the content setters, which drop the piece hashes
    (the content path, if any, still exists) -/
theorem filtersChanged_none (env : Env) (s : St) (hex : ∀ p, s.path = some p → env.exists p = true)
    (hst : s.path = none → s.pieces = none) : (filtersChanged env s).1.pieces = none := by
  unfold filtersChanged
  split
  · rename_i p hp
    have he := hex p hp
    unfold setPath
    simp only
    unfold Env.exists at he
    simp only [Bool.or_eq_true] at he
    split
    · exact setFilesCore_none ..
    · rename_i h1
      split
      · exact setFilesCore_none ..
      · rename_i h2
        rcases he with he | he
        · exact absurd he h1
        · exact absurd he h2
  · rename_i hp
    have hn := hst hp
    cases hq : (setFilesAttr env s (filesOf s)).1.pieces with
    | none => rfl
    | some g =>
      have := (setFilesAttr_same env s _ g hq).1
      rw [hq, hn] at this
      exact absurd this (by simp)

theorem setMin_same {s : St} (v : Option Int) (g : Ghost)
    (hg : (setMin s v).1.pieces = some g) : Same s (setMin s v).1 := by
  rcases setMin_cases s v with e | ⟨m, e | ⟨y, e⟩⟩
  · rw [e]; exact Same.rfl' s
  · rw [e]; exact ⟨rfl, rfl, rfl, rfl, rfl, rfl, rfl, rfl⟩
  · rw [e] at hg ⊢
    exact checkAndStore_same { s with pmin := m } y g hg

theorem setMax_same {s : St} (v : Option Int) (g : Ghost)
    (hg : (setMax s v).1.pieces = some g) : Same s (setMax s v).1 := by
  rcases setMax_cases s v with e | ⟨m, e | ⟨y, e⟩⟩
  · rw [e]; exact Same.rfl' s
  · rw [e]; exact ⟨rfl, rfl, rfl, rfl, rfl, rfl, rfl, rfl⟩
  · rw [e] at hg ⊢
    exact checkAndStore_same { s with pmax := m } y g hg

theorem checkAndStore_bounds (s : St) (x : Int) :
    (checkAndStore s x).1.pmin = s.pmin ∧ (checkAndStore s x).1.pmax = s.pmax := by
  rcases checkAndStore_cases s x with h1 | ⟨n, _, _, _, _, h1⟩ <;> rw [h1] <;> exact ⟨rfl, rfl⟩

/-- `piece_size_max = None` always leaves the class default as the maximum (raising or not) -/
theorem setMax_none_pmax (s : St) : (setMax s none).1.pmax = defaultMax := by
  show (clampMax { s with pmax := defaultMax }).1.pmax = defaultMax
  rcases clampMax_cases { s with pmax := defaultMax } with e | ⟨y, e⟩
  · rw [e]
  · rw [e, (checkAndStore_bounds _ y).2]

/-! ### a crossing bound assignment followed by a corrective one (narrows D09b) -/

/-- an accepted assignment overwrites the bound without reading it -/
theorem setMin_overwrites (s : St) (a : Nat) (v : Option Int) (hl : legalBound v = true) :
    (setMin { s with pmin := a } v).1 = (setMin s v).1 := by
  cases v with
  | none => rfl
  | some x =>
    have hd : divisible x = true := hl
    show (if !divisible x then _ else _ : St × Res).1 = (if !divisible x then _ else _ : St × Res).1
    rw [hd]; rfl

theorem setMax_overwrites (s : St) (a : Nat) (v : Option Int) (hl : legalBound v = true) :
    (setMax { s with pmax := a } v).1 = (setMax s v).1 := by
  cases v with
  | none => rfl
  | some x =>
    have hd : divisible x = true := hl
    show (if !divisible x then _ else _ : St × Res).1 = (if !divisible x then _ else _ : St × Res).1
    rw [hd]; rfl

/-- a minimum above the maximum: whatever the piece length, the clamp is rejected by the
    `piece_size` setter (or there is nothing to clamp) — only the bound is stored -/
theorem clampMin_crossing (s : St) (m : Nat) (hx : s.pmax < m) :
    (clampMin { s with pmin := m }).1 = { s with pmin := m } := by
  unfold clampMin
  split
  · rename_i pl hp
    split
    · show (checkAndStore { s with pmin := m } (max ((m : Nat) : Int) (pl : Int))).1 = _
      unfold checkAndStore
      split
      · rfl
      · split
        · rfl
        · rename_i hb
          exfalso
          apply hb
          have : ¬ (max ((m : Nat) : Int) (pl : Int) ≤ ((s.pmax : Nat) : Int)) := by omega
          simp only [Bool.not_eq_true', Bool.and_eq_false_iff, decide_eq_false_iff_not]
          exact Or.inr this
    · rfl
  · rfl

theorem clampMax_crossing (s : St) (m : Nat) (hx : m < s.pmin) :
    (clampMax { s with pmax := m }).1 = { s with pmax := m } := by
  unfold clampMax
  split
  · rename_i pl hp
    split
    · show (checkAndStore { s with pmax := m } (min ((m : Nat) : Int) (pl : Int))).1 = _
      unfold checkAndStore
      split
      · rfl
      · split
        · rfl
        · rename_i hb
          exfalso
          apply hb
          have : ¬ (((s.pmin : Nat) : Int) ≤ min ((m : Nat) : Int) (pl : Int)) := by omega
          simp only [Bool.not_eq_true', Bool.and_eq_false_iff, decide_eq_false_iff_not]
          exact Or.inl this
    · rfl
  · rfl

theorem setMin_bounds (s : St) (v : Option Int) : (setMin s v).1.pmax = s.pmax := by
  rcases setMin_cases s v with e | ⟨m, e | ⟨y, e⟩⟩
  · rw [e]
  · rw [e]
  · rw [e, (checkAndStore_bounds _ y).2]

theorem setMax_bounds (s : St) (v : Option Int) : (setMax s v).1.pmin = s.pmin := by
  rcases setMax_cases s v with e | ⟨m, e | ⟨y, e⟩⟩
  · rw [e]
  · rw [e]
  · rw [e, (checkAndStore_bounds _ y).1]

/-- two assignments of the same bound in a row: if the second does not cross the other bound
    (which neither of them changes), the invariant holds afterwards — whether or not the first
    one crossed it -/
theorem setMin_twice_inv {s : St} (h : Inv s) (v v' : Option Int) (hl : legalBound v' = true)
    (hok : OpOk s (.setMin v')) :
    Inv (setMin (setMin s v).1 v').1 := by
  by_cases hc : OpOk s (.setMin v)
  · apply setMin_inv (setMin_inv h v hc)
    cases v' with
    | none => exact True.intro
    | some x' =>
      show divisible x' = true → x' ≤ (((setMin s v).1.pmax : Nat) : Int)
      rw [setMin_bounds]; exact hok
  · cases v with
    | none => exact absurd True.intro hc
    | some x =>
      have hc' : ¬ (divisible x = true → x ≤ (s.pmax : Int)) := hc
      have hd : divisible x = true := by
        apply Classical.byContradiction; intro hn; exact hc' (fun hd => absurd hd hn)
      have hx : ¬ x ≤ (s.pmax : Int) := fun hle => hc' (fun _ => hle)
      obtain ⟨_, hxn⟩ := divisible_toNat hd
      have e : (setMin s (some x)).1 = { s with pmin := x.toNat } := by
        show (if !divisible x then (s, Res.err .pieceSize) else clampMin { s with pmin := x.toNat }).1 = _
        rw [hd]
        exact clampMin_crossing s x.toNat (by omega)
      rw [e, setMin_overwrites _ _ _ hl]
      exact setMin_inv h v' hok

theorem setMax_twice_inv {s : St} (h : Inv s) (v v' : Option Int) (hl : legalBound v' = true)
    (hok : OpOk s (.setMax v')) :
    Inv (setMax (setMax s v).1 v').1 := by
  by_cases hc : OpOk s (.setMax v)
  · apply setMax_inv (setMax_inv h v hc)
    cases v' with
    | none =>
      show (setMax s v).1.pmin ≤ defaultMax
      rw [setMax_bounds]; exact hok
    | some x' =>
      show divisible x' = true → (((setMax s v).1.pmin : Nat) : Int) ≤ x'
      rw [setMax_bounds]; exact hok
  · have e : ∃ m, (setMax s v).1 = { s with pmax := m } := by
      cases v with
      | none =>
        have hc' : ¬ s.pmin ≤ defaultMax := hc
        exact ⟨defaultMax, clampMax_crossing s defaultMax (by omega)⟩
      | some x =>
        have hc' : ¬ (divisible x = true → (s.pmin : Int) ≤ x) := hc
        have hd : divisible x = true := by
          apply Classical.byContradiction; intro hn; exact hc' (fun hd => absurd hd hn)
        have hx : ¬ (s.pmin : Int) ≤ x := fun hle => hc' (fun _ => hle)
        obtain ⟨_, hxn⟩ := divisible_toNat hd
        refine ⟨x.toNat, ?_⟩
        show (if !divisible x then (s, Res.err .pieceSize) else clampMax { s with pmax := x.toNat }).1 = _
        rw [hd]
        exact clampMax_crossing s x.toNat (by omega)
    obtain ⟨m, e⟩ := e
    rw [e, setMax_overwrites _ _ _ hl]
    exact setMax_inv h v' hok

/-- a bound assignment followed by an accepted, non-crossing assignment of the same bound -/
theorem apply_corrected_inv {s : St} (h : Inv s) (env : Env) (op op' : Op)
    (hs : sameBound op op' = true) (hok : OpOk s op') :
    Inv (apply env (apply env s op).1 op').1 := by
  cases op <;> cases op' <;> first
    | exact Bool.noConfusion hs
    | exact setMin_twice_inv h _ _ hs hok
    | exact setMax_twice_inv h _ _ hs hok

theorem allOkC_inv (env : Env) : ∀ (ops : List Op) (s : St), Inv s → AllOkC env s ops → Inv (run env s ops)
  | [], _, h, _ => h
  | [op], _, h, hok => apply_inv h env op hok
  | op :: op' :: ops, s, h, hok => by
    unfold AllOkC at hok
    rcases hok with ⟨h1, h2⟩ | ⟨h1, h2, h3⟩
    · exact allOkC_inv env (op' :: ops) _ (apply_inv h env op h1) h2
    · exact allOkC_inv env ops _ (apply_corrected_inv h env op op' h1 h2) h3

/-- histories all of whose operations satisfy `OpOk` are among them -/
theorem allOk_allOkC (env : Env) : ∀ (ops : List Op) (s : St), AllOk env s ops → AllOkC env s ops
  | [], _, _ => True.intro
  | [op], _, h => h.1
  | op :: op' :: ops, s, h => by
    unfold AllOkC
    exact Or.inl ⟨h.1, allOk_allOkC env (op' :: ops) _ h.2⟩

/-! ### the content path, when set, exists in the (unchanging) file system -/

def PathEx (env : Env) (s : St) : Prop := ∀ p, s.path = some p → env.exists p = true

theorem checkAndStore_path (s : St) (x : Int) : (checkAndStore s x).1.path = s.path := by
  rcases checkAndStore_cases s x with h1 | ⟨n, _, _, _, _, h1⟩ <;> rw [h1] <;> rfl

theorem setPieceSize_path (s : St) (v : Option Int) : (setPieceSize s v).1.path = s.path := by
  unfold setPieceSize
  cases v with
  | none => simp only; split
            · rfl
            · exact checkAndStore_path ..
  | some x => exact checkAndStore_path ..

theorem recalc_path (env : Env) (s : St) : (recalc env s).1.path = s.path := by
  rcases recalc_state env s with ⟨_, e⟩ | e | ⟨n, e⟩ <;> rw [e] <;> rfl

theorem setPieceSizeE_path (env : Env) (s : St) (v : Option Int) :
    (setPieceSizeE env s v).1.path = s.path := by
  cases v with
  | none => exact recalc_path env s
  | some x => exact checkAndStore_path ..

theorem setFilesCore_pathEx (env : Env) (s : St) (files : List (Path × Nat)) (bp : Option Path) :
    PathEx env (setFilesCore env s files bp).1 := by
  intro p hp
  unfold setFilesCore at hp
  simp only [recalc_path] at hp
  split at hp
  · rename_i hc
    simp only [Bool.and_eq_true] at hc
    cases bp with
    | none => simp at hp
    | some q =>
      simp only [Option.some.injEq] at hp
      subst hp
      simpa using hc.2
  · simp at hp

theorem setPath_pathEx {env : Env} {s : St} (h : PathEx env s) (v : Option Path) :
    PathEx env (setPath env s v).1 := by
  cases v with
  | none => intro p hp; simp [setPath] at hp
  | some q =>
    unfold setPath; simp only
    split
    · exact setFilesCore_pathEx _ _ _ _
    · split
      · exact setFilesCore_pathEx _ _ _ _
      · exact h

theorem setFilesAttr_pathEx {env : Env} {s : St} (h : PathEx env s) (fs : List (Path × Nat)) :
    PathEx env (setFilesAttr env s fs).1 := by
  unfold setFilesAttr
  split
  · exact h
  · split
    · exact setFilesCore_pathEx _ _ _ _
    · simp only
      split
      · exact h
      · exact setFilesCore_pathEx _ _ _ _

theorem setFilepathsAttr_pathEx {env : Env} {s : St} (h : PathEx env s) (ps : List Path) :
    PathEx env (setFilepathsAttr env s ps).1 := by
  unfold setFilepathsAttr
  simp only
  split
  · exact setFilesCore_pathEx _ _ _ _
  · split
    · exact h
    · exact setFilesCore_pathEx _ _ _ _

theorem filtersChanged_pathEx {env : Env} {s : St} (h : PathEx env s) :
    PathEx env (filtersChanged env s).1 := by
  unfold filtersChanged
  split
  · exact setPath_pathEx h _
  · exact setFilesAttr_pathEx h _

theorem putGlobs_pathEx {env : Env} {s : St} (h : PathEx env s) (inc : Bool) (gs : List Glob) :
    PathEx env (putGlobs s inc gs) := by
  unfold putGlobs; split <;> exact h

theorem putRxs_pathEx {env : Env} {s : St} (h : PathEx env s) (inc : Bool) (rs : List Rx) :
    PathEx env (putRxs s inc rs) := by
  unfold putRxs; split <;> exact h

section filterList
variable {α : Type} [DecidableEq α]
variable (env : Env) (valid : α → Bool) (get : St → List α) (put : St → List α → St)

theorem setSliceL_pathEx {s : St} (hput : ∀ s l, PathEx env s → PathEx env (put s l))
    (h : PathEx env s) (a : Nat) (b : Option Nat) (vs : List α) :
    PathEx env (setSliceL env valid get put s a b vs).1 := by
  unfold setSliceL; split
  · exact h
  · exact filtersChanged_pathEx (hput _ _ h)

theorem appendL_pathEx {s : St} (hput : ∀ s l, PathEx env s → PathEx env (put s l))
    (h : PathEx env s) (v : α) : PathEx env (appendL env valid get put s v).1 := by
  unfold appendL; split
  · exact h
  · exact filtersChanged_pathEx (hput _ _ h)

theorem extendL_pathEx (hput : ∀ s l, PathEx env s → PathEx env (put s l)) (vs : List α) :
    ∀ {s : St}, PathEx env s → PathEx env (extendL env valid get put s vs).1 := by
  induction vs with
  | nil => intro s h; exact h
  | cons v vs ih =>
    intro s h
    rw [extendL_cons]
    split
    · exact ih (appendL_pathEx env valid get put hput h v)
    · exact appendL_pathEx env valid get put hput h v

theorem applyL_pathEx {s : St} (hput : ∀ s l, PathEx env s → PathEx env (put s l))
    (h : PathEx env s) (o : LOp α) : PathEx env (applyL env valid get put s o).1 := by
  cases o with
  | setSlice a b vs => exact setSliceL_pathEx env valid get put hput h a b vs
  | setIndex i v =>
    simp only [applyL, setIndexL]; split
    · exact h
    · split
      · exact h
      · exact filtersChanged_pathEx (hput _ _ h)
  | append v => exact appendL_pathEx env valid get put hput h v
  | extend vs => exact extendL_pathEx env valid get put hput vs h
  | del i =>
    simp only [applyL]; split
    · exact h
    · exact filtersChanged_pathEx (hput _ _ h)
  | clear => exact filtersChanged_pathEx (hput _ _ h)
  | insert i v =>
    simp only [applyL, insertL]; split
    · exact h
    · exact filtersChanged_pathEx (hput _ _ h)
  | pop i =>
    simp only [applyL, popL]; split
    · exact h
    · exact filtersChanged_pathEx (hput _ _ h)
  | remove v =>
    simp only [applyL, removeL]; split
    · exact filtersChanged_pathEx (hput _ _ h)
    · exact h
  | delSlice a b => exact filtersChanged_pathEx (hput _ _ h)
  | reverse => exact setSliceL_pathEx env valid get put hput h 0 none _
  | assignSelf => exact setSliceL_pathEx env valid get put hput h 0 none _
  | iaddAttr vs =>
    rw [iaddAttr_eq]; split
    · exact setSliceL_pathEx env valid get put hput (extendL_pathEx env valid get put hput vs h) 0 none _
    · exact extendL_pathEx env valid get put hput vs h

end filterList

theorem generate_path (env : Env) (s : St) : (generate env s).1.path = s.path := by
  unfold generate
  split
  · rfl
  · split
    · rfl
    · split
      · rfl
      · split <;> rfl

theorem apply_pathEx {env : Env} {s : St} (h : PathEx env s) (op : Op) :
    PathEx env (apply env s op).1 := by
  cases op with
  | setPath p => exact setPath_pathEx h p
  | setFiles fs => exact setFilesAttr_pathEx h fs
  | filesDel i =>
    simp only [apply]; split
    · exact h
    · exact setFilesAttr_pathEx h _
  | filesAppend f => exact setFilesAttr_pathEx h _
  | filesClear => exact setFilesAttr_pathEx h _
  | setFilepaths ps => exact setFilepathsAttr_pathEx h ps
  | fpDel i =>
    simp only [apply]; split
    · exact h
    · exact setFilepathsAttr_pathEx h _
  | fpAppend p => exact setFilepathsAttr_pathEx h _
  | fpClear => exact setFilepathsAttr_pathEx h _
  | glob inc o => exact applyL_pathEx env _ _ _ (fun _ l h => putGlobs_pathEx h inc l) h o
  | rx inc o => exact applyL_pathEx env _ _ _ (fun _ l h => putRxs_pathEx h inc l) h o
  | setName n =>
    simp only [apply, setName]; split <;> exact h
  | setPieceSize v =>
    intro p hp; simp only [apply, setPieceSizeE_path] at hp; exact h p hp
  | setMin v =>
    intro p hp
    simp only [apply] at hp
    rcases setMin_cases s v with e | ⟨m, e | ⟨y, e⟩⟩ <;> rw [e] at hp
    · exact h p hp
    · exact h p hp
    · rw [checkAndStore_path] at hp; exact h p hp
  | setMax v =>
    intro p hp
    simp only [apply] at hp
    rcases setMax_cases s v with e | ⟨m, e | ⟨y, e⟩⟩ <;> rw [e] at hp
    · exact h p hp
    · exact h p hp
    · rw [checkAndStore_path] at hp; exact h p hp
  | generate =>
    intro p hp; simp only [apply, generate_path] at hp; exact h p hp
  | setComment c => exact h

/-! ### discard, continued: every filter-list edit that is not rejected drops the hashes -/

theorem putGlobs_path (s : St) (inc : Bool) (gs : List Glob) :
    (putGlobs s inc gs).path = s.path ∧ (putGlobs s inc gs).pieces = s.pieces := by
  unfold putGlobs; split <;> exact ⟨rfl, rfl⟩

theorem putRxs_path (s : St) (inc : Bool) (rs : List Rx) :
    (putRxs s inc rs).path = s.path ∧ (putRxs s inc rs).pieces = s.pieces := by
  unfold putRxs; split <;> exact ⟨rfl, rfl⟩

/-- the callback never brings hashes back -/
theorem filtersChanged_keeps_none (env : Env) (s : St) (h : s.pieces = none) :
    (filtersChanged env s).1.pieces = none := by
  unfold filtersChanged
  split
  · cases hq : (setPath env s _).1.pieces with
    | none => rfl
    | some g =>
      have := (setPath_same env s _ g hq).1
      rw [hq, h] at this; exact absurd this (by simp)
  · cases hq : (setFilesAttr env s (filesOf s)).1.pieces with
    | none => rfl
    | some g =>
      have := (setFilesAttr_same env s _ g hq).1
      rw [hq, h] at this; exact absurd this (by simp)

/-- `put` writes one filter list and nothing else that matters here -/
structure PutOk (env : Env) {α : Type} (put : St → List α → St) : Prop where
  inv : ∀ s l, Inv s → Inv (put s l)
  invS : ∀ s l, InvS s → InvS (put s l)
  pathEx : ∀ s l, PathEx env s → PathEx env (put s l)
  path : ∀ s l, (put s l).path = s.path
  pieces : ∀ s l, (put s l).pieces = s.pieces

theorem putGlobs_ok (env : Env) (inc : Bool) : PutOk env (putGlobs · inc) :=
  ⟨fun _ l h => putGlobs_inv h inc l, fun _ l h => putGlobs_invS h inc l, fun _ l h => putGlobs_pathEx h inc l,
   fun s l => (putGlobs_path s inc l).1, fun s l => (putGlobs_path s inc l).2⟩

theorem putRxs_ok (env : Env) (inc : Bool) : PutOk env (putRxs · inc) :=
  ⟨fun _ l h => putRxs_inv h inc l, fun _ l h => putRxs_invS h inc l, fun _ l h => putRxs_pathEx h inc l,
   fun s l => (putRxs_path s inc l).1, fun s l => (putRxs_path s inc l).2⟩

section filterList
variable {α : Type} [DecidableEq α]
variable (env : Env) (valid : α → Bool) (get : St → List α) (put : St → List α → St)

/-- a filter-list edit re-runs a content setter, which drops the piece hashes -/
theorem put_none {s : St} (hp : PutOk env put) (h : InvS s) (hex : PathEx env s) (l : List α) :
    (filtersChanged env (put s l)).1.pieces = none := by
  apply filtersChanged_none
  · intro p hq; rw [hp.path] at hq; exact hex p hq
  · intro hq
    rw [hp.path] at hq; rw [hp.pieces]
    have hs := h.2
    unfold StampOk at hs
    cases hq' : s.pieces with
    | none => rfl
    | some g => rw [hq'] at hs; rw [hs.1] at hq; exact absurd hq (by simp)

theorem setSliceL_cases {s : St} (hp : PutOk env put) (h : InvS s) (hex : PathEx env s) (a : Nat)
    (b : Option Nat) (vs : List α) :
    setSliceL env valid get put s a b vs = (s, .err .regex) ∨
    (setSliceL env valid get put s a b vs).1.pieces = none := by
  unfold setSliceL; split
  · exact Or.inl rfl
  · exact Or.inr (put_none env put hp h hex _)

theorem appendL_cases {s : St} (hp : PutOk env put) (h : InvS s) (hex : PathEx env s) (v : α) :
    appendL env valid get put s v = (s, .err .regex) ∨
    (appendL env valid get put s v).1.pieces = none := by
  unfold appendL; split
  · exact Or.inl rfl
  · exact Or.inr (put_none env put hp h hex _)

theorem appendL_keeps_none {s : St} (hp : PutOk env put) (h : s.pieces = none) (v : α) :
    (appendL env valid get put s v).1.pieces = none := by
  unfold appendL; split
  · exact h
  · exact filtersChanged_keeps_none env _ (by rw [hp.pieces]; exact h)

theorem extendL_keeps_none (hp : PutOk env put) (vs : List α) :
    ∀ {s : St}, s.pieces = none → (extendL env valid get put s vs).1.pieces = none := by
  induction vs with
  | nil => intro s h; exact h
  | cons v vs ih =>
    intro s h
    rw [extendL_cons]
    split
    · exact ih (appendL_keeps_none env valid get put hp h v)
    · exact appendL_keeps_none env valid get put hp h v

/-- `extend`: nothing happened at all (no item, or the first item was rejected), or the hashes
    are gone -/
theorem extendL_cases {s : St} (hp : PutOk env put) (h : InvS s) (hex : PathEx env s) (vs : List α) :
    (extendL env valid get put s vs).1 = s ∨ (extendL env valid get put s vs).1.pieces = none := by
  cases vs with
  | nil => exact Or.inl rfl
  | cons v vs =>
    rw [extendL_cons]
    rcases appendL_cases env valid get put hp h hex v with e | e
    · left; rw [e]; simp
    · right
      split
      · exact extendL_keeps_none env valid get put hp vs e
      · exact e

theorem applyL_same {s : St} (hp : PutOk env put) (h : InvS s) (hex : PathEx env s) (o : LOp α)
    (g : Ghost) (hg : (applyL env valid get put s o).1.pieces = some g) :
    Same s (applyL env valid get put s o).1 := by
  have none_some : ∀ {x : Option Ghost}, x = none → x = some g → False := by
    intro x h1 h2; rw [h1] at h2; exact absurd h2 (by simp)
  cases o with
  | setSlice a b vs =>
    rcases setSliceL_cases env valid get put hp h hex a b vs with e | e
    · simp only [applyL, e]; exact Same.rfl' s
    · exact (none_some e hg).elim
  | setIndex i v =>
    simp only [applyL, setIndexL] at hg ⊢
    split
    · exact Same.rfl' s
    · rename_i h1
      rw [if_neg h1] at hg
      split
      · exact Same.rfl' s
      · rename_i j hj
        rw [hj] at hg
        exact (none_some (put_none env put hp h hex _) hg).elim
  | append v =>
    rcases appendL_cases env valid get put hp h hex v with e | e
    · simp only [applyL, e]; exact Same.rfl' s
    · exact (none_some e hg).elim
  | extend vs =>
    rcases extendL_cases env valid get put hp h hex vs with e | e
    · simp only [applyL, e]; exact Same.rfl' s
    · exact (none_some e hg).elim
  | del i =>
    simp only [applyL] at hg ⊢; split
    · exact Same.rfl' s
    · rename_i h1; rw [if_neg h1] at hg
      exact (none_some (put_none env put hp h hex _) hg).elim
  | clear => exact (none_some (put_none env put hp h hex _) hg).elim
  | insert i v =>
    simp only [applyL, insertL] at hg ⊢; split
    · exact Same.rfl' s
    · rename_i h1; rw [if_neg h1] at hg
      exact (none_some (put_none env put hp h hex _) hg).elim
  | pop i =>
    simp only [applyL, popL] at hg ⊢; split
    · exact Same.rfl' s
    · rename_i j hj; rw [hj] at hg
      exact (none_some (put_none env put hp h hex _) hg).elim
  | remove v =>
    simp only [applyL, removeL] at hg ⊢; split
    · rename_i h1; rw [if_pos h1] at hg
      exact (none_some (put_none env put hp h hex _) hg).elim
    · exact Same.rfl' s
  | delSlice a b => exact (none_some (put_none env put hp h hex _) hg).elim
  | reverse =>
    rcases setSliceL_cases env valid get put hp h hex 0 none (get s).reverse with e | e
    · simp only [applyL, e]; exact Same.rfl' s
    · exact (none_some e hg).elim
  | assignSelf =>
    rcases setSliceL_cases env valid get put hp h hex 0 none (get s) with e | e
    · simp only [applyL, e]; exact Same.rfl' s
    · exact (none_some e hg).elim
  | iaddAttr vs =>
    rw [iaddAttr_eq] at hg ⊢
    have hi := extendL_pres env valid get put (presOps_invS env).toPres hp.invS h vs True.intro
    have hx := extendL_pathEx env valid get put hp.pathEx vs hex
    split
    · rename_i hok
      rw [if_pos hok] at hg
      rcases setSliceL_cases env valid get put hp hi hx 0 none
          (get (extendL env valid get put s vs).1) with e | e
      · rw [e] at hg ⊢
        rcases extendL_cases env valid get put hp h hex vs with e' | e'
        · simp only [e']; exact Same.rfl' s
        · exact (none_some e' hg).elim
      · exact (none_some e hg).elim
    · rename_i hok
      rw [if_neg hok] at hg
      rcases extendL_cases env valid get put hp h hex vs with e' | e'
      · rw [e']; exact Same.rfl' s
      · exact (none_some e' hg).elim

end filterList

/-- **Discard.** If piece hashes are present after an operation other than `generate`, then they
    are the ones that were present before, and the operation changed neither the content path,
    the listed files and sizes, the piece length, nor a filter list. -/
theorem apply_same {s : St} (h : InvS s) (env : Env) (hex : PathEx env s)
    (op : Op) (hop : op ≠ .generate) (g : Ghost) (hg : (apply env s op).1.pieces = some g) :
    Same s (apply env s op).1 := by
  cases op with
  | setPath p => exact setPath_same env s p g hg
  | setFiles fs => exact setFilesAttr_same env s fs g hg
  | filesDel i =>
    simp only [apply] at hg ⊢; split
    · exact Same.rfl' s
    · rename_i h1; rw [if_neg h1] at hg; exact setFilesAttr_same env s _ g hg
  | filesAppend f => exact setFilesAttr_same env s _ g hg
  | filesClear => exact setFilesAttr_same env s _ g hg
  | setFilepaths ps => exact setFilepathsAttr_same env s ps g hg
  | fpDel i =>
    simp only [apply] at hg ⊢; split
    · exact Same.rfl' s
    · rename_i h1; rw [if_neg h1] at hg; exact setFilepathsAttr_same env s _ g hg
  | fpAppend p => exact setFilepathsAttr_same env s _ g hg
  | fpClear => exact setFilepathsAttr_same env s _ g hg
  | glob inc o => exact applyL_same env _ _ _ (putGlobs_ok env inc) h hex o g hg
  | rx inc o => exact applyL_same env _ _ _ (putRxs_ok env inc) h hex o g hg
  | setName n =>
    simp only [apply, setName]; split <;> exact ⟨rfl, rfl, rfl, rfl, rfl, rfl, rfl, rfl⟩
  | setPieceSize v => exact setPieceSizeE_same h.2 env v g hg
  | setMin v => exact setMin_same v g hg
  | setMax v => exact setMax_same v g hg
  | generate => exact absurd rfl hop
  | setComment c => exact ⟨rfl, rfl, rfl, rfl, rfl, rfl, rfl, rfl⟩


/-! ### `ML.readd` = the specification `dedupFirst` -/

section readd
variable {α : Type} [DecidableEq α]

theorem readd_foldl (l : List α) : ∀ acc : List α,
    l.foldl (fun acc x => if acc.contains x then acc else acc ++ [x]) acc =
      acc ++ (dedupFirst l).filter (fun y => !acc.contains y) := by
  induction l with
  | nil => intro acc; simp [dedupFirst]
  | cons x xs ih =>
    intro acc
    simp only [List.foldl_cons, dedupFirst]
    by_cases hx : acc.contains x = true
    · rw [if_pos hx, ih]
      congr 1
      rw [List.filter_cons]
      simp only [hx, Bool.not_true, Bool.false_eq_true, if_false, List.filter_filter]
      apply List.filter_congr
      intro y _
      by_cases hy : acc.contains y = true
      · rw [hy]; simp
      · have : y ≠ x := by intro e; subst e; exact hy hx
        simp [this]
    · rw [if_neg hx, ih]
      rw [List.filter_cons]
      simp only [hx, Bool.not_false, if_true, List.filter_filter, List.append_assoc,
        List.singleton_append]
      congr 2
      apply List.filter_congr
      intro y _
      simp only [List.contains_eq_mem, List.mem_append, List.mem_singleton, ne_eq, decide_not]
      by_cases h1 : y ∈ acc <;> by_cases h2 : y = x <;> simp [h1, h2]

/-- **model = specification** for the re-adding loop of `__setitem__` -/
theorem readd_eq_dedupFirst (l : List α) : ML.readd l = dedupFirst l := by
  unfold ML.readd
  rw [readd_foldl]
  simp

theorem mem_dedupFirst (l : List α) (y : α) : y ∈ dedupFirst l ↔ y ∈ l := by
  induction l with
  | nil => simp [dedupFirst]
  | cons x xs ih =>
    simp only [dedupFirst, List.mem_cons, List.mem_filter, ih, decide_eq_true_eq]
    by_cases h : y = x <;> simp [h]

theorem nodup_dedupFirst (l : List α) : (dedupFirst l).Nodup := by
  induction l with
  | nil => simp [dedupFirst]
  | cons x xs ih =>
    simp only [dedupFirst, List.nodup_cons]
    refine ⟨?_, List.Nodup.sublist List.filter_sublist ih⟩
    simp [List.mem_filter]

theorem dedupFirst_of_nodup (l : List α) (h : l.Nodup) : dedupFirst l = l := by
  induction l with
  | nil => rfl
  | cons x xs ih =>
    rw [List.nodup_cons] at h
    simp only [dedupFirst, ih h.2]
    congr 1
    rw [List.filter_eq_self]
    intro a ha
    have : a ≠ x := by intro e; subst e; exact h.1 ha
    simp [this]

omit [DecidableEq α] in
/-- `lst[:] = lst` on the plain list is the identity -/
theorem spliced_self (l : List α) : ML.spliced l 0 none l = l := by
  simp [ML.spliced]

omit [DecidableEq α] in
/-- `lst[:] = vs` on the plain list replaces everything -/
theorem spliced_all (l vs : List α) : ML.spliced l 0 none vs = vs := by
  simp [ML.spliced]

omit [DecidableEq α] in
theorem nodup_reverse {l : List α} (h : l.Nodup) : l.reverse.Nodup := by
  unfold List.Nodup at h ⊢
  rw [List.pairwise_reverse]
  exact h.imp (fun hab => fun e => hab e.symm)

omit [DecidableEq α] in
theorem mem_spliced {l vs : List α} {a : Nat} {b : Option Nat} {y : α}
    (h : y ∈ ML.spliced l a b vs) : y ∈ l ∨ y ∈ vs := by
  unfold ML.spliced at h
  simp only [List.mem_append] at h
  rcases h with (h | h) | h
  · exact Or.inl (List.mem_of_mem_take h)
  · exact Or.inr h
  · exact Or.inl (List.mem_of_mem_drop h)

end readd

/-! ### only filter-list operations change a filter list -/

/-- the four filter lists of `s'` are those of `s` -/
def Filt (s s' : St) : Prop :=
  s'.exGlobs = s.exGlobs ∧ s'.inGlobs = s.inGlobs ∧ s'.exRegexs = s.exRegexs ∧
  s'.inRegexs = s.inRegexs

theorem Filt.rfl' (s : St) : Filt s s := ⟨rfl, rfl, rfl, rfl⟩

theorem Filt.trans {a b c : St} (h1 : Filt a b) (h2 : Filt b c) : Filt a c :=
  ⟨h2.1.trans h1.1, h2.2.1.trans h1.2.1, h2.2.2.1.trans h1.2.2.1, h2.2.2.2.trans h1.2.2.2⟩

theorem checkAndStore_filt (s : St) (x : Int) : Filt s (checkAndStore s x).1 := by
  rcases checkAndStore_cases s x with h1 | ⟨n, _, _, _, _, h1⟩ <;> rw [h1] <;> exact ⟨rfl, rfl, rfl, rfl⟩

theorem setPieceSize_filt (s : St) (v : Option Int) : Filt s (setPieceSize s v).1 := by
  unfold setPieceSize
  cases v with
  | none => simp only; split
            · exact ⟨rfl, rfl, rfl, rfl⟩
            · exact checkAndStore_filt ..
  | some x => exact checkAndStore_filt ..

theorem recalc_filt (env : Env) (s : St) : Filt s (recalc env s).1 := by
  rcases recalc_state env s with ⟨_, e⟩ | e | ⟨n, e⟩ <;> rw [e]
  · exact ⟨rfl, rfl, rfl, rfl⟩
  · exact Filt.rfl' s
  · exact ⟨rfl, rfl, rfl, rfl⟩

theorem setPieceSizeE_filt (env : Env) (s : St) (v : Option Int) : Filt s (setPieceSizeE env s v).1 := by
  cases v with
  | none => exact recalc_filt env s
  | some x => exact checkAndStore_filt ..

theorem setFilesCore_filt (env : Env) (s : St) (files : List (Path × Nat)) (bp : Option Path) :
    Filt s (setFilesCore env s files bp).1 := by
  unfold setFilesCore
  exact Filt.trans ⟨rfl, rfl, rfl, rfl⟩ (recalc_filt _ _)

theorem setPath_filt (env : Env) (s : St) (v : Option Path) : Filt s (setPath env s v).1 := by
  cases v with
  | none => exact ⟨rfl, rfl, rfl, rfl⟩
  | some q =>
    unfold setPath; simp only
    split
    · exact setFilesCore_filt ..
    · split
      · exact setFilesCore_filt ..
      · exact Filt.rfl' s

theorem setFilesAttr_filt (env : Env) (s : St) (fs : List (Path × Nat)) :
    Filt s (setFilesAttr env s fs).1 := by
  unfold setFilesAttr
  split
  · exact Filt.rfl' s
  · split
    · exact setFilesCore_filt ..
    · simp only
      split
      · exact Filt.rfl' s
      · exact setFilesCore_filt ..

theorem setFilepathsAttr_filt (env : Env) (s : St) (ps : List Path) :
    Filt s (setFilepathsAttr env s ps).1 := by
  unfold setFilepathsAttr
  simp only
  split
  · exact setFilesCore_filt ..
  · split
    · exact Filt.rfl' s
    · exact setFilesCore_filt ..

/-- the callback of the filter lists re-reads the content; it never writes a filter list -/
theorem filtersChanged_filt (env : Env) (s : St) : Filt s (filtersChanged env s).1 := by
  unfold filtersChanged
  split
  · exact setPath_filt ..
  · exact setFilesAttr_filt ..

theorem setMin_filt (s : St) (v : Option Int) : Filt s (setMin s v).1 := by
  rcases setMin_cases s v with e | ⟨m, e | ⟨y, e⟩⟩ <;> rw [e]
  · exact Filt.rfl' s
  · exact ⟨rfl, rfl, rfl, rfl⟩
  · exact Filt.trans ⟨rfl, rfl, rfl, rfl⟩ (checkAndStore_filt _ y)

theorem setMax_filt (s : St) (v : Option Int) : Filt s (setMax s v).1 := by
  rcases setMax_cases s v with e | ⟨m, e | ⟨y, e⟩⟩ <;> rw [e]
  · exact Filt.rfl' s
  · exact ⟨rfl, rfl, rfl, rfl⟩
  · exact Filt.trans ⟨rfl, rfl, rfl, rfl⟩ (checkAndStore_filt _ y)

theorem generate_filt (env : Env) (s : St) : Filt s (generate env s).1 := by
  unfold generate
  split
  · exact Filt.rfl' s
  · split
    · exact Filt.rfl' s
    · split
      · exact Filt.rfl' s
      · split <;> exact ⟨rfl, rfl, rfl, rfl⟩

/-! ### a filter list holds each pattern once, and only patterns -/

/-- one list: no duplicates, only accepted items -/
def LOk {α : Type} (valid : α → Bool) (l : List α) : Prop := l.Nodup ∧ l.all valid = true

theorem filtersOk_iff (s : St) :
    FiltersOk s ↔ (∀ inc, LOk (fun _ => true) (getGlobs s inc)) ∧ (∀ inc, LOk Rx.valid (getRxs s inc)) := by
  unfold FiltersOk LOk getGlobs getRxs
  constructor
  · rintro ⟨a, b, c, d, e, f⟩
    refine ⟨fun inc => ?_, fun inc => ?_⟩
    · cases inc <;> simp [a, b]
    · cases inc
      · exact ⟨c, e⟩
      · exact ⟨d, f⟩
  · rintro ⟨h1, h2⟩
    have a := h1 false; have b := h1 true; have c := h2 false; have d := h2 true
    simp only [Bool.false_eq_true, if_false, if_true] at a b c d
    exact ⟨a.1, b.1, c.1, d.1, c.2, d.2⟩

/-- `get`/`put` select one of the four lists; `get'` is anything `put` leaves alone -/
structure LensOk {α : Type} (get : St → List α) (put : St → List α → St) : Prop where
  get_put : ∀ s l, get (put s l) = l
  get_filt : ∀ s s', Filt s s' → get s' = get s

section filterList
variable {α : Type} [DecidableEq α]
variable (env : Env) (valid : α → Bool) (get : St → List α) (put : St → List α → St)

omit [DecidableEq α] in
theorem lok_sublist {l l' : List α} (h : LOk valid l) (hs : l'.Sublist l) : LOk valid l' := by
  refine ⟨List.Nodup.sublist hs h.1, ?_⟩
  rw [List.all_eq_true]
  intro y hy
  exact (List.all_eq_true.1 h.2) y (hs.subset hy)

omit [DecidableEq α] in
/-- `del items[a:b]` only removes items -/
theorem cut_sublist (l : List α) (a : Nat) (b : Option Nat) : (ML.cut l a b).Sublist l := by
  unfold ML.cut
  have h := List.Sublist.append (List.Sublist.refl (l.take a))
    (List.drop_sublist_drop_left l (Nat.le_max_left a (b.getD l.length)))
  rwa [List.take_append_drop] at h

omit [DecidableEq α] in
/-- inserting an item that is not there, anywhere -/
theorem lok_insert {l : List α} {v : α} (h : LOk valid l) (hv : valid v = true) (hn : v ∉ l) (p : Nat) :
    LOk valid (l.take p ++ v :: l.drop p) := by
  have hnd := h.1
  rw [← List.take_append_drop p l, List.nodup_append] at hnd
  obtain ⟨h1, h2, h3⟩ := hnd
  refine ⟨?_, ?_⟩
  · rw [List.nodup_append]
    refine ⟨h1, List.nodup_cons.2 ⟨fun hm => hn (List.mem_of_mem_drop hm), h2⟩, ?_⟩
    intro a ha b hb
    rcases List.mem_cons.1 hb with e | hb
    · subst e; intro e; subst e; exact hn (List.mem_of_mem_take ha)
    · exact h3 a ha b hb
  · rw [List.all_eq_true]
    intro y hy
    rcases List.mem_append.1 hy with hy | hy
    · exact (List.all_eq_true.1 h.2) y (List.mem_of_mem_take hy)
    · rcases List.mem_cons.1 hy with e | hy
      · subst e; exact hv
      · exact (List.all_eq_true.1 h.2) y (List.mem_of_mem_drop hy)

omit [DecidableEq α] in
theorem get_changed (hl : LensOk get put) (s : St) (l : List α) :
    get (filtersChanged env (put s l)).1 = l := by
  rw [hl.get_filt _ _ (filtersChanged_filt env (put s l)), hl.get_put]

theorem lok_readd {l : List α} (h : ∀ y ∈ l, valid y = true) : LOk valid (ML.readd l) := by
  rw [readd_eq_dedupFirst]
  refine ⟨nodup_dedupFirst l, ?_⟩
  rw [List.all_eq_true]
  intro y hy
  exact h y ((mem_dedupFirst l y).1 hy)

theorem setSliceL_lok {s : St} (hl : LensOk get put) (h : LOk valid (get s)) (a : Nat)
    (b : Option Nat) (vs : List α) : LOk valid (get (setSliceL env valid get put s a b vs).1) := by
  unfold setSliceL; split
  · exact h
  · rename_i hv
    rw [get_changed env get put hl]
    apply lok_readd
    intro y hy
    rcases mem_spliced hy with hy | hy
    · exact (List.all_eq_true.1 h.2) y hy
    · have : vs.all valid = true := by simpa using hv
      exact (List.all_eq_true.1 this) y hy

theorem appendL_lok {s : St} (hl : LensOk get put) (h : LOk valid (get s)) (v : α) :
    LOk valid (get (appendL env valid get put s v).1) := by
  unfold appendL; split
  · exact h
  · rename_i hv
    have hv' : valid v = true := by simpa using hv
    rw [get_changed env get put hl]
    split
    · exact h
    · rename_i hc
      have hn : v ∉ get s := by simpa using hc
      refine ⟨?_, ?_⟩
      · rw [List.nodup_append]
        refine ⟨h.1, by simp, ?_⟩
        intro a ha b hb
        simp only [List.mem_singleton] at hb
        subst hb
        intro e; subst e; exact hn ha
      · simp [h.2, hv']

theorem extendL_lok (hl : LensOk get put) (vs : List α) :
    ∀ {s : St}, LOk valid (get s) → LOk valid (get (extendL env valid get put s vs).1) := by
  induction vs with
  | nil => intro s h; exact h
  | cons v vs ih =>
    intro s h
    rw [extendL_cons]
    split
    · exact ih (appendL_lok env valid get put hl h v)
    · exact appendL_lok env valid get put hl h v

/-- every operation on a filter list leaves it duplicate-free and holding only accepted items -/
theorem applyL_lok {s : St} (hl : LensOk get put) (h : LOk valid (get s)) (o : LOp α) :
    LOk valid (get (applyL env valid get put s o).1) := by
  cases o with
  | setSlice a b vs => exact setSliceL_lok env valid get put hl h a b vs
  | setIndex i v =>
    simp only [applyL, setIndexL]; split
    · exact h
    · rename_i hv
      have hv' : valid v = true := by simpa using hv
      split
      · exact h
      · rw [get_changed env get put hl]
        apply lok_readd
        intro y hy
        rcases List.mem_or_eq_of_mem_set hy with hy | hy
        · exact (List.all_eq_true.1 h.2) y hy
        · rw [hy]; exact hv'
  | append v => exact appendL_lok env valid get put hl h v
  | extend vs => exact extendL_lok env valid get put hl vs h
  | del i =>
    simp only [applyL]; split
    · exact h
    · rw [get_changed env get put hl]
      refine ⟨List.Nodup.sublist (List.eraseIdx_sublist _ _) h.1, ?_⟩
      rw [List.all_eq_true]
      intro y hy
      exact (List.all_eq_true.1 h.2) y ((List.eraseIdx_sublist _ _).subset hy)
  | clear =>
    simp only [applyL]
    rw [get_changed env get put hl]
    exact ⟨List.nodup_nil, rfl⟩
  | insert i v =>
    simp only [applyL, insertL]; split
    · exact h
    · rename_i hv
      have hv' : valid v = true := by simpa using hv
      rw [get_changed env get put hl]
      split
      · exact h
      · rename_i hc
        have hn : v ∉ get s := by simpa using hc
        exact lok_insert valid h hv' hn _
  | pop i =>
    simp only [applyL, popL]; split
    · exact h
    · rw [get_changed env get put hl]
      exact lok_sublist valid h (List.eraseIdx_sublist _ _)
  | remove v =>
    simp only [applyL, removeL]; split
    · rw [get_changed env get put hl]
      exact lok_sublist valid h List.erase_sublist
    · exact h
  | delSlice a b =>
    simp only [applyL]
    rw [get_changed env get put hl]
    exact lok_sublist valid h (cut_sublist _ _ _)
  | reverse => exact setSliceL_lok env valid get put hl h 0 none _
  | assignSelf => exact setSliceL_lok env valid get put hl h 0 none _
  | iaddAttr vs =>
    rw [iaddAttr_eq]; split
    · exact setSliceL_lok env valid get put hl (extendL_lok env valid get put hl vs h) 0 none _
    · exact extendL_lok env valid get put hl vs h

/-- … and leaves alone whatever `put` and the callback leave alone (e.g. the other three lists) -/
theorem applyL_frame {β : Type} (get' : St → β) (h1 : ∀ s l, get' (put s l) = get' s)
    (h2 : ∀ s s', Filt s s' → get' s' = get' s) (s : St) (o : LOp α) :
    get' (applyL env valid get put s o).1 = get' s := by
  have fc : ∀ s l, get' (filtersChanged env (put s l)).1 = get' s := by
    intro s l; rw [h2 _ _ (filtersChanged_filt env (put s l)), h1]
  have sl : ∀ s a b vs, get' (setSliceL env valid get put s a b vs).1 = get' s := by
    intro s a b vs; unfold setSliceL; split
    · rfl
    · exact fc _ _
  have ap : ∀ s v, get' (appendL env valid get put s v).1 = get' s := by
    intro s v; unfold appendL; split
    · rfl
    · exact fc _ _
  have ex : ∀ vs s, get' (extendL env valid get put s vs).1 = get' s := by
    intro vs
    induction vs with
    | nil => intro s; rfl
    | cons v vs ih =>
      intro s
      rw [extendL_cons]; split
      · rw [ih, ap]
      · exact ap _ _
  cases o with
  | setSlice a b vs => exact sl _ _ _ _
  | setIndex i v =>
    simp only [applyL, setIndexL]; split
    · rfl
    · split
      · rfl
      · exact fc _ _
  | append v => exact ap _ _
  | extend vs => exact ex _ _
  | del i =>
    simp only [applyL]; split
    · rfl
    · exact fc _ _
  | clear => exact fc _ _
  | insert i v =>
    simp only [applyL, insertL]; split
    · rfl
    · exact fc _ _
  | pop i =>
    simp only [applyL, popL]; split
    · rfl
    · exact fc _ _
  | remove v =>
    simp only [applyL, removeL]; split
    · exact fc _ _
    · rfl
  | delSlice a b => exact fc _ _
  | reverse => exact sl _ _ _ _
  | assignSelf => exact sl _ _ _ _
  | iaddAttr vs =>
    rw [iaddAttr_eq]; split
    · rw [sl, ex]
    · exact ex _ _

end filterList

theorem globs_lens (inc : Bool) : LensOk (getGlobs · inc) (putGlobs · inc) := by
  refine ⟨fun s l => ?_, fun s s' h => ?_⟩
  · unfold getGlobs putGlobs; cases inc <;> simp
  · unfold getGlobs; cases inc
    · simpa using h.1
    · simpa using h.2.1

theorem rxs_lens (inc : Bool) : LensOk (getRxs · inc) (putRxs · inc) := by
  refine ⟨fun s l => ?_, fun s s' h => ?_⟩
  · unfold getRxs putRxs; cases inc <;> simp
  · unfold getRxs; cases inc
    · simpa using h.2.2.1
    · simpa using h.2.2.2

theorem filtersOk_of_filt {s s' : St} (h : Filt s s') (hf : FiltersOk s) : FiltersOk s' := by
  unfold FiltersOk at hf ⊢
  rw [h.1, h.2.1, h.2.2.1, h.2.2.2]; exact hf

/-- what every operation other than an edit of a filter list does to the filter lists: nothing -/
theorem apply_filt (env : Env) (s : St) (op : Op) (hg : ∀ inc o, op ≠ .glob inc o)
    (hr : ∀ inc o, op ≠ .rx inc o) : Filt s (apply env s op).1 := by
  cases op with
  | setPath p => exact setPath_filt env s p
  | setFiles fs => exact setFilesAttr_filt env s fs
  | filesDel i =>
    simp only [apply]; split
    · exact Filt.rfl' s
    · exact setFilesAttr_filt ..
  | filesAppend f => exact setFilesAttr_filt ..
  | filesClear => exact setFilesAttr_filt ..
  | setFilepaths ps => exact setFilepathsAttr_filt ..
  | fpDel i =>
    simp only [apply]; split
    · exact Filt.rfl' s
    · exact setFilepathsAttr_filt ..
  | fpAppend p => exact setFilepathsAttr_filt ..
  | fpClear => exact setFilepathsAttr_filt ..
  | glob inc o => exact absurd rfl (hg inc o)
  | rx inc o => exact absurd rfl (hr inc o)
  | setName n => simp only [apply, setName]; split <;> exact ⟨rfl, rfl, rfl, rfl⟩
  | setPieceSize v => exact setPieceSizeE_filt env s v
  | setMin v => exact setMin_filt s v
  | setMax v => exact setMax_filt s v
  | generate => exact generate_filt env s
  | setComment c => exact ⟨rfl, rfl, rfl, rfl⟩

/-- **one step**: every operation, raising or not, keeps the filter lists well formed -/
theorem apply_filtersOk {s : St} (h : FiltersOk s) (env : Env) (op : Op) :
    FiltersOk (apply env s op).1 := by
  cases op with
  | glob inc o =>
    rw [filtersOk_iff] at h ⊢
    refine ⟨fun inc' => ?_, fun inc' => ?_⟩
    · by_cases e : inc' = inc
      · subst e
        exact applyL_lok env _ _ _ (globs_lens inc') (h.1 inc') o
      · have := applyL_frame env (fun _ => true) (getGlobs · inc) (putGlobs · inc) (getGlobs · inc')
          (fun s l => by unfold getGlobs putGlobs; cases inc <;> cases inc' <;> simp_all)
          (fun s s' hf => (globs_lens inc').get_filt s s' hf) s o
        simp only [apply]; rw [this]; exact h.1 inc'
    · have := applyL_frame env (fun _ => true) (getGlobs · inc) (putGlobs · inc) (getRxs · inc')
          (fun s l => by unfold getRxs putGlobs; cases inc <;> rfl)
          (fun s s' hf => (rxs_lens inc').get_filt s s' hf) s o
      simp only [apply]; rw [this]; exact h.2 inc'
  | rx inc o =>
    rw [filtersOk_iff] at h ⊢
    refine ⟨fun inc' => ?_, fun inc' => ?_⟩
    · have := applyL_frame env Rx.valid (getRxs · inc) (putRxs · inc) (getGlobs · inc')
          (fun s l => by unfold getGlobs putRxs; cases inc <;> rfl)
          (fun s s' hf => (globs_lens inc').get_filt s s' hf) s o
      simp only [apply]; rw [this]; exact h.1 inc'
    · by_cases e : inc' = inc
      · subst e
        exact applyL_lok env _ _ _ (rxs_lens inc') (h.2 inc') o
      · have := applyL_frame env Rx.valid (getRxs · inc) (putRxs · inc) (getRxs · inc')
          (fun s l => by unfold getRxs putRxs; cases inc <;> cases inc' <;> simp_all)
          (fun s s' hf => (rxs_lens inc').get_filt s s' hf) s o
        simp only [apply]; rw [this]; exact h.2 inc'
  | _ => exact filtersOk_of_filt (apply_filt env s _ (by intros; simp) (by intros; simp)) h

end Torf.Attrs
