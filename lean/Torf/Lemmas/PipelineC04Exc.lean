/-
  Torf.Lemmas.PipelineC04Exc — which exception main ends up with (C04): once `reader.join()` has
  returned, a reader that died of a read fault has replaced whatever exception was pending
  (`InvE`, configurations without refused starts); a pending callback exception survives the
  whole join phase unless exactly that happens (`Pend`, every configuration).
-/
import Torf.Lemmas.PipelineC04Inv
namespace Torf.Pipeline

theorem mainExc_finished_iff (r : Result) (x : Exc) :
    mainExc (.finished r) = some x ↔ r = .raised x := by
  cases r <;> simp [mainExc]

/-! ### a read failure surfaces as the read error -/

structure InvE (s : State) : Prop where
  rd : postReaderJoin s.main = true → s.rexc = true → mainExc s.main = some Exc.read

theorem InvE.init (cfg : Cfg) : InvE (init cfg) := by
  constructor; simp [Pipeline.init, postReaderJoin]

theorem InvE.step {cfg : Cfg} {s s' : State} (hB : InvB1 cfg s) (h : InvE s) (hs : Step cfg s s') :
    InvE s' := by
  obtain ⟨rd⟩ := h
  have hrj := hB.rjoined
  cases hs with
  | main h' =>
    cases h' <;>
      (have hm := ‹s.main = _›
       simp only [hm, postReaderJoin, mainExc] at rd hrj
       constructor <;> (try simp only [mainExc_joinTarget, mainExc_finished, postReaderJoin_joinTarget]) <;>
         (try simp only [mainExc, postReaderJoin]) <;> grind)
  | reader h' =>
    cases h' with
    | begin hr t hn => cases hn <;> (constructor <;> grind)
    | put k hr hc t hn => cases hn <;> (constructor <;> grind)
    | close hr hc => constructor <;> grind
  | hasher i h' => cases h' <;> (constructor <;> grind)
  | janitor h' => cases h' <;> (constructor <;> grind)

theorem InvE.of_reachable {cfg : Cfg} {s : State} (hrf : cfg.refuse = []) (h : Reachable cfg s) :
    InvE s :=
  Reachable.induction (P := InvE) (InvE.init cfg)
    (fun _ _ _ hr hp hs =>
      hp.step (Inv.of_reachable hrf hr).b1 (Step.of_step hrf (InvA.of_reachable hr) hs)) h

theorem InvE.read_error {s : State} (h : InvE s) (ht : terminal s = true) (hx : s.rexc = true) :
    result? s = some (.raised .read) := by
  obtain ⟨r, hm⟩ := result_of_terminal ht
  have := h.rd (by simp [hm, postReaderJoin]) hx
  rw [hm, mainExc_finished_iff] at this
  simp [result?, hm, this]

/-! ### the callback's exception reaches the caller -/

/-- main carries the callback's exception of pieces_done = `d`, or the read error that replaced it -/
def Pend (d : Nat) (s : State) : Prop :=
  mainExc s.main = some (.cb d) ∨ (mainExc s.main = some .read ∧ s.rexc = true)

theorem Pend.step {cfg : Cfg} {d : Nat} {s s' : State} (h : Pend d s) (hs : StepG cfg s s') :
    Pend d s' := by
  unfold Pend at h ⊢
  have hmono := hs.mono
  cases hs with
  | main h' =>
    cases h' with
    | ok h'' _ _ _ =>
      cases h'' <;>
        (have hm := ‹s.main = _›
         simp only [hm, mainExc] at h
         (try simp only [mainExc_joinTarget, mainExc_finished]) <;> (try simp only [mainExc]) <;> grind)
    | _ =>
      have hm := ‹s.main = _›
      simp only [hm, mainExc] at h
      grind
  | reader h' =>
    cases h' with
    | begin hr t hn => cases hn <;> grind
    | put k hr hc t hn => cases hn <;> grind
    | close hr hc => grind
  | hasher i h' => cases h' <;> grind
  | janitor h' => cases h' <;> grind

theorem Pend.run {cfg : Cfg} {d : Nat} {s s' : State} {ls : List Label} (hr : Reachable cfg s)
    (h : Pend d s) (hrun : run cfg s ls = some s') : Pend d s' :=
  run_induction (P := Pend d)
    (fun _ _ _ hre hp hs => hp.step (StepG.of_step (InvA.of_reachable hre) hs)) ls s s' hr h hrun

theorem Pend.result {d : Nat} {s : State} (h : Pend d s) (ht : terminal s = true) :
    result? s = some (.raised (.cb d)) ∨ (result? s = some (.raised .read) ∧ s.rexc = true) := by
  obtain ⟨r, hm⟩ := result_of_terminal ht
  unfold Pend at h
  rw [hm, mainExc_finished_iff, mainExc_finished_iff] at h
  rcases h with h | ⟨h, hx⟩
  · left; simp [result?, hm, h]
  · right; simp [result?, hm, h, hx]

/-! ### a run that was neither cancelled nor hit by a read fault collects everything -/

structure InvF (cfg : Cfg) (s : State) : Prop where
  all : joined s.main = true → mainExc s.main = none → s.stop = false → s.rexc = false →
    s.seen.Perm (List.range cfg.items.length)

theorem InvF.init (cfg : Cfg) : InvF cfg (init cfg) := by
  constructor; simp [Pipeline.init, joined]

theorem InvF.step {cfg : Cfg} {s s' : State} (hI : Inv cfg s) (h : InvF cfg s) (hs : Step cfg s s') :
    InvF cfg s' := by
  obtain ⟨all⟩ := h
  cases hs with
  | main h' =>
    cases h' with
    | collectClosed rest hm hq =>
      constructor
      intro _ _ hst hx
      exact closed_complete (s := s) hI hq hst hx
    | _ =>
      have hm := ‹s.main = _›
      simp only [hm, joined, mainExc] at all
      constructor <;> (try simp only [mainExc_joinTarget, mainExc_finished, joined_joinTarget]) <;>
        (try simp only [mainExc, joined]) <;> grind
  | reader h' =>
    cases h' with
    | begin hr t hn => cases hn <;> (constructor <;> grind)
    | put k hr hc t hn => cases hn <;> (constructor <;> grind)
    | close hr hc => constructor <;> grind
  | hasher i h' => cases h' <;> (constructor <;> grind)
  | janitor h' => cases h' <;> (constructor <;> grind)

theorem InvF.of_reachable {cfg : Cfg} {s : State} (hrf : cfg.refuse = []) (h : Reachable cfg s) :
    InvF cfg s :=
  Reachable.induction (P := InvF cfg) (InvF.init cfg)
    (fun _ _ _ hr hp hs =>
      hp.step (Inv.of_reachable hrf hr) (Step.of_step hrf (InvA.of_reachable hr) hs)) h

end Torf.Pipeline
