/-
  Torf.Lemmas.PipelineC04Cancel — how much work can still happen after a cancellation (C04), for
  every configuration.  Only the reader adds pieces to the pipeline; every other step moves pieces
  between the four places (`inFlight`) without changing their number.  Once the stop flag is set
  the reader may complete the `put` it is blocked in, and then leaves its loop: the number of
  pieces pushed plus `pushCredit` (1 while the reader sits at a `put`) never increases.  A reader
  that has left its loop (in particular one that died of a read fault) pushes nothing.
-/
import Torf.Lemmas.PipelineC04Inv
namespace Torf.Pipeline

/-- the `put` the reader is blocked in will still be completed after a stop request -/
def pushCredit (s : State) : Nat :=
  match s.rpc with
  | .putting _ => 1
  | _ => 0

/-- pieces whose hash has been delivered: already collected by main, or waiting in the hash queue -/
def hashedSoFar (s : State) : Nat := s.seen.length + (s.hq.filterMap id).length

/-- the reader has left its loop -/
def readerLeft (s : State) : Prop := s.rpc = .closing ∨ s.rpc = .done

theorem inFlight_len (s : State) :
    (inFlight s).length =
      hashedSoFar s + (s.hs.filterMap hk).length + (s.pq.filterMap id).length := by
  simp only [inFlight_def, hashedSoFar, List.length_append]

theorem heldLen_set (l : List HPc) (i : Nat) (p q : HPc) (h : l[i]? = some p) :
    ((l.set i q).filterMap hk).length + (hk p).toList.length =
      (l.filterMap hk).length + (hk q).toList.length := by
  simpa using (filterMap_set_perm hk l i q p h).length_eq

theorem heldLen_set_none (l : List HPc) (i : Nat) (q : HPc) (hq : hk q = none)
    (h : ∀ p, l[i]? = some p → hk p = none) :
    ((l.set i q).filterMap hk).length = (l.filterMap hk).length :=
  (held_set_nn l i q hq h).length_eq

/-- main never changes the number of pieces in flight and only starts the reader -/
theorem MainStepG.pushed {cfg : Cfg} {s s' : State} (hA : InvA cfg s) (hs : MainStepG cfg s s') :
    (inFlight s').length = (inFlight s).length ∧
      (s'.rpc = s.rpc ∨ (s.rpc = .notStarted ∧ (s'.rpc = .begin_ ∨ s'.rpc = .refused))) := by
  have hrfresh := hA.rfresh
  have hfresh := hA.fresh
  have hset : ∀ (i : Nat) (q : HPc), s.main = .startHasher i → hk q = none →
      ((s.hs.set i q).filterMap hk).length = (s.hs.filterMap hk).length := by
    intro i q hm hq
    refine heldLen_set_none _ _ _ hq ?_
    intro p hp
    have := hfresh i (by simp [hm, startBound]) i p (Nat.le_refl _) hp
    subst this; rfl
  cases hs with
  | ok h' _ _ _ =>
    cases h' with
    | startHasherNext i hm hi =>
      refine ⟨?_, Or.inl rfl⟩
      simp only [inFlight_len, hashedSoFar, hset i .begin_ hm rfl]
    | startHasherLast i hm hi =>
      refine ⟨?_, Or.inl rfl⟩
      simp only [inFlight_len, hashedSoFar, hset i .begin_ hm rfl]
    | collectClosed rest hm hq => refine ⟨?_, Or.inl rfl⟩; simp [inFlight_len, hashedSoFar, hq]
    | collectRaise k rest hm hq hk hr =>
      refine ⟨?_, Or.inl rfl⟩; simp [inFlight_len, hashedSoFar, hq]; omega
    | collectPass k rest hm hq hk hr hcb =>
      refine ⟨?_, Or.inl rfl⟩; simp [inFlight_len, hashedSoFar, hq]; omega
    | collectCancel k rest hm hq hk hr hcb =>
      refine ⟨?_, Or.inl rfl⟩; simp [inFlight_len, hashedSoFar, hq]; omega
    | collectCbRaise k rest hm hq hk hr hcb =>
      refine ⟨?_, Or.inl rfl⟩; simp [inFlight_len, hashedSoFar, hq]; omega
    | startReader hm => refine ⟨?_, ?_⟩ <;> simp [inFlight_len, hashedSoFar, hm, hrfresh]
    | _ => refine ⟨?_, Or.inl rfl⟩; simp [inFlight_len, hashedSoFar]
  | refReader hm hr => refine ⟨?_, ?_⟩ <;> simp [inFlight_len, hashedSoFar, hm, hrfresh]
  | refVital hm hr =>
    refine ⟨?_, Or.inl rfl⟩
    simp only [inFlight_len, hashedSoFar, hset _ .refused hm rfl]
  | refHasherNext i hm h0 hr hi =>
    refine ⟨?_, Or.inl rfl⟩
    simp only [inFlight_len, hashedSoFar, hset _ .refused hm rfl]
  | refHasherLast i hm h0 hr hi =>
    refine ⟨?_, Or.inl rfl⟩
    simp only [inFlight_len, hashedSoFar, hset _ .refused hm rfl]
  | refJanitor hm hr => refine ⟨?_, ?_⟩ <;> simp [inFlight_len, hashedSoFar]

/-- hashers move pieces, they do not create them -/
theorem HasherStep.pushed {cfg : Cfg} {s s' : State} {i : Nat} (hs : HasherStep cfg s i s') :
    (inFlight s').length = (inFlight s).length ∧ s'.rpc = s.rpc := by
  cases hs with
  | idle hi hpq h0 => exact ⟨rfl, rfl⟩
  | begin hi =>
    have := heldLen_set s.hs i _ .getting hi
    refine ⟨?_, rfl⟩; simp [inFlight_len, hashedSoFar, hk] at *; omega
  | quit hi hpq h0 =>
    have := heldLen_set s.hs i _ .done hi
    refine ⟨?_, rfl⟩; simp [inFlight_len, hashedSoFar, hk] at *; omega
  | take k rest hi hpq =>
    have := heldLen_set s.hs i _ (.holding k) hi
    refine ⟨?_, rfl⟩; simp [inFlight_len, hashedSoFar, hk, hpq] at *; omega
  | takeClosed rest hi hpq =>
    have := heldLen_set s.hs i _ .requeue hi
    refine ⟨?_, rfl⟩; simp [inFlight_len, hashedSoFar, hk, hpq] at *; omega
  | deliver k hi =>
    have := heldLen_set s.hs i _ .getting hi
    refine ⟨?_, rfl⟩; simp [inFlight_len, hashedSoFar, hk] at *; omega
  | requeue hi hc =>
    have := heldLen_set s.hs i _ .setEv hi
    refine ⟨?_, rfl⟩; simp [inFlight_len, hashedSoFar, hk] at *; omega
  | setEv hi =>
    have := heldLen_set s.hs i _ .done hi
    refine ⟨?_, rfl⟩; simp [inFlight_len, hashedSoFar, hk] at *; omega

theorem JanitorStep.pushed {s s' : State} (hs : JanitorStep s s') :
    (inFlight s').length = (inFlight s).length ∧ s'.rpc = s.rpc := by
  cases hs <;> (refine ⟨?_, rfl⟩; simp [inFlight_len, hashedSoFar])

/-- after a stop request: pieces pushed + the pending `put` never increases, the flag stays set -/
theorem StepG.stopped {cfg : Cfg} {s s' : State} (hA : InvA cfg s) (hstop : s.stop = true)
    (hs : StepG cfg s s') :
    (inFlight s').length + pushCredit s' ≤ (inFlight s).length + pushCredit s := by
  cases hs with
  | main h' =>
    obtain ⟨h1, h2⟩ := h'.pushed hA
    rw [h1]
    unfold pushCredit
    rcases h2 with h2 | ⟨h2, h3 | h3⟩
    · rw [h2]; exact Nat.le_refl _
    · rw [h2, h3]; exact Nat.le_refl _
    · rw [h2, h3]; exact Nat.le_refl _
  | hasher i h' =>
    obtain ⟨h1, h2⟩ := h'.pushed
    rw [h1]; unfold pushCredit; rw [h2]; exact Nat.le_refl _
  | janitor h' =>
    obtain ⟨h1, h2⟩ := h'.pushed
    rw [h1]; unfold pushCredit; rw [h2]; exact Nat.le_refl _
  | reader h' =>
    cases h' with
    | begin hr t hn =>
      cases hn <;> simp_all [pushCredit, inFlight_len, hashedSoFar]
    | put k hr hc t hn =>
      cases hn <;> simp_all [pushCredit, inFlight_len, hashedSoFar] <;> omega
    | close hr hc => simp_all [pushCredit, inFlight_len, hashedSoFar]

/-- a reader that has left its loop stays out of it and pushes nothing -/
theorem StepG.left {cfg : Cfg} {s s' : State} (hA : InvA cfg s) (hl : readerLeft s)
    (hs : StepG cfg s s') : readerLeft s' ∧ (inFlight s').length = (inFlight s).length := by
  unfold readerLeft at hl ⊢
  cases hs with
  | main h' =>
    obtain ⟨h1, h2⟩ := h'.pushed hA
    refine ⟨?_, h1⟩
    rcases h2 with h2 | ⟨h2, _⟩
    · rw [h2]; exact hl
    · rw [h2] at hl; simp at hl
  | hasher i h' =>
    obtain ⟨h1, h2⟩ := h'.pushed
    exact ⟨h2 ▸ hl, h1⟩
  | janitor h' =>
    obtain ⟨h1, h2⟩ := h'.pushed
    exact ⟨h2 ▸ hl, h1⟩
  | reader h' =>
    cases h' with
    | begin hr t hn => rw [hr] at hl; simp at hl
    | put k hr hc t hn => rw [hr] at hl; simp at hl
    | close hr hc => simp [inFlight_len, hashedSoFar]

/-! ### along a run -/

theorem stopped_run {cfg : Cfg} {s s' : State} {ls : List Label} (hr : Reachable cfg s)
    (hstop : s.stop = true) (hrun : run cfg s ls = some s') :
    s'.stop = true ∧ (inFlight s').length + pushCredit s' ≤ (inFlight s).length + pushCredit s := by
  refine run_induction
    (P := fun t => t.stop = true ∧
      (inFlight t).length + pushCredit t ≤ (inFlight s).length + pushCredit s)
    ?_ ls s s' hr ⟨hstop, Nat.le_refl _⟩ hrun
  intro t t' l hre ⟨h1, h2⟩ hst
  have hA := InvA.of_reachable hre
  have hg := StepG.of_step hA hst
  exact ⟨hg.mono.1 h1, Nat.le_trans (hg.stopped hA h1) h2⟩

theorem left_run {cfg : Cfg} {s s' : State} {ls : List Label} (hr : Reachable cfg s)
    (hl : readerLeft s) (hrun : run cfg s ls = some s') :
    readerLeft s' ∧ (inFlight s').length = (inFlight s).length := by
  refine run_induction
    (P := fun t => readerLeft t ∧ (inFlight t).length = (inFlight s).length)
    ?_ ls s s' hr ⟨hl, rfl⟩ hrun
  intro t t' l hre ⟨h1, h2⟩ hst
  have hA := InvA.of_reachable hre
  have hg := StepG.of_step hA hst
  obtain ⟨h3, h4⟩ := hg.left hA h1
  exact ⟨h3, h4.trans h2⟩

theorem pushCredit_le_one (s : State) : pushCredit s ≤ 1 := by
  unfold pushCredit; split <;> omega

/-- pieces taken from the piece queue whose result has not been delivered yet: at most one per
    hasher -/
theorem InvG.held_le {cfg : Cfg} {s : State} (h : InvG cfg s) : (s.hs.filterMap hk).length ≤ cfg.N := by
  rw [← h.len]; exact List.length_filterMap_le _ _

theorem InvG.pq_le {cfg : Cfg} {s : State} (h : InvG cfg s) : (s.pq.filterMap id).length ≤ cfg.cap :=
  Nat.le_trans (List.length_filterMap_le _ _) h.pqcap

end Torf.Pipeline
