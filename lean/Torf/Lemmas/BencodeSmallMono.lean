/-
  `small` is monotone in the digit limit and every value is small for some limit, so statements
  about canonical values need no common limit.
-/
import Torf.Lemmas.BencodeNorm
namespace Torf.Bencode

mutual
theorem small_mono {a b : Nat} (h : a ≤ b) : ∀ v : BVal, small a v = true → small b v = true
  | .int _, hs => by simp only [small, decide_eq_true_eq] at hs ⊢; omega
  | .bytes _, hs => by simp only [small, decide_eq_true_eq] at hs ⊢; omega
  | .list l, hs => by simp only [small] at hs ⊢; exact smallList_mono h l hs
  | .dict kvs, hs => by simp only [small] at hs ⊢; exact smallKvs_mono h kvs hs
theorem smallList_mono {a b : Nat} (h : a ≤ b) : ∀ l : List BVal, smallList a l = true →
    smallList b l = true
  | [], _ => rfl
  | v :: t, hs => by
    simp only [smallList, Bool.and_eq_true] at hs ⊢
    exact ⟨small_mono h v hs.1, smallList_mono h t hs.2⟩
theorem smallKvs_mono {a b : Nat} (h : a ≤ b) : ∀ kvs : List (Bytes × BVal),
    smallKvs a kvs = true → smallKvs b kvs = true
  | [], _ => rfl
  | (k, v) :: t, hs => by
    simp only [smallKvs, Bool.and_eq_true, decide_eq_true_eq] at hs ⊢
    exact ⟨⟨by omega, small_mono h v hs.1.2⟩, smallKvs_mono h t hs.2⟩
end

mutual
theorem exists_small : ∀ v : BVal, ∃ lim, small lim v = true
  | .int i => ⟨numDigits i, by simp [small]⟩
  | .bytes b => ⟨(decNat b.length).length, by simp [small]⟩
  | .list l => by obtain ⟨n, hn⟩ := exists_smallList l; exact ⟨n, by simpa [small] using hn⟩
  | .dict kvs => by obtain ⟨n, hn⟩ := exists_smallKvs kvs; exact ⟨n, by simpa [small] using hn⟩
theorem exists_smallList : ∀ l : List BVal, ∃ lim, smallList lim l = true
  | [] => ⟨0, rfl⟩
  | v :: t => by
    obtain ⟨a, ha⟩ := exists_small v
    obtain ⟨b, hb⟩ := exists_smallList t
    refine ⟨max a b, ?_⟩
    simp only [smallList, Bool.and_eq_true]
    exact ⟨small_mono (Nat.le_max_left a b) v ha, smallList_mono (Nat.le_max_right a b) t hb⟩
theorem exists_smallKvs : ∀ kvs : List (Bytes × BVal), ∃ lim, smallKvs lim kvs = true
  | [] => ⟨0, rfl⟩
  | (k, v) :: t => by
    obtain ⟨a, ha⟩ := exists_small v
    obtain ⟨b, hb⟩ := exists_smallKvs t
    refine ⟨max (decNat k.length).length (max a b), ?_⟩
    simp only [smallKvs, Bool.and_eq_true, decide_eq_true_eq]
    refine ⟨⟨Nat.le_max_left _ _, small_mono ?_ v ha⟩, smallKvs_mono ?_ t hb⟩
    · exact Nat.le_trans (Nat.le_max_left a b) (Nat.le_max_right _ _)
    · exact Nat.le_trans (Nat.le_max_right a b) (Nat.le_max_right _ _)
end

/-- canonical values with the same serialisation are equal — no digit limit involved -/
theorem ser_inj_canon (v w : BVal) (hv : canon v = true) (hw : canon w = true)
    (h : ser v = ser w) : v = w := by
  obtain ⟨a, ha⟩ := exists_small v
  obtain ⟨b, hb⟩ := exists_small w
  have h1 := parse_ser (max a b) v hv (small_mono (Nat.le_max_left a b) v ha)
  have h2 := parse_ser (max a b) w hw (small_mono (Nat.le_max_right a b) w hb)
  rw [h] at h1
  exact Option.some.inj (h1.symm.trans h2)

end Torf.Bencode
