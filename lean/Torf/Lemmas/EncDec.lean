/-
  `encode_value ∘ decode_value` is the identity on canonical values whose dict keys are UTF-8.
-/
import Torf.Lemmas.CodecRep
import Torf.Spec.RoundTrip
namespace Torf.ReadStream
open Torf Torf.Bencode Torf.Codec

theorem bytes_roundtrip (b : Bytes) : encodeValue (decodeBytes b) = .ok (.bytes b) := by
  unfold decodeBytes
  split
  · rename_i s hs
    simp only [encodeValue, Except.ok.injEq, BVal.bytes.injEq]
    exact utf8Enc_of_dec hs
  · rfl

mutual
theorem enc_dec : ∀ v : BVal, canon v = true → utf8Keys v = true →
    encodeValue (decodeValue v) = .ok v
  | .int _, _, _ => rfl
  | .bytes b, _, _ => bytes_roundtrip b
  | .list l, hc, hu => by
    simp only [decodeValue, encodeValue,
      enc_decList l (by simpa [canon] using hc) (by simpa [utf8Keys] using hu)]
  | .dict kvs, hc, hu => by
    simp only [canon, Bool.and_eq_true] at hc
    simp only [decodeValue]
    exact encodeValue_dict_of_rep (enc_decKvs kvs hc.2 (by simpa [utf8Keys] using hu))
      (List.Perm.refl _) hc.1
theorem enc_decList : ∀ l : List BVal, canonList l = true → utf8KeysList l = true →
    encodeList (decodeList l) = .ok l
  | [], _, _ => rfl
  | v :: t, hc, hu => by
    simp only [canonList, utf8KeysList, Bool.and_eq_true] at hc hu
    simp only [decodeList, encodeList, enc_dec v hc.1 hu.1, enc_decList t hc.2 hu.2]
theorem enc_decKvs : ∀ kvs : List (Bytes × BVal), canonKvs kvs = true → utf8KeysKvs kvs = true →
    Rep (decodeKvs kvs) kvs
  | [], _, _ => Rep.nil
  | (k, v) :: t, hc, hu => by
    simp only [canonKvs, utf8KeysKvs, Bool.and_eq_true] at hc hu
    obtain ⟨s, hs⟩ := Option.isSome_iff_exists.mp hu.1.1
    have hk := utf8Enc_of_dec hs
    simp only [decodeKvs, decodeBytes_of_dec hs]
    subst hk
    exact Rep.cons (enc_dec v hc.1 hu.1.2) (enc_decKvs t hc.2 hu.2)
end

theorem utf8KeysKvs_iff (l : List (Bytes × BVal)) :
    utf8KeysKvs l = true ↔ ∀ p ∈ l, (utf8Dec p.1).isSome = true ∧ utf8Keys p.2 = true := by
  induction l with
  | nil => simp [utf8KeysKvs]
  | cons p t ih => obtain ⟨k, v⟩ := p; simp [utf8KeysKvs, ih, and_assoc]

end Torf.ReadStream
