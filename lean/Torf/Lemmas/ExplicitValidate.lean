/-
  The hypothesis "validation only accepts a metainfo whose `info` entry is a dict" of the C06
  theorems about the explicitly stored hash holds for the model of `Torrent.validate()` that C07
  proves things about (`Torf.Validate.validate`, any URL oracle, any file-system oracle).
  Owned by C06; reads C07's files, changes none.
-/
import Torf.Lemmas.ValidateTop
import Torf.Lemmas.Dump
import Torf.Model.ReadStream
namespace Torf.ReadStream
open Torf

/-- the C07 model of `Torrent.validate()` used as the `Env.validate` oracle -/
def validateOracle (urlOk : List UInt8 → Bool) (fs : Validate.FsOracle) : PyVal → Bool
  | .dict items => (Validate.validate urlOk fs items).toBool
  | _ => false

theorem validateOracle_info_dict (urlOk : List UInt8 → Bool) (fs : Validate.FsOracle)
    (md : List (PyVal × PyVal))
    (h : validateOracle urlOk fs (.dict (ensureInfo md)) = true) :
    ∃ ikvs, PyVal.lookupStr "info" (ensureInfo md) = some (.dict ikvs) := by
  obtain ⟨u, hu⟩ := exists_ok_of_toBool (x := Validate.validate urlOk fs (ensureInfo md)) h
  cases u
  obtain ⟨vf, _⟩ := Validate.validate_ok urlOk fs hu
  obtain ⟨info, _, cf, _⟩ := vf.ex
  exact ⟨info, cf.hinfo⟩

end Torf.ReadStream
