/-
  Helper lemmas for C10 (part 6): the step of the main loop for a bad file.
-/
import Torf.Lemmas.MissingBad
namespace Torf.Missing
open Torf

theorem noBadEmpty_size (sizes : List Nat) (disk : List (Option (List α)))
    (hyp : NoBadEmpty sizes disk = true) (k : Nat) (hk : k < sizes.length)
    (hbad : fileError sizes disk k ≠ none) : 0 < sizeOf sizes k := by
  unfold NoBadEmpty at hyp
  rw [List.all_eq_true] at hyp
  have := hyp k (List.mem_range.mpr hk)
  cases h : fileError sizes disk k with
  | none => exact absurd h hbad
  | some e =>
    simp [h] at this
    omega

/-- the piece indexes left after Python's remove-while-iterating are exactly the pieces not yet
    emitted: `[q .. b]` -/
theorem pis_eq (L : Nat) (hL : 0 < L) (sizes : List Nat) (disk : List (Option (List α)))
    (st : St α) (m : Nat) (hm : m < sizes.length) (hS : 0 < sizeOf sizes m)
    (hc : Core L sizes disk m st) :
    st.out.length ≤ (pos sizes m + sizeOf sizes m - 1) / L ∧
    pyRemoveSeen st.seen (pieceIndexesOfFile L sizes m) =
      List.range' st.out.length ((pos sizes m + sizeOf sizes m - 1) / L + 1 - st.out.length) ∧
    pos sizes m < st.out.length * L + L := by
  rw [pieceIndexesOfFile_eq L sizes m hS]
  have hq : st.out.length * L ≤ pos sizes m + st.skip := by
    rcases hc.le with h | h
    · exact h
    · omega
  have hlt := hc.lt
  have hskiplt := hc.skiplt
  have hseenlt := hc.seenlt
  have hskipc := hc.skipc
  generalize st.out.length = q at *
  generalize hb : (pos sizes m + sizeOf sizes m - 1) / L = b
  by_cases h0 : 0 < st.skip
  · obtain ⟨_, _, hsS, heq, hseen, hqpos⟩ := hskipc h0
    obtain ⟨q0, rfl⟩ : ∃ q0, q = q0 + 1 := ⟨q - 1, by omega⟩
    have hmul : (q0 + 1) * L = q0 * L + L := Nat.succ_mul _ _
    have ha : pos sizes m / L = q0 := by
      apply Nat.div_eq_of_lt_le
      · omega
      · omega
    have hqb : q0 + 1 ≤ b := by
      rw [← hb, Nat.le_div_iff_mul_le hL]; omega
    refine ⟨hqb, ?_, by omega⟩
    rw [ha]
    have e1 : b + 1 - q0 = (b - (q0 + 1)) + 1 + 1 := by omega
    rw [e1, List.range'_succ, List.range'_succ]
    rw [pyRemoveSeen_head_seen st.seen q0 (q0 + 1) _ (by simpa using hseen)]
    · rw [← List.range'_succ]
      congr 1; omega
    · intro z hz hzs
      rw [List.mem_range'_1] at hz
      have := hseenlt z hzs
      omega
  · have hs0 : st.skip = 0 := by omega
    rw [hs0] at hq hlt
    have ha : pos sizes m / L = q := by
      apply Nat.div_eq_of_lt_le
      · omega
      · rw [Nat.succ_mul]; omega
    have hqb : q ≤ b := by
      rw [← hb, ← ha]; exact Nat.div_le_div_right (by omega)
    refine ⟨hqb, ?_, by omega⟩
    rw [ha]
    apply pyRemoveSeen_of_not_mem
    intro z hz hzs
    rw [List.mem_range'_1] at hz
    have := hseenlt z hzs
    omega

theorem affected_decomp (L : Nat) (sizes : List Nat) (b m : Nat) (hm : m < sizes.length)
    (hat : atPiece L sizes b m = true)
    (hdown : ∀ k k', m + 1 ≤ k' → k' < k → k < sizes.length →
      atPiece L sizes b k = true → atPiece L sizes b k' = true) :
    ∃ c, c ≤ sizes.length - m - 1 ∧
      ((List.range sizes.length).filter (atPiece L sizes b)).erase m =
        (List.range m).filter (atPiece L sizes b) ++ List.range' (m + 1) c ∧
      (∀ k, m + 1 ≤ k → k < m + 1 + c → atPiece L sizes b k = true) ∧
      (c < sizes.length - m - 1 → atPiece L sizes b (m + 1 + c) = false) := by
  obtain ⟨c, hcle, hf, hall, hnext⟩ :=
    filter_range'_downward (atPiece L sizes b) (m + 1) (sizes.length - m - 1)
      (fun k k' h1 h2 h3 h4 => hdown k k' h1 h2 (by omega) h4)
  refine ⟨c, hcle, ?_, hall, hnext⟩
  rw [range_split m sizes.length hm, List.filter_append, List.filter_cons, hat]
  simp only [if_true]
  rw [List.erase_append_right _ (by simp), List.erase_cons_head, hf]

theorem step_bad (L : Nat) (hL : 0 < L) (sizes : List Nat) (disk : List (Option (List α)))
    (hyp : NoBadEmpty sizes disk = true) (st : St α) (m : Nat) (hm : m < sizes.length)
    (hnb : st.bycatch.contains m = false) (reason : ErrKind)
    (hbad : fileError sizes disk m = some reason)
    (hby : ∀ k, m ≤ k → k ∉ st.bycatch) (hc : Core L sizes disk m st) :
    ∃ m', m < m' ∧ m' ≤ sizes.length ∧ Core L sizes disk m' (step L sizes disk st m) ∧
      ∀ k, m < k → (k ∈ (step L sizes disk st m).bycatch ↔ k < m') := by
  have hbadne : fileError sizes disk m ≠ none := by rw [hbad]; simp
  have hS := noBadEmpty_size sizes disk hyp m hm hbadne
  obtain ⟨hqb, hpis, hPm⟩ := pis_eq L hL sizes disk st m hm hS hc
  have hps := pos_succ sizes m
  have hdm := Nat.div_add_mod (pos sizes m + sizeOf sizes m - 1) L
  have hml := Nat.mod_lt (pos sizes m + sizeOf sizes m - 1) hL
  rw [Nat.mul_comm] at hdm
  generalize hbdef : (pos sizes m + sizeOf sizes m - 1) / L = b at hqb hpis hdm
  have hb1 : b * L < pos sizes (m + 1) := by omega
  have hb2 : pos sizes (m + 1) ≤ b * L + L := by omega
  have hat : atPiece L sizes b m = true :=
    (atPiece_iff L hL sizes b m).mpr (Or.inr (Or.inl ⟨hb1, hb2⟩))
  have hdown : ∀ k k', m + 1 ≤ k' → k' < k → k < sizes.length →
      atPiece L sizes b k = true → atPiece L sizes b k' = true := by
    intro k k' h1 h2 _ hk
    rw [atPiece_iff L hL] at hk ⊢
    have := pos_mono sizes h1
    have := pos_mono sizes (show k' ≤ k' + 1 by omega)
    have := pos_mono sizes (show k' + 1 ≤ k by omega)
    have := pos_mono sizes (show k ≤ k + 1 by omega)
    omega
  obtain ⟨c, hcle, hdecomp, hall, hnext⟩ := affected_decomp L sizes b m hm hat hdown
  have hqL : st.out.length * L ≤ b * L := Nat.mul_le_mul_right L hqb
  -- earlier files selected with the last fake piece are good
  have hearly : ∀ k ∈ (List.range m).filter (atPiece L sizes b), fileError sizes disk k = none := by
    intro k hk
    rw [List.mem_filter, List.mem_range] at hk
    obtain ⟨hkm, hka⟩ := hk
    apply Classical.byContradiction
    intro hkbad
    have h1 := hc.badpast k hkm hkbad
    have h2 := noBadEmpty_size sizes disk hyp k (by omega) hkbad
    have h3 := pos_succ sizes k
    rw [atPiece_iff L hL] at hka
    omega
  generalize hearlydef : (List.range m).filter (atPiece L sizes b) = early at hdecomp hearly
  have hearlylt : ∀ k ∈ early, k < m := by
    intro k hk
    rw [← hearlydef, List.mem_filter, List.mem_range] at hk
    exact hk.1
  -- evaluate the step
  have hfs : filesAtPieceIndex L sizes b =
      some ((List.range sizes.length).filter (atPiece L sizes b)) := by
    unfold filesAtPieceIndex
    rw [filesAtByteRange_eq]
    have hmem : m ∈ (List.range sizes.length).filter (atPiece L sizes b) := by
      rw [List.mem_filter, List.mem_range]; exact ⟨hm, hat⟩
    have : ((List.range sizes.length).filter (atPiece L sizes b)).isEmpty = false := by
      cases hl : (List.range sizes.length).filter (atPiece L sizes b) with
      | nil => rw [hl] at hmem; cases hmem
      | cons _ _ => rfl
    simp only [this, Bool.false_eq_true, if_false]
  have hmem : ((List.range sizes.length).filter (atPiece L sizes b)).contains m = true := by
    rw [List.contains_iff_mem, List.mem_filter, List.mem_range]; exact ⟨hm, hat⟩
  have hcnt : 0 < b + 1 - st.out.length := by omega
  have hlast : (List.range' st.out.length (b + 1 - st.out.length)).getLast? = some b := by
    rw [List.getLast?_range']
    have : ¬ (b + 1 - st.out.length = 0) := by omega
    simp only [this, if_false]
    congr 1; omega
  have hstep : step L sizes disk st m =
      { st with trailing := [], skip := (skipBy L sizes b (early ++ List.range' (m + 1) c)).1,
                seen := st.seen ++ List.range' st.out.length (b + 1 - st.out.length),
                bycatch := st.bycatch ++ (skipBy L sizes b (early ++ List.range' (m + 1) c)).2,
                out := st.out ++ mkItems m reason (b + 1 - st.out.length)
                  (bycatchExcs sizes disk (skipBy L sizes b (early ++ List.range' (m + 1) c)).2) } := by
    unfold step
    simp only [hc.nofail, hnb, hbad, Bool.false_eq_true, if_false]
    rw [missingCall_eq L sizes disk st.seen st.bycatch m reason _ b _ hpis hlast hfs hmem]
    simp only [hdecomp, List.length_range']
  by_cases hA : 0 < c ∧ b * L + L < pos sizes (m + c + 1)
  · -- the last affected file reaches beyond the fake piece: it is read from `skip` on
    obtain ⟨hc0, hreach⟩ := hA
    obtain ⟨c0, rfl⟩ : ∃ c0, c = c0 + 1 := ⟨c - 1, by omega⟩
    have hn : (early ++ List.range' (m + 1) (c0 + 1)).getLast? = some (m + (c0 + 1)) := by
      rw [List.range'_1_concat, ← List.append_assoc, List.getLast?_concat]
      congr 1; omega
    have hdl : (early ++ List.range' (m + 1) (c0 + 1)).dropLast = early ++ List.range' (m + 1) c0 := by
      rw [List.range'_1_concat, ← List.append_assoc, List.dropLast_concat]
    rw [skipBy_reach L sizes b _ (m + (c0 + 1)) hn hreach, hdl] at hstep
    have hnat := hall (m + (c0 + 1)) (by omega) (by omega)
    rw [atPiece_iff L hL] at hnat
    have hp1 := pos_mono sizes (show m + 1 ≤ m + (c0 + 1) by omega)
    have hp2 := pos_succ sizes (m + (c0 + 1))
    refine ⟨m + (c0 + 1), by omega, by omega, ?_, ?_⟩
    · rw [hstep]
      apply core_after_bad L hL sizes disk st m hm reason hbad hS hc b hb1 hb2 hqb hPm
        (m + (c0 + 1)) _ _ (by omega) (by omega)
      · rw [bycatchExcs_append, bycatchExcs_good sizes disk early hearly, List.nil_append]
        unfold bycatchExcs
        congr 2; omega
      · omega
      · left; omega
      · intro _
        refine ⟨by omega, by omega, by omega, by omega⟩
    · intro k hk
      rw [hstep]
      show k ∈ st.bycatch ++ (early ++ List.range' (m + 1) c0) ↔ _
      rw [List.mem_append, List.mem_append, List.mem_range'_1]
      constructor
      · rintro (h | h | h)
        · exact absurd h (hby k (by omega))
        · have := hearlylt k h; omega
        · omega
      · intro h; right; right; omega
  · -- no affected file reaches beyond the fake piece
    have hnr : skipBy L sizes b (early ++ List.range' (m + 1) c) =
        (0, early ++ List.range' (m + 1) c) := by
      apply skipBy_noreach
      intro next hnext'
      by_cases hc0 : c = 0
      · subst hc0
        rw [List.range'_zero, List.append_nil] at hnext'
        have h1 := hearlylt next (List.mem_of_getLast? hnext')
        have := pos_mono sizes (show next + 1 ≤ m + 1 by omega)
        omega
      · obtain ⟨c0, rfl⟩ : ∃ c0, c = c0 + 1 := ⟨c - 1, by omega⟩
        rw [List.range'_1_concat, ← List.append_assoc, List.getLast?_concat] at hnext'
        have : next = m + (c0 + 1) := by
          have := Option.some.inj hnext'; omega
        subst this
        have : ¬ (b * L + L < pos sizes (m + (c0 + 1) + 1)) := fun h => hA ⟨by omega, h⟩
        omega
    rw [hnr] at hstep
    have hPm' : pos sizes (m + c + 1) ≤ b * L + L := by
      by_cases hc0 : c = 0
      · subst hc0; exact hb2
      · have : ¬ (b * L + L < pos sizes (m + c + 1)) := fun h => hA ⟨by omega, h⟩
        omega
    have hp1 := pos_mono sizes (show m + 1 ≤ m + c + 1 by omega)
    refine ⟨m + c + 1, by omega, by omega, ?_, ?_⟩
    · rw [hstep]
      apply core_after_bad L hL sizes disk st m hm reason hbad hS hc b hb1 hb2 hqb hPm
        (m + c + 1) 0 _ (by omega) (by omega)
      · rw [bycatchExcs_append, bycatchExcs_good sizes disk early hearly, List.nil_append]
        unfold bycatchExcs
        congr 2; omega
      · omega
      · by_cases hlast' : m + c + 1 = sizes.length
        · right; exact hlast'
        · left
          have hna := hnext (by omega)
          rw [show m + 1 + c = m + c + 1 by omega] at hna
          have hna' : ¬ (atPiece L sizes b (m + c + 1) = true) := by rw [hna]; simp
          rw [atPiece_iff L hL] at hna'
          omega
      · intro h; omega
    · intro k hk
      rw [hstep]
      show k ∈ st.bycatch ++ (early ++ List.range' (m + 1) c) ↔ _
      rw [List.mem_append, List.mem_append, List.mem_range'_1]
      constructor
      · rintro (h | h | h)
        · exact absurd h (hby k (by omega))
        · have := hearlylt k h; omega
        · omega
      · intro h; right; right; omega

end Torf.Missing
