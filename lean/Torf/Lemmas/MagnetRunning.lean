/-
  Helper lemmas for `get_info()` with interleaved operations (C14): invariants of the loop and
  the congruence "two semantics that agree on the reachable states give the same run".
-/
import Torf.Spec.MagnetHash
namespace Torf.Magnet

/-! ### invariants: a predicate kept by every operation and every arrival is kept by the call -/

theorem runCb_inv (sem : Sem) (P : GState → Prop)
    (hact : ∀ st a, P st → P (actStep sem st a).2) :
    ∀ (acts : List Act) (st : GState), P st → P (runCb sem st acts).2 := by
  intro acts
  induction acts with
  | nil => intro st h; exact h
  | cons a rest ih =>
    intro st h
    have h1 := hact st a h
    unfold runCb
    cases hs : actStep sem st a with
    | mk e st' =>
      rw [hs] at h1
      cases e with
      | some e => exact h1
      | none => exact ih st' h1

theorem runThread_inv (sem : Sem) (P : GState → Prop)
    (hact : ∀ st a, P st → P (actStep sem st a).2) :
    ∀ (acts : List Act) (st : GState), P st → P (runThread sem st acts).2 := by
  intro acts
  induction acts with
  | nil => intro st h; exact h
  | cons a rest ih =>
    intro st h
    exact ih _ (hact st a h)

theorem answer_inv (sem : Sem) (P : GState → Prop) (validate hasCb : Bool)
    (hact : ∀ st a, P st → P (actStep sem st a).2)
    (harr : ∀ st h ne m', P st → sem.arrived validate st.m h ne = .ok m' → P { st with m := m' })
    (st : GState) (inCb : List Act) (sv : Served) (h : P st) :
    P (answer sem validate hasCb st inCb sv).2.1 := by
  cases sv with
  | torrent ih ne =>
    simp only [answer]
    cases hs : sem.arrived validate st.m ih ne with
    | error e => exact h
    | ok m' => exact harr st ih ne m' h hs
  | connError =>
    simp only [answer]
    cases hasCb with
    | true => exact runCb_inv sem P hact inCb st h
    | false => exact h
  | unreadable =>
    simp only [answer]
    cases hasCb with
    | true => exact runCb_inv sem P hact inCb st h
    | false => exact h

theorem loopCb_inv (sem : Sem) (P : GState → Prop) (validate hasCb : Bool) (world : Str → Served)
    (hact : ∀ st a, P st → P (actStep sem st a).2)
    (harr : ∀ st h ne m', P st → sem.arrived validate st.m h ne = .ok m' → P { st with m := m' }) :
    ∀ (urls : List Str) (st : GState) (vs : List Visit), P st →
      P (loopCb sem validate hasCb world st urls vs).st := by
  intro urls
  induction urls with
  | nil => intro st vs h; exact h
  | cons u us ih =>
    intro st vs h
    have h1 := runThread_inv sem P hact (vs.headD {}).during st h
    have h2 := answer_inv sem P validate hasCb hact harr _ (vs.headD {}).inCb (world u) h1
    unfold loopCb
    dsimp only
    split
    · exact h2
    · exact ih _ _ h2

theorem getInfoCb_inv (sem : Sem) (P : GState → Prop) (validate hasCb : Bool) (world : Str → Served)
    (hact : ∀ st a, P st → P (actStep sem st a).2)
    (harr : ∀ st h ne m', P st → sem.arrived validate st.m h ne = .ok m' → P { st with m := m' })
    (st : GState) (vs : List Visit) (h : P st) :
    P (getInfoCb sem validate hasCb world st vs).st := by
  unfold getInfoCb
  cases st.m.hash with
  | none => exact h
  | some ih =>
    dsimp only
    cases torrentUrls ih st.src with
    | error e => exact h
    | ok urls => exact loopCb_inv sem P validate hasCb world hact harr urls st vs h

/-! ### congruence: semantics that agree on the states of an invariant give the same run -/

theorem actStep_congr (s1 s2 : Sem) (st : GState)
    (hass : ∀ op, s1.assign st.m op = s2.assign st.m op) (a : Act) :
    actStep s1 st a = actStep s2 st a := by
  cases a with
  | hash op => simp only [actStep, hass op]
  | setXs v => rfl
  | setAs v => rfl
  | setWs vs => rfl
  | setTr vs => rfl
  | urlRejected => rfl

theorem runCb_congr (s1 s2 : Sem) (P : GState → Prop)
    (hact : ∀ st a, P st → P (actStep s1 st a).2)
    (hass : ∀ st op, P st → s1.assign st.m op = s2.assign st.m op) :
    ∀ (acts : List Act) (st : GState), P st → runCb s1 st acts = runCb s2 st acts := by
  intro acts
  induction acts with
  | nil => intro st _; rfl
  | cons a rest ih =>
    intro st h
    have e := actStep_congr s1 s2 st (fun op => hass st op h) a
    have h1 := hact st a h
    unfold runCb
    rw [← e]
    cases hs : actStep s1 st a with
    | mk err st' =>
      rw [hs] at h1
      cases err with
      | some e => rfl
      | none => exact ih st' h1

theorem runThread_congr (s1 s2 : Sem) (P : GState → Prop)
    (hact : ∀ st a, P st → P (actStep s1 st a).2)
    (hass : ∀ st op, P st → s1.assign st.m op = s2.assign st.m op) :
    ∀ (acts : List Act) (st : GState), P st → runThread s1 st acts = runThread s2 st acts := by
  intro acts
  induction acts with
  | nil => intro st _; rfl
  | cons a rest ih =>
    intro st h
    have e := actStep_congr s1 s2 st (fun op => hass st op h) a
    unfold runThread
    rw [← e]
    dsimp only
    rw [ih _ (hact st a h)]

theorem answer_congr (s1 s2 : Sem) (P : GState → Prop) (validate hasCb : Bool)
    (hact : ∀ st a, P st → P (actStep s1 st a).2)
    (hass : ∀ st op, P st → s1.assign st.m op = s2.assign st.m op)
    (harr : ∀ st h ne, P st → s1.arrived validate st.m h ne = s2.arrived validate st.m h ne)
    (st : GState) (inCb : List Act) (sv : Served) (h : P st) :
    answer s1 validate hasCb st inCb sv = answer s2 validate hasCb st inCb sv := by
  cases sv with
  | torrent ih ne => simp only [answer, harr st ih ne h]
  | connError => simp only [answer, runCb_congr s1 s2 P hact hass inCb st h]
  | unreadable => simp only [answer, runCb_congr s1 s2 P hact hass inCb st h]

theorem loopCb_congr (s1 s2 : Sem) (P : GState → Prop) (validate hasCb : Bool) (world : Str → Served)
    (hact : ∀ st a, P st → P (actStep s1 st a).2)
    (harrP : ∀ st h ne m', P st → s1.arrived validate st.m h ne = .ok m' → P { st with m := m' })
    (hass : ∀ st op, P st → s1.assign st.m op = s2.assign st.m op)
    (harr : ∀ st h ne, P st → s1.arrived validate st.m h ne = s2.arrived validate st.m h ne) :
    ∀ (urls : List Str) (st : GState) (vs : List Visit), P st →
      loopCb s1 validate hasCb world st urls vs = loopCb s2 validate hasCb world st urls vs := by
  intro urls
  induction urls with
  | nil => intro st vs _; rfl
  | cons u us ih =>
    intro st vs h
    have e1 := runThread_congr s1 s2 P hact hass (vs.headD {}).during st h
    have h1 := runThread_inv s1 P hact (vs.headD {}).during st h
    have e2 := answer_congr s1 s2 P validate hasCb hact hass harr _ (vs.headD {}).inCb (world u) h1
    have h2 := answer_inv s1 P validate hasCb hact harrP _ (vs.headD {}).inCb (world u) h1
    unfold loopCb
    dsimp only
    rw [← e1, ← e2, ih _ vs.tail h2]

theorem getInfoCb_congr (s1 s2 : Sem) (P : GState → Prop) (validate hasCb : Bool) (world : Str → Served)
    (hact : ∀ st a, P st → P (actStep s1 st a).2)
    (harrP : ∀ st h ne m', P st → s1.arrived validate st.m h ne = .ok m' → P { st with m := m' })
    (hass : ∀ st op, P st → s1.assign st.m op = s2.assign st.m op)
    (harr : ∀ st h ne, P st → s1.arrived validate st.m h ne = s2.arrived validate st.m h ne)
    (st : GState) (vs : List Visit) (h : P st) :
    getInfoCb s1 validate hasCb world st vs = getInfoCb s2 validate hasCb world st vs := by
  unfold getInfoCb
  cases st.m.hash with
  | none => rfl
  | some ih =>
    dsimp only
    cases torrentUrls ih st.src with
    | error e => rfl
    | ok urls => exact loopCb_congr s1 s2 P validate hasCb world hact harrP hass harr urls st vs h

end Torf.Magnet
