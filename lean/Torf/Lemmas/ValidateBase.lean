/-
  Generic lemmas about the building blocks of `Torf.Model.Validate`: `getItem`, `keyExists`,
  `assertFinal`, the magnitude bound that excludes finding D07j, lookups.
-/
import Torf.Lemmas.Export
namespace Torf.Validate
open Torf Torf.Export

/-! ### the int→str limit -/

/-- the value is below the int→str limit in total -/
def Small (v : PyVal) : Prop := sumAbs v < 10 ^ maxStrDigits

theorem maxStrDigits_ge : 3 ≤ maxStrDigits := by decide

theorem pow3_le_bound : (10 : Nat) ^ 3 ≤ 10 ^ maxStrDigits :=
  Nat.pow_le_pow_right (by omega) maxStrDigits_ge

theorem bound_ge : 256 ≤ 10 ^ maxStrDigits := by
  have h2 : (256 : Nat) ≤ 10 ^ 3 := by omega
  exact Nat.le_trans h2 pow3_le_bound

attribute [local irreducible] maxStrDigits in
mutual
theorem reprFails_le : ∀ v, reprFails v = true → 10 ^ maxStrDigits ≤ sumAbs v
  | .int i, h => by
    simp only [reprFails] at h
    unfold intTooBig at h
    show 10 ^ maxStrDigits ≤ i.natAbs
    exact of_decide_eq_true h
  | .list l, h => by
    simp only [reprFails] at h; simp only [sumAbs]; exact reprFailsList_le l h
  | .tuple l, h => by
    simp only [reprFails] at h; simp only [sumAbs]; exact reprFailsList_le l h
  | .dict kvs, h => by
    simp only [reprFails] at h; simp only [sumAbs]; exact reprFailsKvs_le kvs h
  | .none, h => by simp [reprFails] at h
  | .bool _, h => by simp [reprFails] at h
  | .float _, h => by simp [reprFails] at h
  | .str _, h => by simp [reprFails] at h
  | .bytes _, h => by simp [reprFails] at h
  | .datetime _, h => by simp [reprFails] at h
  | .other _, h => by simp [reprFails] at h
theorem reprFailsList_le : ∀ l, reprFailsList l = true → 10 ^ maxStrDigits ≤ sumAbsList l
  | [], h => by simp [reprFailsList] at h
  | v :: r, h => by
    simp only [reprFailsList, Bool.or_eq_true] at h
    simp only [sumAbsList]
    rcases h with h | h
    · have := reprFails_le v h; omega
    · have := reprFailsList_le r h; omega
theorem reprFailsKvs_le : ∀ l, reprFailsKvs l = true → 10 ^ maxStrDigits ≤ sumAbsKvs l
  | [], h => by simp [reprFailsKvs] at h
  | (k, v) :: r, h => by
    simp only [reprFailsKvs, Bool.or_eq_true] at h
    simp only [sumAbsKvs]
    rcases h with (h | h) | h
    · have := reprFails_le k h; omega
    · have := reprFails_le v h; omega
    · have := reprFailsKvs_le r h; omega
end

theorem Small.repr {v : PyVal} (h : Small v) : reprFails v = false := by
  cases hr : reprFails v with
  | false => rfl
  | true => have := reprFails_le v hr; unfold Small at h; omega

theorem sumAbs_lookupStr {k : String} {kvs : List (PyVal × PyVal)} {v : PyVal}
    (h : PyVal.lookupStr k kvs = some v) : sumAbs v ≤ sumAbsKvs kvs := by
  induction kvs with
  | nil => simp [PyVal.lookupStr] at h
  | cons p t ih =>
    obtain ⟨k', v'⟩ := p
    simp only [sumAbsKvs]
    cases k' with
    | str s =>
      simp only [PyVal.lookupStr] at h
      split at h
      · simp only [Option.some.injEq] at h; subst h; omega
      · have := ih h; omega
    | _ => simp only [PyVal.lookupStr] at h; have := ih h; omega

theorem sumAbs_lookupNat {n : Nat} {kvs : List (PyVal × PyVal)} {v : PyVal}
    (h : lookupNat n kvs = some v) : sumAbs v ≤ sumAbsKvs kvs := by
  induction kvs with
  | nil => simp [lookupNat] at h
  | cons p t ih =>
    obtain ⟨k', v'⟩ := p
    simp only [sumAbsKvs]
    simp only [lookupNat] at h
    split at h
    · simp only [Option.some.injEq] at h; subst h; omega
    · have := ih h; omega

theorem sumAbs_mem {l : List PyVal} {v : PyVal} (h : v ∈ l) : sumAbs v ≤ sumAbsList l := by
  induction l with
  | nil => simp at h
  | cons a t ih =>
    simp only [sumAbsList]
    rcases List.mem_cons.mp h with h | h
    · subst h; omega
    · have := ih h; omega

/-- whatever `obj[key]` returns is below the limit if `obj` is -/
theorem Small.getItem {obj v : PyVal} {k : Key} (hs : Small obj) (h : getItem obj k = .val v) :
    Small v := by
  unfold Small at hs ⊢
  have hb := bound_ge
  cases obj with
  | dict kvs =>
    simp only [Validate.getItem] at h
    split at h
    · rename_i v' hl
      simp only [Get.val.injEq] at h; subst h
      simp only [sumAbs] at hs
      cases k with
      | s s => have := sumAbs_lookupStr (k := s) hl; omega
      | i n => have := sumAbs_lookupNat (n := n) hl; omega
    · exact absurd h (by simp)
  | list l =>
    cases k with
    | s s => simp [Validate.getItem] at h
    | i n =>
      simp only [Validate.getItem] at h
      split at h
      · rename_i v' hl
        simp only [Get.val.injEq] at h; subst h
        simp only [sumAbs] at hs
        have := sumAbs_mem (List.mem_of_getElem? hl); omega
      · exact absurd h (by simp)
  | tuple l =>
    cases k with
    | s s => simp [Validate.getItem] at h
    | i n =>
      simp only [Validate.getItem] at h
      split at h
      · rename_i v' hl
        simp only [Get.val.injEq] at h; subst h
        simp only [sumAbs] at hs
        have := sumAbs_mem (List.mem_of_getElem? hl); omega
      · exact absurd h (by simp)
  | bytes b =>
    cases k with
    | s s => simp [Validate.getItem] at h
    | i n =>
      simp only [Validate.getItem] at h
      split at h
      · rename_i x hl
        simp only [Get.val.injEq] at h; subst h
        simp only [sumAbs, Int.natAbs_natCast]
        have := x.toNat_lt; omega
      · exact absurd h (by simp)
  | str s =>
    cases k with
    | s s' => simp [Validate.getItem] at h
    | i n =>
      simp only [Validate.getItem] at h
      split at h
      · simp only [Get.val.injEq] at h; subst h
        simp only [sumAbs]; omega
      · exact absurd h (by simp)
  | none => cases k <;> simp [Validate.getItem] at h
  | bool _ => cases k <;> simp [Validate.getItem] at h
  | int _ => cases k <;> simp [Validate.getItem] at h
  | float _ => cases k <;> simp [Validate.getItem] at h
  | datetime _ => cases k <;> simp [Validate.getItem] at h
  | other _ => cases k <;> simp [Validate.getItem] at h

/-! ### `key_exists_in_list_or_dict` against `obj[key]` -/

/-- a `str` key against a sequence is the only way `key_exists_in_list_or_dict` raises -/
def keyFits (obj : PyVal) (k : Key) : Bool :=
  match k, obj with
  | .s _, .list _ | .s _, .tuple _ | .s _, .bytes _ | .s _, .str _ => false
  | _, _ => true

theorem keyExists_spec (k : Key) (obj : PyVal) :
    (keyFits obj k = false ∧ keyExists k obj = .error (.internal "TypeError")) ∨
    (keyExists k obj = .ok true ∧ ∃ v, getItem obj k = .val v) ∨
    (keyExists k obj = .ok false ∧ ∀ v, getItem obj k ≠ .val v) := by
  cases obj with
  | dict kvs =>
    right
    simp only [keyExists, Validate.getItem, pure, Except.pure]
    cases hl : lookupKey k kvs with
    | none => right; simp
    | some v => left; simp
  | list l =>
    cases k with
    | s s => left; simp [keyFits, keyExists, throw, throwThe, MonadExceptOf.throw]
    | i n =>
      right
      simp only [keyExists, Validate.getItem, pure, Except.pure, pyLen, Option.getD_some]
      by_cases hn : n < l.length
      · left; simp [hn]
      · right; simp [hn]
  | tuple l =>
    cases k with
    | s s => left; simp [keyFits, keyExists, throw, throwThe, MonadExceptOf.throw]
    | i n =>
      right
      simp only [keyExists, Validate.getItem, pure, Except.pure, pyLen, Option.getD_some]
      by_cases hn : n < l.length
      · left; simp [hn]
      · right; simp [hn]
  | bytes l =>
    cases k with
    | s s => left; simp [keyFits, keyExists, throw, throwThe, MonadExceptOf.throw]
    | i n =>
      right
      simp only [keyExists, Validate.getItem, pure, Except.pure, pyLen, Option.getD_some]
      by_cases hn : n < l.length
      · left; simp [hn]
      · right; simp [hn]
  | str s =>
    cases k with
    | s s => left; simp [keyFits, keyExists, throw, throwThe, MonadExceptOf.throw]
    | i n =>
      right
      simp only [keyExists, Validate.getItem, pure, Except.pure, pyLen, Option.getD_some]
      by_cases hn : n < s.toList.length
      · left; simp [hn, ← String.length_toList]
      · right; simp [hn, ← String.length_toList]
  | none => right; right; cases k <;> simp [keyExists, Validate.getItem, pure, Except.pure]
  | bool _ => right; right; cases k <;> simp [keyExists, Validate.getItem, pure, Except.pure]
  | int _ => right; right; cases k <;> simp [keyExists, Validate.getItem, pure, Except.pure]
  | float _ => right; right; cases k <;> simp [keyExists, Validate.getItem, pure, Except.pure]
  | datetime _ => right; right; cases k <;> simp [keyExists, Validate.getItem, pure, Except.pure]
  | other _ => right; right; cases k <;> simp [keyExists, Validate.getItem, pure, Except.pure]

/-! ### `assert_type` on the object the key chain leads to -/

theorem checkVal_err {r : Rule} {v : PyVal} {e : ErrKind} (hv : reprFails v = false)
    (h : checkVal r v = .error e) : e = .metainfo := by
  unfold checkVal at h
  split at h
  · exact absurd h (by simp [pure, Except.pure])
  · simpa [raiseRepr, hv, throw, throwThe, MonadExceptOf.throw, eq_comm] using h

theorem checkVal_ok {r : Rule} {v : PyVal} (h : checkVal r v = .ok ()) : passes r v = true := by
  unfold checkVal at h
  split at h
  · assumption
  · unfold raiseRepr at h; split at h <;> exact absurd h (by simp [throw, throwThe, MonadExceptOf.throw])

/-- `assert_type` raises nothing but MetainfoError when the key fits the container and the value
    can be printed -/
theorem assertFinal_err {obj : PyVal} {k : Key} {r : Rule} {e : ErrKind}
    (hf : keyFits obj k = true) (hs : Small obj)
    (h : assertFinal obj k r = .error e) : e = .metainfo := by
  unfold assertFinal at h
  rcases keyExists_spec k obj with ⟨hf', _⟩ | ⟨hk, v, hv⟩ | ⟨hk, _⟩
  · rw [hf] at hf'; exact absurd hf' (by simp)
  · rw [hk] at h
    simp only [bind, Except.bind, Bool.not_true, Bool.false_eq_true, if_false, hv] at h
    exact checkVal_err (hs.getItem hv).repr h
  · rw [hk] at h
    simp only [bind, Except.bind, Bool.not_false, if_true] at h
    split at h
    · simpa [throw, throwThe, MonadExceptOf.throw, eq_comm] using h
    · exact absurd h (by simp [pure, Except.pure])

/-- what a successful `assert_type` establishes -/
theorem assertFinal_ok {obj : PyVal} {k : Key} {r : Rule} (h : assertFinal obj k r = .ok ()) :
    (∀ v, getItem obj k = .val v → passes r v = true) ∧
    (r.mustExist = true → ∃ v, getItem obj k = .val v) := by
  unfold assertFinal at h
  rcases keyExists_spec k obj with ⟨_, hk⟩ | ⟨hk, v, hv⟩ | ⟨hk, hno⟩
  · rw [hk] at h; exact absurd h (by simp [bind, Except.bind])
  · rw [hk] at h
    simp only [bind, Except.bind, Bool.not_true, Bool.false_eq_true, if_false, hv] at h
    refine ⟨fun v' hv' => ?_, fun _ => ⟨v, hv⟩⟩
    rw [hv] at hv'; simp only [Get.val.injEq] at hv'; subst hv'
    exact checkVal_ok h
  · rw [hk] at h
    simp only [bind, Except.bind, Bool.not_false, if_true] at h
    refine ⟨fun v hv => absurd hv (hno v), fun hm => ?_⟩
    rw [hm] at h; exact absurd h (by simp [throw, throwThe, MonadExceptOf.throw])

/-! ### walking the key chain -/

theorem assertType_single (obj : PyVal) (k : Key) (r : Rule) :
    assertType obj [k] r = assertFinal obj k r := by simp [assertType]

theorem assertType_step {obj v : PyVal} {k k' : Key} {rest : List Key} {r : Rule}
    (h : getItem obj k = .val v) :
    assertType obj (k :: k' :: rest) r = assertType v (k' :: rest) r := by
  simp [assertType, h]

theorem getItem_dict_s (kvs : Items) (s : String) :
    getItem (.dict kvs) (.s s) =
      match PyVal.lookupStr s kvs with | some v => .val v | none => .missing := by
  simp only [Validate.getItem, lookupKey]
  cases PyVal.lookupStr s kvs <;> rfl

theorem getItem_dict_s_some {kvs : Items} {s : String} {v : PyVal}
    (h : PyVal.lookupStr s kvs = some v) : getItem (.dict kvs) (.s s) = .val v := by
  simp [getItem_dict_s, h]

theorem getItem_dict_s_val {kvs : Items} {s : String} {v : PyVal}
    (h : getItem (.dict kvs) (.s s) = .val v) : PyVal.lookupStr s kvs = some v := by
  rw [getItem_dict_s] at h
  split at h
  · rename_i v' hv; simp only [Get.val.injEq] at h; rw [hv, h]
  · exact absurd h (by simp)

theorem getE_ok {obj v : PyVal} {k : Key} (h : getItem obj k = .val v) : getE obj k = .ok v := by
  simp [getE, h, pure, Except.pure]

theorem getE_ok_iff {obj v : PyVal} {k : Key} : getE obj k = .ok v ↔ getItem obj k = .val v := by
  constructor
  · intro h
    unfold getE at h
    split at h
    · rename_i v' hv; simp only [pure, Except.pure, Except.ok.injEq] at h; rw [hv, h]
    · exact absurd h (by simp [throw, throwThe, MonadExceptOf.throw])
    · exact absurd h (by simp [throw, throwThe, MonadExceptOf.throw])
  · exact getE_ok

/-! ### lookups -/

theorem lookupStr_append (k : String) (a b : Items) :
    PyVal.lookupStr k (a ++ b) = (PyVal.lookupStr k a).or (PyVal.lookupStr k b) := by
  induction a with
  | nil => simp [PyVal.lookupStr]
  | cons p t ih =>
    obtain ⟨k', v⟩ := p
    cases k' with
    | str s =>
      simp only [List.cons_append, PyVal.lookupStr]
      split
      · simp
      · exact ih
    | _ => simp only [List.cons_append, PyVal.lookupStr]; exact ih

theorem ensureInfo_lookup (md0 : Items) : ∃ iv, PyVal.lookupStr "info" (ensureInfo md0) = some iv := by
  unfold ensureInfo
  split
  · rename_i v h; exact ⟨v, h⟩
  · rename_i h
    refine ⟨.dict [], ?_⟩
    rw [lookupStr_append, h]; simp [PyVal.lookupStr]

theorem sumAbsKvs_append (a b : Items) : sumAbsKvs (a ++ b) = sumAbsKvs a + sumAbsKvs b := by
  induction a with
  | nil => simp [sumAbsKvs]
  | cons p t ih => obtain ⟨k, v⟩ := p; simp only [List.cons_append, sumAbsKvs, ih]; omega

theorem ensureInfo_small {md0 : Items} (h : numbersSmall md0 = true) :
    Small (.dict (ensureInfo md0)) := by
  unfold numbersSmall at h
  have h := of_decide_eq_true h
  simp only [sumAbs] at h
  unfold Small ensureInfo
  split
  · simpa [sumAbs] using h
  · simp only [sumAbs, sumAbsKvs_append, sumAbsKvs]; omega

end Torf.Validate
