/-
  Generic lemmas about the building blocks of `Torf.Model.Validate`: `getItem`, `keyExists`,
  `assertFinal`, lookups.
-/
import Torf.Lemmas.Export
namespace Torf.Validate
open Torf Torf.Export

/-! ### `key_exists_in_list_or_dict` against `obj[key]` -/

/-- a `str` key against a sequence is the only way `key_exists_in_list_or_dict` raises -/
def keyFits (obj : PyVal) (k : Key) : Bool :=
  match k, obj with
  | .s _, .list _ | .s _, .tuple _ | .s _, .bytes _ | .s _, .str _ => false
  | _, _ => true

theorem keyExists_spec (k : Key) (obj : PyVal) :
    (keyFits obj k = false ∧ keyExists k obj = .error (.internal "TypeError")) ∨
    (keyExists k obj = .ok true ∧ ∃ v, getItem obj k = .val v) ∨
    (keyExists k obj = .ok false ∧ ∀ v, getItem obj k ≠ .val v) := by
  cases obj with
  | dict kvs =>
    right
    simp only [keyExists, Validate.getItem, pure, Except.pure]
    cases hl : lookupKey k kvs with
    | none => right; simp
    | some v => left; simp
  | list l =>
    cases k with
    | s s => left; simp [keyFits, keyExists, throw, throwThe, MonadExceptOf.throw]
    | i n =>
      right
      simp only [keyExists, Validate.getItem, pure, Except.pure, pyLen, Option.getD_some]
      by_cases hn : n < l.length
      · left; simp [hn]
      · right; simp [hn]
  | tuple l =>
    cases k with
    | s s => left; simp [keyFits, keyExists, throw, throwThe, MonadExceptOf.throw]
    | i n =>
      right
      simp only [keyExists, Validate.getItem, pure, Except.pure, pyLen, Option.getD_some]
      by_cases hn : n < l.length
      · left; simp [hn]
      · right; simp [hn]
  | bytes l =>
    cases k with
    | s s => left; simp [keyFits, keyExists, throw, throwThe, MonadExceptOf.throw]
    | i n =>
      right
      simp only [keyExists, Validate.getItem, pure, Except.pure, pyLen, Option.getD_some]
      by_cases hn : n < l.length
      · left; simp [hn]
      · right; simp [hn]
  | str s =>
    cases k with
    | s s => left; simp [keyFits, keyExists, throw, throwThe, MonadExceptOf.throw]
    | i n =>
      right
      simp only [keyExists, Validate.getItem, pure, Except.pure, pyLen, Option.getD_some]
      by_cases hn : n < s.toList.length
      · left; simp [hn, ← String.length_toList]
      · right; simp [hn, ← String.length_toList]
  | none => right; right; cases k <;> simp [keyExists, Validate.getItem, pure, Except.pure]
  | bool _ => right; right; cases k <;> simp [keyExists, Validate.getItem, pure, Except.pure]
  | int _ => right; right; cases k <;> simp [keyExists, Validate.getItem, pure, Except.pure]
  | float _ => right; right; cases k <;> simp [keyExists, Validate.getItem, pure, Except.pure]
  | datetime _ => right; right; cases k <;> simp [keyExists, Validate.getItem, pure, Except.pure]
  | other _ => right; right; cases k <;> simp [keyExists, Validate.getItem, pure, Except.pure]

/-! ### `assert_type` on the object the key chain leads to -/

theorem checkVal_err {r : Rule} {v : PyVal} {e : ErrKind}
    (h : checkVal r v = .error e) : e = .metainfo := by
  unfold checkVal at h
  split at h
  · exact absurd h (by simp [pure, Except.pure])
  · simpa [throw, throwThe, MonadExceptOf.throw, eq_comm] using h

theorem checkVal_ok {r : Rule} {v : PyVal} (h : checkVal r v = .ok ()) : passes r v = true := by
  unfold checkVal at h
  split at h
  · assumption
  · exact absurd h (by simp [throw, throwThe, MonadExceptOf.throw])

/-- `assert_type` raises nothing but MetainfoError when the key fits the container (whatever the
    offending value is: the message is built with `safe_repr`) -/
theorem assertFinal_err {obj : PyVal} {k : Key} {r : Rule} {e : ErrKind}
    (hf : keyFits obj k = true)
    (h : assertFinal obj k r = .error e) : e = .metainfo := by
  unfold assertFinal at h
  rcases keyExists_spec k obj with ⟨hf', _⟩ | ⟨hk, v, hv⟩ | ⟨hk, _⟩
  · rw [hf] at hf'; exact absurd hf' (by simp)
  · rw [hk] at h
    simp only [bind, Except.bind, Bool.not_true, Bool.false_eq_true, if_false, hv] at h
    exact checkVal_err h
  · rw [hk] at h
    simp only [bind, Except.bind, Bool.not_false, if_true] at h
    split at h
    · simpa [throw, throwThe, MonadExceptOf.throw, eq_comm] using h
    · exact absurd h (by simp [pure, Except.pure])

/-- what a successful `assert_type` establishes -/
theorem assertFinal_ok {obj : PyVal} {k : Key} {r : Rule} (h : assertFinal obj k r = .ok ()) :
    (∀ v, getItem obj k = .val v → passes r v = true) ∧
    (r.mustExist = true → ∃ v, getItem obj k = .val v) := by
  unfold assertFinal at h
  rcases keyExists_spec k obj with ⟨_, hk⟩ | ⟨hk, v, hv⟩ | ⟨hk, hno⟩
  · rw [hk] at h; exact absurd h (by simp [bind, Except.bind])
  · rw [hk] at h
    simp only [bind, Except.bind, Bool.not_true, Bool.false_eq_true, if_false, hv] at h
    refine ⟨fun v' hv' => ?_, fun _ => ⟨v, hv⟩⟩
    rw [hv] at hv'; simp only [Get.val.injEq] at hv'; subst hv'
    exact checkVal_ok h
  · rw [hk] at h
    simp only [bind, Except.bind, Bool.not_false, if_true] at h
    refine ⟨fun v hv => absurd hv (hno v), fun hm => ?_⟩
    rw [hm] at h; exact absurd h (by simp [throw, throwThe, MonadExceptOf.throw])

/-! ### walking the key chain -/

theorem assertType_single (obj : PyVal) (k : Key) (r : Rule) :
    assertType obj [k] r = assertFinal obj k r := by simp [assertType]

theorem assertType_step {obj v : PyVal} {k k' : Key} {rest : List Key} {r : Rule}
    (h : getItem obj k = .val v) :
    assertType obj (k :: k' :: rest) r = assertType v (k' :: rest) r := by
  simp [assertType, h]

theorem getItem_dict_s (kvs : Items) (s : String) :
    getItem (.dict kvs) (.s s) =
      match PyVal.lookupStr s kvs with | some v => .val v | none => .missing := by
  simp only [Validate.getItem, lookupKey]
  cases PyVal.lookupStr s kvs <;> rfl

theorem getItem_dict_s_some {kvs : Items} {s : String} {v : PyVal}
    (h : PyVal.lookupStr s kvs = some v) : getItem (.dict kvs) (.s s) = .val v := by
  simp [getItem_dict_s, h]

theorem getItem_dict_s_val {kvs : Items} {s : String} {v : PyVal}
    (h : getItem (.dict kvs) (.s s) = .val v) : PyVal.lookupStr s kvs = some v := by
  rw [getItem_dict_s] at h
  split at h
  · rename_i v' hv; simp only [Get.val.injEq] at h; rw [hv, h]
  · exact absurd h (by simp)

theorem getE_ok {obj v : PyVal} {k : Key} (h : getItem obj k = .val v) : getE obj k = .ok v := by
  simp [getE, h, pure, Except.pure]

theorem getE_ok_iff {obj v : PyVal} {k : Key} : getE obj k = .ok v ↔ getItem obj k = .val v := by
  constructor
  · intro h
    unfold getE at h
    split at h
    · rename_i v' hv; simp only [pure, Except.pure, Except.ok.injEq] at h; rw [hv, h]
    · exact absurd h (by simp [throw, throwThe, MonadExceptOf.throw])
    · exact absurd h (by simp [throw, throwThe, MonadExceptOf.throw])
  · exact getE_ok

/-! ### lookups -/

theorem lookupStr_append (k : String) (a b : Items) :
    PyVal.lookupStr k (a ++ b) = (PyVal.lookupStr k a).or (PyVal.lookupStr k b) := by
  induction a with
  | nil => simp [PyVal.lookupStr]
  | cons p t ih =>
    obtain ⟨k', v⟩ := p
    cases k' with
    | str s =>
      simp only [List.cons_append, PyVal.lookupStr]
      split
      · simp
      · exact ih
    | _ => simp only [List.cons_append, PyVal.lookupStr]; exact ih

theorem ensureInfo_lookup (md0 : Items) : ∃ iv, PyVal.lookupStr "info" (ensureInfo md0) = some iv := by
  unfold ensureInfo
  split
  · rename_i v h; exact ⟨v, h⟩
  · rename_i h
    refine ⟨.dict [], ?_⟩
    rw [lookupStr_append, h]; simp [PyVal.lookupStr]

end Torf.Validate
