/-
  Torf.Lemmas.PipelineMeasure — a progress measure for the pipeline: a natural number computed
  from the core state that every progress step strictly decreases.  Hence every execution, under
  any schedule, contains at most `progressBound cfg = 14·N + 4·#items + 27` progress steps; the
  only steps that can repeat forever are the idle ones (the vital hasher's idle timeout, janitor
  polling rounds that prune nothing, the janitor's busy wait).
-/
import Torf.Lemmas.PipelineInv
namespace Torf.Pipeline

/-- main's rank: its program points in execution order, counted down -/
def mainRank (N : Nat) : MPc → Nat
  | .startReaderChk => 4 * N + 13
  | .startReader => 4 * N + 12
  | .startHasherChk i => 2 * N + 9 + 2 * (N - i) + 2
  | .startHasher i => 2 * N + 9 + 2 * (N - i) + 1
  | .startJanitorChk => 2 * N + 9
  | .startJanitor => 2 * N + 8
  | .collect => 2 * N + 7
  | .joinReaderChk _ => 2 * N + 6
  | .joinReader _ => 2 * N + 5
  | .joinHasherChk _ idx _ => 2 + 2 * (N - idx) + 2
  | .joinHasher _ idx _ => 2 + 2 * (N - idx) + 1
  | .joinJanitorChk _ => 2
  | .joinJanitor _ => 1
  | .finished _ => 0

/-- the reader's rank; `n` = number of items -/
def rRank (n : Nat) : RPc → Nat
  | .notStarted => 4 * n + 7
  | .begin_ => 4 * n + 6
  | .putting k => 4 * (n - k) + 5
  | .closing => 4
  | .done => 0
  | .refused => 0

/-- a hasher's rank; a held piece weighs 2 -/
def hRank : HPc → Nat
  | .notStarted => 9
  | .begin_ => 8
  | .getting => 7
  | .holding _ => 9
  | .requeue => 5
  | .setEv => 1
  | .done => 0
  | .refused => 0

/-- the janitor's rank; constant on the positions inside a polling round -/
def jRank : JPc → Nat
  | .notStarted => 7
  | .begin_ => 6
  | .waiting => 5
  | .prune _ => 5
  | .spin _ => 4
  | .closing => 2
  | .done => 0
  | .refused => 0

/-- the progress measure: ranks of the threads, 3 per queued piece-queue entry, 1 per hash-queue
    entry, 1 per tracked hasher -/
def mu (cfg : Cfg) (s : State) : Nat :=
  mainRank cfg.N s.main + rRank cfg.items.length s.rpc + (s.hs.map hRank).sum + jRank s.jan +
    s.tracked.length + 3 * s.pq.length + s.hq.length

/-- `mu (init cfg)` -/
def progressBound (cfg : Cfg) : Nat := 14 * cfg.N + 4 * cfg.items.length + 27

theorem jRank_coreJan (j : JPc) : jRank (coreJan j) = jRank j := by
  cases j <;> rfl

theorem mu_core (cfg : Cfg) (s : State) : mu cfg (core s) = mu cfg s := by
  simp [mu, core, jRank_coreJan]

theorem sum_map_replicate (f : HPc → Nat) (n : Nat) (p : HPc) :
    ((List.replicate n p).map f).sum = n * f p := by
  simp

theorem mu_init (cfg : Cfg) : mu cfg (init cfg) = progressBound cfg := by
  simp only [mu, Pipeline.init, mainRank, rRank, jRank, sum_map_replicate, hRank, List.length_range,
    List.length_nil, progressBound]
  omega

theorem sum_map_set (f : HPc → Nat) :
    ∀ (l : List HPc) (i : Nat) (p q : HPc), l[i]? = some p →
      ((l.set i q).map f).sum + f p = (l.map f).sum + f q
  | [], i, p, q, h => by simp at h
  | a :: l, 0, p, q, h => by
    simp only [List.getElem?_cons_zero, Option.some.injEq] at h
    subst h
    simp only [List.set_cons_zero, List.map_cons, List.sum_cons]
    omega
  | a :: l, i + 1, p, q, h => by
    simp only [List.getElem?_cons_succ] at h
    have := sum_map_set f l i p q h
    simp only [List.set_cons_succ, List.map_cons, List.sum_cons]
    omega

theorem sum_map_set_none (f : HPc → Nat) (l : List HPc) (i : Nat) (q : HPc) (h : l[i]? = none) :
    ((l.set i q).map f).sum = (l.map f).sum := by
  have : l.length ≤ i := by simpa using h
  rw [List.set_eq_of_length_le this]

/-- the number of progress steps of an execution -/
def progressSteps (cfg : Cfg) : State → List Label → Nat
  | _, [] => 0
  | s, l :: ls =>
    match step cfg s l with
    | none => 0
    | some s' => (if isProgress s s' then 1 else 0) + progressSteps cfg s' ls

/-! ### every step decreases the measure or leaves the core state alone -/

theorem mu_hasher {cfg : Cfg} {s s' : State} {i : Nat} (hs : HasherStep cfg s i s') :
    mu cfg s' < mu cfg s ∨ s' = s := by
  cases hs with
  | begin hi =>
    have := sum_map_set hRank s.hs i _ .getting hi
    simp only [hRank] at this
    left; simp only [mu]; omega
  | idle hi hpq h0 => right; rfl
  | quit hi hpq h0 =>
    have := sum_map_set hRank s.hs i _ .done hi
    simp only [hRank] at this
    left; simp only [mu]; omega
  | take k rest hi hpq =>
    have := sum_map_set hRank s.hs i _ (.holding k) hi
    simp only [hRank] at this
    have hl := congrArg List.length hpq
    simp only [List.length_cons] at hl
    left; simp only [mu]; omega
  | takeClosed rest hi hpq =>
    have := sum_map_set hRank s.hs i _ .requeue hi
    simp only [hRank] at this
    have hl := congrArg List.length hpq
    simp only [List.length_cons] at hl
    left; simp only [mu]; omega
  | deliver k hi =>
    have := sum_map_set hRank s.hs i _ .getting hi
    simp only [hRank] at this
    left; simp only [mu, List.length_append, List.length_singleton]; omega
  | requeue hi hc =>
    have := sum_map_set hRank s.hs i _ .setEv hi
    simp only [hRank] at this
    left; simp only [mu, List.length_append, List.length_singleton]; omega
  | setEv hi =>
    have := sum_map_set hRank s.hs i _ .done hi
    simp only [hRank] at this
    left; simp only [mu]; omega

theorem mu_reader {cfg : Cfg} {s s' : State} (hA : InvA cfg s) (hs : ReaderStep cfg s s') :
    mu cfg s' < mu cfg s := by
  cases hs with
  | begin hr t hn =>
    cases hn <;> (simp only [mu, hr, rRank]; omega)
  | put k hr hc t hn =>
    have hk := (hA.putting k hr).2
    cases hn <;> (simp only [mu, hr, rRank, List.length_append, List.length_singleton]; omega)
  | close hr hc =>
    simp only [mu, hr, rRank, List.length_append, List.length_singleton]; omega

theorem mu_janitor {cfg : Cfg} {s s' : State} (hs : JanitorStep s s') :
    mu cfg s' < mu cfg s ∨ core s' = core s := by
  cases hs with
  | begin hj => left; simp only [mu, hj, jRank]; omega
  | wake hj hf =>
    left
    rcases spinPc_cases s.tracked with ⟨_, h⟩ | ⟨_, h⟩ <;> (simp only [mu, hj, h, jRank]; omega)
  | timeout hj hf =>
    right
    rcases prunePc_cases s.tracked with ⟨_, h⟩ | ⟨_, h⟩ <;> simp [core, hj, h, coreJan]
  | pruneKeep h rest hj hr =>
    right
    rcases prunePc_cases rest with ⟨_, h'⟩ | ⟨_, h'⟩ <;> simp [core, hj, h', coreJan]
  | pruneDrop h rest hj hr =>
    by_cases hm : h ∈ s.tracked
    · left
      have hl := List.length_erase_of_mem hm
      have hpos : 0 < s.tracked.length := List.length_pos_of_mem hm
      rcases prunePc_cases rest with ⟨_, h'⟩ | ⟨_, h'⟩ <;> (simp only [mu, hj, h', jRank, hl]; omega)
    · right
      rw [List.erase_of_not_mem hm]
      rcases prunePc_cases rest with ⟨_, h'⟩ | ⟨_, h'⟩ <;> simp [core, hj, h', coreJan]
  | spinRestart h rest hj hr =>
    rcases spinPc_cases s.tracked with ⟨_, h'⟩ | ⟨_, h'⟩
    · left; simp only [mu, hj, h', jRank]; omega
    · right; simp [core, hj, h', coreJan]
  | spinNext h rest hj hr =>
    rcases spinPc_cases rest with ⟨_, h'⟩ | ⟨_, h'⟩
    · left; simp only [mu, hj, h', jRank]; omega
    · right; simp [core, hj, h', coreJan]
  | close hj =>
    left; simp only [mu, hj, jRank, List.length_append, List.length_singleton]; omega

theorem mu_main {cfg : Cfg} {s s' : State} (h : Inv cfg s) (hs : MainStep cfg s s') :
    mu cfg s' < mu cfg s := by
  have hstart : ∀ i, s.main = .startHasher i →
      ((s.hs.set i .begin_).map hRank).sum ≤ (s.hs.map hRank).sum := by
    intro i hm
    cases hi : s.hs[i]? with
    | none => rw [sum_map_set_none hRank s.hs i _ hi]; exact Nat.le_refl _
    | some p =>
      have hp := h.a.fresh i (by simp [hm, startBound]) i p (Nat.le_refl _) hi
      subst hp
      have := sum_map_set hRank s.hs i _ .begin_ hi
      simp only [hRank] at this
      omega
  cases hs with
  | startReaderChk hm => simp only [mu, hm, mainRank]; omega
  | startReader hm =>
    have hr := h.b1.rstart.1 (by simp [hm, preReader])
    simp only [mu, hm, hr, mainRank, rRank]; omega
  | startHasherChk i hm => simp only [mu, hm, mainRank]; omega
  | startHasherNext i hm hi =>
    have := hstart i hm
    simp only [mu, hm, mainRank]; omega
  | startHasherLast i hm hi =>
    have := hstart i hm
    simp only [mu, hm, mainRank]; omega
  | startJanitorChk hm => simp only [mu, hm, mainRank]; omega
  | startJanitor hm =>
    have hj := h.b1.jstart.1 (by simp [hm, preJan])
    simp only [mu, hm, hj, mainRank, jRank]; omega
  | collectClosed rest hm hq =>
    have hl := congrArg List.length hq
    simp only [List.length_cons] at hl
    simp only [mu, hm, mainRank]; omega
  | collectRaise k rest hm hq hk hr =>
    have hl := congrArg List.length hq
    simp only [List.length_cons] at hl
    simp only [mu, hm, mainRank]; omega
  | collectPass k rest hm hq hk hr hcb =>
    have hl := congrArg List.length hq
    simp only [List.length_cons] at hl
    simp only [mu, hm, mainRank]; omega
  | collectCancel k rest hm hq hk hr hcb =>
    have hl := congrArg List.length hq
    simp only [List.length_cons] at hl
    simp only [mu, hm, mainRank]; omega
  | collectCbRaise k rest hm hq hk hr hcb =>
    have hl := congrArg List.length hq
    simp only [List.length_cons] at hl
    simp only [mu, hm, mainRank]; omega
  | joinReaderChkRun e hm hr => simp only [mu, hm, mainRank]; omega
  | joinReaderSkip e hm hr =>
    rcases joinTarget_cases s 0 (if s.rexc = true then some .read else e) with ⟨h', ht⟩ | ht <;>
      (simp only [mu, hm, ht, mainRank]; omega)
  | joinReaderDone e hm hr =>
    rcases joinTarget_cases s 0 (if s.rexc = true then some .read else e) with ⟨h', ht⟩ | ht <;>
      (simp only [mu, hm, ht, mainRank]; omega)
  | joinHasherChkRun hh idx e hm hr => simp only [mu, hm, mainRank]; omega
  | joinHasherSkip hh idx e hm hr =>
    have htl := h.b1.trk
    unfold joinTarget
    split
    · rename_i h' hsome
      have : idx + 1 < s.tracked.length := by
        rcases Nat.lt_or_ge (idx + 1) s.tracked.length with h'' | h''
        · exact h''
        · simp [List.getElem?_eq_none h''] at hsome
      simp only [mu, hm, mainRank]; omega
    · simp only [mu, hm, mainRank]; omega
  | joinHasherDone hh idx e hm hr =>
    have htl := h.b1.trk
    unfold joinTarget
    split
    · rename_i h' hsome
      have : idx + 1 < s.tracked.length := by
        rcases Nat.lt_or_ge (idx + 1) s.tracked.length with h'' | h''
        · exact h''
        · simp [List.getElem?_eq_none h''] at hsome
      simp only [mu, hm, mainRank]; omega
    · simp only [mu, hm, mainRank]; omega
  | joinJanitorChkRun e hm hr => simp only [mu, hm, mainRank]; omega
  | joinJanitorSkip e hm hr => simp only [mu, hm, mainRank]; omega
  | joinJanitorDone e hm hr => simp only [mu, hm, mainRank]; omega

theorem mu_step {cfg : Cfg} {s s' : State} (h : Inv cfg s) (hs : Step cfg s s') :
    mu cfg s' < mu cfg s ∨ core s' = core s := by
  cases hs with
  | main h' => exact Or.inl (mu_main h h')
  | reader h' => exact Or.inl (mu_reader h.a h')
  | hasher i h' => exact (mu_hasher h').imp id (fun h => by rw [h])
  | janitor h' => exact mu_janitor h'

/-- a progress step costs at least one unit of the measure, an idle step costs nothing -/
theorem mu_progress {cfg : Cfg} {s s' : State} {l : Label} (hrf : cfg.refuse = []) (h : Inv cfg s)
    (hs : step cfg s l = some s') :
    mu cfg s' + (if isProgress s s' then 1 else 0) ≤ mu cfg s := by
  by_cases hp : core s = core s'
  · have : isProgress s s' = false := by simp [isProgress, hp]
    rw [this, ← mu_core cfg s', ← hp, mu_core]
    simp
  · rcases mu_step h (Step.of_step hrf h.a hs) with hlt | heq
    · split <;> omega
    · exact absurd heq.symm hp

theorem progressSteps_le {cfg : Cfg} (hrf : cfg.refuse = []) :
    ∀ (ls : List Label) (s₀ s : State), Inv cfg s₀ → run cfg s₀ ls = some s →
      progressSteps cfg s₀ ls + mu cfg s ≤ mu cfg s₀ := by
  intro ls
  induction ls with
  | nil =>
    intro s₀ s _ hr
    simp only [run, Option.some.injEq] at hr
    subst hr
    simp [progressSteps]
  | cons l ls ih =>
    intro s₀ s h hr
    simp only [run] at hr
    cases hst : step cfg s₀ l with
    | none => simp [hst] at hr
    | some s₁ =>
      simp only [hst] at hr
      have h1 := mu_progress hrf h hst
      have h2 := ih s₁ s (h.step hrf hst) hr
      simp only [progressSteps, hst]
      omega

end Torf.Pipeline
