/-
  `Rep D kvs`: the Python dict `D` (all keys `str`) is encoded entry by entry, in the same order,
  into `kvs` (keys UTF-8 encoded, values through `encode_value`).  Python-level dict updates on `D`
  correspond to the same updates on `kvs`; `encode_dict` of `D` is the key-sorted `kvs`.
-/
import Torf.Lemmas.Codec
import Torf.Lemmas.Utf8Order
namespace Torf.Codec
open Torf Torf.Bencode

theorem utf8Enc_of_dec {b : Bytes} {s : String} (h : utf8Dec b = some s) : utf8Enc s = b := by
  unfold utf8Dec String.fromUTF8? at h
  split at h
  · simp only [Option.some.injEq] at h
    subst h
    simp [utf8Enc, String.fromUTF8]
  · exact absurd h (by simp)

theorem decodeBytes_of_dec {b : Bytes} {s : String} (h : utf8Dec b = some s) :
    decodeBytes b = .str s := by simp [decodeBytes, h]

theorem encodeKvs_cons_ok {k v : PyVal} {t : List (PyVal × PyVal)} {es : List (String × BVal)}
    (h : encodeKvs ((k, v) :: t) = .ok es) :
    ∃ s v' t', k = .str s ∧ encodeValue v = .ok v' ∧ encodeKvs t = .ok t' ∧ es = (s, v') :: t' := by
  cases k with
  | str s =>
    simp only [encodeKvs] at h
    split at h
    · exact absurd h (by simp)
    · rename_i v' hv
      split at h
      · exact absurd h (by simp)
      · rename_i t' ht
        simp only [Except.ok.injEq] at h
        exact ⟨s, v', t', rfl, hv, ht, h.symm⟩
  | _ => simp [encodeKvs] at h

inductive Rep : List (PyVal × PyVal) → List (Bytes × BVal) → Prop
  | nil : Rep [] []
  | cons {s : String} {m : PyVal} {w : BVal} {D : List (PyVal × PyVal)} {kvs : List (Bytes × BVal)} :
      encodeValue m = .ok w → Rep D kvs → Rep ((.str s, m) :: D) ((utf8Enc s, w) :: kvs)

theorem Rep.encodeKvs {D : List (PyVal × PyVal)} {kvs : List (Bytes × BVal)} (h : Rep D kvs) :
    ∃ es, Codec.encodeKvs D = .ok es ∧ es.map encKey = kvs := by
  induction h with
  | nil => exact ⟨[], rfl, rfl⟩
  | @cons s m w D kvs hm _ ih =>
    obtain ⟨es, hes, hk⟩ := ih
    exact ⟨(s, w) :: es, by simp [Codec.encodeKvs, hm, hes], by simp [encKey, hk]⟩

theorem rep_of_encodeKvs : ∀ (D : List (PyVal × PyVal)) (es : List (String × BVal)),
    encodeKvs D = .ok es → Rep D (es.map encKey)
  | [], es, h => by
    simp only [encodeKvs, Except.ok.injEq] at h; subst h; exact Rep.nil
  | (k, v) :: t, es, h => by
    obtain ⟨s, v', t', rfl, hv, ht, rfl⟩ := encodeKvs_cons_ok h
    exact Rep.cons hv (rep_of_encodeKvs t t' ht)

theorem keyLe_encKey {β : Type} (a b : String × β) : keyLe (encKey a) (encKey b) = strLe a b := by
  simp only [keyLe, strLe, encKey]
  exact decide_eq_decide.mpr (utf8_order a.1 b.1)

theorem eq_of_key_eq {β : Type} : ∀ (l : List (Bytes × β)), (l.map (·.1)).Nodup →
    ∀ a b, a ∈ l → b ∈ l → a.1 = b.1 → a = b
  | [], _, a, _, ha, _, _ => by simp at ha
  | p :: t, hn, a, b, ha, hb, hab => by
    simp only [List.map_cons, List.nodup_cons] at hn
    rcases List.mem_cons.mp ha with rfl | ha' <;> rcases List.mem_cons.mp hb with rfl | hb'
    · rfl
    · exact absurd (hab ▸ List.mem_map.mpr ⟨b, hb', rfl⟩) hn.1
    · exact absurd (hab ▸ List.mem_map.mpr ⟨a, ha', rfl⟩) hn.1
    · exact eq_of_key_eq t hn.2 a b ha' hb' hab

/-- sorting a rearrangement of a key-sorted list gives the list back -/
theorem isort_keyLe_of_perm {β : Type} (l' l : List (Bytes × β)) (hp : l'.Perm l)
    (ha : keysAsc (l.map (·.1)) = true) : isort keyLe l' = l := by
  have hn : (l'.map (·.1)).Nodup := (hp.map (·.1)).nodup_iff.mpr (keysAsc_nodup _ ha)
  have h2 : isort keyLe l' = isort keyLe l := by
    apply isort_eq_of_perm keyLe keyLe_total keyLe_trans l' l hp
    intro a b ha' hb' hab hba
    simp only [keyLe, decide_eq_true_eq] at hab hba
    exact eq_of_key_eq l' hn a b ha' hb' (List.le_antisymm hab hba)
  rw [h2]
  apply isort_of_sorted
  have hpw := keysAsc_pairwise _ ha
  rw [List.pairwise_map] at hpw
  exact hpw.imp (fun hab => by simp only [keyLe, decide_eq_true_eq]; exact List.le_of_lt hab)

/-- `encode_dict` of a dict whose entries encode to a rearrangement of a key-sorted `kvs`
    is exactly `kvs` (the `str` sort of `encode_dict` = raw byte order of the UTF-8 keys) -/
theorem encodeValue_dict_of_rep {D : List (PyVal × PyVal)} {kvs' kvs : List (Bytes × BVal)}
    (h : Rep D kvs') (hp : kvs'.Perm kvs) (ha : keysAsc (kvs.map (·.1)) = true) :
    encodeValue (.dict D) = .ok (.dict kvs) := by
  obtain ⟨es, hes, hk⟩ := h.encodeKvs
  simp only [encodeValue, hes, Except.ok.injEq, BVal.dict.injEq]
  rw [← isort_map strLe keyLe encKey keyLe_encKey es, hk]
  exact isort_keyLe_of_perm kvs' kvs hp ha

theorem encodeValue_dict_inv {m : PyVal} {kvs : List (Bytes × BVal)}
    (h : encodeValue m = .ok (.dict kvs)) :
    ∃ D kvs', m = .dict D ∧ Rep D kvs' ∧ kvs'.Perm kvs := by
  cases m with
  | dict D =>
    simp only [encodeValue] at h
    split at h
    · rename_i es hes
      simp only [Except.ok.injEq, BVal.dict.injEq] at h
      subst h
      exact ⟨D, _, rfl, rep_of_encodeKvs D es hes, ((isort_perm strLe es).map encKey).symm⟩
    · exact absurd h (by simp)
  | list l => simp only [encodeValue] at h; split at h <;> simp at h
  | tuple l => simp only [encodeValue] at h; split at h <;> simp at h
  | float f => cases f <;> simp [encodeValue] at h
  | datetime ts => cases ts <;> simp [encodeValue] at h
  | _ => simp [encodeValue] at h

/-! ### dict operations -/

theorem Rep.setStr {D : List (PyVal × PyVal)} {kvs : List (Bytes × BVal)} (h : Rep D kvs)
    (k : String) {m : PyVal} {w : BVal} (hm : encodeValue m = .ok w) :
    Rep (setStr k m D) (dictSet (utf8Enc k) w kvs) := by
  induction h with
  | nil => exact Rep.cons hm Rep.nil
  | @cons s m' w' D kvs hm' _ ih =>
    simp only [Codec.setStr, dictSet, isStrKey]
    by_cases hs : s = k
    · subst hs; simp only [beq_self_eq_true, if_true]; exact Rep.cons hm ‹_›
    · have h1 : (s == k) = false := by simp [hs]
      have h2 : (utf8Enc s == utf8Enc k) = false := by
        simp only [beq_eq_false_iff_ne, ne_eq]; exact fun he => hs (utf8Enc_inj he)
      simp only [h1, h2, Bool.false_eq_true, if_false]
      exact Rep.cons hm' ih

theorem Rep.lookup {D : List (PyVal × PyVal)} {kvs : List (Bytes × BVal)} (h : Rep D kvs)
    (k : String) {w : BVal} (hl : lookup (utf8Enc k) kvs = some w) :
    ∃ m, PyVal.lookupStr k D = some m ∧ encodeValue m = .ok w := by
  induction h with
  | nil => simp [Bencode.lookup] at hl
  | @cons s m' w' D kvs hm' _ ih =>
    simp only [Bencode.lookup] at hl
    simp only [PyVal.lookupStr]
    by_cases hs : k = s
    · subst hs; simp only [if_true, Option.some.injEq] at hl ⊢; subst hl; exact ⟨m', rfl, hm'⟩
    · have h2 : ¬ utf8Enc s = utf8Enc k := fun he => hs (utf8Enc_inj he).symm
      simp only [h2, hs, if_false] at hl ⊢
      exact ih hl

theorem Rep.lookupStr {D : List (PyVal × PyVal)} {kvs : List (Bytes × BVal)} (h : Rep D kvs)
    (k : String) {m : PyVal} (hl : PyVal.lookupStr k D = some m) :
    ∃ w, Bencode.lookup (utf8Enc k) kvs = some w ∧ encodeValue m = .ok w := by
  induction h with
  | nil => simp [PyVal.lookupStr] at hl
  | @cons s m' w' D kvs hm' _ ih =>
    simp only [PyVal.lookupStr] at hl
    simp only [Bencode.lookup]
    by_cases hs : k = s
    · subst hs; simp only [if_true, Option.some.injEq] at hl ⊢; subst hl; exact ⟨w', rfl, hm'⟩
    · have h2 : ¬ utf8Enc s = utf8Enc k := fun he => hs (utf8Enc_inj he).symm
      simp only [h2, hs, if_false] at hl ⊢
      exact ih hl

theorem Rep.lookupStr_none {D : List (PyVal × PyVal)} {kvs : List (Bytes × BVal)} (h : Rep D kvs)
    (k : String) (hl : PyVal.lookupStr k D = none) : Bencode.lookup (utf8Enc k) kvs = none := by
  cases hk : Bencode.lookup (utf8Enc k) kvs with
  | none => rfl
  | some w => obtain ⟨m, hm, _⟩ := h.lookup k hk; rw [hl] at hm; exact absurd hm (by simp)

/-! ### association-list facts on the encoded side -/

theorem dictSet_of_lookup {k : Bytes} {w : BVal} : ∀ {l : List (Bytes × BVal)},
    Bencode.lookup k l = some w → dictSet k w l = l
  | [], h => by simp [Bencode.lookup] at h
  | (k', v') :: t, h => by
    simp only [Bencode.lookup] at h
    simp only [dictSet]
    by_cases hk : k' = k
    · simp only [hk, if_true, Option.some.injEq] at h; subst h; simp [hk]
    · simp only [hk, if_false] at h
      have : (k' == k) = false := by simp [hk]
      simp only [this, Bool.false_eq_true, if_false, dictSet_of_lookup h]

theorem dictSet_dictSet {k : Bytes} {w w' : BVal} : ∀ (l : List (Bytes × BVal)),
    dictSet k w (dictSet k w' l) = dictSet k w l
  | [] => by simp [dictSet]
  | (k', v') :: t => by
    simp only [dictSet]
    by_cases hk : (k' == k) = true
    · simp [hk, dictSet]
    · simp [hk, dictSet, dictSet_dictSet t]

theorem lookup_dictSet {k : Bytes} {w : BVal} : ∀ (l : List (Bytes × BVal)),
    Bencode.lookup k (dictSet k w l) = some w
  | [] => by simp [dictSet, Bencode.lookup]
  | (k', v') :: t => by
    simp only [dictSet]
    by_cases hk : k' = k
    · simp [hk, Bencode.lookup]
    · have : (k' == k) = false := by simp [hk]
      simp [this, Bencode.lookup, hk, lookup_dictSet t]

theorem lookup_dictSet_ne {k k2 : Bytes} {w : BVal} (hne : k2 ≠ k) : ∀ (l : List (Bytes × BVal)),
    Bencode.lookup k2 (dictSet k w l) = Bencode.lookup k2 l
  | [] => by simp [dictSet, Bencode.lookup, Ne.symm hne]
  | (k', v') :: t => by
    simp only [dictSet]
    by_cases hk : k' = k
    · subst hk; simp [Bencode.lookup, Ne.symm hne]
    · have : (k' == k) = false := by simp [hk]
      simp only [this, Bool.false_eq_true, if_false, Bencode.lookup, lookup_dictSet_ne hne t]

theorem mem_of_lookup {k : Bytes} {w : BVal} : ∀ {l : List (Bytes × BVal)},
    Bencode.lookup k l = some w → (k, w) ∈ l
  | [], h => by simp [Bencode.lookup] at h
  | (k', v') :: t, h => by
    simp only [Bencode.lookup] at h
    by_cases hk : k' = k
    · simp only [hk, if_true, Option.some.injEq] at h; subst h; simp [hk]
    · simp only [hk, if_false] at h; exact List.mem_cons_of_mem _ (mem_of_lookup h)

theorem erase_sublist (k : Bytes) : ∀ (l : List (Bytes × BVal)), (Bencode.erase k l).Sublist l
  | [] => List.Sublist.slnil
  | (k', v') :: t => by
    simp only [Bencode.erase]
    split
    · exact List.sublist_cons_self _ _
    · exact (erase_sublist k t).cons_cons _

theorem erase_perm {k : Bytes} {w : BVal} : ∀ {l : List (Bytes × BVal)},
    Bencode.lookup k l = some w → ((k, w) :: Bencode.erase k l).Perm l
  | [], h => by simp [Bencode.lookup] at h
  | (k', v') :: t, h => by
    simp only [Bencode.lookup] at h
    simp only [Bencode.erase]
    by_cases hk : k' = k
    · simp only [hk, if_true, Option.some.injEq] at h; subst h; subst hk; simp
    · simp only [hk, if_false] at h ⊢
      exact (List.Perm.swap _ _ _).trans ((erase_perm h).cons _)

theorem not_mem_keys_erase {k : Bytes} (l : List (Bytes × BVal)) (hn : (l.map (·.1)).Nodup) :
    k ∉ (Bencode.erase k l).map (·.1) := by
  induction l with
  | nil => simp [Bencode.erase]
  | cons p t ih =>
    obtain ⟨k', v'⟩ := p
    simp only [List.map_cons, List.nodup_cons] at hn
    simp only [Bencode.erase]
    by_cases hk : k' = k
    · simp only [hk, if_true]; exact hk ▸ hn.1
    · simp only [hk, if_false, List.map_cons, List.mem_cons, not_or]
      exact ⟨fun h => hk h.symm, ih hn.2⟩

end Torf.Codec
