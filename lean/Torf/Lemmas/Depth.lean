/-
  Lemmas about the frame-cost model `Torf.Model.Depth`.

  * the `…Need…` folds are suprema: `needKvs ≤ N ↔ every entry ≤ N`;
  * `Rel` ⇒ the encoder needs at most `sl` frames more on a decoded value than the decoder needed
    (`encNeed_decodeValue`), the serialiser never more (`serNeed_le_decNeed`);
  * the dict updates of `read_stream` (`pieces` restored raw, `creation date` → `datetime`,
    `private` → `bool`, `info` ensured) keep the bound (`Bounded`).
-/
import Torf.Model.Depth
import Torf.Lemmas.RoundTrip
namespace Torf.Depth
open Torf Torf.Bencode Torf.Codec Torf.ReadStream

/-! ### the folds are suprema -/

theorem decNeedList_le {C : Cost} {N : Nat} : ∀ {l : List BVal},
    decNeedList C l ≤ N ↔ ∀ v ∈ l, decNeed C v ≤ N
  | [] => by simp [decNeedList]
  | v :: t => by
    simp only [decNeedList, Nat.max_le, List.mem_cons, forall_eq_or_imp, decNeedList_le (l := t)]

theorem decNeedKvs_le {C : Cost} {N : Nat} : ∀ {l : List (Bytes × BVal)},
    decNeedKvs C l ≤ N ↔ ∀ p ∈ l, decNeed C p.2 ≤ N ∧ C.dv ≤ N
  | [] => by simp [decNeedKvs]
  | (k, v) :: t => by
    simp only [decNeedKvs, Nat.max_le, List.mem_cons, forall_eq_or_imp, decNeedKvs_le (l := t)]

theorem encNeedList_le {C : Cost} {N : Nat} : ∀ {l : List PyVal},
    encNeedList C l ≤ N ↔ ∀ v ∈ l, encNeed C v ≤ N
  | [] => by simp [encNeedList]
  | v :: t => by
    simp only [encNeedList, Nat.max_le, List.mem_cons, forall_eq_or_imp, encNeedList_le (l := t)]

theorem encNeedKvs_le {C : Cost} {N : Nat} : ∀ {l : List (PyVal × PyVal)},
    encNeedKvs C l ≤ N ↔ ∀ p ∈ l, encNeed C p.2 ≤ N
  | [] => by simp [encNeedKvs]
  | (k, v) :: t => by
    simp only [encNeedKvs, Nat.max_le, List.mem_cons, forall_eq_or_imp, encNeedKvs_le (l := t)]

theorem serNeedList_le {C : Cost} {N : Nat} : ∀ {l : List BVal},
    serNeedList C l ≤ N ↔ ∀ v ∈ l, serNeed C v ≤ N
  | [] => by simp [serNeedList]
  | v :: t => by
    simp only [serNeedList, Nat.max_le, List.mem_cons, forall_eq_or_imp, serNeedList_le (l := t)]

theorem serNeedKvs_le {C : Cost} {N : Nat} : ∀ {l : List (Bytes × BVal)},
    serNeedKvs C l ≤ N ↔ ∀ p ∈ l, serNeed C p.2 ≤ N ∧ C.gen ≤ N
  | [] => by simp [serNeedKvs]
  | (k, v) :: t => by
    simp only [serNeedKvs, Nat.max_le, List.mem_cons, forall_eq_or_imp, serNeedKvs_le (l := t)]

theorem decNeed_le_kvs {C : Cost} {l : List (Bytes × BVal)} {p : Bytes × BVal} (h : p ∈ l) :
    decNeed C p.2 ≤ decNeedKvs C l ∧ C.dv ≤ decNeedKvs C l :=
  (decNeedKvs_le (N := decNeedKvs C l)).mp (Nat.le_refl _) p h

theorem encNeed_le_kvs {C : Cost} {l : List (PyVal × PyVal)} {p : PyVal × PyVal} (h : p ∈ l) :
    encNeed C p.2 ≤ encNeedKvs C l :=
  (encNeedKvs_le (N := encNeedKvs C l)).mp (Nat.le_refl _) p h

/-! ### encoder against decoder, serialiser against decoder -/

mutual
theorem encNeed_decodeValue {C : Cost} {sl se : Nat} (hR : Rel C sl se) :
    ∀ v : BVal, encNeed C (decodeValue v) ≤ decNeed C v + sl
  | .int _ => by
    have := hR.leafBytes
    simp only [decodeValue, encNeed, decNeed]; omega
  | .bytes b => by
    have h1 := hR.leafBytes
    have h2 := hR.leafStr
    simp only [decodeValue, decodeBytes, decNeed]
    split <;> simp only [encNeed] <;> omega
  | .list l => by
    have ih := encNeedList_decodeList hR l
    have h1 := hR.floorList
    have h2 := hR.lvList
    simp only [decodeValue, encNeed, decNeed]
    omega
  | .dict kvs => by
    have ih := encNeedKvs_decodeKvs hR kvs
    have h1 := hR.floorDict
    have h2 := hR.lvDict
    simp only [decodeValue, encNeed, decNeed]
    omega
theorem encNeedList_decodeList {C : Cost} {sl se : Nat} (hR : Rel C sl se) :
    ∀ l : List BVal, encNeedList C (decodeList l) ≤ decNeedList C l + sl
  | [] => by simp [decodeList, encNeedList]
  | v :: t => by
    have h1 := encNeed_decodeValue hR v
    have h2 := encNeedList_decodeList hR t
    simp only [decodeList, encNeedList, decNeedList]
    omega
theorem encNeedKvs_decodeKvs {C : Cost} {sl se : Nat} (hR : Rel C sl se) :
    ∀ l : List (Bytes × BVal), encNeedKvs C (decodeKvs l) ≤ decNeedKvs C l + sl
  | [] => by simp [decodeKvs, encNeedKvs]
  | (k, v) :: t => by
    have h1 := encNeed_decodeValue hR v
    have h2 := encNeedKvs_decodeKvs hR t
    simp only [decodeKvs, encNeedKvs, decNeedKvs]
    omega
end

mutual
theorem serNeed_le_decNeed {C : Cost} {sl se : Nat} (hR : Rel C sl se) :
    ∀ v : BVal, serNeed C v ≤ decNeed C v
  | .int _ => by have := hR.serLeaf; simp only [serNeed, decNeed]; omega
  | .bytes _ => by have := hR.serLeaf; simp only [serNeed, decNeed]; omega
  | .list l => by
    have ih := serNeedList_le_decNeedList hR l
    have h1 := hR.serList
    have h2 := hR.serLeaf
    simp only [serNeed, decNeed]
    omega
  | .dict kvs => by
    have ih := serNeedKvs_le_decNeedKvs hR kvs
    have h1 := hR.serDict
    have h2 := hR.serFloor
    simp only [serNeed, decNeed]
    omega
theorem serNeedList_le_decNeedList {C : Cost} {sl se : Nat} (hR : Rel C sl se) :
    ∀ l : List BVal, serNeedList C l ≤ decNeedList C l
  | [] => by simp [serNeedList]
  | v :: t => by
    have h1 := serNeed_le_decNeed hR v
    have h2 := serNeedList_le_decNeedList hR t
    simp only [serNeedList, decNeedList]
    omega
theorem serNeedKvs_le_decNeedKvs {C : Cost} {sl se : Nat} (hR : Rel C sl se) :
    ∀ l : List (Bytes × BVal), serNeedKvs C l ≤ decNeedKvs C l
  | [] => by simp [serNeedKvs]
  | (k, v) :: t => by
    have h1 := serNeed_le_decNeed hR v
    have h2 := serNeedKvs_le_decNeedKvs hR t
    have h3 := hR.serLeaf
    simp only [serNeedKvs, decNeedKvs]
    omega
end

/-! ### association-list facts -/

theorem mem_dictSet_or {k : Bytes} {w : BVal} {q : Bytes × BVal} : ∀ {l : List (Bytes × BVal)},
    q ∈ l → q ∈ dictSet k w l ∨ (q.1 = k ∧ Bencode.lookup k l = some q.2)
  | [], h => by simp at h
  | (k', v') :: t, h => by
    simp only [dictSet, Bencode.lookup]
    by_cases hk : k' = k
    · subst hk
      simp only [beq_self_eq_true, if_true, List.mem_cons] at h ⊢
      rcases h with rfl | h
      · exact Or.inr ⟨rfl, rfl⟩
      · exact Or.inl (Or.inr h)
    · have hb : (k' == k) = false := by simp [hk]
      simp only [hb, Bool.false_eq_true, if_false, hk, List.mem_cons] at h ⊢
      rcases h with rfl | h
      · exact Or.inl (Or.inl rfl)
      · rcases mem_dictSet_or (k := k) (w := w) h with h | h
        · exact Or.inl (Or.inr h)
        · exact Or.inr h

theorem mem_erase_or {k : Bytes} {q : Bytes × BVal} : ∀ {l : List (Bytes × BVal)},
    q ∈ l → q ∈ Bencode.erase k l ∨ (q.1 = k ∧ Bencode.lookup k l = some q.2)
  | [], h => by simp at h
  | (k', v') :: t, h => by
    simp only [Bencode.erase, Bencode.lookup]
    by_cases hk : k' = k
    · subst hk
      simp only [if_true, List.mem_cons] at h ⊢
      rcases h with rfl | h
      · exact Or.inr ⟨rfl, rfl⟩
      · exact Or.inl h
    · simp only [hk, if_false, List.mem_cons] at h ⊢
      rcases h with rfl | h
      · exact Or.inl (Or.inl rfl)
      · rcases mem_erase_or (k := k) h with h | h
        · exact Or.inl (Or.inr h)
        · exact Or.inr h

theorem mem_setStr {k : String} {v : PyVal} {p : PyVal × PyVal} : ∀ {D : List (PyVal × PyVal)},
    p ∈ setStr k v D → p ∈ D ∨ p.2 = v
  | [], h => by simp [setStr] at h; exact Or.inr (by rw [h])
  | (k', v') :: t, h => by
    simp only [setStr] at h
    split at h
    · simp only [List.mem_cons] at h
      rcases h with rfl | h
      · exact Or.inr rfl
      · exact Or.inl (List.mem_cons_of_mem _ h)
    · simp only [List.mem_cons] at h
      rcases h with rfl | h
      · exact Or.inl List.mem_cons_self
      · rcases mem_setStr h with h | h
        · exact Or.inl (List.mem_cons_of_mem _ h)
        · exact Or.inr h

theorem popStr_sublist (k : String) : ∀ (D : List (PyVal × PyVal)), (popStr k D).Sublist D
  | [] => List.Sublist.slnil
  | (k', v') :: t => by
    simp only [popStr]
    split
    · exact List.sublist_cons_self _ _
    · exact (popStr_sublist k t).cons_cons _

theorem mem_of_lookupStr {k : String} {v : PyVal} : ∀ {D : List (PyVal × PyVal)},
    PyVal.lookupStr k D = some v → (PyVal.str k, v) ∈ D
  | [], h => by simp [PyVal.lookupStr] at h
  | (k', v') :: t, h => by
    cases k' with
    | str s =>
      simp only [PyVal.lookupStr] at h
      split at h
      · rename_i hk
        simp only [Option.some.injEq] at h
        subst h; subst hk
        exact List.mem_cons_self
      · exact List.mem_cons_of_mem _ (mem_of_lookupStr h)
    | _ => simp only [PyVal.lookupStr] at h; exact List.mem_cons_of_mem _ (mem_of_lookupStr h)

/-! ### the bound survives the dict updates of `read_stream` -/

/-- every value of the Python dict `D` can be encoded with `N` frames below `encode_dict` -/
def Bounded (C : Cost) (N : Nat) (D : List (PyVal × PyVal)) : Prop := ∀ p ∈ D, encNeed C p.2 ≤ N

theorem bounded_iff {C : Cost} {N : Nat} {D : List (PyVal × PyVal)} :
    Bounded C N D ↔ encNeedKvs C D ≤ N := encNeedKvs_le.symm

theorem Bounded.setStr {C : Cost} {N : Nat} {D : List (PyVal × PyVal)} (h : Bounded C N D)
    (k : String) {v : PyVal} (hv : encNeed C v ≤ N) : Bounded C N (setStr k v D) := by
  intro p hp
  rcases mem_setStr hp with hp | hp
  · exact h p hp
  · rw [hp]; exact hv

theorem Bounded.popStr {C : Cost} {N : Nat} {D : List (PyVal × PyVal)} (h : Bounded C N D)
    (k : String) : Bounded C N (popStr k D) :=
  fun p hp => h p ((popStr_sublist k D).subset hp)

theorem Bounded.ensureInfo {C : Cost} {N : Nat} {D : List (PyVal × PyVal)} (h : Bounded C N D)
    (h0 : encNeed C (.dict []) ≤ N) : Bounded C N (ensureInfo D) := by
  unfold ReadStream.ensureInfo
  split
  · exact h
  · intro p hp
    rcases List.mem_append.mp hp with hp | hp
    · exact h p hp
    · simp only [List.mem_singleton] at hp; subst hp; exact h0

theorem Bounded.setInInfo {C : Cost} {N : Nat} {D : List (PyVal × PyVal)} (h : Bounded C N D)
    (k : String) {v : PyVal} (hv : C.ev + C.ed + encNeed C v ≤ N) :
    Bounded C N (setInInfo k v D) := by
  unfold ReadStream.setInInfo
  split
  · rename_i I hI
    apply h.setStr
    have hI' := h _ (mem_of_lookupStr hI)
    simp only [encNeed, Nat.max_le] at hI' ⊢
    refine ⟨hI'.1, ?_⟩
    have : encNeedKvs C (Codec.setStr k v I) ≤ max (encNeedKvs C I) (encNeed C v) := by
      rw [encNeedKvs_le]
      intro p hp
      rcases mem_setStr hp with hp | hp
      · exact Nat.le_trans (encNeed_le_kvs hp) (Nat.le_max_left _ _)
      · rw [hp]; exact Nat.le_max_right _ _
    omega
  · exact h

/-- the `info` dict the reader decoded costs it at least one `decode_value` + `decode_dict` -/
theorem infoFloor {C : Cost} {l : List (Bytes × BVal)} {k : Bytes} {X : List (Bytes × BVal)}
    (h : (k, BVal.dict X) ∈ l) : C.dv + max C.abc (C.dd + decNeedKvs C X) ≤ decNeedKvs C l := by
  have := (decNeed_le_kvs (C := C) h).1
  simpa only [decNeed] using this

theorem info_mem_popPieces {enc ikvs : List (Bytes × BVal)}
    (h : lookup kInfo enc = some (.dict ikvs)) :
    ∃ X, (kInfo, BVal.dict X) ∈ popPieces enc ∧
      (X = ikvs ∨ (X = erase kPieces ikvs ∧ ∃ p, lookup kPieces ikvs = some p)) := by
  unfold popPieces
  simp only [h]
  split
  · rename_i p hp
    exact ⟨_, mem_of_lookup (lookup_dictSet enc), Or.inr ⟨rfl, p, hp⟩⟩
  · exact ⟨_, mem_of_lookup h, Or.inl rfl⟩

theorem lookup_popPieces_ne {enc : List (Bytes × BVal)} {k : Bytes} (hne : k ≠ kInfo) :
    lookup k (popPieces enc) = lookup k enc := by
  unfold popPieces
  split
  · split
    · exact lookup_dictSet_ne hne enc
    · rfl
  · rfl

theorem bounded_decodeTop {C : Cost} {sl se : Nat} (hR : Rel C sl se) (enc : List (Bytes × BVal))
    (hp : PiecesOk enc) :
    Bounded C (decNeedKvs C (popPieces enc) + sl) (decodeTop enc) := by
  have hplain : ∀ l, Bounded C (decNeedKvs C l + sl) (decodeKvs l) :=
    fun l => bounded_iff.mpr (encNeedKvs_decodeKvs hR l)
  cases hl : lookup kInfo enc with
  | none => simp only [decodeTop, popPieces, hl]; exact hplain enc
  | some w =>
    cases w with
    | dict ikvs =>
      cases hpp : lookup kPieces ikvs with
      | none => simp only [decodeTop, popPieces, hl, hpp]; exact hplain enc
      | some p =>
        obtain ⟨b, rfl⟩ := hp ikvs p hl hpp
        simp only [decodeTop, popPieces, hl, hpp]
        apply (hplain _).setInInfo
        have hm : (kInfo, BVal.dict (erase kPieces ikvs)) ∈
            dictSet kInfo (.dict (erase kPieces ikvs)) enc := mem_of_lookup (lookup_dictSet enc)
        have h1 := infoFloor (C := C) hm
        have h2 := hR.inInfo
        simp only [raw, encNeed]
        omega
    | int _ => simp only [decodeTop, popPieces, hl]; exact hplain enc
    | bytes _ => simp only [decodeTop, popPieces, hl]; exact hplain enc
    | list _ => simp only [decodeTop, popPieces, hl]; exact hplain enc

/-- **the read metainfo is no dearer to encode than the document was to decode** (plus `sl`) -/
theorem bounded_readDict {C : Cost} {sl se : Nat} (hR : Rel C sl se) (env : Env)
    (enc : List (Bytes × BVal)) (validate : Bool) (t : List (PyVal × PyVal))
    (hpieces : PiecesOk enc) (hdate : DateOk env enc)
    (hi : ∃ ikvs, lookup kInfo enc = some (.dict ikvs))
    (hr : readDict env enc validate = .ok t) :
    Bounded C (decNeedKvs C (popPieces enc) + sl) t := by
  obtain ⟨ikvs, hl⟩ := hi
  obtain ⟨X, hX, _⟩ := info_mem_popPieces hl
  have hfloor := infoFloor (C := C) hX
  have h0 : encNeed C (.dict []) ≤ decNeedKvs C (popPieces enc) + sl := by
    have h1 := hR.floorDict
    have h2 := hR.lvDict
    simp only [encNeed, encNeedKvs]
    omega
  have hin : ∀ b : Bool, C.ev + C.ed + encNeed C (.bool b) ≤ decNeedKvs C (popPieces enc) + sl := by
    intro b
    have h2 := hR.inInfo
    simp only [encNeed]
    omega
  have hmd := bounded_decodeTop hR enc hpieces
  unfold readDict at hr
  simp only at hr
  split at hr
  · exact absurd hr (by simp)
  · split at hr
    · exact absurd hr (by simp)
    · rename_i md1 hmd1
      have hb1 : Bounded C (decNeedKvs C (popPieces enc) + sl) md1 := by
        split at hmd1
        · rename_i cd hcd
          obtain ⟨i, rfl, hts⟩ := hdate cd hcd
          simp only [setCreationDate, hts, Except.ok.injEq] at hmd1
          subst hmd1
          apply (hmd.ensureInfo h0).setStr
          have hcd' : lookup kCreationDate (popPieces enc) = some (.int i) := by
            rw [lookup_popPieces_ne (by decide)]; exact hcd
          have h1 := (decNeed_le_kvs (C := C) (mem_of_lookup hcd')).1
          have h2 := hR.date
          simp only [decNeed] at h1
          simp only [encNeed]
          omega
        · simp only [Except.ok.injEq] at hmd1; exact hmd1 ▸ hmd
      have hb2 : Bounded C (decNeedKvs C (popPieces enc) + sl) (setPrivate enc md1) := by
        unfold setPrivate
        simp only [hl]
        split
        · exact (hb1.ensureInfo h0).setInInfo "private" (hin _)
        · exact hb1
      split at hr
      · exact absurd hr (by simp)
      · simp only [Except.ok.injEq] at hr
        subst hr
        exact hb2.ensureInfo h0

/-- the serialiser on the whole document against the decoder on the document without `pieces` -/
theorem serNeedKvs_le_popPieces {C : Cost} {sl se : Nat} (hR : Rel C sl se)
    (enc : List (Bytes × BVal)) (hp : PiecesOk enc) :
    serNeedKvs C enc ≤ decNeedKvs C (popPieces enc) := by
  unfold popPieces
  split
  · rename_i ikvs hl
    split
    · rename_i p hpp
      obtain ⟨b, rfl⟩ := hp ikvs p hl hpp
      have hm : (kInfo, BVal.dict (erase kPieces ikvs)) ∈
          dictSet kInfo (.dict (erase kPieces ikvs)) enc := mem_of_lookup (lookup_dictSet enc)
      have hfl := infoFloor (C := C) hm
      have hdv := (decNeed_le_kvs (C := C) hm).2
      have hleaf := hR.serLeaf
      rw [serNeedKvs_le]
      intro q hq
      refine ⟨?_, by omega⟩
      rcases mem_dictSet_or (k := kInfo) (w := .dict (erase kPieces ikvs)) hq with hq' | ⟨_, hq'⟩
      · exact Nat.le_trans (serNeed_le_decNeed hR q.2) (decNeed_le_kvs hq').1
      · rw [hl, Option.some.injEq] at hq'
        rw [← hq']
        -- the info dict itself: every entry but `pieces` was decoded
        have hin : serNeedKvs C ikvs ≤ max (decNeedKvs C (erase kPieces ikvs)) C.gen := by
          rw [serNeedKvs_le]
          intro r hr
          refine ⟨?_, Nat.le_max_right _ _⟩
          rcases mem_erase_or (k := kPieces) hr with hr' | ⟨_, hr'⟩
          · exact Nat.le_trans (Nat.le_trans (serNeed_le_decNeed hR r.2) (decNeed_le_kvs hr').1)
              (Nat.le_max_left _ _)
          · rw [hpp, Option.some.injEq] at hr'
            rw [← hr']
            simp only [serNeed]
            exact Nat.le_max_right _ _
        have h1 := hR.serFloor
        have h2 := hR.serPieces
        have h3 := hR.serDict
        simp only [serNeed]
        omega
    · exact serNeedKvs_le_decNeedKvs hR enc
  · exact serNeedKvs_le_decNeedKvs hR enc

/-- the driver's Boolean is the relation of the theorems -/
theorem relOk_iff (C : Cost) (sl se : Nat) : relOk C sl se = true ↔ Rel C sl se := by
  constructor
  · intro h
    simp only [relOk, Bool.and_eq_true, decide_eq_true_eq] at h
    obtain ⟨⟨⟨⟨⟨⟨⟨⟨⟨⟨⟨⟨⟨⟨⟨⟨⟨⟨h1, h2⟩, h3⟩, h4⟩, h5⟩, h6⟩, h7⟩, h8⟩, h9⟩, h10⟩, h11⟩, h12⟩, h13⟩, h14⟩,
      h15⟩, h16⟩, h17⟩, h18⟩, h19⟩ := h
    exact ⟨h1, h2, h3, h4, h5, h6, h7, h8, h9, h10, h11, h12, h13, h14, h15, h16, h17, h18, h19⟩
  · intro h
    simp only [relOk, Bool.and_eq_true, decide_eq_true_eq]
    exact ⟨⟨⟨⟨⟨⟨⟨⟨⟨⟨⟨⟨⟨⟨⟨⟨⟨⟨h.lvList, h.lvDict⟩, h.leafBytes⟩, h.leafStr⟩, h.floorList⟩, h.floorDict⟩,
      h.inInfo⟩, h.date⟩, h.entry⟩, h.entrySer⟩, h.serList⟩, h.serDict⟩, h.serLeaf⟩, h.serX⟩,
      h.serFloor⟩, h.serPieces⟩, h.hashEntry⟩, h.hashEntrySer⟩, h.hashSerFloor⟩

end Torf.Depth
