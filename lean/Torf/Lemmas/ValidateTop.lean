/-
  `validate` as a whole: nothing but MetainfoError outside the class D07f, and what a
  successful validation establishes.
-/
import Torf.Lemmas.ValidateMulti
namespace Torf.Validate
open Torf Torf.Export

variable (urlOk : Bytes → Bool) (fs : FsOracle)

/-- what a successful `validate()` establishes about the metainfo -/
structure ValidFacts (items : Items) : Prop where
  ex : ∃ info b, CommonFacts urlOk items info ∧ AnnounceFacts urlOk items ∧
    PyVal.lookupStr "pieces" info = some (.bytes b) ∧ b.length ≠ 0 ∧ b.length % 20 = 0 ∧
    ((PyVal.lookupStr "files" info = none ∧ SingleFacts info b.length) ∨
     (PyVal.lookupStr "length" info = none ∧ MultiFacts info b.length ∧
        ∀ fl, PyVal.lookupStr "files" info = some fl → fl.isDict = false))

theorem inE_dict (k : String) (info : Items) :
    inE (.s k) (.dict info) = .ok (PyVal.lookupStr k info).isSome := by
  simp [inE, lookupKey, pure, Except.pure]

/-- the body of `validate` on the item list `items` (which has an `info` entry) -/
theorem validateItems_cases {items : Items} {iv : PyVal}
    (hiv : PyVal.lookupStr "info" items = some iv) (r : Except ErrKind Unit)
    (h : (do
      let info ← getE (.dict items) (.s "info")
      checkCommon urlOk (.dict items)
      checkAnnounceList urlOk (.dict items) items
      let plen ← lenE (← getE info (.s "pieces"))
      let hasLength ← inE (.s "length") info
      let hasFiles ← inE (.s "files") info
      if plen == 0 then throw .metainfo
      else if plen % 20 != 0 then throw .metainfo
      else if hasLength && hasFiles then throw .metainfo
      else if hasLength then checkSingle fs (.dict items) info plen
      else if hasFiles then checkMulti fs (.dict items) info plen
      else throw .metainfo : Except ErrKind Unit) = r) :
    (r = .ok () → ValidFacts urlOk items) ∧
    (∀ e, r = .error e →
      (∀ info fl, PyVal.lookupStr "info" items = some (.dict info) →
        PyVal.lookupStr "files" info = some fl → fl.isDict = false) →
      (fs.hasPath = true → ∀ info fl files, PyVal.lookupStr "info" items = some (.dict info) →
        PyVal.lookupStr "files" info = some fl → pyIter fl = some files →
        ∀ x ∈ files, entryJoinable x = true) → e = .metainfo) := by
  subst h
  simp only [bind, Except.bind, getE_ok (getItem_dict_s_some hiv)]
  cases h1 : checkCommon urlOk (.dict items) with
  | error e1 =>
    refine ⟨fun h => absurd h (by simp), fun e h _ _ => ?_⟩
    simp only [Except.error.injEq] at h; subst h
    exact checkCommon_err urlOk h1
  | ok _ =>
    obtain ⟨info, cf⟩ := checkCommon_ok urlOk h1
    have : iv = .dict info := by
      have := cf.hinfo; rw [hiv] at this; exact Option.some.inj this
    subst this
    cases h2 : checkAnnounceList urlOk (.dict items) items with
    | error e2 =>
      refine ⟨fun h => absurd h (by simp), fun e h _ _ => ?_⟩
      simp only [Except.error.injEq] at h; subst h
      exact checkAnnounceList_err urlOk cf.announceList h2
    | ok _ =>
      have af := checkAnnounceList_ok urlOk cf.announceList h2
      obtain ⟨b, hb⟩ := cf.pieces
      simp only [getE_ok (getItem_dict_s_some hb), lenE, pyLen, pure, Except.pure, inE_dict]
      by_cases hz : b.length = 0
      · have e1 : (b.length == 0) = true := by simp [hz]
        simp only [e1, if_true]
        refine ⟨fun h => absurd h (by simp [throw, throwThe, MonadExceptOf.throw]),
          fun e h _ _ => ?_⟩
        simpa [throw, throwThe, MonadExceptOf.throw, eq_comm] using h
      have e1 : (b.length == 0) = false := by simp [hz]
      by_cases h20 : ¬ b.length % 20 = 0
      · have e2 : (b.length % 20 != 0) = true := by simp [bne_iff_ne, h20]
        simp only [e1, e2, Bool.false_eq_true, if_false, if_true]
        refine ⟨fun h => absurd h (by simp [throw, throwThe, MonadExceptOf.throw]),
          fun e h _ _ => ?_⟩
        simpa [throw, throwThe, MonadExceptOf.throw, eq_comm] using h
      have h20 : b.length % 20 = 0 := by omega
      have e2 : (b.length % 20 != 0) = false := by simp [h20]
      simp only [e1, e2, Bool.false_eq_true, if_false]
      cases hL : (PyVal.lookupStr "length" info).isSome <;>
        cases hF : (PyVal.lookupStr "files" info).isSome <;>
        simp only [Bool.and_true, Bool.and_false, Bool.false_eq_true, if_false, if_true]
      · refine ⟨fun h => absurd h (by simp [throw, throwThe, MonadExceptOf.throw]),
          fun e h _ _ => ?_⟩
        simpa [throw, throwThe, MonadExceptOf.throw, eq_comm] using h
      · have hlen : PyVal.lookupStr "length" info = none := by
          cases hx : PyVal.lookupStr "length" info <;> simp_all
        have hp20 : b.length / 20 ≠ 0 := by omega
        constructor
        · intro h
          have hnd := checkMulti_not_dict urlOk fs cf hp20 h
          exact ⟨info, b, cf, af, hb, hz, h20,
            .inr ⟨hlen, (checkMulti_cases urlOk fs cf _ hnd _ rfl).1 h, hnd⟩⟩
        · intro e h hnm hjoin
          exact (checkMulti_cases urlOk fs cf _ (hnm info · cf.hinfo) _ rfl).2 e h
            (fun hp fl files hfl hfiles => hjoin hp info fl files cf.hinfo hfl hfiles)
      · have hfil : PyVal.lookupStr "files" info = none := by
          cases hx : PyVal.lookupStr "files" info <;> simp_all
        constructor
        · intro h
          exact ⟨info, b, cf, af, hb, hz, h20,
            .inl ⟨hfil, (checkSingle_cases urlOk fs cf _ _ rfl).1 h⟩⟩
        · intro e h _ _
          exact (checkSingle_cases urlOk fs cf _ _ rfl).2 e h
      · refine ⟨fun h => absurd h (by simp [throw, throwThe, MonadExceptOf.throw]),
          fun e h _ _ => ?_⟩
        simpa [throw, throwThe, MonadExceptOf.throw, eq_comm] using h

theorem ensureInfo_cases (md0 : Items) :
    ensureInfo md0 = md0 ∨ PyVal.lookupStr "info" (ensureInfo md0) = some (.dict []) := by
  unfold ensureInfo
  split
  · exact .inl rfl
  · rename_i h; right; rw [lookupStr_append, h]; simp [PyVal.lookupStr]

theorem filesNotMapping_spec {md0 : Items} (h : filesNotMapping md0 = true) :
    ∀ info fl, PyVal.lookupStr "info" (ensureInfo md0) = some (.dict info) →
      PyVal.lookupStr "files" info = some fl → fl.isDict = false := by
  intro info fl hi hf
  rcases ensureInfo_cases md0 with he | he
  · rw [he] at hi
    unfold filesNotMapping at h
    rw [hi] at h
    simp only [hf] at h
    cases fl <;> simp_all [PyVal.isDict]
  · rw [he] at hi
    simp only [Option.some.injEq, PyVal.dict.injEq] at hi
    subst hi
    simp [PyVal.lookupStr] at hf

theorem pathsJoinable_spec {md0 : Items} (h : pathsJoinable md0 = true) :
    ∀ info fl files, PyVal.lookupStr "info" (ensureInfo md0) = some (.dict info) →
      PyVal.lookupStr "files" info = some fl → fl.isDict = false → pyIter fl = some files →
      ∀ x ∈ files, entryJoinable x = true := by
  intro info fl files hi hf hnd hfiles x hx
  rcases ensureInfo_cases md0 with he | he
  · rw [he] at hi
    unfold pathsJoinable at h
    rw [hi] at h
    simp only [hf] at h
    cases fl with
    | list l =>
      simp only [pyIter, Option.some.injEq] at hfiles; subst hfiles
      exact List.all_eq_true.mp h x hx
    | tuple l =>
      simp only [pyIter, Option.some.injEq] at hfiles; subst hfiles
      exact List.all_eq_true.mp h x hx
    | dict _ => simp [PyVal.isDict] at hnd
    | bytes b =>
      simp only [pyIter, Option.some.injEq] at hfiles; subst hfiles
      obtain ⟨y, _, rfl⟩ := List.mem_map.mp hx
      rfl
    | str s =>
      simp only [pyIter, Option.some.injEq] at hfiles; subst hfiles
      obtain ⟨y, _, rfl⟩ := List.mem_map.mp hx
      rfl
    | none => simp [pyIter] at hfiles
    | bool _ => simp [pyIter] at hfiles
    | int _ => simp [pyIter] at hfiles
    | float _ => simp [pyIter] at hfiles
    | datetime _ => simp [pyIter] at hfiles
    | other _ => simp [pyIter] at hfiles
  · rw [he] at hi
    simp only [Option.some.injEq, PyVal.dict.injEq] at hi
    subst hi
    simp [PyVal.lookupStr] at hf

/-- `validate()` raises nothing but MetainfoError outside the class of the finding D07f
    (`files` is a mapping; a content path with an unjoinable `path`), for numbers of any size
    (the messages are built with `safe_repr`: /repo 3420ff7 repaired D07j) -/
theorem validate_err {md0 : Items} {e : ErrKind} (hnm : filesNotMapping md0 = true)
    (hpj : fs.hasPath = false ∨ pathsJoinable md0 = true)
    (h : validate urlOk fs md0 = .error e) : e = .metainfo := by
  obtain ⟨iv, hiv⟩ := ensureInfo_lookup md0
  refine (validateItems_cases urlOk fs hiv _ h).2 e rfl
    (filesNotMapping_spec hnm) (fun hp info fl files hi hf hfiles => ?_)
  rcases hpj with hpj | hpj
  · rw [hp] at hpj; exact absurd hpj (by simp)
  · exact pathsJoinable_spec hpj info fl files hi hf (filesNotMapping_spec hnm info fl hi hf) hfiles

/-- what a successful `validate()` establishes (the metainfo already has its `info` entry) -/
theorem validate_ok {md0 : Items} (h : validate urlOk fs md0 = .ok ()) :
    ValidFacts urlOk md0 ∧ ensureInfo md0 = md0 := by
  obtain ⟨iv, hiv⟩ := ensureInfo_lookup md0
  have vf := (validateItems_cases urlOk fs hiv _ h).1 rfl
  rcases ensureInfo_cases md0 with he | he
  · exact ⟨by rwa [he] at vf, he⟩
  · obtain ⟨info, b, cf, _⟩ := vf.ex
    have := cf.hinfo
    rw [he] at this
    simp only [Option.some.injEq, PyVal.dict.injEq] at this
    subst this
    obtain ⟨v, hv, _⟩ := cf.name
    simp [PyVal.lookupStr] at hv

theorem outside_spec {md0 : Items} (h : outsideD07f fs md0 = true) :
    filesNotMapping md0 = true ∧ (fs.hasPath = false ∨ pathsJoinable md0 = true) := by
  simpa only [outsideD07f, Bool.and_eq_true, Bool.or_eq_true, Bool.not_eq_true'] using h

end Torf.Validate
