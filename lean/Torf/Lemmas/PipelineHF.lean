/-
  Torf.Lemmas.PipelineHF — invariant of the pipeline with hasher faults (`Model/PipelineHF.lean`).

  C03's conservation invariant (`InvA`: the pieces in flight are a permutation of the pieces
  pushed) does not survive a hasher that dies with a piece in its hands.  What C01 needs is weaker
  and loss-tolerant: no piece index occurs twice among the pieces in flight and the lost ones, and
  all of them have been pushed (`InvL`).  It is proved here from scratch for every base step (any
  configuration: callback, read fault, refused starts) and for the fault step.
-/
import Torf.Model.PipelineHF
import Torf.Lemmas.PipelineCons
import Torf.Lemmas.PipelineC04Result
namespace Torf.PipelineHF
open Torf.Pipeline

theorem callsSha1_eq (cfg : Cfg) (k : Nat) : callsSha1 cfg k = isHashed cfg k := rfl

/-- every piece index in flight is below this bound -/
def pushedBound (cfg : Cfg) : RPc → Nat
  | .notStarted | .refused | .begin_ => 0
  | .putting k => k
  | .closing | .done => cfg.items.length

structure InvL (cfg : Cfg) (s : State) (lost : List Nat) : Prop where
  cnt : ∀ k, (inFlight s ++ lost).count k ≤ 1
  lt : ∀ k, 0 < (inFlight s ++ lost).count k → k < pushedBound cfg s.rpc
  put : ∀ k, s.rpc = .putting k → k < cfg.items.length
  coll : s.collected = s.seen.filter (isHashed cfg)
  rfresh : s.main = .startReaderChk ∨ s.main = .startReader → s.rpc = .notStarted
  ret : ∀ c, s.main = .finished (.returned c) → c = s.collected

theorem InvL.init (cfg : Cfg) : InvL cfg (Pipeline.init cfg) [] := by
  have h : inFlight (Pipeline.init cfg) = [] := by
    rw [inFlight_def]; simp [Pipeline.init, hk]
  refine ⟨by simp [h], by simp [h], by simp [Pipeline.init], by simp [Pipeline.init],
    by simp [Pipeline.init], by simp [Pipeline.init]⟩

/-- a step that does not add pieces and does not move the reader backwards -/
theorem InvL.mono {cfg : Cfg} {s s' : State} {lost lost' : List Nat} (h : InvL cfg s lost)
    (hc : ∀ k, (inFlight s' ++ lost').count k ≤ (inFlight s ++ lost).count k)
    (hb : pushedBound cfg s.rpc ≤ pushedBound cfg s'.rpc)
    (hput : ∀ k, s'.rpc = .putting k → k < cfg.items.length)
    (hcoll : s'.collected = s'.seen.filter (isHashed cfg))
    (hrf : s'.main = .startReaderChk ∨ s'.main = .startReader → s'.rpc = .notStarted)
    (hret : ∀ c, s'.main = .finished (.returned c) → c = s'.collected) : InvL cfg s' lost' := by
  refine ⟨fun k => Nat.le_trans (hc k) (h.cnt k), fun k hk => ?_, hput, hcoll, hrf, hret⟩
  have := h.lt k (Nat.lt_of_lt_of_le hk (hc k))
  omega

/-- a step of a thread other than main and the reader -/
theorem InvL.same {cfg : Cfg} {s s' : State} {lost lost' : List Nat} (h : InvL cfg s lost)
    (hc : ∀ k, (inFlight s' ++ lost').count k ≤ (inFlight s ++ lost).count k)
    (hr : s'.rpc = s.rpc) (hm : s'.main = s.main) (hs : s'.seen = s.seen)
    (hcl : s'.collected = s.collected) : InvL cfg s' lost' :=
  h.mono hc (by rw [hr]; exact Nat.le_refl _) (by rw [hr]; exact h.put) (by rw [hcl, hs]; exact h.coll)
    (by rw [hm, hr]; exact h.rfresh) (by rw [hm, hcl]; exact h.ret)

/-! ### the items held by hashers, counted -/

theorem count_held_set (l : List HPc) (i : Nat) (q y : HPc) (k : Nat) (h : l[i]? = some y) :
    ((l.set i q).filterMap hk).count k + (hk y).toList.count k =
      (l.filterMap hk).count k + (hk q).toList.count k := by
  have := (filterMap_set_perm hk l i q y h).count_eq k
  simpa [List.count_append] using this

/-- overwriting a hasher by a state that holds nothing never adds a piece -/
theorem count_held_set_le (l : List HPc) (i : Nat) (q : HPc) (k : Nat) (hq : hk q = none) :
    ((l.set i q).filterMap hk).count k ≤ (l.filterMap hk).count k := by
  cases hl : l[i]? with
  | none =>
    have : l.length ≤ i := by simpa using hl
    rw [List.set_eq_of_length_le this]
    exact Nat.le_refl _
  | some y =>
    have := count_held_set l i q y k hl
    rw [hq] at this
    simp only [Option.toList_none, List.count_nil, Nat.add_zero] at this
    omega

theorem count_inFlight (s : State) (lost : List Nat) (k : Nat) :
    (inFlight s ++ lost).count k =
      s.seen.count k + (s.hq.filterMap id).count k + (s.hs.filterMap hk).count k +
        (s.pq.filterMap id).count k + lost.count k := by
  rw [inFlight_def]
  simp only [List.count_append]

/-! ### main -/

theorem InvL.main {cfg : Cfg} {s s' : State} {lost : List Nat} (h : InvL cfg s lost)
    (hs : stepMain cfg s = some s') : InvL cfg s' lost := by
  by_cases hc : s.main = .collect
  · cases hq : s.hq with
    | nil => simp [stepMain, hc, hq] at hs
    | cons x rest =>
      cases x with
      | none =>
        simp only [stepMain, hc, hq, Option.some.injEq] at hs
        subst hs
        refine h.mono (fun k => ?_) (Nat.le_refl _) h.put h.coll (by simp) (by simp)
        simp only [count_inFlight, hq, List.filterMap_cons, id]
        omega
      | some k =>
        by_cases hk : k ∈ s.seen
        · -- `assert piece_index not in self._pieces_seen` (unreachable; harmless for `InvL`)
          simp only [stepMain, hc, hq, List.contains_eq_mem, hk, decide_true, ↓reduceIte,
            Option.some.injEq] at hs
          subst hs
          refine h.mono (fun j => ?_) (Nat.le_refl _) h.put h.coll (by simp) (by simp)
          simp only [count_inFlight, hq, List.filterMap_cons, id, List.count_cons]
          omega
        · rw [stepMain_collect hc hq hk, Option.some.injEq] at hs
          subst hs
          have hcount : ∀ (t : State), t.seen = s.seen ++ [k] → t.hq = rest → t.hs = s.hs → t.pq = s.pq →
              ∀ j, (inFlight t ++ lost).count j ≤ (inFlight s ++ lost).count j := by
            intro t h1 h2 h3 h4 j
            rw [count_inFlight, count_inFlight]
            simp only [h1, h2, h3, h4, hq, List.filterMap_cons, id, List.count_append,
              List.count_cons, List.count_nil]
            omega
          have hcoll : (collectItem cfg s k rest).collected =
              (collectItem cfg s k rest).seen.filter (isHashed cfg) := by
            simp only [collectItem, List.filter_append, h.coll]
            by_cases hh : isHashed cfg k <;> simp [hh]
          unfold collectNext
          split
          · exact h.mono (hcount _ rfl rfl rfl rfl) (Nat.le_refl _) h.put hcoll (by simp) (by simp)
          · split
            · refine h.mono (hcount _ rfl rfl rfl rfl) (Nat.le_refl _) h.put hcoll ?_ ?_
              · simp [collectItem, hc]
              · simp [collectItem, hc]
            · refine h.mono (hcount _ rfl rfl rfl rfl) (Nat.le_refl _) h.put hcoll ?_ ?_
              · simp [collectItem, hc]
              · simp [collectItem, hc]
            · exact h.mono (hcount _ rfl rfl rfl rfl) (Nat.le_refl _) h.put hcoll (by simp) (by simp)
  · have hcount : ∀ (t : State), t.seen = s.seen → t.hq = s.hq → t.pq = s.pq →
        (∀ j, (t.hs.filterMap hk).count j ≤ (s.hs.filterMap hk).count j) →
        ∀ j, (inFlight t ++ lost).count j ≤ (inFlight s ++ lost).count j := by
      intro t h1 h2 h4 h3 j
      have := h3 j
      simp only [count_inFlight, h1, h2, h4]
      omega
    have hsetle : ∀ (i : Nat) (q : HPc), hk q = none →
        ∀ j, ((s.hs.set i q).filterMap hk).count j ≤ (s.hs.filterMap hk).count j :=
      fun i q hq j => count_held_set_le s.hs i q j hq
    unfold stepMain at hs
    simp only [afterReaderJoin, enterJoinHasher, finishWith, setHasher] at hs
    split at hs
    case h_7 hm => exact absurd hm hc
    case h_2 hm =>
      -- startReader: the reader was not started, nothing is in flight
      have hr := h.rfresh (Or.inr hm)
      split at hs <;>
      · simp only [Option.some.injEq] at hs; subst hs
        refine h.mono (hcount _ rfl rfl rfl (fun _ => Nat.le_refl _)) (by simp [hr, pushedBound])
          (by simp) h.coll (by simp) (by simp)
    all_goals
      rename_i hm
      repeat' split at hs
    all_goals
      first
      | (simp at hs; done)
      | (simp only [Option.some.injEq] at hs; subst hs
         refine h.mono (hcount _ rfl rfl rfl ?_) (Nat.le_refl _) h.put h.coll ?_ ?_
         · first
           | exact fun _ => Nat.le_refl _
           | exact hsetle _ _ rfl
         · intro h'
           first
           | exact h.rfresh (Or.inl hm)
           | (simp at h'; done)
         · intro c hc'
           first
           | (simp at hc'; done)
           | (simp at hc'; exact hc'.symm))

/-! ### reader -/

theorem InvL.readerNext {cfg : Cfg} {t : State} {lost : List Nat} {k : Nat}
    (hcnt : ∀ j, (inFlight t ++ lost).count j ≤ 1)
    (hlt : ∀ j, 0 < (inFlight t ++ lost).count j → j < k) (hk : k ≤ cfg.items.length)
    (hcoll : t.collected = t.seen.filter (isHashed cfg))
    (hm : t.main ≠ .startReaderChk ∧ t.main ≠ .startReader)
    (hret : ∀ c, t.main = .finished (.returned c) → c = t.collected) :
    InvL cfg (readerNext cfg t k) lost := by
  have hi := inFlight_readerNext cfg t k
  have hrpc : (Pipeline.readerNext cfg t k).rpc = .closing ∨
      ((Pipeline.readerNext cfg t k).rpc = .putting k ∧ k < cfg.items.length) := by
    unfold Pipeline.readerNext
    split
    · simp
    · split
      · simp
      · split
        · simp
        · right; simp; omega
  refine ⟨by rw [hi]; exact hcnt, ?_, ?_, by simp [hcoll], ?_, by simpa using hret⟩
  · intro j hj
    rw [hi] at hj
    have := hlt j hj
    rcases hrpc with h | ⟨h, _⟩ <;> rw [h] <;> simp only [pushedBound] <;> omega
  · intro k' hk'
    rcases hrpc with h | ⟨h, hlt'⟩ <;> rw [h] at hk'
    · simp at hk'
    · simp only [RPc.putting.injEq] at hk'; subst hk'; exact hlt'
  · rw [readerNext_main]
    intro h
    rcases h with h | h
    · exact absurd h hm.1
    · exact absurd h hm.2

theorem InvL.reader {cfg : Cfg} {s s' : State} {lost : List Nat} (h : InvL cfg s lost)
    (hs : stepReader cfg s = some s') : InvL cfg s' lost := by
  have hmain : s.rpc ≠ .notStarted → s.main ≠ .startReaderChk ∧ s.main ≠ .startReader := by
    intro hr
    exact ⟨fun hm => hr (h.rfresh (Or.inl hm)), fun hm => hr (h.rfresh (Or.inr hm))⟩
  unfold stepReader at hs
  split at hs
  · rename_i hr
    simp only [Option.some.injEq] at hs; subst hs
    refine InvL.readerNext h.cnt (fun j hj => ?_) (Nat.zero_le _) h.coll (hmain (by simp [hr])) h.ret
    have := h.lt j hj
    simp [hr, pushedBound] at this
  · rename_i k hr
    split at hs
    · simp only [Option.some.injEq] at hs; subst hs
      have hklt := h.put k hr
      have hold : ∀ j, 0 < (inFlight s ++ lost).count j → j < k := by
        intro j hj
        have := h.lt j hj
        simpa [hr, pushedBound] using this
      have hcount : ∀ j, (inFlight { s with pq := s.pq ++ [some k] } ++ lost).count j =
          (inFlight s ++ lost).count j + (if k = j then 1 else 0) := by
        intro j
        rw [count_inFlight, count_inFlight]
        simp only [List.filterMap_append, List.filterMap_cons, id, List.filterMap_nil,
          List.count_append, List.count_cons, List.count_nil, beq_iff_eq]
        omega
      refine InvL.readerNext (fun j => ?_) (fun j hj => ?_) hklt h.coll (hmain (by simp [hr])) h.ret
      · rw [hcount]
        by_cases hkj : k = j
        · subst hkj
          have : (inFlight s ++ lost).count k = 0 := by
            cases hz : (inFlight s ++ lost).count k with
            | zero => rfl
            | succ n => exact absurd (hold k (by omega)) (Nat.lt_irrefl _)
          simp [this]
        · simp only [hkj, ↓reduceIte, Nat.add_zero]; exact h.cnt j
      · rw [hcount] at hj
        by_cases hkj : k = j
        · omega
        · simp only [hkj, ↓reduceIte, Nat.add_zero] at hj
          have := hold j hj
          omega
    · simp at hs
  · rename_i hr
    split at hs
    · simp only [Option.some.injEq] at hs; subst hs
      have hm := hmain (by simp [hr])
      refine h.mono (fun j => ?_) (by simp [hr, pushedBound]) (by simp) h.coll ?_ h.ret
      · rw [count_inFlight, count_inFlight]
        simp only [List.filterMap_append, List.filterMap_cons, id, List.filterMap_nil,
          List.append_nil]
        omega
      · intro hx; rcases hx with hx | hx
        · exact absurd hx hm.1
        · exact absurd hx hm.2
    · simp at hs
  · simp at hs

/-! ### hashers -/

theorem InvL.hasher {cfg : Cfg} {s s' : State} {lost : List Nat} {i : Nat} {b : Bool}
    (h : InvL cfg s lost) (hs : stepHasher cfg s i b = some s') : InvL cfg s' lost := by
  unfold stepHasher at hs
  simp only [setHasher] at hs
  split at hs
  · simp at hs
  · -- begin
    rename_i hi
    split at hs
    · simp at hs
    · simp only [Option.some.injEq] at hs; subst hs
      refine h.same (fun j => ?_) rfl rfl rfl rfl
      have := count_held_set_le s.hs i .getting j rfl
      rw [count_inFlight, count_inFlight]; simp only; omega
  · -- getting
    rename_i hi
    split at hs
    · split at hs
      · split at hs
        · simp only [Option.some.injEq] at hs; subst hs; exact h
        · simp only [Option.some.injEq] at hs; subst hs
          refine h.same (fun j => ?_) rfl rfl rfl rfl
          have := count_held_set_le s.hs i .done j rfl
          rw [count_inFlight, count_inFlight]; simp only; omega
      · simp at hs
    · rename_i x rest hpq
      split at hs
      · simp at hs
      · split at hs
        · rename_i k
          simp only [Option.some.injEq] at hs; subst hs
          refine h.same (fun j => ?_) rfl rfl rfl rfl
          have := count_held_set s.hs i (.holding k) .getting j hi
          rw [count_inFlight, count_inFlight]
          simp only [hpq, List.filterMap_cons, id, List.count_cons, hk, Option.toList_none,
            Option.toList_some, List.count_nil, beq_iff_eq] at this ⊢
          omega
        · simp only [Option.some.injEq] at hs; subst hs
          refine h.same (fun j => ?_) rfl rfl rfl rfl
          have := count_held_set_le s.hs i .requeue j rfl
          rw [count_inFlight, count_inFlight]
          simp only [hpq, List.filterMap_cons, id]; omega
  · -- holding
    rename_i k hi
    split at hs
    · simp at hs
    · simp only [Option.some.injEq] at hs; subst hs
      refine h.same (fun j => ?_) rfl rfl rfl rfl
      have := count_held_set s.hs i .getting (.holding k) j hi
      rw [count_inFlight, count_inFlight]
      simp only [List.filterMap_append, List.filterMap_cons, id, List.filterMap_nil,
        List.count_append, List.count_cons, hk, Option.toList_none,
        Option.toList_some, List.count_nil, beq_iff_eq] at this ⊢
      omega
  · -- requeue
    rename_i hi
    split at hs
    · simp at hs
    · split at hs
      · simp only [Option.some.injEq] at hs; subst hs
        refine h.same (fun j => ?_) rfl rfl rfl rfl
        have := count_held_set_le s.hs i .setEv j rfl
        rw [count_inFlight, count_inFlight]
        simp only [List.filterMap_append, List.filterMap_cons, id, List.filterMap_nil,
          List.append_nil]; omega
      · simp at hs
  · -- setEv
    rename_i hi
    split at hs
    · simp at hs
    · simp only [Option.some.injEq] at hs; subst hs
      refine h.same (fun j => ?_) rfl rfl rfl rfl
      have := count_held_set_le s.hs i .done j rfl
      rw [count_inFlight, count_inFlight]; simp only; omega
  · simp at hs

/-- the fault step: a hasher dies with piece `k` in its hands -/
theorem InvL.die {cfg : Cfg} {s : State} {rest : List (Option Nat)} {lostL : List Nat} {i k : Nat}
    (h : InvL cfg s lostL) (hpq : s.pq = some k :: rest) :
    InvL cfg (setHasher { s with pq := rest } i .done) (lostL ++ [k]) := by
  refine h.same (fun j => ?_) rfl rfl rfl rfl
  have := count_held_set_le s.hs i .done j rfl
  rw [count_inFlight, count_inFlight]
  simp only [setHasher, hpq, List.filterMap_cons, id, List.count_cons, List.count_append,
    List.count_nil, beq_iff_eq]
  omega

/-! ### janitor -/

theorem InvL.janitor {cfg : Cfg} {s s' : State} {lost : List Nat} {b : Bool} (h : InvL cfg s lost)
    (hs : stepJanitor cfg s b = some s') : InvL cfg s' lost := by
  have key : ∀ t : State, t.seen = s.seen → t.hq.filterMap id = s.hq.filterMap id → t.hs = s.hs →
      t.pq = s.pq → t.rpc = s.rpc → t.main = s.main → t.collected = s.collected →
      InvL cfg t lost := by
    intro t h1 h2 h3 h4 h5 h6 h7
    refine h.same (fun j => ?_) h5 h6 h1 h7
    rw [count_inFlight, count_inFlight, h1, h2, h3, h4]
    exact Nat.le_refl _
  unfold stepJanitor at hs
  simp only [enterSpin, enterPrune] at hs
  repeat' split at hs
  all_goals
    first
    | (simp at hs; done)
    | (simp only [Option.some.injEq] at hs; subst hs; apply key <;> simp)

theorem InvL.step {cfg : Cfg} {s s' : State} {lost : List Nat} {l : Label} (h : InvL cfg s lost)
    (hs : Pipeline.step cfg s l = some s') : InvL cfg s' lost := by
  unfold Pipeline.step at hs
  split at hs
  · split at hs
    · simp at hs
    · exact h.main hs
  · split at hs
    · simp at hs
    · exact h.reader hs
  · exact h.hasher hs
  · exact h.janitor hs

/-! ### the wrapped system -/

def InvX (c : CfgX) (x : StateX) : Prop := InvL c.base x.base x.lost

theorem InvX.init (c : CfgX) : InvX c (initX c) := InvL.init c.base

theorem InvX.step {c : CfgX} {x x' : StateX} {l : Label} (h : InvX c x) (hs : stepX c x l = some x') :
    InvX c x' := by
  unfold InvX at h ⊢
  unfold stepX at hs
  split at hs
  · -- main
    split at hs
    · simp at hs
    · unfold stepMainX at hs
      split at hs
      · simp at hs
      · split at hs
        · simp at hs
        · rename_i b hb
          have hb' := h.main hb
          split at hs
          · split at hs
            · simp only [Option.some.injEq] at hs; subst hs; exact h
            · simp only [Option.some.injEq] at hs; subst hs; exact hb'
          · simp only [Option.some.injEq] at hs; subst hs; exact hb'
  · -- hasher
    rename_i i hl
    unfold stepHasherX at hs
    split at hs
    · rename_i k rest hi hpq ht
      split at hs
      · simp only at hs
        split at hs
        · simp only [Option.some.injEq] at hs; subst hs
          exact h.die hpq
        · cases hb : stepHasher c.base x.base i false with
          | none => simp [hb] at hs
          | some b =>
            simp only [hb, Option.map_some, Option.some.injEq] at hs; subst hs
            exact h.hasher hb
      · cases hb : stepHasher c.base x.base i false with
        | none => simp [hb] at hs
        | some b =>
          simp only [hb, Option.map_some, Option.some.injEq] at hs; subst hs
          exact h.hasher hb
    · cases hb : stepHasher c.base x.base i l.timeout with
      | none => simp [hb] at hs
      | some b =>
        simp only [hb, Option.map_some, Option.some.injEq] at hs; subst hs
        exact h.hasher hb
  · cases hb : Pipeline.step c.base x.base l with
    | none => simp [hb] at hs
    | some b =>
      simp only [hb, Option.map_some, Option.some.injEq] at hs; subst hs
      exact InvL.step h hb

theorem runX_induction {c : CfgX} {P : StateX → Prop}
    (hstep : ∀ x x' l, P x → stepX c x l = some x' → P x') :
    ∀ (ls : List Label) (x x' : StateX), P x → runX c x ls = some x' → P x' := by
  intro ls
  induction ls with
  | nil => intro x x' hp hr; simp [runX] at hr; exact hr ▸ hp
  | cons l ls ih =>
    intro x x' hp hr
    simp only [runX] at hr
    cases hst : stepX c x l with
    | none => simp [hst] at hr
    | some x₁ =>
      simp only [hst] at hr
      exact ih x₁ x' (hstep _ _ _ hp hst) hr

theorem InvX.of_reachable {c : CfgX} {x : StateX} (h : ReachableX c x) : InvX c x := by
  obtain ⟨ls, hls⟩ := h
  exact runX_induction (P := InvX c) (fun _ _ _ hp hs => hp.step hs) ls _ _ (InvX.init c) hls

/-! ### what the invariant says about the collector's list -/

/-- the digests the collector holds belong to pairwise distinct pieces of the torrent, none of
    which is a lost one; together with the lost pieces they are at most all pieces -/
theorem InvL.collected_sound {cfg : Cfg} {s : State} {lost : List Nat} (h : InvL cfg s lost) :
    s.collected.Nodup ∧ (∀ k ∈ s.collected, k < cfg.items.length) ∧
      s.collected.length + lost.length ≤ cfg.items.length := by
  have hb : pushedBound cfg s.rpc ≤ cfg.items.length := by
    cases hr : s.rpc <;> simp only [pushedBound] <;> try omega
    rename_i k; exact Nat.le_of_lt (h.put k hr)
  have hsub : ∀ k, (s.seen ++ lost).count k ≤ (inFlight s ++ lost).count k := by
    intro k
    rw [count_inFlight]
    simp only [List.count_append]
    omega
  have hnd : (s.seen ++ lost).Nodup := by
    rw [List.nodup_iff_count]
    exact fun k => Nat.le_trans (hsub k) (h.cnt k)
  have hlt : ∀ k ∈ s.seen ++ lost, k < cfg.items.length := by
    intro k hk
    have h1 : 0 < (s.seen ++ lost).count k := List.count_pos_iff.2 hk
    have := h.lt k (Nat.lt_of_lt_of_le h1 (hsub k))
    omega
  have hlen : (s.seen ++ lost).length ≤ (List.range cfg.items.length).length :=
    length_le_of_nodup_subset hnd (fun k hk => List.mem_range.2 (hlt k hk))
  simp only [List.length_append, List.length_range] at hlen
  have hcl : s.collected.length ≤ s.seen.length := by
    rw [h.coll]; exact List.length_filter_le _ _
  refine ⟨?_, ?_, by omega⟩
  · rw [h.coll]
    exact ((List.nodup_append.1 hnd).1).filter _
  · intro k hk
    rw [h.coll] at hk
    exact hlt k (List.mem_append_left _ (List.mem_filter.1 hk).1)

/-! ### without hasher faults the wrapped system is the base system -/

theorem stepX_base_of_noHashFault {c : CfgX} (hnf : ∀ i j, c.hashFault i j = false) {x : StateX}
    (hd : x.dead = []) (hr : x.reraised = none) (l : Label) :
    (stepX c x l).map (·.base) = Pipeline.step c.base x.base l ∧
      ∀ x', stepX c x l = some x' → x'.dead = [] ∧ x'.reraised = none := by
  unfold stepX
  split
  · -- main
    rename_i hl
    unfold Pipeline.step
    simp only [hl]
    split
    · simp
    · unfold stepMainX
      simp only [hr, Option.isSome_none, Bool.false_eq_true, ↓reduceIte, hd, List.contains_nil,
        Bool.and_false]
      cases stepMain c.base x.base with
      | none => simp
      | some b =>
        simp only
        split <;> simp
  · rename_i i hl
    unfold Pipeline.step
    simp only [hl]
    unfold stepHasherX
    split
    · rename_i k rest hi hpq ht
      simp only [hnf, Bool.false_eq_true, ↓reduceIte, ht]
      split
      · cases stepHasher c.base x.base i false <;> simp [hd, hr]
      · cases stepHasher c.base x.base i false <;> simp [hd, hr]
    · cases stepHasher c.base x.base i l.timeout <;> simp [hd, hr]
  · cases Pipeline.step c.base x.base l <;> simp [hd, hr]

theorem runX_base_of_noHashFault {c : CfgX} (hnf : ∀ i j, c.hashFault i j = false) :
    ∀ (ls : List Label) (x : StateX), x.dead = [] → x.reraised = none →
      (runX c x ls).map (·.base) = Pipeline.run c.base x.base ls ∧
        ∀ x', runX c x ls = some x' → x'.dead = [] ∧ x'.reraised = none := by
  intro ls
  induction ls with
  | nil => intro x hd hr; simp [runX, Pipeline.run]; exact ⟨hd, hr⟩
  | cons l ls ih =>
    intro x hd hr
    obtain ⟨h1, h2⟩ := stepX_base_of_noHashFault hnf hd hr l
    simp only [runX, Pipeline.run]
    cases hs : stepX c x l with
    | none =>
      rw [hs] at h1
      simp only [Option.map_none] at h1
      simp [← h1]
    | some x₁ =>
      rw [hs] at h1
      simp only [Option.map_some] at h1
      obtain ⟨hd1, hr1⟩ := h2 x₁ hs
      simp only [← h1]
      exact ih x₁ hd1 hr1

end Torf.PipelineHF
