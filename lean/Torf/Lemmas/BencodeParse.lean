/-
  `parse (ser v) = some v` for canonical values: the stack machine run on a serialisation.
-/
import Torf.Lemmas.BencodeNum
import Torf.Lemmas.BencodeSort
namespace Torf.Bencode

/-- big-step semantics of the decoder loop -/
inductive Reach (lim : Nat) : Bytes → List Item → Option BVal → Prop where
  | done {inp st r} : step lim inp st = .done r → Reach lim inp st r
  | cont {inp st inp' st' r} : step lim inp st = .cont inp' st' → Reach lim inp' st' r →
      Reach lim inp st r

def ReachR (lim : Nat) : StepResult → Option BVal → Prop
  | .done r', r => r = r'
  | .cont inp st, r => Reach lim inp st r

theorem reach_of_step {lim inp st r} (h : ReachR lim (step lim inp st) r) : Reach lim inp st r := by
  cases hs : step lim inp st with
  | done r' => rw [hs] at h; exact .done (by rw [hs]; exact congrArg _ h.symm)
  | cont inp' st' => rw [hs] at h; exact .cont hs h

theorem deliver_length {elem rest st inp' st'} (h : deliver elem rest st = .cont inp' st') :
    inp' = rest := by
  unfold deliver at h
  split at h
  · exact absurd h (by simp)
  · simp only [StepResult.cont.injEq] at h; exact h.1.symm

theorem step_length {lim inp st inp' st'} (h : step lim inp st = .cont inp' st') :
    inp'.length < inp.length := by
  unfold step at h
  split at h
  · exact absurd h (by simp)
  · rename_i c rest
    simp only [List.length_cons]
    split at h
    · split at h
      · exact absurd h (by simp)
      · rw [deliver_length h]; omega
    · split at h
      · split at h
        · exact absurd h (by simp)
        · rename_i n rest' heq
          rw [deliver_length h]
          have := readInteger_length _ _ _ _ heq; omega
      · split at h
        · simp only [StepResult.cont.injEq] at h; rw [← h.1]; omega
        · split at h
          · simp only [StepResult.cont.injEq] at h; rw [← h.1]; omega
          · split at h
            · exact absurd h (by simp)
            · rename_i b rest' heq
              rw [deliver_length h]
              have := readString_length _ _ _ _ heq
              simp only [List.length_cons] at this; omega

theorem run_of_reach {lim inp st r} (h : Reach lim inp st r) :
    ∀ f, inp.length < f → run lim f inp st = r := by
  induction h with
  | done hs =>
    intro f hf
    cases f with
    | zero => omega
    | succ f => simp only [run, hs]
  | cont hs _ ih =>
    intro f hf
    cases f with
    | zero => omega
    | succ f =>
      simp only [run, hs]
      exact ih f (by have := step_length hs; omega)

/-! ### single steps on serialised tokens -/

theorem step_int (lim : Nat) (i : Int) (rest : Bytes) (st : List Item) (h : numDigits i ≤ lim) :
    step lim (105 :: decInt i ++ 101 :: rest) st = deliver (.int i) rest st := by
  simp only [step, List.cons_append]
  rw [if_neg (by decide), if_pos trivial, readInteger_decInt lim i rest h]

theorem step_bytes (lim : Nat) (b rest : Bytes) (st : List Item)
    (h : (decNat b.length).length ≤ lim) :
    step lim (serBytes b ++ rest) st = deliver (.bytes b) rest st := by
  obtain ⟨d, t, hd, hdig⟩ := serBytes_head b
  have hr := readString_serBytes lim b rest h
  rw [hd] at hr ⊢
  simp only [List.cons_append] at hr ⊢
  simp only [step]
  have h1 : d ≠ 101 := by intro h; subst h; revert hdig; decide
  have h2 : d ≠ 105 := by intro h; subst h; revert hdig; decide
  have h3 : d ≠ 100 := by intro h; subst h; revert hdig; decide
  have h4 : d ≠ 108 := by intro h; subst h; revert hdig; decide
  rw [if_neg h1, if_neg h2, if_neg h3, if_neg h4, hr]

theorem deliver_nonempty (v : BVal) (rest : Bytes) (x : Item) (st : List Item) :
    deliver v rest (x :: st) = .cont rest (.val v :: x :: st) := by
  simp [deliver]

/-! ### the stack after pushing values / entries -/

def pushVals (l : List BVal) (st : List Item) : List Item := l.foldl (fun s v => .val v :: s) st

def pushPairs (kvs : List (Bytes × BVal)) (st : List Item) : List Item :=
  kvs.foldl (fun s p => .val p.2 :: .val (.bytes p.1) :: s) st

theorem popUntil_pushVals (l : List BVal) (st : List Item) (acc : List BVal) :
    popUntil (pushVals l st) acc = popUntil st (l ++ acc) := by
  induction l generalizing st acc with
  | nil => rfl
  | cons v t ih =>
    simp only [pushVals, List.foldl_cons] at ih ⊢
    rw [ih]; simp [popUntil]

def flatPairs (kvs : List (Bytes × BVal)) : List BVal := kvs.flatMap fun p => [.bytes p.1, p.2]

theorem popUntil_pushPairs (kvs : List (Bytes × BVal)) (st : List Item) (acc : List BVal) :
    popUntil (pushPairs kvs st) acc = popUntil st (flatPairs kvs ++ acc) := by
  induction kvs generalizing st acc with
  | nil => rfl
  | cons p t ih =>
    simp only [pushPairs, List.foldl_cons] at ih ⊢
    rw [ih]; simp [popUntil, flatPairs]

theorem toPairs_flatPairs (kvs : List (Bytes × BVal)) :
    toPairs (flatPairs kvs) = kvs.map fun p => (.bytes p.1, p.2) := by
  induction kvs with
  | nil => rfl
  | cons p t ih =>
    simp only [flatPairs, List.flatMap_cons, List.cons_append, List.nil_append, toPairs,
      List.map_cons] at ih ⊢
    rw [ih]

theorem mapM_bytesKey (kvs : List (Bytes × BVal)) :
    (kvs.map fun p => ((BVal.bytes p.1, p.2) : BVal × BVal)).mapM bytesKey = some kvs := by
  induction kvs with
  | nil => rfl
  | cons p t ih => simp [List.mapM_cons, ih, bytesKey]

theorem dictSet_fresh (k : Bytes) (v : BVal) (d : List (Bytes × BVal))
    (h : k ∉ d.map (·.1)) : dictSet k v d = d ++ [(k, v)] := by
  induction d with
  | nil => rfl
  | cons p t ih =>
    simp only [List.map_cons, List.mem_cons, not_or] at h
    have hne : (p.1 == k) = false := by
      simp only [beq_eq_false_iff_ne, ne_eq]; exact fun e => h.1 e.symm
    simp only [dictSet, hne, Bool.false_eq_true, if_false, List.cons_append, ih h.2]

theorem foldl_dictSet (ps d : List (Bytes × BVal)) (h : ((d ++ ps).map (·.1)).Nodup) :
    ps.foldl (fun d p => dictSet p.1 p.2 d) d = d ++ ps := by
  induction ps generalizing d with
  | nil => simp
  | cons p t ih =>
    simp only [List.foldl_cons]
    have hfresh : p.1 ∉ d.map (·.1) := by
      simp only [List.map_append, List.map_cons] at h
      have := (List.nodup_append.mp h).2.2
      intro hm
      exact this _ hm _ (by simp) rfl
    rw [dictSet_fresh _ _ _ hfresh, ih]
    · simp
    · simpa using h

theorem listToDict_flatPairs (kvs : List (Bytes × BVal)) (h : (kvs.map (·.1)).Nodup) :
    listToDict (flatPairs kvs) = some (.dict kvs) := by
  simp only [listToDict, toPairs_flatPairs, mapM_bytesKey]
  rw [foldl_dictSet kvs [] (by simpa using h)]; simp

/-! ### serialisation of canonical values -/

theorem serKvs_keys (kvs : List (Bytes × BVal)) : (serKvs kvs).map (·.1) = kvs.map (·.1) := by
  induction kvs with
  | nil => rfl
  | cons p t ih => obtain ⟨k, v⟩ := p; simp [serKvs, ih]

theorem ser_dict_canon (kvs : List (Bytes × BVal)) (h : keysAsc (kvs.map (·.1)) = true) :
    ser (.dict kvs) = 100 :: serEntries kvs ++ [101] := by
  have hp := keysAsc_pairwise _ h
  rw [← serKvs_keys] at hp
  have : (serKvs kvs).Pairwise (fun a b => keyLe a b = true) := by
    rw [List.pairwise_map] at hp
    exact hp.imp (fun hab => by simp only [keyLe, decide_eq_true_eq]; exact List.le_of_lt hab)
  simp only [ser, serEntries, isort_of_sorted _ _ this]

theorem serEntries_cons (k : Bytes) (v : BVal) (t : List (Bytes × BVal)) :
    serEntries ((k, v) :: t) = serBytes k ++ ser v ++ serEntries t := by
  simp [serEntries, serKvs]

mutual
theorem reach_ser (lim : Nat) : ∀ (v : BVal), canon v = true → small lim v = true →
    ∀ rest st r, ReachR lim (deliver v rest st) r → Reach lim (ser v ++ rest) st r
  | .int i, _, hs, rest, st, r, h => by
    apply reach_of_step
    have : ser (.int i) ++ rest = 105 :: decInt i ++ 101 :: rest := by simp [ser]
    rw [this, step_int lim i rest st (by simpa [small] using hs)]; exact h
  | .bytes b, _, hs, rest, st, r, h => by
    apply reach_of_step
    simp only [ser]
    rw [step_bytes lim b rest st (by simpa [small] using hs)]; exact h
  | .list l, hc, hs, rest, st, r, h => by
    have e : ser (.list l) ++ rest = 108 :: (serList l ++ 101 :: rest) := by simp [ser]
    rw [e]
    refine .cont (inp' := serList l ++ 101 :: rest) (st' := .lst :: st) (by simp [step]) ?_
    apply reach_serList lim l (by simpa [canon] using hc) (by simpa [small] using hs)
    apply reach_of_step
    have : step lim (101 :: rest) (pushVals l (.lst :: st)) = deliver (.list l) rest st := by
      simp only [step, if_true, popUntil_pushVals, popUntil, List.append_nil]
    rw [this]; exact h
  | .dict kvs, hc, hs, rest, st, r, h => by
    simp only [canon, Bool.and_eq_true] at hc
    have e : ser (.dict kvs) ++ rest = 100 :: (serEntries kvs ++ 101 :: rest) := by
      rw [ser_dict_canon kvs hc.1]; simp
    rw [e]
    refine .cont (inp' := serEntries kvs ++ 101 :: rest) (st' := .dct :: st) (by simp [step]) ?_
    apply reach_serKvs lim kvs hc.2 (by simpa [small] using hs)
    apply reach_of_step
    have : step lim (101 :: rest) (pushPairs kvs (.dct :: st)) = deliver (.dict kvs) rest st := by
      simp only [step, if_true, popUntil_pushPairs, popUntil, List.append_nil,
        listToDict_flatPairs kvs (keysAsc_nodup _ hc.1), Option.map_some]
    rw [this]; exact h
theorem reach_serList (lim : Nat) : ∀ (l : List BVal), canonList l = true → smallList lim l = true →
    ∀ tail x st r, Reach lim tail (pushVals l (x :: st)) r →
      Reach lim (serList l ++ tail) (x :: st) r
  | [], _, _, tail, x, st, r, h => by simpa [serList, pushVals] using h
  | v :: t, hc, hs, tail, x, st, r, h => by
    simp only [canonList, Bool.and_eq_true] at hc
    simp only [smallList, Bool.and_eq_true] at hs
    have e : serList (v :: t) ++ tail = ser v ++ (serList t ++ tail) := by simp [serList]
    rw [e]
    apply reach_ser lim v hc.1 hs.1
    rw [deliver_nonempty]
    exact reach_serList lim t hc.2 hs.2 tail (.val v) (x :: st) r h
theorem reach_serKvs (lim : Nat) : ∀ (kvs : List (Bytes × BVal)), canonKvs kvs = true →
    smallKvs lim kvs = true →
    ∀ tail x st r, Reach lim tail (pushPairs kvs (x :: st)) r →
      Reach lim (serEntries kvs ++ tail) (x :: st) r
  | [], _, _, tail, x, st, r, h => by simpa [serEntries, serKvs, pushPairs] using h
  | (k, v) :: t, hc, hs, tail, x, st, r, h => by
    simp only [canonKvs, Bool.and_eq_true] at hc
    simp only [smallKvs, Bool.and_eq_true, decide_eq_true_eq] at hs
    have e : serEntries ((k, v) :: t) ++ tail = serBytes k ++ (ser v ++ (serEntries t ++ tail)) := by
      rw [serEntries_cons]; simp
    rw [e]
    apply reach_of_step
    rw [step_bytes lim k _ _ hs.1.1, deliver_nonempty]
    apply reach_ser lim v hc.1 hs.1.2
    rw [deliver_nonempty]
    exact reach_serKvs lim t hc.2 hs.2 tail (.val v) (.val (.bytes k) :: x :: st) r h
end

/-- the decoder inverts the encoder on canonical values (within the digit limit) -/
theorem parse_ser (lim : Nat) (v : BVal) (hc : canon v = true) (hs : small lim v = true) :
    parse lim (ser v) = some v := by
  unfold parse
  apply run_of_reach _ _ (Nat.lt_succ_self _)
  have := reach_ser lim v hc hs [] [] (some v) (by simp [deliver, ReachR])
  simpa using this

end Torf.Bencode
