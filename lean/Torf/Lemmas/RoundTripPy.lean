/-
  From the Python-level export hypotheses on a torrent (`PyPiecesOk`, `PyPrivateOk`, `PyDateOk`)
  to the document-level hypotheses on what `dump()` writes.
-/
import Torf.Lemmas.RoundTripBack
namespace Torf.ReadStream
open Torf Torf.Bencode Torf.Codec

/-- `info['pieces']`, if present, is `bytes` (or a `str`, which is written as its UTF-8 bytes) -/
def PyPiecesOk (t : List (PyVal × PyVal)) : Prop :=
  ∀ ikvs m, PyVal.lookupStr "info" (ensureInfo t) = some (.dict ikvs) →
    PyVal.lookupStr "pieces" ikvs = some m → ∃ b, encodeValue m = .ok (.bytes b)

/-- `info['private']`, if present, is written as `i0e` or `i1e` (a bool, or the int 0/1) -/
def PyPrivateOk (t : List (PyVal × PyVal)) : Prop :=
  ∀ ikvs m, PyVal.lookupStr "info" (ensureInfo t) = some (.dict ikvs) →
    PyVal.lookupStr "private" ikvs = some m →
    encodeValue m = .ok (.int 0) ∨ encodeValue m = .ok (.int 1)

/-- `metainfo['creation date']`, if present, is written as an integer `i` that
    `datetime.fromtimestamp` maps to a datetime whose `int(timestamp())` is `i` again -/
def PyDateOk (env : Env) (t : List (PyVal × PyVal)) : Prop :=
  ∀ m, PyVal.lookupStr "creation date" (ensureInfo t) = some m →
    ∃ i, encodeValue m = .ok (.int i) ∧ env.fromTs i = some (.datetime (some i))

theorem wf_of_lookupStr {k : String} {m : PyVal} : ∀ {D : List (PyVal × PyVal)},
    wfKvs D = true → PyVal.lookupStr k D = some m → wf m = true
  | [], _, h => by simp [PyVal.lookupStr] at h
  | (k', v) :: t, hw, h => by
    simp only [wfKvs, Bool.and_eq_true] at hw
    cases k' with
    | str s =>
      simp only [PyVal.lookupStr] at h
      split at h
      · simp only [Option.some.injEq] at h; exact h ▸ hw.1
      · exact wf_of_lookupStr hw.2 h
    | _ => simp only [PyVal.lookupStr] at h; exact wf_of_lookupStr hw.2 h

/-- an entry of the parsed dump comes from an entry of the Python dict -/
theorem lookup_norm_encodeDict {D : List (PyVal × PyVal)} {ukvs : List (Bytes × BVal)}
    {k : String} {w' : BVal}
    (hw : wf (.dict D) = true) (hu : encodeDict D = .ok (.dict ukvs))
    (hl : lookup (utf8Enc k) (isort keyLe (normKvs ukvs)) = some w') :
    ∃ m w, PyVal.lookupStr k D = some m ∧ encodeValue m = .ok w ∧ w' = norm w := by
  simp only [wf, Bool.and_eq_true, decide_eq_true_eq] at hw
  simp only [encodeDict, encodeValue] at hu
  split at hu
  · rename_i es hes
    simp only [Except.ok.injEq, BVal.dict.injEq] at hu
    subst hu
    obtain ⟨_, hkeys⟩ := uniq_encodeKvs D es hes hw.2
    have hmem := (isort_perm keyLe _).subset (mem_of_lookup hl)
    obtain ⟨q, hq, hqe⟩ := normKvs_mem hmem
    obtain ⟨r, hr, rfl⟩ := List.mem_map.mp hq
    have hr' : r ∈ es := (isort_perm strLe es).subset hr
    simp only [encKey, Prod.mk.injEq] at hqe
    have hk : r.1 = k := (utf8Enc_inj hqe.1).symm
    have hrep := rep_of_encodeKvs D es hes
    have hn : ((es.map encKey).map (·.1)).Nodup := by
      have : (es.map encKey).map (·.1) = (es.map (·.1)).map utf8Enc := by
        simp [List.map_map, Function.comp_def, encKey]
      rw [this, hkeys]
      exact nodup_map_of_inj (fun a b => utf8Enc_inj) _ hw.1
    have hm : (utf8Enc k, r.2) ∈ es.map encKey :=
      List.mem_map.mpr ⟨r, hr', by simp [encKey, hk]⟩
    obtain ⟨m, hm1, hm2⟩ := hrep.lookup k (lookup_of_mem _ _ _ hn hm)
    exact ⟨m, r.2, hm1, hm2, hqe.2⟩
  · exact absurd hu (by simp)

theorem encodeValue_dict_shape {D : List (PyVal × PyVal)} {w : BVal}
    (h : encodeValue (.dict D) = .ok w) : ∃ kvs, w = .dict kvs := by
  simp only [encodeValue] at h
  split at h
  · simp only [Except.ok.injEq] at h; exact ⟨_, h.symm⟩
  · exact absurd h (by simp)

/-- an entry of the parsed dump's `info` dict comes from an entry of the Python `info` dict -/
theorem lookup_info_norm {t : List (PyVal × PyVal)} {ukvs ienc : List (Bytes × BVal)}
    {ikvs : List (PyVal × PyVal)} {k : String} {p : BVal}
    (hw : wf (.dict (ensureInfo t)) = true) (hu : encodeDict (ensureInfo t) = .ok (.dict ukvs))
    (hli : PyVal.lookupStr "info" (ensureInfo t) = some (.dict ikvs))
    (h1 : lookup kInfo (isort keyLe (normKvs ukvs)) = some (.dict ienc))
    (h2 : lookup (utf8Enc k) ienc = some p) :
    ∃ m w, PyVal.lookupStr k ikvs = some m ∧ encodeValue m = .ok w ∧ p = norm w := by
  rw [← kInfo_eq] at h1
  obtain ⟨m, w, hm, hew, hnw⟩ := lookup_norm_encodeDict hw hu h1
  rw [hli] at hm
  simp only [Option.some.injEq] at hm; subst hm
  obtain ⟨iukvs, rfl⟩ := encodeValue_dict_shape hew
  simp only [norm, BVal.dict.injEq] at hnw
  subst hnw
  have hwi : wf (.dict ikvs) = true := by
    simp only [wf, Bool.and_eq_true] at hw
    exact wf_of_lookupStr hw.2 hli
  exact lookup_norm_encodeDict hwi hew h2

theorem piecesOk_of_py {t : List (PyVal × PyVal)} {ukvs : List (Bytes × BVal)}
    {ikvs : List (PyVal × PyVal)}
    (hw : wf (.dict (ensureInfo t)) = true) (hu : encodeDict (ensureInfo t) = .ok (.dict ukvs))
    (hli : PyVal.lookupStr "info" (ensureInfo t) = some (.dict ikvs))
    (h : PyPiecesOk t) : PiecesOk (isort keyLe (normKvs ukvs)) := by
  intro ienc p h1 h2
  rw [← kPieces_eq] at h2
  obtain ⟨m, w, hm, hew, rfl⟩ := lookup_info_norm hw hu hli h1 h2
  obtain ⟨b, hb⟩ := h ikvs m hli hm
  rw [hb] at hew
  simp only [Except.ok.injEq] at hew; subst hew
  exact ⟨b, rfl⟩

theorem privateOk_of_py {t : List (PyVal × PyVal)} {ukvs : List (Bytes × BVal)}
    {ikvs : List (PyVal × PyVal)}
    (hw : wf (.dict (ensureInfo t)) = true) (hu : encodeDict (ensureInfo t) = .ok (.dict ukvs))
    (hli : PyVal.lookupStr "info" (ensureInfo t) = some (.dict ikvs))
    (h : PyPrivateOk t) : PrivateOk (isort keyLe (normKvs ukvs)) := by
  intro ienc p h1 h2
  rw [← kPrivate_eq] at h2
  obtain ⟨m, w, hm, hew, rfl⟩ := lookup_info_norm hw hu hli h1 h2
  rcases h ikvs m hli hm with hb | hb <;> rw [hb] at hew <;>
    simp only [Except.ok.injEq] at hew <;> subst hew
  · exact Or.inl rfl
  · exact Or.inr rfl

theorem dateOk_of_py {env : Env} {t : List (PyVal × PyVal)} {ukvs : List (Bytes × BVal)}
    (hw : wf (.dict (ensureInfo t)) = true) (hu : encodeDict (ensureInfo t) = .ok (.dict ukvs))
    (h : PyDateOk env t) : DateOk env (isort keyLe (normKvs ukvs)) := by
  intro cd hcd
  rw [← kCreationDate_eq] at hcd
  obtain ⟨m, w, hm, hew, rfl⟩ := lookup_norm_encodeDict hw hu hcd
  obtain ⟨i, hi, hts⟩ := h m hm
  rw [hi] at hew
  simp only [Except.ok.injEq] at hew; subst hew
  exact ⟨i, rfl, hts⟩

end Torf.ReadStream
