/-
  Bridge lemmas for C07: from the Python-side metainfo (`PyVal`, `Codec.encodeValue`) to what the
  strict parser reads back from the exported bytes (`Sound.parse`, `Sound.lookupB`).

  * `parse_ser_norm`   : the strict parser reads `ser u` back as `norm u`.
  * `lookup_encoded`   : lookups in the normal form of an encoded dict mirror `PyVal.lookupStr`.
  * inversion lemmas for `encodeValue` / `encodeList` / `encodeKvs`, descent of `wf`.
-/
import Torf.Lemmas.Codec
import Torf.Spec.Sound

namespace Torf.Sound
-- `Torf.Export` re-exports `BVal`/`Bytes` as abbreviations and has its own `encodeValue`/`ser`;
-- opening it wholesale next to `Torf.Bencode`/`Torf.Codec` makes those names ambiguous
open Torf Torf.Bencode Torf.Codec
open Torf.Export (utf8)

/-! ### strict parse of a serialisation -/

/-- the strict parser reads the serialisation of any value with distinct keys back as its normal form -/
theorem parse_ser_norm (u : BVal) (hu : uniqKeys u = true) (hs : serOk u = true) :
    Sound.parse (Bencode.ser u) = some (norm u) := by
  unfold Sound.parse
  rw [← ser_norm u]
  exact parseStrict_ser pyMaxDigits (norm u) (canon_norm u hu) (small_norm pyMaxDigits u hs)

/-! ### `norm` as a map -/

theorem normList_eq_map (l : List BVal) : normList l = l.map norm := by
  induction l with
  | nil => rfl
  | cons v t ih => simp only [normList, List.map_cons, ih]

theorem normKvs_eq_map (kvs : List (Bytes × BVal)) :
    normKvs kvs = kvs.map fun p => (p.1, norm p.2) := by
  induction kvs with
  | nil => rfl
  | cons p t ih => obtain ⟨k, v⟩ := p; simp only [normKvs, List.map_cons, ih]

/-! ### inversion of the encoders -/

theorem encodeValue_dict_ok (kvs : List (PyVal × PyVal)) (u : BVal)
    (he : Codec.encodeValue (.dict kvs) = .ok u) :
    ∃ es, Codec.encodeKvs kvs = .ok es ∧ u = .dict ((isort strLe es).map encKey) := by
  simp only [Codec.encodeValue] at he
  split at he
  · rename_i es hes
    simp only [Except.ok.injEq] at he
    exact ⟨es, hes, he.symm⟩
  · exact absurd he (by simp)

theorem encodeValue_list_ok (l : List PyVal) (u : BVal)
    (he : Codec.encodeValue (.list l) = .ok u) :
    ∃ l', Codec.encodeList l = .ok l' ∧ u = .list l' := by
  simp only [Codec.encodeValue] at he
  split at he
  · rename_i l' hl
    simp only [Except.ok.injEq] at he
    exact ⟨l', hl, he.symm⟩
  · exact absurd he (by simp)

theorem encodeValue_tuple_ok (l : List PyVal) (u : BVal)
    (he : Codec.encodeValue (.tuple l) = .ok u) :
    ∃ l', Codec.encodeList l = .ok l' ∧ u = .list l' := by
  simp only [Codec.encodeValue] at he
  split at he
  · rename_i l' hl
    simp only [Except.ok.injEq] at he
    exact ⟨l', hl, he.symm⟩
  · exact absurd he (by simp)

theorem encodeList_nil_ok (l' : List BVal) (he : Codec.encodeList [] = .ok l') : l' = [] := by
  simp only [Codec.encodeList, Except.ok.injEq] at he
  exact he.symm

theorem encodeList_cons_ok (v : PyVal) (t : List PyVal) (l' : List BVal)
    (he : Codec.encodeList (v :: t) = .ok l') :
    ∃ v' t', Codec.encodeValue v = .ok v' ∧ Codec.encodeList t = .ok t' ∧ l' = v' :: t' := by
  simp only [Codec.encodeList] at he
  split at he
  · exact absurd he (by simp)
  · rename_i v' hv
    split at he
    · exact absurd he (by simp)
    · rename_i t' ht
      simp only [Except.ok.injEq] at he
      exact ⟨v', t', hv, ht, he.symm⟩

theorem encodeList_length (l : List PyVal) (l' : List BVal) (he : Codec.encodeList l = .ok l') :
    l'.length = l.length := by
  induction l generalizing l' with
  | nil => rw [encodeList_nil_ok l' he]; rfl
  | cons v t ih =>
    obtain ⟨v', t', _, ht, rfl⟩ := encodeList_cons_ok v t l' he
    simp only [List.length_cons, ih t' ht]

theorem encodeList_mem (l : List PyVal) (l' : List BVal) (he : Codec.encodeList l = .ok l')
    (v' : BVal) (hm : v' ∈ l') : ∃ v, v ∈ l ∧ Codec.encodeValue v = .ok v' := by
  induction l generalizing l' with
  | nil => rw [encodeList_nil_ok l' he] at hm; exact absurd hm (by simp)
  | cons v t ih =>
    obtain ⟨w, t', hv, ht, rfl⟩ := encodeList_cons_ok v t l' he
    rcases List.mem_cons.mp hm with rfl | hm
    · exact ⟨v, List.mem_cons_self, hv⟩
    · obtain ⟨x, hx, hxe⟩ := ih t' ht hm
      exact ⟨x, List.mem_cons_of_mem _ hx, hxe⟩

theorem encodeKvs_nil_ok (es : List (String × BVal)) (he : Codec.encodeKvs [] = .ok es) :
    es = [] := by
  simp only [Codec.encodeKvs, Except.ok.injEq] at he
  exact he.symm

theorem encodeKvs_cons_ok (p : PyVal × PyVal) (t : List (PyVal × PyVal))
    (es : List (String × BVal)) (he : Codec.encodeKvs (p :: t) = .ok es) :
    ∃ k v v' t', p = (.str k, v) ∧ Codec.encodeValue v = .ok v' ∧
      Codec.encodeKvs t = .ok t' ∧ es = (k, v') :: t' := by
  obtain ⟨key, v⟩ := p
  cases key with
  | str k =>
    simp only [Codec.encodeKvs] at he
    split at he
    · exact absurd he (by simp)
    · rename_i v' hv
      split at he
      · exact absurd he (by simp)
      · rename_i t' ht
        simp only [Except.ok.injEq] at he
        exact ⟨k, v, v', t', rfl, hv, ht, he.symm⟩
  | _ => simp [Codec.encodeKvs] at he

/-- an encodable dict has only `str` keys -/
theorem encodeKvs_keys_str (kvs : List (PyVal × PyVal)) (es : List (String × BVal))
    (he : Codec.encodeKvs kvs = .ok es) : ∀ p ∈ kvs, ∃ s, p.1 = .str s := by
  induction kvs generalizing es with
  | nil => intro p hp; exact absurd hp (by simp)
  | cons q t ih =>
    obtain ⟨k, v, v', t', rfl, _, ht, rfl⟩ := encodeKvs_cons_ok q t es he
    intro p hp
    rcases List.mem_cons.mp hp with rfl | hp
    · exact ⟨k, rfl⟩
    · exact ih t' ht p hp

/-- the keys of the encoded entries are the `str` keys of the dict, in order -/
theorem encodeKvs_keys (kvs : List (PyVal × PyVal)) (es : List (String × BVal))
    (he : Codec.encodeKvs kvs = .ok es) : es.map (·.1) = strKeys kvs := by
  induction kvs generalizing es with
  | nil => rw [encodeKvs_nil_ok es he]; rfl
  | cons q t ih =>
    obtain ⟨k, v, v', t', rfl, _, ht, rfl⟩ := encodeKvs_cons_ok q t es he
    simp only [List.map_cons, strKeys, ih t' ht]

/-- lookups in the encoded entries mirror the lookups in the Python dict -/
theorem encodeKvs_lookup (kvs : List (PyVal × PyVal)) (es : List (String × BVal))
    (he : Codec.encodeKvs kvs = .ok es) (k : String) :
    (PyVal.lookupStr k kvs = none → es.lookup k = none) ∧
    (∀ v, PyVal.lookupStr k kvs = some v →
        ∃ v', Codec.encodeValue v = .ok v' ∧ es.lookup k = some v') := by
  induction kvs generalizing es with
  | nil =>
    rw [encodeKvs_nil_ok es he]
    exact ⟨fun _ => rfl, fun v hv => by simp [PyVal.lookupStr] at hv⟩
  | cons q t ih =>
    obtain ⟨k', w, w', t', rfl, hw, ht, rfl⟩ := encodeKvs_cons_ok q t es he
    simp only [PyVal.lookupStr, List.lookup_cons]
    by_cases hk : k = k'
    · subst hk
      simp only [if_true, beq_self_eq_true]
      refine ⟨fun h => absurd h (by simp), fun v hv => ?_⟩
      simp only [Option.some.injEq] at hv
      subst hv
      exact ⟨w', hw, rfl⟩
    · have hb : (k == k') = false := by simp [hk]
      simp only [if_neg hk, hb]
      exact ih t' ht

/-! ### association lists: lookup under permutation and under the key map -/

/-- `List.lookup` only depends on the multiset of entries when keys are pairwise distinct -/
theorem lookup_perm {α β : Type} [BEq α] [LawfulBEq α] {l₁ l₂ : List (α × β)}
    (hp : l₁.Perm l₂) (hn : (l₁.map (·.1)).Nodup) (k : α) : l₁.lookup k = l₂.lookup k := by
  induction hp with
  | nil => rfl
  | cons x _ ih =>
    obtain ⟨a, b⟩ := x
    simp only [List.map_cons, List.nodup_cons] at hn
    simp only [List.lookup_cons, ih hn.2]
  | swap x y l =>
    obtain ⟨a, b⟩ := x
    obtain ⟨c, d⟩ := y
    simp only [List.map_cons, List.nodup_cons, List.mem_cons, not_or] at hn
    simp only [List.lookup_cons]
    cases h1 : k == c <;> cases h2 : k == a <;> try rfl
    have e1 : k = c := beq_iff_eq.mp h1
    have e2 : k = a := beq_iff_eq.mp h2
    exact absurd (e1.symm.trans e2) hn.1.1
  | trans h1 _ ih1 ih2 =>
    rw [ih1 hn, ih2 ((h1.map (·.1)).nodup_iff.mp hn)]

theorem utf8Enc_beq (k a : String) : (utf8Enc k == utf8Enc a) = (k == a) := by
  by_cases h : k = a
  · subst h; rw [beq_self_eq_true, beq_self_eq_true]
  · have h' : utf8Enc k ≠ utf8Enc a := fun e => h (utf8Enc_inj e)
    rw [beq_eq_false_iff_ne.mpr h, beq_eq_false_iff_ne.mpr h']

/-- lookup through the key encoding and `norm` on the values -/
theorem lookup_map_enc (es : List (String × BVal)) (k : String) :
    (es.map fun p => (utf8Enc p.1, norm p.2)).lookup (utf8Enc k) = (es.lookup k).map norm := by
  induction es with
  | nil => rfl
  | cons p t ih =>
    obtain ⟨a, b⟩ := p
    simp only [List.map_cons, List.lookup_cons, utf8Enc_beq, ih]
    cases k == a <;> rfl

/-! ### the exported dictionary -/

/-- lookups in the exported (encoded, sorted, normalised) dictionary mirror the lookups in the Python dict -/
theorem lookup_encoded (kvs : List (PyVal × PyVal)) (u : BVal)
    (he : Codec.encodeValue (.dict kvs) = .ok u) (hn : (strKeys kvs).Nodup) :
    ∃ L, norm u = .dict L ∧ ∀ k : String,
      (PyVal.lookupStr k kvs = none → lookupB k L = none) ∧
      (∀ v, PyVal.lookupStr k kvs = some v →
          ∃ v', Codec.encodeValue v = .ok v' ∧ lookupB k L = some (norm v')) := by
  obtain ⟨es, hes, rfl⟩ := encodeValue_dict_ok kvs u he
  refine ⟨isort keyLe (normKvs ((isort strLe es).map encKey)), by simp only [norm], ?_⟩
  -- the final list is a permutation of the entries mapped through the key encoding and `norm`
  have hX : normKvs ((isort strLe es).map encKey) =
      (isort strLe es).map fun p => (utf8Enc p.1, norm p.2) := by
    rw [normKvs_eq_map, List.map_map]; rfl
  have hperm : (es.map fun p => (utf8Enc p.1, norm p.2)).Perm
      (isort keyLe (normKvs ((isort strLe es).map encKey))) := by
    rw [hX]
    exact ((isort_perm strLe es).map _).symm.trans (isort_perm keyLe _).symm
  have hnd : ((es.map fun p => (utf8Enc p.1, norm p.2)).map (·.1)).Nodup := by
    have h1 : (es.map (·.1)).Nodup := by rw [encodeKvs_keys kvs es hes]; exact hn
    have h2 := nodup_map_of_inj (f := utf8Enc) (fun a b => utf8Enc_inj) _ h1
    rw [List.map_map] at h2 ⊢
    exact h2
  intro k
  have hl : lookupB k (isort keyLe (normKvs ((isort strLe es).map encKey))) =
      (es.lookup k).map norm := by
    unfold lookupB Export.utf8
    rw [← lookup_perm hperm hnd, lookup_map_enc]
  rw [hl]
  obtain ⟨h1, h2⟩ := encodeKvs_lookup kvs es hes k
  refine ⟨fun h => by rw [h1 h]; rfl, fun v hv => ?_⟩
  obtain ⟨v', hv', hlk⟩ := h2 v hv
  exact ⟨v', hv', by rw [hlk]; rfl⟩

/-! ### the dict invariant descends -/

theorem wfKvs_lookup (kvs : List (PyVal × PyVal)) (k : String) (v : PyVal)
    (hw : wfKvs kvs = true) (hl : PyVal.lookupStr k kvs = some v) : wf v = true := by
  induction kvs with
  | nil => simp [PyVal.lookupStr] at hl
  | cons p t ih =>
    obtain ⟨key, w⟩ := p
    simp only [wfKvs, Bool.and_eq_true] at hw
    cases key with
    | str k' =>
      simp only [PyVal.lookupStr] at hl
      by_cases hk : k = k'
      · simp only [if_pos hk, Option.some.injEq] at hl
        subst hl; exact hw.1
      · simp only [if_neg hk] at hl
        exact ih hw.2 hl
    | _ =>
      simp only [PyVal.lookupStr] at hl
      exact ih hw.2 hl

theorem wf_lookup (kvs : List (PyVal × PyVal)) (k : String) (v : PyVal)
    (hw : wf (.dict kvs) = true) (hl : PyVal.lookupStr k kvs = some v) : wf v = true := by
  simp only [wf, Bool.and_eq_true] at hw
  exact wfKvs_lookup kvs k v hw.2 hl

theorem wf_strKeys (kvs : List (PyVal × PyVal)) (hw : wf (.dict kvs) = true) :
    (strKeys kvs).Nodup := by
  simp only [wf, Bool.and_eq_true, decide_eq_true_eq] at hw
  exact hw.1

theorem wfList_mem (l : List PyVal) (v : PyVal) (hw : wfList l = true) (hm : v ∈ l) :
    wf v = true := by
  induction l with
  | nil => exact absurd hm (by simp)
  | cons a t ih =>
    simp only [wfList, Bool.and_eq_true] at hw
    rcases List.mem_cons.mp hm with rfl | hm
    · exact hw.1
    · exact ih hw.2 hm

theorem wf_list_mem (l : List PyVal) (v : PyVal) (hw : wf (.list l) = true) (hm : v ∈ l) :
    wf v = true := by
  simp only [wf] at hw
  exact wfList_mem l v hw hm

theorem wf_tuple_mem (l : List PyVal) (v : PyVal) (hw : wf (.tuple l) = true) (hm : v ∈ l) :
    wf v = true := by
  simp only [wf] at hw
  exact wfList_mem l v hw hm

end Torf.Sound
