/-
  Helper lemmas for C18 (reuse): case analysis of the search loop, what a successful
  `is_file_match` / `is_content_match` / `copy` entails, sampling arithmetic.
-/
import Torf.Spec.Reuse
namespace Torf.Reuse

/-- candidate `c` (with local view `loc`) passes every test of the loop and `copy` yields `t'` -/
def Accepts (t : Tor) (c : Cand) (loc : Nat → LocalPiece) (t' : Tor) : Prop :=
  isFileMatch t c = .ok true ∧ isContentMatch t c loc = .ok true ∧ copy c t = .ok t'

theorem readItem_ok {it : Item} {c : Cand} {loc : Nat → LocalPiece}
    (h : readItem it = .ok (c, loc)) : it = .file (.torrent c) loc := by
  cases it with
  | pathError => simp [readItem] at h
  | file r l =>
    cases r with
    | torrent c' => simp only [readItem, Except.ok.injEq, Prod.mk.injEq] at h; rw [h.1, h.2]
    | unreadable => simp [readItem] at h
    | undecodable => simp [readItem] at h
    | invalid => simp [readItem] at h

/-- Every run of the loop either leaves the torrent untouched and does not return `True`, or
    returns `True` with the torrent produced by `copy` from a candidate of the list that passed
    the file match and the content match. -/
theorem loop_cases (t : Tor) (cb : Callback) (elapsed : Bool) (tot : Nat) (items : List Item) :
    ∀ idx done,
    ((loop t cb elapsed tot idx done items).1 ≠ .ok true ∧ (loop t cb elapsed tot idx done items).2.1 = t) ∨
    ((loop t cb elapsed tot idx done items).1 = .ok true ∧
      ∃ c loc, Item.file (.torrent c) loc ∈ items ∧ Accepts t c loc (loop t cb elapsed tot idx done items).2.1) := by
  induction items with
  | nil => intro idx done; left; simp [loop]
  | cons it rest ih =>
    intro idx done
    have lift : ∀ idx' done',
        ((loop t cb elapsed tot idx' done' rest).1 ≠ .ok true ∧ (loop t cb elapsed tot idx' done' rest).2.1 = t) ∨
        ((loop t cb elapsed tot idx' done' rest).1 = .ok true ∧
          ∃ c loc, Item.file (.torrent c) loc ∈ it :: rest ∧ Accepts t c loc (loop t cb elapsed tot idx' done' rest).2.1) := by
      intro idx' done'
      rcases ih idx' done' with h | ⟨h1, c, loc, hm, ha⟩
      · exact Or.inl h
      · exact Or.inr ⟨h1, c, loc, List.mem_cons_of_mem _ hm, ha⟩
    unfold loop
    simp only []
    split
    · -- read error
      split
      · left; simp
      · split
        · left; simp
        · exact lift _ _
    · rename_i c loc hread
      split
      · left; simp
      · -- no file match
        split
        · left; simp
        · split
          · left; simp
          · exact lift _ _
      · rename_i hfm
        split
        · left; simp
        · split
          · left; simp
          · split
            · left; simp
            · split
              · left; simp
              · split
                · left; simp
                · exact lift _ _
            · rename_i hcm
              split
              · left; simp
              · rename_i t' hcopy
                right
                refine ⟨rfl, c, loc, ?_, hfm, hcm, hcopy⟩
                rw [readItem_ok hread]; exact List.mem_cons_self ..


/-! ### what a successful file match entails -/

theorem isFileMatch_true {t : Tor} {c : Cand} (h : isFileMatch t c = .ok true) :
    t.name = c.name ∧
    (∃ tid cid, filepathsAndSizes t.name t.single t.files = .ok tid ∧
      filepathsAndSizes c.name c.single c.files c.bytesPath = .ok cid ∧ tid.Perm cid) ∧
    t.plMin ≤ c.pieceLength ∧ c.pieceLength ≤ t.plMax := by
  unfold isFileMatch at h
  by_cases hn : t.name = c.name
  · simp only [hn, ne_eq, not_true_eq_false, if_false] at h
    rw [← hn] at h
    cases htid : filepathsAndSizes t.name t.single t.files with
    | error e => simp [htid] at h
    | ok tid =>
      cases hcid : filepathsAndSizes t.name c.single c.files c.bytesPath with
      | error e => simp [htid, hcid] at h
      | ok cid =>
        simp only [htid, hcid] at h
        by_cases hp : tid.isPerm cid = true
        · simp only [hp, if_true, Except.ok.injEq, Bool.and_eq_true, decide_eq_true_eq] at h
          refine ⟨hn, ⟨tid, cid, rfl, ?_, List.isPerm_iff.mp hp⟩, h.1, h.2⟩
          rw [← hn]; exact hcid
        · simp [hp] at h
  · simp [hn] at h

/-! ### what a successful content match entails -/

theorem checkAll_true {c : Cand} {loc : Nat → LocalPiece} {l : List Nat}
    (h : checkAll c loc l = .ok true) : ∀ i ∈ l, verifyPiece c loc i = .ok (some true) := by
  induction l with
  | nil => intro i hi; cases hi
  | cons a rest ih =>
    unfold checkAll at h
    intro i hi
    cases hv : verifyPiece c loc a with
    | error e => simp [hv] at h
    | ok r =>
      cases r with
      | none => simp [hv] at h
      | some b =>
        cases b with
        | false => simp [hv] at h
        | true =>
          simp only [hv] at h
          rcases List.mem_cons.mp hi with rfl | hi
          · exact hv
          · exact ih h i hi

theorem verifyPiece_true {c : Cand} {loc : Nat → LocalPiece} {i : Nat}
    (h : verifyPiece c loc i = .ok (some true)) : ∃ d, c.hashes[i]? = some d ∧ loc i = .hash d := by
  unfold verifyPiece at h
  cases hs : c.hashes[i]? with
  | none => simp [hs] at h
  | some stored =>
    simp only [hs] at h
    cases hl : loc i with
    | hash d =>
      simp only [hl, Except.ok.injEq, Option.some.injEq, beq_iff_eq] at h
      exact ⟨stored, rfl, by rw [h]⟩
    | missing => simp [hl] at h
    | sizeError => simp [hl] at h
    | readError => simp [hl] at h

theorem verifyPiece_of_match {c : Cand} {loc : Nat → LocalPiece} {i : Nat} {d : Digest}
    (h1 : c.hashes[i]? = some d) (h2 : loc i = .hash d) : verifyPiece c loc i = .ok (some true) := by
  unfold verifyPiece; simp [h1, h2]

theorem mem_sortedSet_of_lt {n : Nat} {s : List Nat} {i : Nat} (hi : i ∈ s) (hlt : i < n) :
    i ∈ sortedSet n s := by
  unfold sortedSet
  apply List.mem_append_left
  simp [hi, hlt]

theorem sortedSet_tail_mem {n : Nat} {s : List Nat} {i : Nat} (hi : i ∈ s) (hge : n ≤ i) :
    ∃ j, j ∈ sortedSet n s ∧ n ≤ j := by
  unfold sortedSet
  have hne : (s.filter (fun i => decide (n ≤ i))) ≠ [] := by
    intro h0
    have : i ∈ s.filter (fun i => decide (n ≤ i)) := by simp [hi, hge]
    rw [h0] at this; cases this
  cases hf : s.filter (fun i => decide (n ≤ i)) with
  | nil => exact absurd hf hne
  | cons j rest =>
    refine ⟨j, ?_, ?_⟩
    · apply List.mem_append_right; simp
    · have : j ∈ s.filter (fun i => decide (n ≤ i)) := by rw [hf]; exact List.mem_cons_self ..
      simpa using (List.mem_filter.mp this).2

/-- every sampled piece was compared and found equal -/
theorem isContentMatch_true {t : Tor} {c : Cand} {loc : Nat → LocalPiece}
    (h : isContentMatch t c loc = .ok true) :
    ∃ s, samples t c = .ok s ∧ ∀ i ∈ s, ∃ d, c.hashes[i]? = some d ∧ loc i = .hash d := by
  unfold isContentMatch at h
  cases hs : samples t c with
  | error e => simp [hs] at h
  | ok s =>
    simp only [hs] at h
    refine ⟨s, rfl, ?_⟩
    have hall := checkAll_true h
    intro i hi
    by_cases hlt : i < c.hashes.length
    · exact verifyPiece_true (hall i (mem_sortedSet_of_lt hi hlt))
    · obtain ⟨j, hj, hge⟩ := sortedSet_tail_mem hi (Nat.le_of_not_lt hlt)
      obtain ⟨d, hd, _⟩ := verifyPiece_true (hall j hj)
      have : j < c.hashes.length := by
        rcases List.getElem?_eq_some_iff.mp hd with ⟨hlt', _⟩; exact hlt'
      omega

theorem checkAll_of_all {c : Cand} {loc : Nat → LocalPiece} {l : List Nat}
    (h : ∀ i ∈ l, verifyPiece c loc i = .ok (some true)) : checkAll c loc l = .ok true := by
  induction l with
  | nil => rfl
  | cons a rest ih =>
    unfold checkAll
    rw [h a (List.mem_cons_self ..)]
    exact ih (fun i hi => h i (List.mem_cons_of_mem _ hi))

/-- conversely: if the local content matches the candidate at every sampled piece, the content
    match succeeds -/
theorem isContentMatch_of_samples {t : Tor} {c : Cand} {loc : Nat → LocalPiece} {s : List Nat}
    (hs : samples t c = .ok s) (h : ∀ i ∈ s, ∃ d, c.hashes[i]? = some d ∧ loc i = .hash d) :
    isContentMatch t c loc = .ok true := by
  unfold isContentMatch
  simp only [hs]
  apply checkAll_of_all
  intro i hi
  unfold sortedSet at hi
  rcases List.mem_append.mp hi with hi | hi
  · have his : i ∈ s := by
      have := (List.mem_filter.mp hi).2
      simpa using this
    obtain ⟨d, h1, h2⟩ := h i his
    exact verifyPiece_of_match h1 h2
  · have his : i ∈ s.filter (fun i => decide (c.hashes.length ≤ i)) := List.mem_of_mem_take hi
    have := List.mem_filter.mp his
    obtain ⟨d, h1, h2⟩ := h i this.1
    exact verifyPiece_of_match h1 h2

/-- the samples are collected file by file of the torrent, each located in the candidate -/
theorem samples_ok {c : Cand} (files : List FileEnt) {s : List Nat}
    (h : files.foldr (samplesStep c) (.ok []) = Except.ok s) :
    ∀ f ∈ files, ∃ pos, filePosition c.name f c.files 0 = some pos ∧
      ∀ i ∈ fileSamples c.pieceLength pos f.size, i ∈ s := by
  induction files generalizing s with
  | nil => intro f hf; cases hf
  | cons g rest ih =>
    simp only [List.foldr_cons] at h
    unfold samplesStep at h
    split at h
    · cases h
    · rename_i l hl
      split at h
      · cases h
      · rename_i pos hpos
        simp only [Except.ok.injEq] at h
        intro f hf
        rcases List.mem_cons.mp hf with rfl | hf
        · exact ⟨pos, hpos, fun i hi => by rw [← h]; exact List.mem_append_left _ hi⟩
        · obtain ⟨p, hp, hall⟩ := ih hl f hf
          exact ⟨p, hp, fun i hi => by rw [← h]; exact List.mem_append_right _ (hall i hi)⟩

/-- `filePosition` is the stream offset of the first entry of the candidate with the same joined
    path and the same size -/
theorem filePosition_spec (name : String) (f : FileEnt) (files : List FileEnt) (start pos : Nat)
    (h : filePosition name f files start = some pos) :
    ∃ pre g post, files = pre ++ g :: post ∧ joined name g = joined name f ∧ g.size = f.size ∧
      pos = start + (pre.map (·.size)).sum ∧
      ∀ g' ∈ pre, ¬ (joined name g' = joined name f ∧ g'.size = f.size) := by
  induction files generalizing start with
  | nil => simp [filePosition] at h
  | cons g rest ih =>
    unfold filePosition at h
    by_cases hg : joined name g = joined name f ∧ g.size = f.size
    · simp only [hg, and_self, if_true, Option.some.injEq] at h
      exact ⟨[], g, rest, rfl, hg.1, hg.2, by simp [h], by simp⟩
    · simp only [hg, if_false] at h
      obtain ⟨pre, g2, post, hl, h1, h2, h3, h4⟩ := ih _ h
      refine ⟨g :: pre, g2, post, by simp [hl], h1, h2, by simp [h3]; omega, ?_⟩
      intro g' hg'
      rcases List.mem_cons.mp hg' with rfl | hg'
      · exact hg
      · exact h4 g' hg'

/-- the three sampled indexes of a non-empty file are its first, middle and last piece -/
theorem fileSamples_eq (pl pos size : Nat) (hs : 0 < size) :
    fileSamples pl pos size = firstMiddleLast pl pos size := by
  unfold fileSamples firstMiddleLast pieceRange
  have hne : ¬ (pos + size = 0) := by omega
  have hsz : ¬ (size = 0) := by omega
  simp only [hne, hsz, if_false]
  have hab : pos / pl ≤ (pos + size - 1) / pl := Nat.div_le_div_right (by omega)
  generalize ha : pos / pl = a at hab
  generalize hb : (pos + size - 1) / pl = b at hab
  have hcnt : b + 1 - a = (b - a) + 1 := by omega
  rw [hcnt]
  simp only [List.drop_range', Nat.mul_one]
  have hlt : (b - a + 1) / 2 < b - a + 1 := Nat.div_lt_self (by omega) (by omega)
  rw [List.take_range'_of_length_ge (by omega), List.take_range'_of_length_ge (by omega)]
  have h3 : b - a + 1 - (b - a + 1 - 1) = 1 := by omega
  have h4 : a + (b - a + 1 - 1) = b := by omega
  rw [h3, h4]
  simp [List.range']

/-! ### copy -/

theorem copy_ok {c : Cand} {t t' : Tor} (h : copy c t = .ok t') :
    t'.pieceLength = c.pieceLength ∧ t'.pieces = some c.hashes ∧
    (c.single = false → t'.files = c.files ∧ t.files.Perm c.files) ∧
    (c.single = true → t'.files = t.files) ∧
    t'.name = t.name ∧ t'.single = t.single ∧ t'.plMin = t.plMin ∧ t'.plMax = t.plMax := by
  unfold copy at h
  cases hcs : c.single with
  | true =>
    simp only [hcs, Bool.not_true, Bool.false_eq_true, if_false, Except.ok.injEq] at h
    subst h; simp
  | false =>
    simp only [hcs, Bool.not_false, if_true] at h
    cases hts : t.single with
    | true => simp [hts] at h
    | false =>
      simp only [hts, Bool.false_eq_true, if_false] at h
      by_cases hp : t.files.isPerm c.files = true
      · simp only [hp, Bool.not_true, Bool.false_eq_true, if_false, Except.ok.injEq] at h
        subst h
        simp [List.isPerm_iff.mp hp]
      · simp [hp] at h


/-! ### completeness of the search -/

/-- an item that does not end the search with an exception (errors need a callback to be
    reported to; a candidate must get through the tests without an exception) -/
def NoRaise (t : Tor) (cb : Callback) : Item → Prop
  | .pathError => cb.isSome = true
  | .file (.torrent c) loc =>
      isFileMatch t c = .ok false ∨
      (isFileMatch t c = .ok true ∧ (isContentMatch t c loc = .ok false ∨
        (isContentMatch t c loc = .ok true ∧ ∃ t', copy c t = .ok t')))
  | .file _ _ => cb.isSome = true

theorem maybeCall_passive_noexc (cb : Callback) (hp : ∀ g, cb = some g → ∀ call, g call = false)
    (elapsed : Bool) (call : Call) (h : call.exc = none) :
    ∃ calls, maybeCall cb elapsed call = .ok (false, calls) := by
  unfold maybeCall
  cases cb with
  | none => simp [h]
  | some g =>
    simp only [hp g rfl]
    split
    · exact ⟨_, rfl⟩
    · exact ⟨_, rfl⟩

theorem maybeCall_passive_some (cb : Callback) (hp : ∀ g, cb = some g → ∀ call, g call = false)
    (hcb : cb.isSome = true) (elapsed : Bool) (call : Call) :
    ∃ calls, maybeCall cb elapsed call = .ok (false, calls) := by
  unfold maybeCall
  cases cb with
  | none => cases hcb
  | some g =>
    simp only [hp g rfl]
    split
    · exact ⟨_, rfl⟩
    · exact ⟨_, rfl⟩

theorem loop_accepts_head (t : Tor) (cb : Callback) (elapsed : Bool) (tot : Nat)
    (hp : ∀ g, cb = some g → ∀ call, g call = false)
    (c : Cand) (loc : Nat → LocalPiece) (post : List Item)
    (hfm : isFileMatch t c = .ok true) (hcm : isContentMatch t c loc = .ok true)
    (hcopy : ∃ t', copy c t = .ok t') (idx done : Nat) :
    (loop t cb elapsed tot idx done (.file (.torrent c) loc :: post)).1 = .ok true := by
  obtain ⟨t', ht'⟩ := hcopy
  obtain ⟨calls, hmc⟩ := maybeCall_passive_noexc cb hp elapsed ⟨idx, done + 1, tot, none, none⟩ rfl
  unfold loop
  simp only [readItem, hfm, Item.counted, if_true, hmc, hcm, ht', Bool.false_eq_true, if_false]

theorem loop_complete (t : Tor) (cb : Callback) (elapsed : Bool) (tot : Nat)
    (hp : ∀ g, cb = some g → ∀ call, g call = false)
    (pre : List Item) (c : Cand) (loc : Nat → LocalPiece) (post : List Item)
    (hpre : ∀ it ∈ pre, NoRaise t cb it)
    (hfm : isFileMatch t c = .ok true) (hcm : isContentMatch t c loc = .ok true)
    (hcopy : ∃ t', copy c t = .ok t') :
    ∀ idx done, (loop t cb elapsed tot idx done (pre ++ .file (.torrent c) loc :: post)).1 = .ok true := by
  induction pre with
  | nil => intro idx done; exact loop_accepts_head t cb elapsed tot hp c loc post hfm hcm hcopy idx done
  | cons it rest ih =>
    intro idx done
    have ihr := ih (fun x hx => hpre x (List.mem_cons_of_mem _ hx))
    have hit := hpre it (List.mem_cons_self ..)
    cases it with
    | pathError =>
      obtain ⟨calls, hmc⟩ := maybeCall_passive_some cb hp hit elapsed ⟨idx, done, tot, some false, some .read⟩
      simp only [List.cons_append]
      unfold loop
      simp only [readItem, Item.counted, Bool.false_eq_true, if_false, hmc]
      exact ihr _ _
    | file r l =>
      cases r with
      | torrent c' =>
        simp only [NoRaise] at hit
        simp only [List.cons_append]
        rcases hit with hfalse | ⟨htrue, hrest⟩
        · obtain ⟨calls, hmc⟩ := maybeCall_passive_noexc cb hp elapsed ⟨idx, done + 1, tot, some false, none⟩ rfl
          unfold loop
          simp only [readItem, hfalse, Item.counted, if_true, hmc, Bool.false_eq_true, if_false]
          exact ihr _ _
        · rcases hrest with hcf | ⟨hct, hcp⟩
          · obtain ⟨calls1, hmc1⟩ := maybeCall_passive_noexc cb hp elapsed ⟨idx, done + 1, tot, none, none⟩ rfl
            obtain ⟨calls, hmc⟩ := maybeCall_passive_noexc cb hp elapsed ⟨idx, done + 1, tot, some false, none⟩ rfl
            unfold loop
            simp only [readItem, htrue, Item.counted, if_true, hmc1, hcf, hmc, Bool.false_eq_true, if_false]
            exact ihr _ _
          · exact loop_accepts_head t cb elapsed tot hp c' l _ htrue hct hcp idx done
      | unreadable =>
        obtain ⟨calls, hmc⟩ := maybeCall_passive_some cb hp hit elapsed ⟨idx, done + 1, tot, some false, some .read⟩
        simp only [List.cons_append]
        unfold loop
        simp only [readItem, Item.counted, if_true, Bool.false_eq_true, if_false, hmc]
        exact ihr _ _
      | undecodable =>
        obtain ⟨calls, hmc⟩ := maybeCall_passive_some cb hp hit elapsed ⟨idx, done + 1, tot, some false, some .bdecode⟩
        simp only [List.cons_append]
        unfold loop
        simp only [readItem, Item.counted, if_true, Bool.false_eq_true, if_false, hmc]
        exact ihr _ _
      | invalid =>
        obtain ⟨calls, hmc⟩ := maybeCall_passive_some cb hp hit elapsed ⟨idx, done + 1, tot, some false, some .metainfo⟩
        simp only [List.cons_append]
        unfold loop
        simp only [readItem, Item.counted, if_true, Bool.false_eq_true, if_false, hmc]
        exact ihr _ _

end Torf.Reuse
