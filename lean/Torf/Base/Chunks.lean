/-
  Torf.Base.Chunks — the specification-level notion of "pieces of a stream":
  `chunks L xs` cuts `xs` into consecutive blocks of length `L` (the last may be shorter).
  Everything here is generic in the element ("byte") type.
-/
namespace Torf

/-- Cut a list into consecutive chunks of length `L` (the last one may be shorter).
    `L = 0` yields no chunk at all (the real code never runs with piece length 0). -/
def chunks (L : Nat) (xs : List α) : List (List α) :=
  if h : L = 0 ∨ xs = [] then [] else
    xs.take L :: chunks L (xs.drop L)
termination_by xs.length
decreasing_by
  simp only [List.length_drop]
  have : xs.length ≠ 0 := by
    intro h0; exact h (Or.inr (List.eq_nil_of_length_eq_zero h0))
  omega

/-- number of pieces of a stream of `T` bytes: `ceil (T / L)` -/
def nPieces (L T : Nat) : Nat := (T + L - 1) / L

@[simp] theorem chunks_nil (L : Nat) : chunks L ([] : List α) = [] := by
  unfold chunks; simp

theorem chunks_zero (xs : List α) : chunks 0 xs = [] := by
  unfold chunks; simp

theorem chunks_cons_of_ne (L : Nat) (hL : 0 < L) (xs : List α) (hne : xs ≠ []) :
    chunks L xs = xs.take L :: chunks L (xs.drop L) := by
  rw [chunks.eq_def]
  have h1 : ¬ (L = 0 ∨ xs = []) := by
    intro hh; cases hh with
    | inl h => omega
    | inr h => exact hne h
  simp only [h1, dite_false]

theorem chunks_short (L : Nat) (xs : List α) (hne : xs ≠ []) (h : xs.length ≤ L) (hL : 0 < L) :
    chunks L xs = [xs] := by
  rw [chunks_cons_of_ne L hL xs hne]
  rw [List.take_of_length_le h, List.drop_eq_nil_of_le h, chunks_nil]

theorem chunks_append_of_dvd (L : Nat) (hL : 0 < L) (xs ys : List α) (n : Nat)
    (h : xs.length = n * L) : chunks L (xs ++ ys) = chunks L xs ++ chunks L ys := by
  induction n generalizing xs with
  | zero =>
    have : xs = [] := List.eq_nil_of_length_eq_zero (by simpa using h)
    subst this; simp
  | succ n ih =>
    have hlen : L ≤ xs.length := by rw [h]; exact Nat.le_mul_of_pos_left L (Nat.succ_pos n)
    have hne : xs ≠ [] := by intro h0; subst h0; simp at hlen; omega
    have hne2 : xs ++ ys ≠ [] := by simp [hne]
    rw [chunks_cons_of_ne L hL _ hne2, chunks_cons_of_ne L hL _ hne]
    have ht : (xs ++ ys).take L = xs.take L := by
      rw [List.take_append_of_le_length hlen]
    have hd : (xs ++ ys).drop L = xs.drop L ++ ys := by
      rw [List.drop_append_of_le_length hlen]
    rw [ht, hd, ih (xs.drop L) (by simp [h, Nat.succ_mul])]
    simp

/-- A full first chunk splits off. -/
theorem chunks_append_full (L : Nat) (hL : 0 < L) (xs ys : List α) (h : xs.length = L) :
    chunks L (xs ++ ys) = xs :: chunks L ys := by
  have hne : xs ≠ [] := by intro h0; subst h0; simp at h; omega
  rw [chunks_append_of_dvd L hL xs ys 1 (by simpa using h)]
  rw [chunks_short L xs hne (by omega) hL]
  rfl

theorem flatten_chunks (L : Nat) (hL : 0 < L) (xs : List α) : (chunks L xs).flatten = xs := by
  induction h : xs.length using Nat.strongRecOn generalizing xs with
  | _ n ih =>
    by_cases hne : xs = []
    · subst hne; simp
    · rw [chunks_cons_of_ne L hL xs hne]
      simp only [List.flatten_cons]
      have hlt : (xs.drop L).length < n := by
        simp only [List.length_drop]
        have : xs.length ≠ 0 := fun h0 => hne (List.eq_nil_of_length_eq_zero h0)
        omega
      rw [ih _ hlt _ rfl, List.take_append_drop]

theorem length_chunks (L : Nat) (hL : 0 < L) (xs : List α) :
    (chunks L xs).length = nPieces L xs.length := by
  induction h : xs.length using Nat.strongRecOn generalizing xs with
  | _ n ih =>
    by_cases hne : xs = []
    · subst hne
      simp only [chunks_nil, List.length_nil] at h ⊢
      subst h
      unfold nPieces
      simp only [Nat.zero_add]
      exact (Nat.div_eq_of_lt (by omega)).symm
    · rw [chunks_cons_of_ne L hL xs hne]
      have hpos : xs.length ≠ 0 := fun h0 => hne (List.eq_nil_of_length_eq_zero h0)
      have hlt : (xs.drop L).length < n := by
        simp only [List.length_drop]; omega
      simp only [List.length_cons]
      rw [ih _ hlt _ rfl]
      simp only [List.length_drop]
      unfold nPieces
      subst h
      by_cases hle : xs.length ≤ L
      · have h0 : xs.length - L = 0 := by omega
        rw [h0]
        have e1 : (0 + L - 1) / L = 0 := Nat.div_eq_of_lt (by omega)
        have e2 : (xs.length + L - 1) / L = 1 := by
          apply Nat.div_eq_of_lt_le <;> omega
        omega
      · have e : xs.length + L - 1 = (xs.length - L + L - 1) + L := by omega
        rw [e, Nat.add_div_right _ hL]

/-- every chunk has at most `L` elements and is non-empty -/
theorem length_of_mem_chunks (L : Nat) (hL : 0 < L) (xs c : List α) (hc : c ∈ chunks L xs) :
    0 < c.length ∧ c.length ≤ L := by
  induction h : xs.length using Nat.strongRecOn generalizing xs with
  | _ n ih =>
    by_cases hne : xs = []
    · subst hne; simp at hc
    · rw [chunks_cons_of_ne L hL xs hne] at hc
      have hpos : xs.length ≠ 0 := fun h0 => hne (List.eq_nil_of_length_eq_zero h0)
      cases hc with
      | head => simp only [List.length_take]; omega
      | tail _ hc' =>
        have hlt : (xs.drop L).length < n := by
          simp only [List.length_drop]; omega
        exact ih _ hlt _ hc' rfl

/-- the `i`-th chunk is the slice `[i*L, (i+1)*L)` of the stream -/
theorem getElem?_chunks (L : Nat) (hL : 0 < L) (xs : List α) (i : Nat) :
    (chunks L xs)[i]? =
      if i * L < xs.length then some ((xs.drop (i * L)).take L) else none := by
  induction i generalizing xs with
  | zero =>
    by_cases hne : xs = []
    · subst hne; simp
    · rw [chunks_cons_of_ne L hL xs hne]
      have hpos : 0 < xs.length := List.length_pos_iff.mpr hne
      simp [hpos]
  | succ i ih =>
    by_cases hne : xs = []
    · subst hne; simp
    · rw [chunks_cons_of_ne L hL xs hne]
      simp only [List.getElem?_cons_succ]
      rw [ih]
      simp only [List.length_drop, List.drop_drop]
      have e : (i + 1) * L = L + i * L := by rw [Nat.succ_mul, Nat.add_comm]
      rw [e]
      by_cases hlt : i * L < xs.length - L
      · have : L + i * L < xs.length := by omega
        simp [hlt, this]
      · have : ¬ L + i * L < xs.length := by omega
        simp [hlt, this]

end Torf
