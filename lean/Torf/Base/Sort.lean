/-
  Torf.Base.Sort — a structurally recursive stable sort (insertion sort), used as the model of
  Python's `sorted`/`list.sort` in the C15 models.  (Core's `List.mergeSort` is defined by
  well-founded recursion and does not reduce in the kernel, so `decide` could not evaluate the
  models on concrete witnesses.)  Any two stable sorts agree; stability: an element is placed
  before the first element it is `le` to, and `sortBy` inserts from the right.
  Owned by C15 (new shared helper, see notes/C15.md).
-/
namespace Torf

def insertBy (le : α → α → Bool) (a : α) : List α → List α
  | [] => [a]
  | b :: l => if le a b then a :: b :: l else b :: insertBy le a l

def sortBy (le : α → α → Bool) : List α → List α
  | [] => []
  | a :: l => insertBy le a (sortBy le l)

end Torf
