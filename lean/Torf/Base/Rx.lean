/-
  A small, executable semantics for the fragment of Python's `re` that torf's validation patterns
  are written in:

      ^? <one character set per literal position>* ( X{a,b} | Y{c,d} | … ) ( $ | \Z )?

  used through `.match()` (anchored at the start whether or not `^` is written) or `.fullmatch()`.
  The translator (`harness/translate.py`, kernel kind `regex`) parses the pattern text found in the
  source with Python's own `re._parser`, refuses everything outside this fragment, and emits a
  `Shape`; the *character sets* are not derived from the flags by a rule: the translator asks the
  `re` engine, for each set, which of all 1 112 064 code points it matches under the flags in force
  (so `IGNORECASE` without `ASCII` shows up as U+0130, U+0131, U+017F, U+212A in a set of letters).
  What is modelled here is therefore only how positions are put together: concatenation, ordered
  alternation with backtracking into the next alternative when the end anchor fails, greedy bounded
  repetition of one set, and the two end anchors.
-/
namespace Torf.Rx

abbrev Str := List Char

/-- inclusive code point ranges -/
abbrev CSet := List (Nat × Nat)

def inSet (rs : CSet) (c : Char) : Bool :=
  rs.any fun r => decide (r.1 ≤ c.toNat) && decide (c.toNat ≤ r.2)

inductive EndAnchor where
  | open        -- nothing after the group: the rest of the text is not looked at
  | dollar      -- `$`: at the end, or before one trailing newline
  | absolute    -- `\Z` (or `.fullmatch()`): at the end
  deriving DecidableEq, Repr, Inhabited

/-- `X{lo,hi}` (`hi = none`: no upper bound) -/
structure Alt where
  cls : CSet
  lo : Nat
  hi : Option Nat
  deriving Repr, Inhabited

structure Shape where
  pre : List CSet          -- literal positions, each as the set of characters it accepts under the flags
  alts : List Alt          -- group 1 (a single un-grouped `X{n}` is a one-element list)
  endA : EndAnchor
  deriving Repr, Inhabited

def endOk : EndAnchor → Str → Bool
  | .open, _ => true
  | .absolute, r => r.isEmpty
  | .dollar, r => r.isEmpty || r == ['\n']

/-- the literal positions -/
def matchPre : List CSet → Str → Option Str
  | [], cs => some cs
  | _ :: _, [] => none
  | p :: ps, c :: cs => if inSet p c then matchPre ps cs else none

/-- length of the longest prefix whose characters are all in the set -/
def runLen (rs : CSet) : Str → Nat
  | [] => 0
  | c :: cs => if inSet rs c then runLen rs cs + 1 else 0

/-- greedy repetition followed by the end anchor: lengths `lo + d`, `lo + d - 1`, …, `lo` are tried in
    this order; the first one after which the end anchor holds wins. Result: the text of the group. -/
def tryDown (e : EndAnchor) (cs : Str) (lo : Nat) : Nat → Option Str
  | 0 => if endOk e (cs.drop lo) then some (cs.take lo) else none
  | d + 1 => if endOk e (cs.drop (lo + d + 1)) then some (cs.take (lo + d + 1)) else tryDown e cs lo d

def matchAlt (e : EndAnchor) (a : Alt) (cs : Str) : Option Str :=
  let run := runLen a.cls cs
  let top := match a.hi with
    | some h => min h run
    | none => run
  if top < a.lo then none else tryDown e cs a.lo (top - a.lo)

/-- ordered alternation: the first alternative that matches *and* lets the end anchor hold -/
def matchAlts (e : EndAnchor) : List Alt → Str → Option Str
  | [], _ => none
  | a :: as, cs =>
    match matchAlt e a cs with
    | some g => some g
    | none => matchAlts e as cs

/-- `pattern.match(v)`: `none` = no match, `some g` = match with group 1 = `g` -/
def Shape.run (sh : Shape) (v : Str) : Option Str :=
  match matchPre sh.pre v with
  | some rest => matchAlts sh.endA sh.alts rest
  | none => none

/-! ### facts used by the bridge theorems -/

/-- exactly `n` characters of a set, the rest is returned (what a hand-written model of `X{n}` does) -/
def takeExact (p : Char → Bool) : Nat → Str → Option Str
  | 0, cs => some cs
  | _ + 1, [] => none
  | n + 1, c :: cs => if p c then takeExact p n cs else none

theorem takeExact_eq_drop (p : Char → Bool) : ∀ (n : Nat) (cs rest : Str),
    takeExact p n cs = some rest → rest = cs.drop n
  | 0, cs, rest, h => by simp [takeExact] at h; simp [h]
  | n + 1, [], rest, h => by simp [takeExact] at h
  | n + 1, c :: cs, rest, h => by
    simp only [takeExact] at h
    split at h
    · simpa using takeExact_eq_drop p n cs rest h
    · cases h

theorem takeExact_isSome_iff (rs : CSet) : ∀ (n : Nat) (cs : Str),
    (takeExact (inSet rs) n cs).isSome = decide (n ≤ runLen rs cs)
  | 0, cs => by simp [takeExact]
  | n + 1, [] => by simp [takeExact, runLen]
  | n + 1, c :: cs => by
    simp only [takeExact, runLen]
    by_cases h : inSet rs c = true
    · simp [h, takeExact_isSome_iff rs n cs]
    · simp [h]

/-- an exact count `X{n}` followed by the end anchor, in terms of `takeExact` -/
theorem matchAlt_exact (e : EndAnchor) (rs : CSet) (n : Nat) (cs : Str) :
    matchAlt e ⟨rs, n, some n⟩ cs =
      match takeExact (inSet rs) n cs with
      | some rest => if endOk e rest then some (cs.take n) else none
      | none => none := by
  have hs := takeExact_isSome_iff rs n cs
  unfold matchAlt
  simp only
  cases ht : takeExact (inSet rs) n cs with
  | none =>
    simp only [ht, Option.isSome_none] at hs
    have : ¬ n ≤ runLen rs cs := by simpa using hs.symm
    have hlt : min n (runLen rs cs) < n := by omega
    simp [hlt]
  | some rest =>
    simp only [ht, Option.isSome_some] at hs
    have hle : n ≤ runLen rs cs := by simpa using hs.symm
    have hmin : min n (runLen rs cs) = n := by omega
    have hr := takeExact_eq_drop _ _ _ _ ht
    subst hr
    simp [hmin, tryDown]

end Torf.Rx
