/-
  Vocabulary of the *loop kernels* (`harness/translate.py`, kernel kind `loop`): whole Python
  functions with one `for file in self._torrent.files:` loop are translated statement by
  statement into a structurally recursive Lean function over the list of file sizes.

  * how a translated function ends: `Out.ret v` for `return …`, `Out.raised "Exc"` for
    `raise Exc(…)` and for a failed `assert` (`"AssertionError"`); a call of another translated
    function is `Out.bind` (an exception of the callee ends the caller);
  * a `File` object is the index of the file in `Torrent.files` (`Nat`), a list of files a
    `List Nat`; an index `≥ sizes.length` stands for a `File` that is not in the torrent
    (`files.index(file)` raises `ValueError`);
  * `sliceTo xs k` is Python's `xs[:k]` (negative `k` counts from the end).

  Second batch (lists of integers, pairs):
  * a Python list of integers is a `List Int`; `pyRange a b` is `list(range(a, b))`, `getIdx xs i`
    is `xs[i]` (`none` = IndexError; negative `i` counts from the end), `xs.remove(x)` is
    `List.erase` behind a membership test (ValueError), `x in xs` is `List.contains`;
  * a `set` of integers that is only ever `add`ed to and finally handed to `sorted(…)` is the
    list of the added values in insertion order; `sortedSet` is `sorted(set(…))`: the strictly
    ascending list with the same members (`sortedSet_pairwise`, `mem_sortedSet`);
  * `for a, b in <pairs>`: the list of pairs is the list of its second components (`sizes`), a
    first component is the index of its pair.
  Third batch (methods of an object whose state is one list of integers — `MonitoredList`):
  * `pyInsert xs i v` is `xs.insert(i, v)` (a negative `i` counts from the end; what is still out
    of range is clamped to the front / the end), `setIdx xs i v` is `xs[i] = v` (`none` =
    IndexError; negative `i` counts from the end), `xs.clear()` is `[]`;
  * an optional integer (`return item` / `return None`) is an `Option Int`.
-/
namespace Torf.Loop

inductive Out (α : Type) where
  | ret (v : α)
  | raised (exc : String)
  deriving Repr, DecidableEq

/-- `x = self.other_method(…)` followed by the rest of the function -/
def Out.bind {α β : Type} : Out α → (α → Out β) → Out β
  | .ret v, k => k v
  | .raised e, _ => .raised e

@[simp] theorem Out.bind_ret {α β : Type} (v : α) (k : α → Out β) : (Out.ret v).bind k = k v := rfl
@[simp] theorem Out.bind_raised {α β : Type} (e : String) (k : α → Out β) :
    (Out.raised e : Out α).bind k = .raised e := rfl

/-- Python's `xs[:k]` -/
def sliceTo (xs : List Int) (k : Int) : List Int :=
  if k ≥ 0 then xs.take k.toNat else xs.take (xs.length - (-k).toNat)

/-- an optional value (`none`: the Python expression raises `exc`) followed by the rest -/
def Out.ofOption {α : Type} (o : Option α) (exc : String) : Out α :=
  match o with
  | some v => .ret v
  | none => .raised exc

@[simp] theorem Out.ofOption_some {α : Type} (v : α) (e : String) : Out.ofOption (some v) e = .ret v := rfl
@[simp] theorem Out.ofOption_none {α : Type} (e : String) : (Out.ofOption none e : Out α) = .raised e := rfl

/-- Python's `xs[i]`; `none` is IndexError -/
def getIdx {α : Type} (xs : List α) (i : Int) : Option α :=
  if i ≥ 0 then xs[i.toNat]?
  else if (-i).toNat ≤ xs.length then xs[xs.length - (-i).toNat]? else none

/-- `list(range(a, b))` -/
def pyRange (a b : Int) : List Int := (List.range (b - a).toNat).map (fun (k : Nat) => a + (k : Int))

/-- insertion into a strictly ascending list (nothing happens if the value is there already) -/
def insertAsc (x : Int) : List Int → List Int
  | [] => [x]
  | y :: ys => if x < y then x :: y :: ys else if x = y then y :: ys else y :: insertAsc x ys

/-- `sorted(s)` for the set `s` whose `add`ed values are `xs` -/
def sortedSet (xs : List Int) : List Int := xs.foldr insertAsc []

theorem mem_insertAsc (x y : Int) (l : List Int) : y ∈ insertAsc x l ↔ y = x ∨ y ∈ l := by
  induction l with
  | nil => simp [insertAsc]
  | cons z zs ih =>
    unfold insertAsc
    split
    · simp
    · split
      · rename_i h; subst h; simp
      · simp only [List.mem_cons, ih]
        constructor
        · rintro (h | h | h) <;> simp [h]
        · rintro (h | h | h) <;> simp [h]

theorem pairwise_insertAsc (x : Int) (l : List Int) (h : l.Pairwise (· < ·)) :
    (insertAsc x l).Pairwise (· < ·) := by
  induction l with
  | nil => simp [insertAsc]
  | cons z zs ih =>
    unfold insertAsc
    rw [List.pairwise_cons] at h
    split
    · rename_i hlt
      refine List.pairwise_cons.mpr ⟨?_, List.pairwise_cons.mpr h⟩
      intro a ha
      rcases List.mem_cons.mp ha with rfl | ha
      · exact hlt
      · exact Int.lt_trans hlt (h.1 a ha)
    · split
      · exact List.pairwise_cons.mpr h
      · rename_i h1 h2
        refine List.pairwise_cons.mpr ⟨?_, ih h.2⟩
        intro a ha
        rcases (mem_insertAsc x a zs).mp ha with rfl | ha
        · omega
        · exact h.1 a ha

/-- `sortedSet` is strictly ascending … -/
theorem sortedSet_pairwise (xs : List Int) : (sortedSet xs).Pairwise (· < ·) := by
  induction xs with
  | nil => simp [sortedSet]
  | cons x xs ih => exact pairwise_insertAsc x _ ih

/-- … and has exactly the added values as members -/
theorem mem_sortedSet (xs : List Int) (y : Int) : y ∈ sortedSet xs ↔ y ∈ xs := by
  induction xs with
  | nil => simp [sortedSet]
  | cons x xs ih =>
    show y ∈ insertAsc x (sortedSet xs) ↔ _
    rw [mem_insertAsc, ih]; simp

/-- Python's `xs.insert(i, v)`: `i < 0` counts from the end (`i + len`), then the position is
    clamped into `0 … len` (CPython `ins1`) -/
def pyInsert (xs : List Int) (i v : Int) : List Int :=
  let n : Int := xs.length
  let j : Int := if i < 0 then (if i + n < 0 then 0 else i + n) else (if i > n then n else i)
  xs.take j.toNat ++ v :: xs.drop j.toNat

/-- Python's `xs[i] = v`; `none` is IndexError (the same index rule as `getIdx`) -/
def setIdx (xs : List Int) (i v : Int) : Option (List Int) :=
  if i ≥ 0 then (if i.toNat < xs.length then some (xs.set i.toNat v) else none)
  else if (-i).toNat ≤ xs.length then some (xs.set (xs.length - (-i).toNat) v) else none

/- the values below are what CPython 3.12 prints for the same calls -/
example : pyInsert [10, 20, 30] 0 7 = [7, 10, 20, 30] := by decide
example : pyInsert [10, 20, 30] 1 7 = [10, 7, 20, 30] := by decide
example : pyInsert [10, 20, 30] 3 7 = [10, 20, 30, 7] := by decide
example : pyInsert [10, 20, 30] 4 7 = [10, 20, 30, 7] := by decide
example : pyInsert [10, 20, 30] 99 7 = [10, 20, 30, 7] := by decide
example : pyInsert [10, 20, 30] (-1) 7 = [10, 20, 7, 30] := by decide
example : pyInsert [10, 20, 30] (-2) 7 = [10, 7, 20, 30] := by decide
example : pyInsert [10, 20, 30] (-3) 7 = [7, 10, 20, 30] := by decide
example : pyInsert [10, 20, 30] (-4) 7 = [7, 10, 20, 30] := by decide
example : pyInsert [10, 20, 30] (-99) 7 = [7, 10, 20, 30] := by decide
example : pyInsert [] 0 7 = [7] := by decide
example : pyInsert [] 5 7 = [7] := by decide
example : pyInsert [] (-5) 7 = [7] := by decide
example : setIdx [10, 20, 30] 0 7 = some [7, 20, 30] := by decide
example : setIdx [10, 20, 30] 2 7 = some [10, 20, 7] := by decide
example : setIdx [10, 20, 30] 3 7 = none := by decide
example : setIdx [10, 20, 30] (-1) 7 = some [10, 20, 7] := by decide
example : setIdx [10, 20, 30] (-3) 7 = some [7, 20, 30] := by decide
example : setIdx [10, 20, 30] (-4) 7 = none := by decide
example : setIdx [] 0 7 = none := by decide
example : setIdx [] (-1) 7 = none := by decide

/-- `setIdx` succeeds exactly where `getIdx` does -/
theorem setIdx_isSome (xs : List Int) (i v : Int) : (setIdx xs i v).isSome = (getIdx xs i).isSome := by
  unfold setIdx getIdx
  by_cases h : i ≥ 0
  · by_cases h2 : i.toNat < xs.length <;> simp [h, h2]
  · by_cases h2 : (-i).toNat ≤ xs.length
    · simp only [h, h2, if_true, if_false, Option.isSome_some]
      have : xs.length - (-i).toNat < xs.length := by omega
      simp [this]
    · simp [h, h2]

end Torf.Loop
