/-
  Vocabulary of the *loop kernels* (`harness/translate.py`, kernel kind `loop`): whole Python
  functions with one `for file in self._torrent.files:` loop are translated statement by
  statement into a structurally recursive Lean function over the list of file sizes.

  * how a translated function ends: `Out.ret v` for `return …`, `Out.raised "Exc"` for
    `raise Exc(…)` and for a failed `assert` (`"AssertionError"`); a call of another translated
    function is `Out.bind` (an exception of the callee ends the caller);
  * a `File` object is the index of the file in `Torrent.files` (`Nat`), a list of files a
    `List Nat`; an index `≥ sizes.length` stands for a `File` that is not in the torrent
    (`files.index(file)` raises `ValueError`);
  * `sliceTo xs k` is Python's `xs[:k]` (negative `k` counts from the end).
-/
namespace Torf.Loop

inductive Out (α : Type) where
  | ret (v : α)
  | raised (exc : String)
  deriving Repr, DecidableEq

/-- `x = self.other_method(…)` followed by the rest of the function -/
def Out.bind {α β : Type} : Out α → (α → Out β) → Out β
  | .ret v, k => k v
  | .raised e, _ => .raised e

@[simp] theorem Out.bind_ret {α β : Type} (v : α) (k : α → Out β) : (Out.ret v).bind k = k v := rfl
@[simp] theorem Out.bind_raised {α β : Type} (e : String) (k : α → Out β) :
    (Out.raised e : Out α).bind k = .raised e := rfl

/-- Python's `xs[:k]` -/
def sliceTo (xs : List Int) (k : Int) : List Int :=
  if k ≥ 0 then xs.take k.toNat else xs.take (xs.length - (-k).toNat)

end Torf.Loop
