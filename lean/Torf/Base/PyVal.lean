/-
  Torf.Base.PyVal — the fragment of Python values that torf's metainfo code distinguishes.

  * `str` is a Lean `String` (a sequence of Unicode scalar values; Python strings holding lone
    surrogates are outside the type).
  * `bytes` is a list of octets.
  * `float` keeps exactly what the modelled code can observe of a float: NaN / ±inf, or for a
    finite value its truncation `int(f)`, whether `f.is_integer()`, and its sign.
  * `datetime` keeps the result of `int(dt.timestamp())` (`none` = the conversion raises).
  * `other tag` stands for any object of a type torf has no rule for (set, generator, custom
    class, …); `tag` only serves diagnostics.
  * `dict` is an insertion-ordered association list.
-/
namespace Torf

inductive PyFloat where
  | nan | pinf | ninf
  | fin (trunc : Int) (integral : Bool) (neg : Bool)
deriving Repr, DecidableEq, Inhabited

inductive PyVal where
  | none
  | bool (b : Bool)
  | int (i : Int)
  | float (f : PyFloat)
  | str (s : String)
  | bytes (b : List UInt8)
  | list (l : List PyVal)
  | tuple (l : List PyVal)
  | dict (kvs : List (PyVal × PyVal))
  | datetime (ts : Option Int)
  | other (tag : String)
deriving Repr, Inhabited

namespace PyVal

/-- `type(v).__name__` as used in error messages / diagnostics -/
def typeName : PyVal → String
  | none => "NoneType" | bool _ => "bool" | int _ => "int" | float _ => "float"
  | str _ => "str" | bytes _ => "bytes" | list _ => "list" | tuple _ => "tuple"
  | dict _ => "dict" | datetime _ => "datetime" | other t => t

def isStr : PyVal → Bool | str _ => true | _ => false
def isBytes : PyVal → Bool | bytes _ => true | _ => false
/-- `isinstance(v, int)` (bool is a subclass of int) -/
def isInt : PyVal → Bool | int _ => true | bool _ => true | _ => false
def isFloat : PyVal → Bool | float _ => true | _ => false
def isDict : PyVal → Bool | dict _ => true | _ => false
/-- `isinstance(v, collections.abc.Sequence)` for the modelled types (str, bytes, list, tuple) -/
def isSequence : PyVal → Bool
  | str _ => true | bytes _ => true | list _ => true | tuple _ => true | _ => false
/-- `isinstance(v, utils.Iterable)`: iterable and not `str` -/
def isIterable : PyVal → Bool
  | bytes _ => true | list _ => true | tuple _ => true | dict _ => true | _ => false

/-- association-list lookup with Python `str` keys -/
def lookupStr (k : String) : List (PyVal × PyVal) → Option PyVal
  | [] => Option.none
  | (str k', v) :: rest => if k = k' then some v else lookupStr k rest
  | _ :: rest => lookupStr k rest

end PyVal
end Torf
