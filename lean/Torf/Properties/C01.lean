/-
  C01 — piece hashes are the SHA-1 of the concatenated content stream.
  Property theorems only (helper lemmas live in Torf.Lemmas.*).
-/
import Torf.Lemmas.Stream
import Torf.Model.Generate
namespace Torf.C01
open Torf Torf.Stream Torf.Generate

/-- Sequential chunking with carry-over across files yields exactly the consecutive
    piece-length chunks of the concatenated files — every layout, every piece length. -/
theorem C01_iter_eq_chunks (L : Nat) (hL : 0 < L) (files : List (List α)) :
    iterPieces L files = chunks L files.flatten :=
  iterPieces_eq_chunks L hL files

/-- … and there are exactly ceil(total size / piece length) of them. -/
theorem C01_count (L : Nat) (hL : 0 < L) (files : List (List α)) :
    (iterPieces L files).length = nPieces L (files.map List.length).sum := by
  rw [iterPieces_eq_chunks L hL, length_chunks L hL, List.length_flatten]

/-- Only the last chunk may be shorter than the piece length. -/
theorem C01_only_last_short (L : Nat) (hL : 0 < L) (files : List (List α)) (i : Nat)
    (hi : i + 1 < (iterPieces L files).length) :
    ∃ p, (iterPieces L files)[i]? = some p ∧ p.length = L := by
  rw [iterPieces_eq_chunks L hL] at hi ⊢
  rw [length_chunks L hL] at hi
  rw [getElem?_chunks L hL]
  have h1 : (i + 2) * L ≤ nPieces L files.flatten.length * L :=
    Nat.mul_le_mul_right L (by omega)
  have h2 : nPieces L files.flatten.length * L ≤ files.flatten.length + L - 1 := by
    unfold nPieces; exact Nat.div_mul_le_self _ _
  have e : (i + 2) * L = i * L + 2 * L := by rw [Nat.add_mul]
  have h3 : i * L < files.flatten.length := by omega
  refine ⟨(files.flatten.drop (i * L)).take L, by simp only [h3, if_true], ?_⟩
  simp only [List.length_take, List.length_drop]
  omega

/-- The collector re-orders digests by piece index: whatever order the hashers finish in, the
    stored sequence is the sequence in reading order. -/
theorem C01_collect_perm (hs : List δ) (arrival : List (Nat × δ))
    (h : arrival.Perm (hs.zipIdx.map (fun p => (p.2, p.1)))) :
    collectorHashes arrival = hs := by
  unfold collectorHashes
  let le : Nat × δ → Nat × δ → Bool := fun a b => decide (a.1 ≤ b.1)
  have hperm : (arrival.mergeSort le).Perm (hs.zipIdx.map (fun p => (p.2, p.1))) :=
    (List.mergeSort_perm arrival le).trans h
  have hsorted1 : (arrival.mergeSort le).Pairwise (fun a b => le a b) :=
    List.pairwise_mergeSort (le := le)
      (by intro a b c; simp only [le, decide_eq_true_eq]; omega)
      (by intro a b; simp only [le, Bool.or_eq_true, decide_eq_true_eq]; omega) arrival
  -- the enumeration is sorted by index, strictly
  have hsorted2 : ∀ (k : Nat) (l : List δ),
      ((l.zipIdx k).map (fun p => (p.2, p.1))).Pairwise (fun a b => a.1 < b.1) ∧
      ∀ x ∈ (l.zipIdx k).map (fun p => (p.2, p.1)), k ≤ x.1 := by
    intro k l
    induction l generalizing k with
    | nil => simp
    | cons a t ih =>
      obtain ⟨ih1, ih2⟩ := ih (k + 1)
      simp only [List.zipIdx_cons, List.map_cons, List.pairwise_cons, List.mem_cons]
      refine ⟨⟨fun x hx => ?_, ih1⟩, fun x hx => ?_⟩
      · have := ih2 x hx; omega
      · rcases hx with rfl | hx
        · exact Nat.le_refl _
        · have := ih2 x hx; omega
  have hstrict := (hsorted2 0 hs).1
  have hsorted2' : (hs.zipIdx.map (fun p => (p.2, p.1))).Pairwise (fun a b => le a b) :=
    hstrict.imp (by intro a b hab; simp only [le, decide_eq_true_eq]; omega)
  have heq : arrival.mergeSort le = hs.zipIdx.map (fun p => (p.2, p.1)) := by
    apply List.Perm.eq_of_pairwise (le := fun a b => le a b) _ hsorted1 hsorted2' hperm
    intro a b ha hb hab hba
    -- both are members of the enumeration (perm), which determines the value from the index
    have ha' : a ∈ hs.zipIdx.map (fun p => (p.2, p.1)) := hperm.subset ha
    simp only [le, decide_eq_true_eq] at hab hba
    have hidx : a.1 = b.1 := by omega
    have key : ∀ x : Nat × δ, x ∈ hs.zipIdx.map (fun p => (p.2, p.1)) → hs[x.1]? = some x.2 := by
      intro x hx
      obtain ⟨p, hp, rfl⟩ := List.mem_map.mp hx
      exact List.mem_zipIdx_iff_getElem?.mp hp
    have h1 := key a ha'
    have h2 := key b hb
    rw [hidx, h2] at h1
    have h3 : a.2 = b.2 := (Option.some.inj h1).symm
    exact Prod.ext hidx h3
  have hfold : List.map (fun x => x.2) (arrival.mergeSort le) = hs := by
    rw [heq]
    simp only [List.map_map]
    have : ((fun x : Nat × δ => x.2) ∘ fun p : δ × Nat => (p.2, p.1)) = fun p => p.1 := rfl
    rw [this]
    exact List.zipIdx_map_fst 0 hs
  exact hfold

/-- End to end: for every layout, piece length and order in which the hashers deliver their
    results, a hashing run stores exactly `map H (chunks L stream)`, i.e. the digests of the
    consecutive chunks in stream order, and reports success. -/
theorem C01_generate_spec (H : List α → δ) (L : Nat) (hL : 0 < L) (files : List (List α))
    (hne : 0 < (files.map List.length).sum)
    (arrival : List (Nat × List α)) (h : arrival.Perm (readerTasks L files)) :
    run H L files arrival = .stored ((chunks L files.flatten).map H) := by
  unfold run
  have hperm : (arrival.map (hashTask H)).Perm
      ((((chunks L files.flatten).map H).zipIdx).map (fun p => (p.2, p.1))) := by
    have h1 := h.map (hashTask H)
    refine h1.trans (List.Perm.of_eq ?_)
    unfold readerTasks
    rw [iterPieces_eq_chunks L hL]
    simp only [List.map_map, List.zipIdx_map]
    apply List.map_congr_left
    intro p _
    rfl
  rw [C01_collect_perm _ _ hperm]
  unfold finish torrentPieces
  have hlen : ((chunks L files.flatten).map H).length = ((files.map List.length).sum + L - 1) / L := by
    rw [List.length_map, length_chunks L hL, List.length_flatten]; rfl
  simp [hlen, hne, hL]

/-! Non-vacuity: a concrete layout (file boundary inside a piece, an empty file, a short tail). -/
example : iterPieces 3 [[1, 2], [3, 4, 5, 6], [], [7, 8]] = [[1, 2, 3], [4, 5, 6], [7, 8]] := by
  decide
example : seq (fun p => p.sum) 3 [[1, 2], [3, 4, 5, 6], [], [7, 8]]
    = .stored ((chunks 3 [[1, 2], [3, 4, 5, 6], [], [7, 8]].flatten).map (fun p => p.sum)) :=
  C01_generate_spec _ 3 (by decide) _ (by decide) _ (List.Perm.refl _)

end Torf.C01
