/-
  C02 — content verification is exact, in its environment: the spelling of the content path and
  the file descriptors the process may still open.  Property theorems only (helper lemmas live in
  Torf.Lemmas.VerifySpelling / Torf.Lemmas.VerifyEnv).

  * `C02_path_spelling`          the outcome depends on the directory (inode, with the chain of
                                 real parents) the operating system resolves the given spelling
                                 to, not on its text: two spellings that resolve to the same
                                 directory give the same verdict and the same calls
  * `C02_spelling_iff`           … and the iff of C02 is the iff about the tree found there
  * `C02_normpath_unsound`       lexical normalisation (`os.path.normpath`, hence `abspath`) of
                                 the spelling is not resolution: with a directory symlink followed
                                 by `..` the normalised path names another tree — intact content
                                 fails, damaged content passes
  * `C02_descriptor_headroom`    with at least `max_open_files + 1` descriptors free when the call
                                 starts, no `open()` fails for lack of a descriptor: the call is
                                 `verifyCall` (all C02 theorems), however many files are listed
  * `C02_descriptor_table_bound` the handle table of the call never exceeds `max_open_files + 1`
                                 (`Handles.evict`, the table of C19: `C19_open_bound`)
  * `C02_descriptor_exhaustion`  what happens below that: with a cap larger than the number of
                                 free descriptors intact content fails with ReadError(EMFILE)
-/
import Torf.Properties.C02Call
import Torf.Lemmas.VerifySpelling
import Torf.Lemmas.VerifyEnv
namespace Torf.C02
open Torf Torf.Missing Torf.Verify Torf.VerifyFs Torf.VerifyCall Torf.VerifySpelling Torf.VerifyEnv
open Torf.Reuse (World Node resolve isdir)
open Torf.Paths (PPath normpath)

variable {α δ : Type} [Inhabited α] [DecidableEq δ]

/-- **The spelling does not matter, the place does.**  Two spellings of the content path —
    absolute or relative, with `.`, `..`, doubled or trailing slashes, through symbolic links —
    that the operating system resolves to the same directory (`st`: the directory reached and the
    chain of its real parents) give the same outcome of `verify()`: same result, same calls.
    (Multi-file torrent; no symbolic link *below* the top directory on the way to a listed file —
    then the number of links the OS is still willing to follow does not matter.  For a single-file
    torrent: two spellings with the same resolution.) -/
theorem C02_path_spelling (H : List α → δ) (L : Nat) (sizes : List Nat) (e : Env α)
    (names : List (List String)) (stored : List δ) (hasCb : Bool) (p p' : PPath)
    (tpath : Option String) (interval : Int) (clock : List Int) :
    (∀ st, resolve e.w p = .ok (.dir st) → resolve e.w p' = .ok (.dir st) →
      (∀ n ∈ names, NoLinkBelow e.w.fs st n) →
      verifySpelled H L sizes e names stored hasCb false p tpath interval clock =
        verifySpelled H L sizes e names stored hasCb false p' tpath interval clock) ∧
    (resolve e.w p = resolve e.w p' →
      verifySpelled H L sizes e names stored hasCb true p tpath interval clock =
        verifySpelled H L sizes e names stored hasCb true p' tpath interval clock) := by
  constructor
  · intro st hp hp' hnl
    unfold verifySpelled
    have hd : isdir e.w p = isdir e.w p' := by unfold isdir; rw [hp, hp']
    have hfd : fdOf e false p names = fdOf e false p' names := by
      unfold fdOf
      simp only [Bool.false_eq_true, if_false]
      apply List.map_congr_left
      intro n hn
      exact stateOf_join e p p' st n hp hp' (hnl n hn)
    rw [hd, hfd]
  · intro h
    unfold verifySpelled
    have hd : isdir e.w p = isdir e.w p' := by unfold isdir; rw [h]
    have hfd : fdOf e true p names = fdOf e true p' names := by
      unfold fdOf stateOf
      simp only [if_true, h]
    rw [hd, hfd]

/-- **Exactness at the place the spelling names.**  Without a callback `verify(p)` returns `True`
    iff every listed file, looked up by the operating system below the spelling `p` as given, is a
    regular readable file of the recorded size with the recorded digests. -/
theorem C02_spelling_iff (H : List α → δ) (L : Nat) (hL : 0 < L) (sizes : List Nat) (e : Env α)
    (names : List (List String)) (stored : List δ) (single : Bool) (p : PPath)
    (hp : ProperPath single (isdir e.w p)) (tpath : Option String) (interval : Int)
    (clock : List Int) :
    (verifySpelled H L sizes e names stored false single p tpath interval clock).1 = .ok true ↔
      SpecOkFs H L sizes (fdOf e single p names) stored = true := by
  unfold verifySpelled
  exact C02_call_iff H L hL sizes _ stored single _ hp tpath interval clock

/-! ### lexical normalisation is not resolution -/

/-- `/a/link → /b/t`; a tree at `/a/content` (the textual neighbour of the link) and a tree at
    `/b/content` (the real neighbour of the link's target) -/
def spFS : Reuse.FS := [
  .dir true true [("a", 1), ("b", 2)],                  -- 0  /
  .dir true true [("link", 3), ("content", 4)],         -- 1  /a
  .dir true true [("t", 5), ("content", 6)],            -- 2  /b
  .link ⟨true, ["b", "t"]⟩,                             -- 3  /a/link
  .dir true true [("f", 7)],                            -- 4  /a/content
  .dir true true [],                                    -- 5  /b/t
  .dir true true [("f", 8)],                            -- 6  /b/content
  .file 2 true 1,                                       -- 7  /a/content/f
  .file 2 true 0 ]                                      -- 8  /b/content/f

def spWorld : World := ⟨spFS, [], 1000, fun _ => (.undecodable, fun _ => .missing)⟩
/-- content 0 is what the torrent records, content 1 has a changed byte -/
def spEnv (swap : Bool) : Env Nat :=
  ⟨spWorld, fun c => if (c == 0) != swap then [1, 2] else [1, 9], 40⟩
def spSpelling : PPath := ⟨true, ["a", "link", "..", "content"]⟩

/-- **`normpath` is unsound.**  `/a/link/../content` is `/b/content` (the OS takes `..` in the
    directory the link leads to), `normpath` makes `/a/content` of it.  If the tree the caller
    named is intact and the one at the collapsed location is damaged, verifying the normalised
    path fails although the content is as recorded; the other way round damaged content passes. -/
theorem C02_normpath_unsound :
    resolve spWorld spSpelling = .ok (.dir [6, 2]) ∧
    normpath true spSpelling.comps = ["a", "content"] ∧
    resolve spWorld ⟨true, normpath true spSpelling.comps⟩ = .ok (.dir [4, 1]) ∧
    (verifySpelled (fun x : List Nat => x) 2 [2] (spEnv false) [["f"]] [[1, 2]] false false
      spSpelling none 0 []).1 = .ok true ∧
    (verifySpelled (fun x : List Nat => x) 2 [2] (spEnv false) [["f"]] [[1, 2]] false false
      ⟨true, normpath true spSpelling.comps⟩ none 0 []).1 = .error (.content 0 [0]) ∧
    (verifySpelled (fun x : List Nat => x) 2 [2] (spEnv true) [["f"]] [[1, 2]] false false
      spSpelling none 0 []).1 = .error (.content 0 [0]) ∧
    (verifySpelled (fun x : List Nat => x) 2 [2] (spEnv true) [["f"]] [[1, 2]] false false
      ⟨true, normpath true spSpelling.comps⟩ none 0 []).1 = .ok true := by
  refine ⟨rfl, by decide, rfl, by decide, by decide, by decide, by decide⟩

/-! non-vacuity of `C02_path_spelling`: `/b//content/.` and `/a/link/../content` resolve to the
    same directory, below which no link lies -/
example : resolve spWorld ⟨true, ["b", "", "content", "."]⟩ = .ok (.dir [6, 2]) ∧
    resolve spWorld spSpelling = .ok (.dir [6, 2]) := ⟨rfl, rfl⟩
example : ∀ n ∈ [["f"]], NoLinkBelow spFS [6, 2] n := by
  intro n hn s t r
  simp only [List.mem_singleton] at hn
  subst hn
  have : Reuse.walk1 spFS [6, 2] ["f"] = .done (.file 8) := rfl
  rw [this]
  intro h
  cases h

/-! ### file descriptors -/

/-- **Descriptor headroom.**  If at least `cap + 1` descriptors are free when the call starts
    (`cap` = `max_open_files`), no `open()` of the call fails with EMFILE: the call is exactly
    `verifyCall` — the iff and all report theorems hold — however many files the torrent lists.
    (The unchanged code needs no further descriptor: measured by the harness, `cap + 1 = 11`
    free descriptors suffice for 300 listed files, 10 do not.) -/
theorem C02_descriptor_headroom (H : List α → δ) (L : Nat) (sizes : List Nat)
    (fd : List (FState α)) (stored : List δ) (hasCb single pathIsDir : Bool)
    (tpath : Option String) (interval : Int) (clock : List Int) (cap free : Nat)
    (hfree : cap + 1 ≤ free) :
    verifyEnv H L sizes fd stored hasCb single pathIsDir tpath interval clock cap free =
      verifyCall H L sizes fd stored hasCb single pathIsDir tpath interval clock ∧
    effective single tpath cap free L sizes fd = fd := by
  unfold verifyEnv effective finalR
  obtain ⟨h1, h2⟩ := foldR_headroom single tpath cap free hfree L sizes
    (List.range sizes.length) { eff := fd }
  rw [h1, h2, verifyCall_eq_ofRun]
  exact ⟨rfl, rfl⟩

/-- **The handle table is bounded.**  Along the whole loop the table of open handles holds at most
    `cap + 1` entries (this is `Handles.evict`, the table of property C19 — `C19_open_bound`),
    whatever the number of listed files and of free descriptors. -/
theorem C02_descriptor_table_bound (single : Bool) (tpath : Option String) (cap free : Nat)
    (L : Nat) (sizes : List Nat) (fd : List (FState α)) :
    (finalR single tpath cap free L sizes fd).tbl.length ≤ cap + 1 := by
  unfold finalR
  have : ∀ (js : List Nat) (s : StR α), s.tbl.length ≤ cap + 1 →
      (js.foldl (stepR single tpath cap free L sizes) s).tbl.length ≤ cap + 1 := by
    intro js
    induction js with
    | nil => intro s h; exact h
    | cons j js ih =>
      intro s h
      exact ih _ (stepR_tbl_le single tpath cap free L sizes s j h)
  exact this _ _ (by simp)

/-- **Below the headroom.**  Three intact one-byte files, two free descriptors: with the committed
    cap the hypothesis of `C02_descriptor_headroom` fails and with a cap of 1000 — the table never
    evicts — the third `open()` hits the limit: verification of content that is exactly as
    recorded raises ReadError(EMFILE) for file 2; with a cap of 1 it succeeds. -/
theorem C02_descriptor_exhaustion :
    (verifyEnv (fun x : List Nat => x) 2 [1, 1, 1] [.file [1], .file [2], .file [3]]
      [[1, 2], [3]] false false true none 0 [] 1000 2).1 = .error (.read 2) ∧
    effective (α := Nat) false none 1000 2 2 [1, 1, 1] [.file [1], .file [2], .file [3]] =
      [.file [1], .file [2], .noOpen 1 EMFILE] ∧
    (verifyEnv (fun x : List Nat => x) 2 [1, 1, 1] [.file [1], .file [2], .file [3]]
      [[1, 2], [3]] false false true none 0 [] 1 2).1 = .ok true := by
  refine ⟨by decide, rfl, by decide⟩

end Torf.C02
