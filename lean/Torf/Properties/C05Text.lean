/-
  C05 — text is written exactly as its code points: no Unicode normalisation, no case mapping,
  no stripping, whatever the characters (non-NFC, non-NFKC, unassigned, noncharacters, non-BMP,
  bidi / zero-width controls, …).

  torf keeps a byte string that is well-formed UTF-8 as `str` and writes a `str` with
  `str.encode('utf8')`.  The model's `str` is a sequence of Unicode scalar values and its
  converter is `utf8Enc` = core Lean's `String.toUTF8`; the statements below are what "byte for
  byte" demands of that converter, for *every* string: it writes the concatenation of the UTF-8
  encodings of the code points, one after the other (`C05_text_exact`), distinct strings are
  written differently (`C05_text_inj` — in particular canonically equivalent spellings stay
  distinct), what is written is read back as the same string (`C05_text_roundtrip`), and the same
  for dictionary keys (`C05_key_exact`).  The harness compares the real converter with this one on
  an alphabet built from the Unicode database class by class (`harness/gen/unitext.py`).
-/
import Torf.Lemmas.Codec
import Torf.Lemmas.Utf8Keys
import Torf.Lemmas.Utf8Order
namespace Torf.C05
open Torf Torf.Bencode Torf.Codec Torf.ReadStream

/-- `encode_value(s)` for a `str` is the UTF-8 encoding of exactly its code points, in order:
    nothing is composed, decomposed, folded, stripped or replaced -/
theorem C05_text_exact (s : String) :
    encodeValue (.str s) = .ok (.bytes (s.toList.flatMap String.utf8EncodeChar)) := by
  simp only [encodeValue, utf8Enc_eq_flatMap]

/-- two different strings are never written as the same bytes (so `é` U+00E9 and `e` + U+0301,
    `Ω` U+03A9 and OHM SIGN U+2126, `ß` and `ss`, `a` and `a` + ZERO WIDTH SPACE … stay apart) -/
theorem C05_text_inj (s s' : String) (h : encodeValue (.str s) = encodeValue (.str s')) : s = s' := by
  simp only [encodeValue, Except.ok.injEq, BVal.bytes.injEq] at h
  exact utf8Enc_inj h

/-- what is written for a `str` is read back as that very `str` -/
theorem C05_text_roundtrip (s : String) :
    (encodeValue (.str s)).toOption.map decodeValue = some (.str s) := by
  simp only [encodeValue, Except.toOption, Option.map_some, decodeValue, decodeBytes, utf8Dec_enc]

/-- dictionary keys: the entry `(k, v)` of a Python dict is written under the UTF-8 encoding of
    exactly the code points of `k` -/
theorem C05_key_exact (k : String) (v : PyVal) (w : BVal) (h : encodeValue v = .ok w) :
    encodeValue (.dict [(.str k, v)]) = .ok (.dict [(k.toList.flatMap String.utf8EncodeChar, w)]) := by
  simp only [encodeValue, encodeKvs, h, isort, Bencode.insertBy, List.map, encKey, utf8Enc_eq_flatMap]

/-- concrete instances: the decomposed and the precomposed spelling of "é", OHM SIGN and GREEK
    CAPITAL OMEGA, a CJK compatibility ideograph and its unified form -/
example :
    utf8Enc (String.ofList ['e', Char.ofNat 0x301]) = [101, 204, 129] ∧
    utf8Enc (String.ofList [Char.ofNat 0xe9]) = [195, 169] ∧
    utf8Enc (String.ofList [Char.ofNat 0x2126]) = [226, 132, 166] ∧
    utf8Enc (String.ofList [Char.ofNat 0x3a9]) = [206, 169] ∧
    utf8Enc (String.ofList [Char.ofNat 0xf9d0]) = [239, 167, 144] ∧
    utf8Enc (String.ofList [Char.ofNat 0x985e]) = [233, 161, 158] ∧
    decodeValue (.bytes [101, 204, 129]) = .str (String.ofList ['e', Char.ofNat 0x301]) := by
  refine ⟨by decide +kernel, by decide +kernel, by decide +kernel, by decide +kernel,
    by decide +kernel, by decide +kernel, ?_⟩
  have h : utf8Dec [101, 204, 129] = some (String.ofList ['e', Char.ofNat 0x301]) := by
    rw [← utf8Dec_enc (String.ofList ['e', Char.ofNat 0x301])]
    congr 1
  simp only [decodeValue, decodeBytes, h]

end Torf.C05
