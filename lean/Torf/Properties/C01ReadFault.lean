/-
  C01 — hashing over a read layer that fails the way a buffered reader over a failing raw file
  does: a `read(size)` call may consume k bytes and then raise (`Model/StreamFault.lean`).

  The demand: `generate()` returns True only with exactly the digests of the chunks of the files'
  bytes; a lost byte must surface as ReadError (or at least not as True).
-/
import Torf.Properties.C01
import Torf.Lemmas.StreamFault
namespace Torf.C01
open Torf Torf.Stream Torf.Generate Torf.StreamFault

/-- **OSErrors.**  The code as it is (no retry of OSErrors — also every variant without one): for
    EVERY fault plan, if an OSError was raised by a read, `generate()` does not return: the
    reader's ReadError reaches the caller and nothing is stored.  Whatever the error consumed. -/
theorem C01_read_fault_never_true (pol : Policy) (hp : pol.retryOs = none) (H : List α → δ) (L : Nat)
    (files : List (List α)) (plan : List Ev)
    (hraised : 0 < (StreamFault.iterPieces pol L files plan).2.osRaised) :
    StreamFault.generate pol H L files plan = none := by
  unfold StreamFault.generate
  cases hr : (StreamFault.iterPieces pol L files plan).1 with
  | none => rfl
  | some ps =>
    have := iterPieces_os hp L files plan ps hr
    omega

/-- … in particular for the code itself. -/
theorem C01_read_fault_never_true_code (H : List α → δ) (L : Nat) (files : List (List α))
    (plan : List Ev) (hraised : 0 < (StreamFault.iterPieces .code L files plan).2.osRaised) :
    StreamFault.generate .code H L files plan = none :=
  C01_read_fault_never_true .code rfl H L files plan hraised

/-- **No byte lost ⇒ exact.**  Any policy, any plan: a run that does not fail and in which no read
    lost a byte stores exactly `map H (chunks L stream)` and returns True. -/
theorem C01_read_fault_no_loss_exact (pol : Policy) (H : List α → δ) (L : Nat) (hL : 0 < L)
    (files : List (List α)) (hne : 0 < (files.map List.length).sum) (plan : List Ev) (o : Outcome δ)
    (h : StreamFault.generate pol H L files plan = some o)
    (hl : (StreamFault.iterPieces pol L files plan).2.lost = 0) :
    o = .stored ((chunks L files.flatten).map H) := by
  unfold StreamFault.generate at h
  cases hr : (StreamFault.iterPieces pol L files plan).1 with
  | none => simp [hr] at h
  | some ps =>
    simp only [hr, Option.some.injEq] at h
    have hps := iterPieces_lost_zero pol L files plan ps hr hl
    rw [hps, C01_iter_eq_chunks L hL] at h
    rw [← h]
    unfold finish torrentPieces
    have hlen : ((chunks L files.flatten).map H).length = ((files.map List.length).sum + L - 1) / L := by
      rw [List.length_map, length_chunks L hL, List.length_flatten]; rfl
    simp [hlen, hne, hL]

/-- **The code, partial.**  OSErrors anywhere, MemoryErrors only before the failing read consumed
    anything (the allocation of the result fails up front — the case `Reader._handle_oom` is
    written for): `generate()` raises ReadError or returns True with exactly the right digests. -/
theorem C01_read_fault_code_partial (H : List α → δ) (L : Nat) (hL : 0 < L) (files : List (List α))
    (hne : 0 < (files.map List.length).sum) (plan : List Ev) (hm : memUpFront plan) :
    StreamFault.generate .code H L files plan = none ∨
      StreamFault.generate .code H L files plan = some (.stored ((chunks L files.flatten).map H)) := by
  cases hg : StreamFault.generate .code H L files plan with
  | none => exact Or.inl rfl
  | some o =>
    right
    have hr : ∃ ps, (StreamFault.iterPieces .code L files plan).1 = some ps := by
      unfold StreamFault.generate at hg
      cases hr : (StreamFault.iterPieces Policy.code L files plan).1 with
      | none => simp [hr] at hg
      | some ps => exact ⟨ps, rfl⟩
    obtain ⟨ps, hr⟩ := hr
    have hl := iterPieces_memUpFront (pol := .code) rfl L files plan hm ps hr
    rw [C01_read_fault_no_loss_exact .code H L hL files hne plan o hg hl]

/-- The full statement for the code — *every* plan, MemoryErrors in the middle of a read included —
    is false: the out-of-memory retry of `_read_from_fh` reads again without restoring the
    position, so a MemoryError that strikes after the read consumed a byte shifts every later
    chunk (finding D01a). -/
def C01_read_fault_code_full : Prop :=
  ∀ (L : Nat) (files : List (List Nat)) (plan : List Ev), 0 < L → 0 < (files.map List.length).sum →
    StreamFault.generate .code (fun p => p) L files plan = none ∨
      StreamFault.generate .code (fun p => p) L files plan =
        some (.stored ((chunks L files.flatten).map fun p => p))

theorem C01_read_fault_code_counterexample : ¬ C01_read_fault_code_full := by
  intro h
  have h0 := h 3 [[1, 2, 3, 4, 5, 6, 7, 8]] [.ok, .fail 1 .mem] (by decide) (by decide)
  have h1 : StreamFault.generate .code (fun p : List Nat => p) 3 [[1, 2, 3, 4, 5, 6, 7, 8]]
      [.ok, .fail 1 .mem] = some (.stored [[1, 2, 3], [5, 6, 7], [8]]) := by decide
  rw [h1, ← C01_iter_eq_chunks 3 (by decide)] at h0
  revert h0
  decide

/-- **Seeking back is sound.**  A variant that restores the position before it reads again — after
    whatever errors, however often — never stores anything but the right digests. -/
theorem C01_read_fault_seek_back_sound (pol : Policy) (hp : pol.seekBack = true) (H : List α → δ)
    (L : Nat) (hL : 0 < L) (files : List (List α)) (hne : 0 < (files.map List.length).sum)
    (plan : List Ev) :
    StreamFault.generate pol H L files plan = none ∨
      StreamFault.generate pol H L files plan = some (.stored ((chunks L files.flatten).map H)) := by
  cases hg : StreamFault.generate pol H L files plan with
  | none => exact Or.inl rfl
  | some o =>
    right
    have hr : ∃ ps, (StreamFault.iterPieces pol L files plan).1 = some ps := by
      unfold StreamFault.generate at hg
      cases hr : (StreamFault.iterPieces pol L files plan).1 with
      | none => simp [hr] at hg
      | some ps => exact ⟨ps, rfl⟩
    obtain ⟨ps, hr⟩ := hr
    rw [C01_read_fault_no_loss_exact pol H L hL files hne plan o hg (iterPieces_seekBack hp L files plan ps hr)]

/-- Retrying an OSError *without* seeking back (the seeded change C01/b of round 4: up to 3
    attempts for "transient" errnos) is not sound: the first read consumes one byte and fails with
    ESTALE, the retry continues behind it, the piece count is unchanged, `generate()` returns True
    with the digests of shifted chunks. -/
def C01_read_fault_retry_no_seek_full : Prop :=
  ∀ (L : Nat) (files : List (List Nat)) (plan : List Ev), 0 < L → 0 < (files.map List.length).sum →
    StreamFault.generate { retryOs := some 3 } (fun p => p) L files plan = none ∨
      StreamFault.generate { retryOs := some 3 } (fun p => p) L files plan =
        some (.stored ((chunks L files.flatten).map fun p => p))

theorem C01_read_fault_retry_no_seek_counterexample : ¬ C01_read_fault_retry_no_seek_full := by
  intro h
  have h0 := h 3 [[1, 2, 3, 4, 5], [6, 7, 8]] [.ok, .fail 1 .os] (by decide) (by decide)
  have h1 : StreamFault.generate { retryOs := some 3 } (fun p : List Nat => p) 3 [[1, 2, 3, 4, 5], [6, 7, 8]]
      [.ok, .fail 1 .os] = some (.stored [[1, 2, 3], [5, 6, 7], [8]]) := by decide
  rw [h1, ← C01_iter_eq_chunks 3 (by decide)] at h0
  revert h0
  decide

/-! Non-vacuity. An OSError that consumed two bytes of the second file's first read: the code raises. -/
example : (StreamFault.iterPieces .code 3 [[1, 2, 3, 4], [5, 6, 7, 8]] [.ok, .ok, .ok, .fail 2 .os]).2.osRaised = 1 := by
  decide
example : StreamFault.generate .code (fun p : List Nat => p) 3 [[1, 2, 3, 4], [5, 6, 7, 8]]
    [.ok, .ok, .ok, .fail 2 .os] = none := by decide
/-! A MemoryError up front, twice, then success: the code recovers exactly. -/
example : StreamFault.generate .code (fun p : List Nat => p) 3 [[1, 2, 3, 4], [5, 6, 7, 8]]
    [.ok, .fail 0 .mem, .fail 0 .mem, .ok] = some (.stored [[1, 2, 3], [4, 5, 6], [7, 8]]) := by decide

end Torf.C01
