/-
  C15 — bridge theorems to the kernels translated from `utils.filter_files` and from its call in
  `Torrent._set_files` (regenerated from the source on every run): the model's per-file decision
  (`Create.filterKeep`) is the code's `if / elif / elif / else` chain with the two switches the call site
  passes (`hidden=False, empty=True`): the hidden-name test is on, the empty-file test — the one that
  looked at the disk relative to the working directory, defect D15a — is off whatever the disk says.
-/
import Torf.Generated.Kernels
import Torf.Model.Create
namespace Torf.C15
open Torf Torf.Paths Torf.Generated Torf.Create

/-- with the switch the call site passes, the empty-file test of `filter_files` never fires: what is
    on disk at the probed path (and which directory is current) cannot influence the file list here -/
theorem C15_kernel_empty_test_off (path_exists : Bool) (size : Int) :
    filterSkipsEmpty setFilesEmptySwitch path_exists size = false := by
  simp [filterSkipsEmpty, setFilesEmptySwitch]

/-- … and the hidden-name test is on -/
theorem C15_kernel_hidden_test_on (h : Bool) : filterSkipsHidden setFilesHiddenSwitch h = h := by
  simp [filterSkipsHidden, setFilesHiddenSwitch]

/-- the model keeps a file iff none of the three tests of the code's chain fires, for every answer the
    disk could give to the (switched-off) empty-file test -/
theorem C15_kernel_filter_keep (o : Oracles) (st : Settings) (cwd base fp : Comps)
    (path_exists : Bool) (size : Int) :
    filterKeep o st cwd base fp =
      (!(filterSkipsHidden setFilesHiddenSwitch (isHidden (relpath cwd fp base))) &&
       !(filterSkipsEmpty setFilesEmptySwitch path_exists size) &&
       !(isExcluded o st (withBaseStr base fp))) := by
  rw [C15_kernel_empty_test_off, C15_kernel_hidden_test_on]
  unfold filterKeep
  dsimp only
  cases h1 : isHidden (relpath cwd fp base) <;> cases h2 : isExcluded o st (withBaseStr base fp) <;> simp

end Torf.C15
