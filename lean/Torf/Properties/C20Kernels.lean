/-
  C20 — bridge theorems to the kernels translated from `Torrent.verify_filesize` (regenerated from the
  source on every run): the model's loop reports a size error for an existing file exactly when the
  code's comparison `fs_filepath_size != expected_size` fires, and the `files_done` value handed to
  the callback is the code's `file_index + 1`.
-/
import Torf.Generated.Kernels
import Torf.Model.FileSize
namespace Torf.C20
open Torf.Generated Torf.FileSize

/-- one existing listed file, no callback: the model raises the size error iff the code's comparison
    fires, and otherwise reports success -/
theorem C20_kernel_size_mismatch (t : Torrent) (fs : FS) (total i : Nat) (f : Listed)
    (actual expected : Nat)
    (hex : pathExists (fs f.path) = true) (hrs : realSize (fs f.path) = .ok actual)
    (hps : partialSize t (t.name :: f.path) = .ok expected) :
    loop t fs none total i [f] none =
      if fsSizeMismatch actual expected then (.raised (.size actual expected), []) else (.ok true, []) := by
  unfold fsSizeMismatch
  simp only [loop, hex, hrs, hps, cancel, Bool.not_true, Bool.false_eq_true, if_false]
  by_cases h : actual = expected
  · subst h
    simp
  · have h' : (actual : Int) ≠ (expected : Int) := by omega
    simp [h, h']

/-- … with a callback that never asks to stop, the one call carries the size error iff the comparison
    fires, and its `files_done` is the code's `file_index + 1` -/
theorem C20_kernel_size_mismatch_cb (t : Torrent) (fs : FS) (total i : Nat) (f : Listed)
    (actual expected : Nat)
    (hex : pathExists (fs f.path) = true) (hrs : realSize (fs f.path) = .ok actual)
    (hps : partialSize t (t.name :: f.path) = .ok expected) :
    (loop t fs (some fun _ => false) total i [f] none).2 =
      [⟨i, (fsFilesDone i).toNat, total,
        if fsSizeMismatch actual expected then some (.size actual expected) else none⟩] := by
  unfold fsSizeMismatch fsFilesDone
  simp only [loop, hex, hrs, hps, cancel, Bool.not_true, Bool.false_eq_true, if_false]
  have hd : ((i : Int) + 1).toNat = i + 1 := by omega
  by_cases h : actual = expected
  · subst h
    simp [hd]
  · have h' : (actual : Int) ≠ (expected : Int) := by omega
    simp [h, h', hd]

end Torf.C20
