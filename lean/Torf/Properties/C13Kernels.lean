/-
  C13 — bridge theorems to the parameter tables of `torf/_magnet.py`, translated from the source on
  every run: `Magnet._KNOWN_PARAMETERS`, the two literal tuples `from_string` loops over (parameters
  that take one value / several values) and the two `__str__` loops over (keys rendered once / once
  per item). The model's parser and renderer (`Magnet.fromPairs`, `Magnet.pieces`), about which the
  round-trip theorems of C13 are proved, use exactly these names in exactly this order — including the
  literal `as_` the renderer writes for the acceptable source (finding D13a), which is what makes the
  generated render table differ from the generated parse table.
-/
import Torf.Generated.Kernels
import Torf.Model.MagnetUri
namespace Torf.C13
open Torf Torf.Generated Torf.Magnet

/-- the model's "Unknown parameter" test uses the source's `_KNOWN_PARAMETERS` -/
theorem C13_kernel_known_params : knownParams = magnetKnownParameters.map String.toList := by
  decide +kernel

theorem C13_kernel_known_key (k : Str) :
    isKnownKey k = (decide (k ∈ magnetKnownParameters.map String.toList) || (k.take 2 == ['x', '_'])) := by
  unfold isKnownKey
  rw [C13_kernel_known_params]

/-- the parameters `from_string` reads as single values / as lists are the ones `fromPairs` reads so -/
theorem C13_kernel_parse_tables :
    [kDn, kXl, kXs, kAs, kKt] = magnetSingleParams.map String.toList ∧
    [kTr, kWs] = magnetMultiParams.map String.toList := by
  decide +kernel

/-- every name the parser reads is a known parameter (no field of a rendered link can be "unknown") … -/
theorem C13_kernel_parse_tables_known :
    ∀ k ∈ magnetSingleParams ++ magnetMultiParams, k ∈ magnetKnownParameters := by
  decide +kernel

/-- `__str__`: the model's `pieces` writes the keys of the source's two render loops, in their order -/
theorem C13_kernel_render_order (m : MagnetObj) :
    pieces m =
      [kv kXt (urnPrefix ++ m.infohash)]
      ++ ((magnetRenderSingle.map String.toList).zip
            [m.dn.map quotePlus, m.xl.map decimal, m.xs.map quotePlus, m.as_.map quotePlus]).flatMap
          (fun kv' => match kv'.2 with | none => [] | some v => [kv kv'.1 v])
      ++ (if m.kt.isEmpty then [] else [kv kKt (intercalateStr ['+'] (m.kt.map quotePlus))])
      ++ ((magnetRenderMulti.map String.toList).zip [m.tr, m.ws]).flatMap
          (fun ku => ku.2.map fun u => kv ku.1 (quotePlus u))
      ++ m.x.map (fun p => kv ('x' :: '.' :: p.1) (quotePlus p.2)) := by
  have h1 : magnetRenderSingle.map String.toList = [kDn, kXl, kXs, kAsUnderscore] := by decide +kernel
  have h2 : magnetRenderMulti.map String.toList = [kTr, kWs] := by decide +kernel
  rw [h1, h2]
  unfold pieces
  cases m.dn <;> cases m.xl <;> cases m.xs <;> cases m.as_ <;>
    simp [optPiece, List.zip, List.flatMap]

end Torf.C13
