/-
  C19 — content-stream objects give history-independent answers: histories in which the DISK
  changes between two operations on the same object, the `content_path` ARGUMENT varies from call
  to call, and operations are hit by transient I/O FAULTS (`Torf.Model.HandlesDisk`).

  `Disk` = inode store + directory (what each path names now; paths are numbered root-major, one
  root per copy of the content); an object's state is its table of (path, inode) handles.
  `specOut c d arg op` is a function of the torrent, the disk as it is NOW and the arguments — it
  has no object in it.  `Row.clean` = the operation carries no fault and, when it started, the
  object held no *stale* handle (a handle on an inode that its path does not name any more) of a
  path the operation reads.  Stale handles arise in exactly one way: a path is renamed over /
  unlinked / replaced while the object has it open (`DiskOp.hitsOpen`); changes made in place — of
  the content AND of the size — never produce one, nor do reads, faults or other content paths.

  All theorems hold for every layout, piece length, cap, geometry function, hash function, disk and
  history; `c.memo = false` says that the model is the one of the code (the switch `memo = true`
  is the per-object size memo of seeded changes C10/a and C11/a, for which the theorems fail).
-/
import Torf.Lemmas.HandlesDisk
namespace Torf.C19
open Torf Torf.HandlesDisk

/-- A fresh object answers the specification — whatever the disk looks like (files missing,
    mis-sized, replaced by directories) and whichever content path is in effect. -/
theorem C19_disk_fresh [BEq δ] [Inhabited α] (c : Cfg α δ) (hm : c.memo = false) (d : Disk α)
    (arg : Option Nat) (op : Handles.Op) : (run c d arg none op {}).out = specOut c d arg op :=
  run_fresh c hm d arg op

/-- History independence on the disk as it is now: an object with ANY past whose handles of the
    paths the operation reads are current answers what the specification says (= what a fresh
    object answers with the same arguments).  Handles of other paths do not matter, stale or not:
    other files, and the same files under ANOTHER content path (earlier calls with another
    `content_path` argument leave nothing behind that this call looks at — `_open_files` is keyed
    by the file-system path). -/
theorem C19_disk_independent [BEq δ] [Inhabited α] (c : Cfg α δ) (hm : c.memo = false) (d : Disk α)
    (arg : Option Nat) (op : Handles.Op) (o : Obj) (h : cleanFor c d arg op o.tbl = true) :
    (run c d arg none op o).out = specOut c d arg op ∧
      (run c d arg none op o).out = (run c d arg none op {}).out :=
  ⟨run_clean c hm d arg op o h, by rw [run_clean c hm d arg op o h, run_fresh c hm d arg op]⟩

/-- Operations only ever add current handles: an object without stale handles has none afterwards,
    whatever the operation answered — also when a transient I/O fault made it raise ReadError (the
    handle stays in the table, open and current). -/
theorem C19_disk_run_keeps_current [BEq δ] [Inhabited α] (c : Cfg α δ) (d : Disk α)
    (arg : Option Nat) (fault : Option Fault) (op : Handles.Op) (o : Obj) (h : noStale d o.tbl = true) :
    noStale d (run c d arg fault op o).obj.tbl = true :=
  run_keeps_noStale c d arg fault op o h

/-- A disk change that is made in place (truncate, append, rewrite — any size), or that renames /
    unlinks / replaces a file the object has NOT open, leaves every handle current. -/
theorem C19_disk_change (d : Disk α) (x : DiskOp α) (t : Table) (h : noStale d t = true)
    (hx : x.hitsOpen t = false) : noStale (d.apply x) t = true :=
  apply_noStale d x t h hx

/-- MAIN.  For every history of operations (each with its own `content_path` argument, possibly
    hit by a transient I/O fault), disk changes and replacements of the stored hashes on one object
    (starting with any table): every fault-free operation that starts without a stale handle of a
    path it reads answers the specification evaluated on the torrent, the disk of that moment and
    its arguments. -/
theorem C19_history_disk [BEq δ] [Inhabited α] (c : Cfg α δ) (hm : c.memo = false) (d : Disk α)
    (ss : List (Step α δ)) (o : Obj) :
    ∀ p ∈ (runAllD c d ss o).zip (specAllD c d ss), p.1.clean = true → p.1.out = p.2 :=
  runAllD_clean c hm d ss o

/-- … and the specification's answers are the answers of fresh objects created at those moments. -/
theorem C19_history_disk_fresh [BEq δ] [Inhabited α] (c : Cfg α δ) (hm : c.memo = false) (d : Disk α)
    (ss : List (Step α δ)) : specAllD c d ss = freshAllD c d ss :=
  specAllD_eq_freshAllD c hm d ss

/-- Histories that never rename / unlink / replace a file while the object has it open (in-place
    changes of any size and any change of a closed file are allowed; operations may be hit by
    faults): EVERY fault-free operation answers the specification — in particular every operation
    that follows a faulted one. -/
theorem C19_history_disk_nohit [BEq δ] [Inhabited α] (c : Cfg α δ) (hm : c.memo = false) (d : Disk α)
    (ss : List (Step α δ)) (o : Obj) (h0 : noStale d o.tbl = true) (h : noHit c d ss o = true) :
    ∀ p ∈ ((runAllD c d ss o).zip (freshAllD c d ss)).zip (ss.map Step.faultFree),
      p.2 = true → p.1.1.out = p.1.2 := by
  rw [← specAllD_eq_freshAllD c hm d ss]
  exact runAllD_noHit c hm d ss o h0 h

/-- In particular fault-free histories whose disk changes are all made in place — truncation and
    extension included: file sizes are read from the disk by every call, the object remembers none. -/
theorem C19_history_disk_inplace [BEq δ] [Inhabited α] (c : Cfg α δ) (hm : c.memo = false)
    (d : Disk α) (ss : List (Step α δ)) (h : inPlaceOnly ss = true) (hf : ss.all Step.faultFree = true) :
    (runAllD c d ss {}).map (·.out) = freshAllD c d ss := by
  rw [runAllD_noHit_all c hm d ss {} rfl (noHit_of_inPlaceOnly c d ss {} h) hf,
    specAllD_eq_freshAllD c hm d ss]

/-- The handle bound along histories with disk changes, content paths and faults. -/
theorem C19_disk_open_bound [BEq δ] [Inhabited α] (c : Cfg α δ) (d : Disk α) (ss : List (Step α δ))
    (o : Obj) (h : o.tbl.length ≤ c.cap + 1) : ∀ r ∈ runAllD c d ss o, r.nopen ≤ c.cap + 1 :=
  runAllD_bound c d ss o h

/-- `close()` and leaving the context forget every handle — stale ones included. -/
theorem C19_disk_close [BEq δ] [Inhabited α] (c : Cfg α δ) (d : Disk α) (a : Option Nat) (f : Option Fault)
    (o : Obj) :
    (run c d a f .close o).obj.tbl = [] ∧ (run c d a f .ctxExit o).obj.tbl = [] := ⟨rfl, rfl⟩

/-- What the specification of a complete sequential iteration IS: the items of property C10's
    model on the copy of the content that the effective content path names, as it is now
    (`Disk.view`), so every theorem of C10 (`C10_items`: one item per piece, data iff no byte of a
    bad file, every bad file reported once, …) speaks about it. -/
theorem C19_disk_iter_is_C10 [BEq δ] [Inhabited α] (c : Cfg α δ) (d : Disk α) (arg : Option Nat)
    (hd : NoDirClash c d (c.base arg)) :
    specOut c d arg .iterFull =
      match Missing.iterItems c.L c.sizes (d.view (c.base arg) c.sizes.length) with
      | none => .err .internal
      | some xs => .items xs :=
  specOut_iterFull_eq_missing c d arg hd

/-- An iteration abandoned after `k` items answers the first `k` items of the complete one. -/
theorem C19_disk_abandon_prefix [BEq δ] [Inhabited α] (c : Cfg α δ) (d : Disk α) (arg : Option Nat)
    (k : Nat) (xs : List (Missing.Item α)) (h : specOut c d arg .iterFull = .items xs) :
    specOut c d arg (.iterAbandon k) = .items (xs.take k) :=
  specOut_iterAbandon c d arg k xs h

/-! ### concrete data: three files of 2, 4, 2 bytes, piece length 3 -/

def cD (memo : Bool) : Cfg Nat Nat :=
  { sizes := [2, 4, 2], L := 3, cap := 10,
    geom := fun i => match i with
      | 0 => .ok ([0, 1], 0)
      | 1 => .ok ([1], 1)
      | _ => .ok ([2], 0),
    H := List.sum, stored := [6, 15, 15], memo := memo }

def dD : Disk Nat := Disk.init [[1, 2], [3, 4, 5, 6], [7, 8]]

/-- The per-object size memo (seeded change C10/a: `_get_file_size_from_fs` remembers each size
    until `close()`) is NOT history independent, already for in-place changes: after
    `get_piece(0)` has looked at files 0 and 1, file 1 is truncated to 3 bytes; the following
    complete iteration reads the short file as it is (shifted pieces, nothing reported) instead of
    reporting it and faking its pieces. -/
theorem C19_size_memo_counterexample :
    ¬ ∀ ss : List (Step Nat Nat), inPlaceOnly ss = true → ss.all Step.faultFree = true →
        (runAllD (cD true) dD ss {}).map (·.out) = freshAllD (cD false) dD ss := by
  intro h
  have := h [.op none none (.getPiece 0), .disk (.truncate 1 3), .op none none .iterFull] rfl rfl
  revert this
  decide

/-- what the code answers there (file 1 reported with a size error, pieces 0 and 1 carry no data) … -/
example : (runAllD (cD false) dD [.op none none (.getPiece 0), .disk (.truncate 1 3), .op none none .iterFull] {}).map (·.out)
    = [.piece [1, 2, 3], .none,
       .items [⟨none, 1, [(1, .size)]⟩, ⟨none, 1, []⟩, ⟨some [7, 8], 0, []⟩]] := by
  decide
/-- … and what the variant with the memo answers: the truncated file is read as it is -/
example : (runAllD (cD true) dD [.op none none (.getPiece 0), .disk (.truncate 1 3), .op none none .iterFull] {}).map (·.out)
    = [.piece [1, 2, 3], .none,
       .items [⟨some [1, 2, 3], 0, []⟩, ⟨some [4, 5, 7], 0, []⟩, ⟨some [8], 0, []⟩]] := by
  decide

/-! ### stale handles: what the hypothesis `clean` excludes -/

/-- non-vacuity of `clean` / necessity of the hypothesis: file 1 is atomically replaced by a file
    of the same size while the object has it open; the object keeps reading the old inode
    (operating-system semantics), a fresh object reads the new one.  The row is not `clean`. -/
example : (runAllD (cD false) dD [.op none none .iterFull, .disk (.replace 1 [13, 14, 15, 16]), .op none none (.getPiece 1)] {}).map
      (fun r => (r.out, r.clean))
    = [(.items [⟨some [1, 2, 3], 0, []⟩, ⟨some [4, 5, 6], 0, []⟩, ⟨some [7, 8], 0, []⟩], true),
       (.none, true), (.piece [4, 5, 6], false)] := by
  decide
example : freshAllD (cD false) dD [.op none none .iterFull, .disk (.replace 1 [13, 14, 15, 16]), .op none none (.getPiece 1)]
    = [.items [⟨some [1, 2, 3], 0, []⟩, ⟨some [4, 5, 6], 0, []⟩, ⟨some [7, 8], 0, []⟩], .none,
       .piece [14, 15, 16]] := by
  decide
/-- the same replacement after `close()` (or of a file the object has not opened yet) is seen:
    the history satisfies `noHit` -/
example : noHit (cD false) dD [.op none none .iterFull, .op none none .close, .disk (.replace 1 [13, 14, 15, 16]), .op none none (.getPiece 1)] {}
    = true := by decide
/-- in-place changes of content and size with the file open: every row is clean -/
example : (runAllD (cD false) dD [.op none none .iterFull, .disk (.rewrite 1 [13, 14, 15, 16]), .op none none (.getPiece 1),
      .disk (.extend 2 [9]), .op none none (.verifyPiece 2), .disk (.truncate 2 2), .op none none (.verifyPiece 2)] {}).map
      (fun r => (r.out, r.clean))
    = [(.items [⟨some [1, 2, 3], 0, []⟩, ⟨some [4, 5, 6], 0, []⟩, ⟨some [7, 8], 0, []⟩], true),
       (.none, true), (.piece [14, 15, 16], true), (.none, true), (.err .size, true), (.none, true),
       (.bool true, true)] := by
  decide

/-! ### documented outcomes only?  Not with a stale handle (D19e) -/

/-- "Every error answer of a fault-free history is one of the documented errors (ValueError,
    ReadError, VerifyFileSizeError)": FALSE for the code as it is (since 685c3fc the TypeError of
    finding D19c is gone; what remains is `get_piece`'s own length assertion). -/
def C19_disk_documented_errors_full : Prop :=
  ∀ ss : List (Step Nat Nat), ss.all Step.faultFree = true →
    ∀ r ∈ runAllD (cD false) dD ss {}, ∀ e, r.out = .err e → e.documented = true

/-- File 1 is one byte short (a partial download); `get_piece(1)` reports the size — and caches the
    handle it has opened before the check; the complete file is moved in place (`os.replace`); the
    next `get_piece(1)` finds the cached handle, the size of the PATH is right, the old inode
    yields 2 bytes instead of 3: AssertionError (finding D19e). -/
theorem C19_disk_documented_errors_counterexample : ¬ C19_disk_documented_errors_full := by
  intro h
  have := h [.disk (.truncate 1 3), .op none none (.getPiece 1), .disk (.replace 1 [13, 14, 15, 16]),
    .op none none (.getPiece 1)] rfl ⟨.err .assertion, 1, false⟩ (by decide) .assertion rfl
  exact absurd this (by decide)

/-- the answers of that history: size error, then the assertion; a fresh object reads the new file -/
example : (runAllD (cD false) dD [.disk (.truncate 1 3), .op none none (.getPiece 1),
      .disk (.replace 1 [13, 14, 15, 16]), .op none none (.getPiece 1)] {}).map (fun r => (r.out, r.clean))
    = [(.none, true), (.err .size, true), (.none, true), (.err .assertion, false)] := by decide
example : freshAllD (cD false) dD [.disk (.truncate 1 3), .op none none (.getPiece 1),
      .disk (.replace 1 [13, 14, 15, 16]), .op none none (.getPiece 1)]
    = [.none, .err .size, .none, .piece [14, 15, 16]] := by decide

/-- … but only then: a fault-free operation that starts without a stale handle of a path it reads
    answers with documented errors only (for every torrent whose geometry helpers are consistent —
    property C11 —, every disk and history); `internal` = an exception escaping the missing-file
    loop of `iter_pieces`, excluded by `C10_no_internal_error` under C10's hypothesis via
    `C19_disk_iter_is_C10`. -/
theorem C19_disk_documented_errors_partial [BEq δ] [Inhabited α] (c : Cfg α δ) (hm : c.memo = false)
    (hg : GeomConsistent c) (d : Disk α) (arg : Option Nat) (op : Handles.Op) (o : Obj)
    (h : cleanFor c d arg op o.tbl = true) (e : Err) (he : (run c d arg none op o).out = .err e) :
    e.documented = true ∨ e = .internal := by
  rw [run_clean c hm d arg op o h] at he
  exact specOut_documented c hg d arg op e he

/-- non-vacuity: the geometry of the concrete torrent is consistent -/
example : GeomConsistent (cD false) := by
  intro n
  match n with
  | 0 => show readLen [2, 4, 2] [0, 1] 0 3 = Handles.expLen 3 8 0; decide
  | 1 => show readLen [2, 4, 2] [1] 1 3 = Handles.expLen 3 8 1; decide
  | n + 2 =>
    simp [cD, readLen, Missing.sizeOf, Handles.expLen, Cfg.total]
    omega

/-- regression, finding D19c (repaired by 685c3fc): `iter_pieces(); unlink file 0; get_piece(0)` on
    one object reads the old inode through the cached handle — no TypeError; the row is not clean
    (a fresh object reports the missing file) -/
example : (runAllD (cD false) dD [.op none none .iterFull, .disk (.unlink 0), .op none none (.getPiece 0),
      .op none none (.getPieceHash 0)] {}).map (fun r => (r.out, r.clean))
    = [(.items [⟨some [1, 2, 3], 0, []⟩, ⟨some [4, 5, 6], 0, []⟩, ⟨some [7, 8], 0, []⟩], true),
       (.none, true), (.piece [1, 2, 3], false), (.digest 6, false)] := by decide
example : freshAllD (cD false) dD [.op none none .iterFull, .disk (.unlink 0), .op none none (.getPiece 0),
      .op none none (.getPieceHash 0)]
    = [.items [⟨some [1, 2, 3], 0, []⟩, ⟨some [4, 5, 6], 0, []⟩, ⟨some [7, 8], 0, []⟩], .none,
       .err .readNoent, .none] := by decide

/-- Every transient OSError — from the first `seek()` or the first `read()` on any file, inside any
    reading operation (`iter_pieces` complete or abandoned, `get_piece`, `get_piece_hash`,
    `verify_piece`), on any torrent, disk and object — surfaces as ReadError; or the operation never
    gets to the faulty call, and then it answers and leaves the object exactly as without the fault.
    (Before ac0b377 the `fh.seek(skip_bytes)` of `_iter_from_file_handle` stood outside the try
    block and the raw OSError escaped from `iter_pieces`: finding D19d.)  That the object stays
    usable afterwards is `C19_disk_run_keeps_current` + `C19_history_disk_nohit`. -/
theorem C19_fault_is_read_error [BEq δ] [Inhabited α] (c : Cfg α δ) (d : Disk α) (arg : Option Nat)
    (f : Fault) (op : Handles.Op) (o : Obj) :
    (run c d arg (some f) op o).out = .err .readOther ∨
      ((run c d arg (some f) op o).out = (run c d arg none op o).out ∧
       (run c d arg (some f) op o).obj = (run c d arg none op o).obj) :=
  run_fault c d arg f op o

/-! ### content paths and faults -/

/-- two copies of the content: root 0 intact, root 1 with file 1 corrupted (same size) -/
def dTwo : Disk Nat :=
  { inodes := [[1, 2], [3, 4, 5, 6], [7, 8], [1, 2], [3, 4, 0, 6], [7, 8]],
    dir := [.file 0, .file 1, .file 2, .file 3, .file 4, .file 5] }

/-- `verify_piece(1, content_path=good)`, then `verify_piece(1, content_path=corrupt copy)`, then the
    default again, on ONE object: True, False, True (a memo of the path translation keyed by the
    torrent's file — seeded change C19/b of round 3 — would answer True, True, True) -/
example : (runAllD (cD false) dTwo [.op (some 0) none (.verifyPiece 1), .op (some 1) none (.verifyPiece 1),
      .op none none (.verifyPiece 1), .op (some 1) none (.getPiece 1)] {}).map (fun r => (r.out, r.nopen, r.clean))
    = [(.bool true, 1, true), (.bool false, 2, true), (.bool true, 2, true), (.piece [4, 0, 6], 2, true)] := by
  decide

/-- transient faults: the read of file 1 fails once inside `get_piece(0)` → ReadError; the handles
    of files 0 and 1 stay; the same call again answers as a fresh object; read fault in `iter_pieces`
    and seek fault in `verify_piece` → ReadError; seek fault in `iter_pieces` → ReadError (regression, D19d);
    afterwards a complete iteration answers as a fresh object -/
example : (runAllD (cD false) dD [.op none (some ⟨1, false⟩) (.getPiece 0), .op none none (.getPiece 0),
      .op none (some ⟨1, false⟩) .iterFull, .op none (some ⟨1, true⟩) (.verifyPiece 1),
      .op none (some ⟨2, true⟩) .iterFull, .op none none .iterFull] {}).map (fun r => (r.out, r.nopen, r.clean))
    = [(.err .readOther, 2, false), (.piece [1, 2, 3], 2, true), (.err .readOther, 2, false),
       (.err .readOther, 2, false), (.err .readOther, 3, false),
       (.items [⟨some [1, 2, 3], 0, []⟩, ⟨some [4, 5, 6], 0, []⟩, ⟨some [7, 8], 0, []⟩], 3, true)] := by
  decide

end Torf.C19
