/-
  C03 — hashing always terminates and leaves no worker thread running: the exit paths.

  `Model/PipelineExit.lean` extends the transition system of `Properties/C03.lean` by what the
  reader thread does on its way out (the `finally` block of `Reader._push_pieces`: queue the
  end-of-stream marker, *then* close the stream, whose `close()` may fail; the exception of a
  failing OS call — read, seek, close of an evicted file — stored for `join()`) and by the windows
  in which the calling thread can fail outside `Collector.collect()`.  The theorems here say that
  the shutdown protocol does not depend on how the reader left its loop nor on whether closing
  the stream fails:

  * `C03_exit_base_run`: every run of the extended system is a run of the base system (same
    labels), so every invariant of C03/C04 holds of its base component (`C03_exit_conservation`,
    `C03_exit_no_internal` as instances);
  * `C03_exit_sentinel`, `C03_exit_sentinel_visible`: the reader thread has ended iff it has queued
    exactly one end-of-stream marker, the stream is closed only after that, and the marker stays
    where a hasher will find it;
  * `C03_exit_threads_done`, `C03_exit_stuck_is_terminal`, `C03_exit_termination`: with a failing
    `close()` (and any other fault plan without refused starts) the call returns or raises with no
    worker thread left, cannot get stuck before, and every weakly fair execution is finite.
  Proofs: `Lemmas/PipelineExit.lean` (projection, lifting, `InvX`), `Lemmas/PipelineExitFair.lean`.
-/
import Torf.Properties.C03
import Torf.Lemmas.PipelineExitFair
namespace Torf.C03
open Torf.Pipeline Torf.PipelineExit

/-- Every run of the pipeline with exit paths is, on its base component, a run of the pipeline of
    `Properties/C03.lean` with the same label sequence: failing `close()` calls, the class of the
    reader's exception and a failure of the calling thread change no queue, event or thread
    operation of any other thread. -/
theorem C03_exit_base_run {c : CfgE} {ls : List Label} {x : StateE}
    (h : runE c (initE c) ls = some x) : run c.base (init c.base) ls = some x.base :=
  runE_base h

/-- no piece is lost or duplicated on any exit path -/
theorem C03_exit_conservation {c : CfgE} {x : StateE} (h : ReachableE c x) :
    Conserved x.base = true :=
  C03_conservation h.base

/-- no internal error on any exit path -/
theorem C03_exit_no_internal {c : CfgE} {x : StateE} (h : ReachableE c x) :
    noInternalError x.base = true :=
  C03_no_internal h.base

/-- The reader thread cannot end — at the end of the stream, after a stop request, after a failing
    read/seek or a failing close of an evicted file, with or without a failing `stream.close()` in
    its `finally` block — without having queued the end-of-stream marker, exactly once; it queues
    none before, and the stream is closed only after the marker is queued.  (Every configuration,
    every schedule.) -/
theorem C03_exit_sentinel {c : CfgE} {x : StateE} (h : ReachableE c x) :
    (x.base.rpc = .done → x.sentinels = 1 ∧ x.closed = true) ∧
    (x.base.rpc ≠ .done → x.sentinels = 0 ∧ x.closed = false) := by
  have hx := InvX.of_reachable h
  constructor
  · intro hd; simp [hx.sent, hx.closed, hd]
  · intro hd; simp [hx.sent, hx.closed, hd]

/-- … and the marker is not lost: once the reader thread has ended, the marker is in the piece queue
    or in the hands of the one hasher that is about to put it back; before that no hasher has seen
    one and the finalize event is not set. -/
theorem C03_exit_sentinel_visible {c : CfgE} {x : StateE} (hrf : c.base.refuse = [])
    (h : ReachableE c x) :
    (x.sentinels = 1 → none ∈ x.base.pq ∨ ∃ i : Nat, x.base.hs[i]? = some HPc.requeue) ∧
    (x.sentinels = 0 → none ∉ x.base.pq ∧ x.base.fin = false) := by
  have hx := InvX.of_reachable h
  have hb := (Inv.of_reachable hrf h.base).b2
  constructor
  · intro hs
    refine hb.e2 ?_
    have := hx.sent
    rw [hs] at this
    split at this
    · assumption
    · simp at this
  · intro hs
    have hnd : x.base.rpc ≠ .done := by
      intro hd
      have := hx.sent
      rw [hs, hd] at this
      simp at this
    exact ⟨hb.e1pq hnd, hb.e1fin hnd⟩

/-- When `generate()`/`verify()` returns or raises, no worker thread is left running — also when
    closing the stream fails, whatever made the reader leave its loop. -/
theorem C03_exit_threads_done {c : CfgE} {x : StateE} (hwf : wf c.base = true)
    (hrf : c.base.refuse = []) (hmf : c.mainFail = none) (h : ReachableE c x)
    (ht : terminalE x = true) : allThreadsDone x.base = true := by
  have hf := failed_none hmf h
  simp only [terminalE, hf, Option.isSome_none, Bool.false_or] at ht
  exact C03_threads_done hwf hrf h.base ht

/-- Deadlock freedom on the exit paths: a reachable state in which no thread can take a step is a
    state in which the call has returned or raised. -/
theorem C03_exit_stuck_is_terminal {c : CfgE} {x : StateE} (hwf : wf c.base = true)
    (hrf : c.base.refuse = []) (hmf : c.mainFail = none) (h : ReachableE c x)
    (hstuck : ∀ l, stepE c x l = none) : terminalE x = true := by
  have hf := failed_none hmf h
  have hb : terminal x.base = true := by
    refine C03_stuck_is_terminal hwf hrf h.base fun l => ?_
    cases hs : step c.base x.base l with
    | none => rfl
    | some b =>
      obtain ⟨x', hx', _⟩ := stepE_lift (.inl hf) hs
      rw [hstuck l] at hx'
      simp at hx'
  simp [terminalE, hb]

/-- Termination on the exit paths: no infinite execution under a weakly fair scheduler, with a
    failing `close()` and any other fault plan (no refused start). -/
theorem C03_exit_termination {c : CfgE} (hwf : wf c.base = true) (hrf : c.base.refuse = [])
    (hmf : c.mainFail = none) (e : ExecE c) : ¬ e.Fair :=
  fun hf => e.not_fair hwf hrf hmf hf

/-! ### the hypotheses are satisfiable: a run whose `close()` fails -/

private def lM : Label := ⟨.main, false⟩
private def lR : Label := ⟨.reader, false⟩
private def lH : Label := ⟨.hasher 0, false⟩
private def lJ : Label := ⟨.janitor, false⟩

/-- one hasher, capacity 1, one data piece, `stream.close()` fails -/
private def cfgClose : CfgE :=
  { base := { N := 1, cap := 1, items := [.data], readFault := none, refuse := [], raiseOnBad := false,
              cb := fun _ _ => .pass },
    closeFault := true }

private def schedClose : List Label :=
  [lM, lM, lM, lM, lM, lM, lR, lR, lH, lH, lR, lH, lH, lH, lH, lJ, lJ, lJ, lJ, lM, lM, lM, lM, lM]

private def afterE (c : CfgE) (ls : List Label) : StateE := (runE c (initE c) ls).getD (initE c)

private theorem reachE_after {c : CfgE} {ls : List Label}
    (h : (runE c (initE c) ls).isSome = true) : ReachableE c (afterE c ls) := by
  refine ⟨ls, ?_⟩
  unfold afterE
  cases hr : runE c (initE c) ls with
  | none => simp [hr] at h
  | some s => rfl

/-- the reader has ended (marker queued, stream closed, `close()` failed) while main is still
    collecting … -/
example : ReachableE cfgClose (afterE cfgClose (schedClose.take 11)) ∧
    (afterE cfgClose (schedClose.take 11)).base.rpc = .done ∧
    (afterE cfgClose (schedClose.take 11)).sentinels = 1 ∧
    (afterE cfgClose (schedClose.take 11)).closed = true ∧
    (afterE cfgClose (schedClose.take 11)).rexcKind = some .osError ∧
    terminalE (afterE cfgClose (schedClose.take 11)) = false :=
  ⟨reachE_after (by decide), by decide, by decide, by decide, by decide, by decide⟩

/-- … and the complete run ends with every thread done and the `close()` error as the result -/
example : wf cfgClose.base = true ∧ cfgClose.base.refuse = [] ∧ cfgClose.mainFail = none ∧
    ReachableE cfgClose (afterE cfgClose schedClose) ∧ terminalE (afterE cfgClose schedClose) = true ∧
    allThreadsDone (afterE cfgClose schedClose).base = true ∧
    resultE? (afterE cfgClose schedClose) = some (.readerExc .osError) :=
  ⟨by decide, rfl, rfl, reachE_after (by decide), by decide, by decide, by decide⟩

end Torf.C03
