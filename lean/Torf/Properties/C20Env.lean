/-
  C20 in a world, with typed lengths — the verdict of the size check is a function of the stat
  answers of the listed paths and of the *values* of the recorded lengths, and of nothing else.

  Reading guide: `verifyFilesizeG code nt w cb` is `Torrent.verify_filesize(path, callback)`
  (Torf.Model.FileSizeEnv).  `nt` is the metainfo with every `length` as the Python object stored
  there (`PyNum`: int | bool | whole float | fractional float | nan/inf | something else);
  `nt.erase` replaces each by the number of bytes it stands for.  `w.stat` is what
  `exists`/`isdir`/`getsize` answer for `path / components`; `w.opens` is what opening and reading
  that path would do (no descriptor left, no permission, I/O error, a FIFO that blocks) — the code
  never asks.  `spec`, `WF`, `AllGood`, `errOf` are those of `C20.lean`.
-/
import Torf.Lemmas.FileSizeEnv
import Torf.Properties.C20
namespace Torf.C20
open Torf Torf.FileSize

/-- **Refinement in a world.**  For every well-formed layout, whatever Python numbers the lengths
    are, whatever the world: if every length passes `validate()`'s type gate the call returns /
    raises / reports exactly what the specification prescribes for the *values* of the lengths
    and the *stat answers* of the world; otherwise it raises the metainfo error. -/
theorem C20_env_refines (nt : NTorrent) (hwf : WF nt.erase) (w : World) (cb : Callback) :
    verifyFilesizeG code nt w cb =
      if nt.lengthsValid then lift (spec nt.erase w.stat cb)
      else (.res (.raised .metainfo), []) := by
  rw [verifyFilesizeG_code nt hwf, C20_refines nt.erase hwf]

/-- **The verdict depends on the stat answers only.**  Two worlds that agree on what
    `exists`/`isdir`/`getsize` answer for the listed paths give the same result, the same raised
    error and the same callback trace — whatever `open`/`read` would do in either of them (no free
    descriptor, mode 000, EIO, a FIFO), for every layout (no hypothesis on it), every kind of
    number and every callback. -/
theorem C20_depends_only_on_stat (nt : NTorrent) (w w' : World) (cb : Callback)
    (h : ∀ f ∈ nt.nlisted, w.stat f.path = w'.stat f.path) :
    verifyFilesizeG code nt w cb = verifyFilesizeG code nt w' cb := by
  unfold verifyFilesizeG
  have h0 : nt.isSingle = true → w.stat [] = w'.stat [] := by
    intro hs
    unfold NTorrent.isSingle at hs
    unfold NTorrent.nlisted at h
    cases hm : nt.mode with
    | single n => simp only [hm] at h; exact h ⟨[], n⟩ (List.mem_singleton.mpr rfl)
    | multi fs => simp [hm] at hs
  cases hs : nt.isSingle with
  | true => simp only [h0 hs, loopG_stat_congr nt w w' cb _ _ h]
  | false => simp only [Bool.false_and, loopG_stat_congr nt w w' cb _ _ h]

/-- … in particular the world in which nothing can be opened at all and the world in which
    everything can are indistinguishable. -/
theorem C20_open_faults_irrelevant (nt : NTorrent) (st : FS) (o o' : List String → OpenAnswer)
    (cb : Callback) :
    verifyFilesizeG code nt ⟨st, o⟩ cb = verifyFilesizeG code nt ⟨st, o'⟩ cb :=
  C20_depends_only_on_stat nt ⟨st, o⟩ ⟨st, o'⟩ cb (fun _ _ => rfl)

/-- **The verdict depends on the values of the lengths only.**  Two metainfos that differ only
    in the Python type of valid lengths (5 / 5.0 / `True` for 1 / 2**53 / 2.0**53) are judged
    alike on every world. -/
theorem C20_depends_only_on_value (nt nt' : NTorrent) (hwf : WF nt.erase)
    (he : nt.erase = nt'.erase) (hv : nt.lengthsValid = true) (hv' : nt'.lengthsValid = true)
    (w : World) (cb : Callback) :
    verifyFilesizeG code nt w cb = verifyFilesizeG code nt' w cb := by
  rw [C20_env_refines nt hwf, C20_env_refines nt' (he ▸ hwf), he, hv, hv']

/-- **Exactness in a world.**  Valid torrent (type gate and layout rules), no or a passive
    callback: `True` iff every listed file is there with exactly the recorded number of bytes —
    judged on the stat answers; nothing else of the world matters. -/
theorem C20_env_iff (nt : NTorrent) (hwf : WF nt.erase) (hv : validateN nt = true) (w : World)
    (cb : Callback) (hp : Passive cb) :
    (verifyFilesizeG code nt w cb).1 = .res (.ok true) ↔ AllGood nt.erase w.stat := by
  unfold validateN at hv
  simp only [Bool.and_eq_true] at hv
  rw [C20_env_refines nt hwf, ← C20_refines nt.erase hwf, ← C20_iff nt.erase hwf hv.2 w.stat cb hp]
  simp [hv.1, lift]

/-- **One error per offending file, in a world.**  With a passive callback the exception
    arguments are, file by file, `errOf` on the stat answers with the *value* of the stored length
    as the expected size, whatever its type; nothing is raised. -/
theorem C20_env_errors_each (nt : NTorrent) (hwf : WF nt.erase) (hv : validateN nt = true)
    (w : World) (g : Call → Bool) (hp : ∀ c, g c = false) :
    ((verifyFilesizeG code nt w (some g)).2.map (·.exc) =
        if singleAtDir nt.erase w.stat then [some .isDir]
        else nt.nlisted.map (fun f => errOf w.stat f.erase)) ∧
    (verifyFilesizeG code nt w (some g)).1 = .res (.ok (allGood nt.erase w.stat)) := by
  unfold validateN at hv
  simp only [Bool.and_eq_true] at hv
  have := C20_errors_each_callback nt.erase hwf hv.2 w.stat g hp
  rw [verifyFilesizeG_code nt hwf]
  simp only [hv.1, if_true, lift]
  rw [erase_listed, List.map_map] at this
  exact ⟨this.1, by rw [this.2]⟩

/-- **Nothing but documented outcomes.**  On a well-formed layout the call returns a Boolean or
    raises one of its documented errors: no other exception escapes and it does not block,
    whatever the types of the lengths and whatever the world. -/
theorem C20_env_no_internal (nt : NTorrent) (hwf : WF nt.erase) (w : World) (cb : Callback) :
    ∃ r, (verifyFilesizeG code nt w cb).1 = .res r ∧ r ≠ .raised .path := by
  rw [verifyFilesizeG_code nt hwf]
  by_cases hlv : nt.lengthsValid = true
  · simp only [hlv, if_true, lift]
    exact ⟨_, rfl, (C20_no_internal nt.erase hwf w.stat cb).1⟩
  · simp only [hlv, Bool.false_eq_true, if_false]
    exact ⟨_, rfl, by simp⟩

/-! ### the excluded variants -/

def probing : Variant := ⟨true, false⟩
def intFormatting : Variant := ⟨false, true⟩

/-- three files as recorded, all present with exactly the recorded sizes -/
def exNT : NTorrent :=
  ⟨"T", .multi [⟨["a"], .int 16384⟩, ⟨["d", "z"], .floatWhole 0⟩, ⟨["d", "b"], .floatWhole 7⟩], 16384, 40⟩

/-- the world of `exFsGood` in which no file can be opened (no descriptor left) -/
def exNoFd : World := ⟨exFsGood, fun _ => .fails⟩
def exFine : World := ⟨exFsGood, fun _ => .opens⟩
/-- second file missing, third one byte too long (stat answers `exFsBad`) -/
def exBadW : World := ⟨exFsBad, fun _ => .opens⟩

/-- `C20_depends_only_on_stat` stated for an arbitrary variant -/
def C20_depends_only_on_stat_full (v : Variant) : Prop :=
  ∀ (nt : NTorrent) (w w' : World) (cb : Callback),
    (∀ f ∈ nt.nlisted, w.stat f.path = w'.stat f.path) →
    verifyFilesizeG v nt w cb = verifyFilesizeG v nt w' cb

/-- **A readability probe breaks the property.**  With every listed file present and of exactly
    the recorded size, but no descriptor left, the probing variant reports a read error for every
    file and returns `False` (and raises without a callback) where the code returns `True`; so
    for that variant the verdict is *not* a function of the stat answers. -/
theorem C20_probe_unsound :
    AllGood exNT.erase exNoFd.stat ∧
    verifyFilesizeG code exNT exNoFd none = (.res (.ok true), []) ∧
    verifyFilesizeG probing exNT exNoFd none = (.res (.raised .read), []) ∧
    verifyFilesizeG probing exNT exNoFd (some fun _ => false) =
      (.res (.ok false), [⟨0, 1, 3, some .read⟩, ⟨1, 2, 3, some .read⟩, ⟨2, 3, 3, some .read⟩]) ∧
    ¬ C20_depends_only_on_stat_full probing := by
  refine ⟨?_, by decide, by decide, by decide, ?_⟩
  · rw [← allGood_iff]; decide
  · intro h
    have := h exNT exNoFd exFine none (fun _ _ => rfl)
    revert this
    decide

/-- … and a FIFO standing where a zero-length file is recorded (`stat`: not a directory, size 0)
    makes the probing variant block. -/
theorem C20_probe_blocks :
    verifyFilesizeG probing exNT ⟨exFsGood, fun p => if p = ["d", "z"] then .blocks else .opens⟩ none
      = (.hangs, []) ∧
    verifyFilesizeG code exNT ⟨exFsGood, fun p => if p = ["d", "z"] then .blocks else .opens⟩ none
      = (.res (.ok true), []) := by
  constructor <;> decide

/-- The probing variant cannot be told from the code in a world where every listed path can be
    opened — which is every world a test suite running as root with free descriptors builds. -/
theorem C20_probe_agrees_when_openable (b : Bool) (nt : NTorrent) (w : World) (cb : Callback)
    (h : ∀ f ∈ nt.nlisted, w.opens f.path = .opens) :
    verifyFilesizeG ⟨true, b⟩ nt w cb = verifyFilesizeG ⟨false, b⟩ nt w cb := by
  unfold verifyFilesizeG
  simp only [loopG_probe_openable b nt w cb _ _ h]

/-- **An integer-only conversion of the expected size breaks the property.**  Lengths stored as
    whole-number floats, one file too long: the code reports the size error (8 instead of 7) and
    goes on; the variant lets a foreign exception escape — with a callback, too, which is then
    never told about that file or any later one. -/
theorem C20_intfmt_unsound :
    validateN exNT = true ∧
    verifyFilesizeG code exNT exBadW (some fun _ => false) =
      (.res (.ok false), [⟨0, 1, 3, none⟩, ⟨1, 2, 3, some .read⟩, ⟨2, 3, 3, some (.size 8 7)⟩]) ∧
    verifyFilesizeG intFormatting exNT exBadW (some fun _ => false) =
      (.internal, [⟨0, 1, 3, none⟩, ⟨1, 2, 3, some .read⟩]) ∧
    verifyFilesizeG intFormatting exNT ⟨fun p => if p = ["d", "b"] then .file 8 else exFsGood p,
      fun _ => .opens⟩ none = (.internal, []) := by
  refine ⟨by decide, by decide, by decide, by decide⟩

/-- The integer-formatting variant cannot be told from the code on a metainfo without float
    lengths — every torrent that was read from a file, every torrent a test suite builds. -/
theorem C20_intfmt_agrees_on_ints (b : Bool) (nt : NTorrent)
    (h : ∀ f ∈ nt.nlisted, f.len.isFloat = false) (w : World) (cb : Callback) :
    verifyFilesizeG ⟨b, true⟩ nt w cb = verifyFilesizeG ⟨b, false⟩ nt w cb := by
  unfold verifyFilesizeG
  simp only [loopG_intFmt_noFloat b nt h w cb]

/-! ### non-vacuity -/

example : WF exNT.erase := by decide
example : validateN exNT = true := by decide
example : exNT.lengthsValid = true := by decide
/-- the same values as ints and a bool-free rewrite: same erasure -/
example : (⟨"T", .multi [⟨["a"], .floatWhole 16384⟩, ⟨["d", "z"], .bool false⟩, ⟨["d", "b"], .int 7⟩],
    16384, 40⟩ : NTorrent).erase = exNT.erase := rfl
/-- a fractional, a negative, a non-finite or a non-numeric length: metainfo error -/
example : verifyFilesizeG code ⟨"s", .single .floatFrac, 16384, 20⟩ exFine none
    = (.res (.raised .metainfo), []) := by decide
example : verifyFilesizeG code ⟨"s", .single (.int (-1)), 16384, 20⟩ exFine none
    = (.res (.raised .metainfo), []) := by decide
/-- `True` as a length is one byte -/
example : verifyFilesizeG code ⟨"s", .single (.bool true), 16384, 20⟩ ⟨fun _ => .file 1, fun _ => .fails⟩ none
    = (.res (.ok true), []) := by decide
/-- 2.0**53 against a file of 2**53 + 1 bytes: the comparison is exact -/
example : verifyFilesizeG code ⟨"s", .single (.floatWhole 9007199254740992), 1099511627776, 163840⟩
    ⟨fun _ => .file 9007199254740993, fun _ => .opens⟩ none
    = (.res (.raised (.size 9007199254740993 9007199254740992)), []) := by decide

end Torf.C20
