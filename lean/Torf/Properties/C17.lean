/-
  C17 — a failed or refused export leaves no trace.  Property theorems only.

  `d` is the result of the content producer (`dump(validate=…)`), universally quantified: the
  statements hold for every metainfo, every validation rule and both values of `validate`.
  The target (`Target`: what is at the path + the operating system's answers; `Stream`: content,
  position, mode flags, fault plan) is universally quantified as well: every way the target can
  be unwritable, target absent / present, overwrite on / off, every stream kind.

  Layout: (1) the code-shaped model meets the executable specification `fileSpec`/`streamSpec`
  for every input; (2) what an outcome accepted by the specification satisfies, clause by clause
  of the property text (these hold for the model by (1) and for every implementation outcome the
  harness has judged with the same predicate); (3) statements about the model that are stronger
  or more precise than the property text (order of effects, exact shape after a failure).
-/
import Torf.Lemmas.Write
namespace Torf.C17
open Torf Torf.Export Torf.Write

/-! ### (1) model ⊨ specification -/

/-- the in-memory buffer `write` dumps into: a fresh `BytesIO` never fails -/
theorem C17_buffer (c : Bytes) :
    writeStream (.ok c) { content := [], pos := 0 } =
      (.ok (), { content := c, pos := c.length, calls := 4 }) :=
  writeStream_fresh c

/-- The full statement: `write_stream` meets the specification for every producer result and
    *every* stream.  The code as it is falsifies it for raw streams (finding D17a):
    `C17_stream_meets_spec_counterexample`. -/
def C17_stream_meets_spec_full : Prop :=
  ∀ (d : Except ErrKind Bytes) (s : Stream), streamSpec d s (writeStream d s).1 (writeStream d s).2 = true

/-- `write_stream` meets the specification for every producer result and every stream — every
    mode (seekable or not, append, read-only, text), every position, prior content of any
    length, a fault at any method call, any write quota — except a raw stream whose `write`
    takes only part of the content and says so in its return value instead of raising. -/
theorem C17_stream_meets_spec_partial (d : Except ErrKind Bytes) (s : Stream)
    (hraw : s.short = false ∨ ∀ c, d = .ok c → c.length ≤ s.accepts c.length) :
    streamSpec d s (writeStream d s).1 (writeStream d s).2 = true := by
  cases d with
  | error e => simp [writeStream, streamSpec, resEq]
  | ok c =>
    have hle := accepts_le s c.length
    have hraw' : s.short = false ∨ c.length ≤ s.accepts c.length := hraw.imp id (fun h => h c rfl)
    rw [writeStream_ok_eq]
    simp only []
    repeat' split
    all_goals simp_all [streamSpec, Stream.mayFail]
    all_goals first
      | omega
      | (apply List.take_of_length_le
         rcases hraw' with hr | hr
         · rename_i hk; by_cases hlt : s.accepts c.length < c.length
           · simp [hk hlt] at hr
           · omega
         · exact hr)
      | skip

/-- D17a: a raw (unbuffered) stream whose `write` takes 1 of 2 bytes and returns 1: `write_stream`
    ignores the count and returns normally, the stream holds a truncated torrent. -/
theorem C17_stream_meets_spec_counterexample : ¬ C17_stream_meets_spec_full := by
  intro h
  have := h (.ok [100, 101]) { content := [], pos := 0, quota := some 1, short := true }
  revert this
  decide

/-- …exactly: with no other fault, a raw seekable stream that takes `q` bytes ends up holding the
    first `q` bytes of the new content and `write_stream` reports success. -/
theorem C17_stream_short_write (c old : Bytes) (p q : Nat) (hq : q < c.length) :
    writeStream (.ok c) { content := old, pos := p, quota := some q, short := true } =
      (.ok (), { content := c.take q, pos := q, quota := some 0, short := true, calls := 4 }) := by
  simp [writeStream_ok_eq, Stream.accepts, Nat.min_eq_left (Nat.le_of_lt hq)]

/-- `write` meets the specification for every producer result, both values of the overwrite
    flag and every world: whatever is at the path and whichever of `exists`/`open`/`write`/`close`
    the operating system fails. -/
theorem C17_write_meets_spec (d : Except ErrKind Bytes) (ov : Bool) (t : Target) :
    fileSpec d ov t (write d ov t).1 (write d ov t).2.1 = true := by
  rw [write_eq]
  unfold fileSpec
  cases d with
  | error e => cases ov <;> cases t.env.existsAns <;> simp [resEq]
  | ok c =>
    have hle := env_accepts_le t.env c.length
    have hpre : (c.take (t.env.accepts c.length)).isPrefixOf c = true := by
      simp [List.take_prefix]
    by_cases hk : t.env.accepts c.length < c.length <;>
    cases ov <;> cases hex : t.env.existsAns <;> cases hop : t.openFails <;> cases hcl : t.env.closeErr <;>
      simp [resEq, Env.failsAfterOpen, hex, hop, hcl, hk] <;>
      cases hn : t.node <;> simp_all [Node.store, Node.regular, Target.openFails]
    all_goals exact List.take_of_length_le hk

/-! ### (2) what an outcome accepted by the specification satisfies

  `r`, `t'` (`s'`) are arbitrary: these are statements about the specification, i.e. about every
  implementation outcome the harness judges with `fileSpec`/`streamSpec`, and about the model. -/

/-- "writing without the overwrite flag never modifies an existing file and raises the write
    error" — whatever the metainfo and whatever else is wrong with the target. -/
theorem C17_spec_refused (d : Except ErrKind Bytes) (t t' : Target) (r : Except ErrKind Unit)
    (h : fileSpec d false t r t' = true) (hex : t.env.existsAns = true) :
    r = .error .write ∧ t' = t := by
  simp [fileSpec, hex] at h
  exact ⟨resEq_error h.2.1, target_ext h.2.2 h.1⟩

/-- "writing a torrent file that fails validation or conversion creates no file and leaves an
    existing file byte for byte unchanged": the world afterwards is the world before, and the
    error is the producer's (or the refusal). -/
theorem C17_spec_dump_failed (e : ErrKind) (ov : Bool) (t t' : Target) (r : Except ErrKind Unit)
    (h : fileSpec (.error e) ov t r t' = true) :
    t' = t ∧ (r = .error e ∨ (r = .error .write ∧ ov = false ∧ t.env.existsAns = true)) := by
  unfold fileSpec at h
  split at h
  · rename_i href
    simp at h href
    exact ⟨target_ext h.2.2 h.1, .inr ⟨resEq_error h.2.1, href⟩⟩
  · simp at h
    exact ⟨target_ext h.2.2 h.1, .inl (resEq_error h.2.1)⟩

/-- unwritable target, `open` fails (EACCES, EISDIR, ENOENT, ENOTDIR, ETXTBSY, ELOOP, …): a failed
    export changes nothing — an existing file is neither removed nor truncated, nothing is
    created. -/
theorem C17_spec_unopenable (d : Except ErrKind Bytes) (ov : Bool) (t t' : Target) (e : ErrKind)
    (h : fileSpec d ov t (.error e) t' = true) (hop : t.openFails = true) : t' = t := by
  unfold fileSpec at h
  split at h
  · simp at h; exact target_ext h.2.2 h.1
  · cases d <;> simp [hop] at h
    · exact target_ext h.2.2 h.1
    · exact target_ext h.2.2 h.1

/-- every failed export: the world is unchanged, or — only if the complete content was produced,
    overwriting was not refused, `open` succeeded and the operating system then failed the write
    or the close — the path holds an initial segment of the new content. -/
theorem C17_spec_failure (d : Except ErrKind Bytes) (ov : Bool) (t t' : Target) (e : ErrKind)
    (h : fileSpec d ov t (.error e) t' = true) :
    t' = t ∨ ∃ c b, d = .ok c ∧ b <+: c ∧ t'.node = .file b ∧ t.node.regular = true ∧
      (ov = true ∨ t.env.existsAns = false) ∧ t.openFails = false ∧ t.env.failsAfterOpen c.length = true := by
  unfold fileSpec at h
  split at h
  · simp at h; exact .inl (target_ext h.2.2 h.1)
  · rename_i href
    cases d with
    | error e' => simp at h; exact .inl (target_ext h.2.2 h.1)
    | ok c =>
      simp only [Bool.and_eq_true, Bool.or_eq_true, beq_iff_eq] at h
      obtain ⟨henv, ⟨-, -⟩, h3⟩ := h
      rcases h3 with h3 | ⟨⟨hop, hf⟩, h3⟩
      · exact .inl (target_ext h3 henv)
      · right
        cases hn : t'.node <;> simp [hn] at h3
        rename_i b
        refine ⟨c, b, rfl, h3.2, rfl, h3.1, ?_, by simpa using hop, hf⟩
        cases ov <;> cases hex : t.env.existsAns <;> simp_all

/-- no failure before the bytes are handed to the opened file leaves a trace (the statement of
    round 1, now for every world): if the operating system accepts the bytes and the close, a
    failed export — refused, invalid, unconvertible, unopenable — changed nothing. -/
theorem C17_spec_no_trace (d : Except ErrKind Bytes) (ov : Bool) (t t' : Target) (e : ErrKind)
    (h : fileSpec d ov t (.error e) t' = true) (hq : t.env.quota = none) (hc : t.env.closeErr = false) :
    t' = t := by
  rcases C17_spec_failure d ov t t' e h with h | ⟨c, b, _, _, _, _, _, _, hf⟩
  · exact h
  · simp [Env.failsAfterOpen, Env.accepts, hq, hc] at hf

/-- the minimum for an unwritable target: whatever happens, something that was at the path is
    never removed; and when the export fails a regular file stays a regular file, a directory a
    directory, anything else what it was. -/
theorem C17_spec_never_removed (d : Except ErrKind Bytes) (ov : Bool) (t t' : Target) (r : Except ErrKind Unit)
    (h : fileSpec d ov t r t' = true) :
    (t.node ≠ .absent → t'.node ≠ .absent) ∧
    ((∃ e, r = .error e) → (t.node = .dir → t'.node = .dir) ∧ (t.node = .other → t'.node = .other) ∧
      (∀ b, t.node = .file b → ∃ b', t'.node = .file b')) := by
  cases r with
  | error e =>
    rcases C17_spec_failure d ov t t' e h with h | ⟨c, b, _, _, hn, hreg, _⟩
    · subst h; exact ⟨id, fun _ => ⟨id, id, fun b hb => ⟨b, hb⟩⟩⟩
    · cases hn' : t.node <;> simp_all [Node.regular]
  | ok u =>
    unfold fileSpec at h
    split at h
    · simp [resEq] at h
    · cases d with
      | error e => simp [resEq] at h
      | ok c =>
        simp at h
        refine ⟨?_, by simp⟩
        rcases h.2 with h2 | h2 <;> simp [h2]

/-- "a successful write leaves exactly the dumped bytes": the producer succeeded, an existing
    path was not overwritten without the flag, and the path now holds a regular file with exactly
    the dumped bytes — unless what was there is neither file nor directory and still is (a device
    that swallowed the bytes). -/
theorem C17_spec_success (d : Except ErrKind Bytes) (ov : Bool) (t t' : Target) (u : Unit)
    (h : fileSpec d ov t (.ok u) t' = true) :
    ∃ c, d = .ok c ∧ (t'.node = .file c ∨ (t.node = .other ∧ t'.node = .other)) ∧
      (ov = false → t.env.existsAns = false) := by
  unfold fileSpec at h
  split at h
  · simp [resEq] at h
  · rename_i href
    cases d with
    | error e => simp [resEq] at h
    | ok c =>
      simp at h
      refine ⟨c, rfl, h.2, ?_⟩
      intro hov; simpa [hov] using href

/-- an export does not fail without a cause: valid content, overwriting not refused and an
    operating system that fails none of `open`/`write`/`close` ⇒ success. -/
theorem C17_spec_no_spurious_failure (c : Bytes) (ov : Bool) (t t' : Target) (r : Except ErrKind Unit)
    (h : fileSpec (.ok c) ov t r t' = true) (hov : ov = true ∨ t.env.existsAns = false)
    (hop : t.openFails = false) (hf : t.env.failsAfterOpen c.length = false) : ∃ u, r = .ok u := by
  cases r with
  | ok u => exact ⟨u, rfl⟩
  | error e =>
    exfalso
    unfold fileSpec at h
    split at h
    · rename_i href; rcases hov with hov | hov <;> simp [hov] at href
    · simp [hop, hf] at h

/-- stream, nothing produced: the producer's error is raised and the stream object is untouched
    — content, position, and not a single method of it was called. -/
theorem C17_stream_spec_untouched (e : ErrKind) (s s' : Stream) (r : Except ErrKind Unit)
    (h : streamSpec (.error e) s r s' = true) :
    r = .error e ∧ s'.content = s.content ∧ s'.pos = s.pos ∧ s'.calls = s.calls := by
  simp [streamSpec] at h
  exact ⟨resEq_error h.1.1.1, h.1.1.2, h.1.2, h.2⟩

/-- stream, success: the producer succeeded and a seekable stream holds exactly the dumped bytes
    (whatever it held before, wherever its position was, append mode or not); a non-seekable one
    its old content followed by them. -/
theorem C17_stream_spec_success (d : Except ErrKind Bytes) (s s' : Stream) (u : Unit)
    (h : streamSpec d s (.ok u) s' = true) :
    ∃ c, d = .ok c ∧ (s.seekable = true → s'.content = c) ∧ (s.seekable = false → s'.content = s.content ++ c) := by
  cases d with
  | error e => simp [streamSpec, resEq] at h
  | ok c =>
    refine ⟨c, rfl, ?_, ?_⟩ <;> intro hs <;> simpa [streamSpec, hs] using h

/-- stream: no failure without a cause. -/
theorem C17_stream_spec_no_spurious_failure (c : Bytes) (s s' : Stream) (r : Except ErrKind Unit)
    (h : streamSpec (.ok c) s r s' = true) (hf : s.mayFail c.length = false) : ∃ u, r = .ok u := by
  cases r with
  | ok u => exact ⟨u, rfl⟩
  | error e => simp [streamSpec, hf] at h

/-! ### (3) the model, more precisely than the property text -/

/-- A failed `write` — refused overwrite, invalid or unconvertible metainfo, unopenable target —
    leaves the world exactly as it was, whenever the operating system accepts the bytes and the
    close (round-1 statement; `C17_write_fault` says what happens otherwise). -/
theorem C17_file_atomic (d : Except ErrKind Bytes) (ov : Bool) (t t' : Target) (e : ErrKind) (log : List Eff)
    (hq : t.env.quota = none) (hc : t.env.closeErr = false)
    (h : write d ov t = (.error e, t', log)) : t' = t := by
  have := C17_write_meets_spec d ov t
  rw [h] at this
  exact C17_spec_no_trace d ov t t' e this hq hc

/-- The same from the effect log: as long as no byte was handed to the opened file, nothing
    changed — in every world, including those where a later write would have failed. -/
theorem C17_file_atomic_log (d : Except ErrKind Bytes) (ov : Bool) (t t' : Target) (r : Except ErrKind Unit)
    (log : List Eff) (h : write d ov t = (r, t', log)) (hlog : Eff.writeFile ∉ log) : t' = t := by
  rw [write_eq] at h
  cases ov <;> cases hex : t.env.existsAns <;> cases hop : t.openFails <;> cases d <;>
    simp [hex, hop] at h <;> try (obtain ⟨_, rfl, _⟩ := h; rfl)
  all_goals (split at h <;> try split at h) <;> simp at h <;> obtain ⟨_, _, rfl⟩ := h <;> simp at hlog

/-- Without the overwrite flag a path that `os.path.exists` reports is never modified and the
    write error is raised, whatever the metainfo and whatever else would fail later. -/
theorem C17_no_overwrite (d : Except ErrKind Bytes) (t : Target) (h : t.env.existsAns = true) :
    write d false t = (.error .write, t, [.existsCheck]) := by
  simp [write, h]

/-- …and an existing file whose existence cannot be seen (`exists` answers False because the
    directory may not be searched) is not modified either, provided the same denial makes `open`
    fail: "never modifies an existing file" does not depend on the existence check. -/
theorem C17_no_overwrite_hidden (d : Except ErrKind Bytes) (t : Target)
    (hden : t.env.existsAns = false → t.openFails = true) :
    ∃ e log, write d false t = (.error e, t, log) := by
  rw [write_eq]
  cases hex : t.env.existsAns
  · cases d <;> simp [hden hex]
  · simp

/-- A successful `write` leaves exactly the dumped bytes in the file (and `dump` succeeded, the
    path was not reported to exist unless overwriting was allowed, and no OS call failed). -/
theorem C17_success (d : Except ErrKind Bytes) (ov : Bool) (t t' : Target) (log : List Eff)
    (hreg : t.node.regular = true) (h : write d ov t = (.ok (), t', log)) :
    ∃ c, d = .ok c ∧ t'.node = .file c ∧ (ov = false → t.env.existsAns = false) ∧
      t.openFails = false ∧ t.env.failsAfterOpen c.length = false := by
  have hs := C17_write_meets_spec d ov t
  rw [h] at hs
  obtain ⟨c, rfl, hn, hov⟩ := C17_spec_success d ov t t' () hs
  refine ⟨c, rfl, ?_, hov, ?_⟩
  · rcases hn with hn | ⟨hn, _⟩
    · exact hn
    · simp [hn, Node.regular] at hreg
  rw [write_eq] at h
  cases ov <;> cases hex : t.env.existsAns <;> cases hop : t.openFails <;> simp [hex, hop] at h <;>
    (split at h <;> try split at h) <;> simp_all [Env.failsAfterOpen]

/-- The content is produced before the target is opened, on every path through `write`:
    if the log contains `open` then `dump` succeeded and was logged before it. -/
theorem C17_dump_before_open (d : Except ErrKind Bytes) (ov : Bool) (t t' : Target)
    (r : Except ErrKind Unit) (log : List Eff) (h : write d ov t = (r, t', log)) (hopen : Eff.open_ ∈ log) :
    (∃ c, d = .ok c) ∧ Eff.dump ∈ log.takeWhile (fun e => e != Eff.open_) := by
  rw [write_eq] at h
  cases ov <;> cases hex : t.env.existsAns <;> cases hop : t.openFails <;> cases d <;>
    simp [hex, hop] at h <;> try (obtain ⟨_, _, rfl⟩ := h; simp_all <;> decide)
  all_goals (split at h <;> try split at h) <;> simp at h <;> obtain ⟨_, _, rfl⟩ := h <;> simp <;> decide

/-- The operating system fails during the final write (`q` bytes accepted, `q <` length) or at
    close: exactly what the model leaves — WriteError, and at a path where a regular file can be,
    a file holding the first `q` bytes of the new content; anything else at the path is as it
    was.  (The property text does not forbid this: the complete new content had been produced;
    the specification only insists that nothing is removed and nothing foreign appears.) -/
theorem C17_write_fault (c : Bytes) (ov : Bool) (t : Target) (hov : ov = true ∨ t.env.existsAns = false)
    (hop : t.openFails = false) (hf : t.env.failsAfterOpen c.length = true) :
    ∃ log, write (.ok c) ov t =
      (.error .write, { t with node := t.node.store (c.take (t.env.accepts c.length)) }, log) := by
  rw [write_eq]
  have hle := env_accepts_le t.env c.length
  rcases hov with rfl | hex <;> simp [hop, *] <;> simp [Env.failsAfterOpen] at hf <;>
    (split <;> try split) <;> simp_all <;> omega

/-- `write_stream`, every stream kind (but raw short-writing ones): nothing is touched unless `dump` succeeded (the stream is
    returned as it was and the error is `dump`'s); on success a seekable stream holds exactly the
    dumped bytes and a non-seekable one its old content followed by them. -/
theorem C17_stream (d : Except ErrKind Bytes) (s s' : Stream) (r : Except ErrKind Unit)
    (hraw : s.short = false) (h : writeStream d s = (r, s')) :
    (∀ e, d = .error e → r = .error e ∧ s' = s) ∧
    (∀ c, d = .ok c → r = .ok () → s.seekable = true → s'.content = c) ∧
    (∀ c, d = .ok c → r = .ok () → s.seekable = false → s'.content = s.content ++ c) ∧
    (r = .ok () → ∃ c, d = .ok c) := by
  have hs := C17_stream_meets_spec_partial d s (.inl hraw)
  rw [h] at hs
  refine ⟨?_, ?_, ?_, ?_⟩
  · rintro e rfl
    simp only [writeStream, Prod.mk.injEq] at h
    exact ⟨h.1.symm, h.2.symm⟩
  · rintro c rfl rfl hseek
    obtain ⟨c', hc, h1, _⟩ := C17_stream_spec_success _ s s' () hs
    cases hc; exact h1 hseek
  · rintro c rfl rfl hseek
    obtain ⟨c', hc, _, h2⟩ := C17_stream_spec_success _ s s' () hs
    cases hc; exact h2 hseek
  · rintro rfl
    obtain ⟨c', hc, _⟩ := C17_stream_spec_success _ s s' () hs
    exact ⟨c', hc⟩

/-- Append-mode files (`'ab'`, `'a+b'`): `seek(0)` does not redirect writes, but because the
    stream is emptied *before* the write, a successful export still leaves exactly the dumped
    bytes, whatever the prior content and position. -/
theorem C17_stream_append (c old : Bytes) (p : Nat) :
    writeStream (.ok c) { content := old, pos := p, append := true } =
      (.ok (), { content := c, pos := c.length, append := true, calls := 4 }) := by
  simp [writeStream_ok_eq, Stream.accepts]

/-- A failed `write_stream` after the content was produced, exactly: the stream's content is
    untouched (the failure came from `seekable`/`seek`/`truncate` or a non-seekable stream's
    `write` call itself), or it is an initial segment of the new content (seekable: emptied, then
    the write failed; empty segment if the call itself failed), or the old content followed by
    such a segment (non-seekable).  The error is WriteError, except TypeError for a text-mode
    stream whose `write` was reached. -/
theorem C17_stream_failure_shape (c : Bytes) (s s' : Stream) (e : ErrKind)
    (h : writeStream (.ok c) s = (.error e, s')) :
    (e = .write ∨ (e = .internal "TypeError" ∧ s.text = true)) ∧
    (s'.content = s.content ∨
     (s.seekable = true ∧ s.readOnly = false ∧ ∃ k, k < c.length ∧ s'.content = c.take k) ∨
     (s.seekable = true ∧ s.readOnly = false ∧ s'.content = []) ∨
     (s.seekable = false ∧ ∃ k, k < c.length ∧ s'.content = s.content ++ c.take k)) := by
  have hle := accepts_le s c.length
  rw [writeStream_ok_eq] at h
  simp only [] at h
  repeat' split at h
  all_goals simp only [Prod.mk.injEq, reduceCtorEq, false_and, Except.error.injEq] at h
  all_goals obtain ⟨rfl, rfl⟩ := h
  all_goals simp only [true_or, true_and, reduceCtorEq, false_and, or_false, false_or, and_true, *]
  all_goals first
    | exact .inl rfl
    | exact .inr (.inr trivial)
    | exact .inr (.inl ⟨_, (‹_ ∧ _›).1, rfl⟩)
    | exact .inr ⟨_, (‹_ ∧ _›).1, rfl⟩
    | skip

/-- Overwriting is blind to what is overwritten: whatever the existing file holds — the same
    bytes, a proper initial segment of them, the new bytes followed by more, one byte different,
    the previous export of the same object — a `write` with the overwrite flag that meets no
    operating-system fault leaves exactly the dumped bytes, no more and no fewer.  (An instance of
    `C17_write_meets_spec`; stated because round 3 showed that "the old content is related to the new
    one" is where an implementation that looks at the old content goes wrong.) -/
theorem C17_overwrite_exact (c old : Bytes) :
    write (.ok c) true { node := .file old, env := { existsAns := true } } =
      (.ok (), { node := .file c, env := { existsAns := true } }, [.dump, .open_, .writeFile]) := by
  simp [write_eq, Target.openFails, Env.accepts, Node.store, Node.regular]

/-- The same for a seekable stream: any prior content, any position. -/
theorem C17_stream_exact (c old : Bytes) (p : Nat) :
    writeStream (.ok c) { content := old, pos := p } =
      (.ok (), { content := c, pos := c.length, calls := 4 }) := by
  simp [writeStream_ok_eq, Stream.accepts]

/-- A text-mode stream (`open(p, 'r+')`, `io.StringIO`): the export raises TypeError *after*
    emptying the stream.  This is what the unchanged code does; the property allows it (the
    complete new content had been produced) and the check does not list it as a defect. -/
theorem C17_stream_text (c old : Bytes) (p : Nat) :
    writeStream (.ok c) { content := old, pos := p, text := true } =
      (.error (.internal "TypeError"), { content := [], pos := 0, text := true, calls := 4 }) := by
  simp [writeStream_ok_eq]

/-- non-vacuity: a refused overwrite, a failing dump over an existing file, a success, an
    unopenable existing file with the overwrite flag, a write fault after 1 byte, streams -/
example : write (.ok [100, 101]) false { node := .file [1, 2, 3], env := .natural (.file [1, 2, 3]) } =
    (.error .write, { node := .file [1, 2, 3], env := .natural (.file [1, 2, 3]) }, [.existsCheck]) := by rfl
example : write (.error .metainfo) true { node := .file [1, 2, 3], env := .natural (.file [1, 2, 3]) } =
    (.error .metainfo, { node := .file [1, 2, 3], env := .natural (.file [1, 2, 3]) }, [.dump]) := by rfl
example : write (.ok [100, 101]) true { node := .file [1, 2, 3], env := .natural (.file [1, 2, 3]) } =
    (.ok (), { node := .file [100, 101], env := .natural (.file [1, 2, 3]) }, [.dump, .open_, .writeFile]) := by
  rfl
example : write (.ok [100, 101]) true { node := .file [1, 2, 3], env := { existsAns := true, openErr := true } } =
    (.error .write, { node := .file [1, 2, 3], env := { existsAns := true, openErr := true } }, [.dump, .open_]) := by
  rfl
example : write (.ok [100, 101]) true { node := .file [1, 2, 3], env := { existsAns := true, quota := some 1 } } =
    (.error .write, { node := .file [100], env := { existsAns := true, quota := some 1 } },
      [.dump, .open_, .writeFile]) := by rfl
example : writeStream (.ok [100, 101]) { seekable := true, content := [1, 2, 3], pos := 1 } =
    (.ok (), { seekable := true, content := [100, 101], pos := 2, calls := 4 }) := by rfl
example : writeStream (.ok [100, 101]) { seekable := false, content := [1, 2, 3], pos := 0, quota := some 1 } =
    (.error .write, { seekable := false, content := [1, 2, 3, 100], pos := 0, calls := 2, quota := some 0 }) := by
  rfl
example : write (.ok [100, 101]) true { node := .file [100, 101, 7, 7], env := { existsAns := true } } =
    (.ok (), { node := .file [100, 101], env := { existsAns := true } }, [.dump, .open_, .writeFile]) :=
  C17_overwrite_exact [100, 101] [100, 101, 7, 7]
example : (writeStream (.ok [100, 101]) { content := [1, 2, 3], pos := 2, faultAt := some 2 }) =
    (.error .write, { content := [1, 2, 3], pos := 0, faultAt := some 2, calls := 3 }) := by rfl

end Torf.C17
