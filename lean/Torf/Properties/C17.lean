/-
  C17 — a failed or refused export leaves no trace.  Property theorems only.
  `d` is the result of the content producer (`dump(validate=…)`), universally quantified: the
  statements hold for every metainfo, every validation rule and both values of `validate`.
-/
import Torf.Model.Write
namespace Torf.C17
open Torf Torf.Export Torf.Write

/-- A failed `write` (any cause up to and including `open`: refused overwrite, invalid or
    unconvertible metainfo, unopenable target) leaves the target exactly as it was. -/
theorem C17_file_atomic (d : Except ErrKind Bytes) (ov : Bool) (t t' : Target) (e : ErrKind) (log : List Eff)
    (h : write d ov none t = (.error e, t', log)) : t' = t := by
  unfold write at h
  split at h
  · simp_all
  · cases d with
    | error e' => simp [writeStream] at h; exact h.2.1.symm
    | ok c =>
      simp only [writeStream] at h
      split at h
      · simp_all
      · split at h <;> simp_all

/-- Without the overwrite flag an existing path is never modified and the write error is raised,
    whatever the metainfo and even if writing would fail later (`writeFault`). -/
theorem C17_no_overwrite (d : Except ErrKind Bytes) (wf : Option Nat) (t : Target) (h : t.exists_ = true) :
    ∃ log, write d false wf t = (.error .write, t, log) := by
  unfold write
  simp [h]

/-- A successful `write` leaves exactly the dumped bytes in the file (and `dump` succeeded, and
    the path did not exist unless overwriting was allowed). -/
theorem C17_success (d : Except ErrKind Bytes) (ov : Bool) (t t' : Target) (log : List Eff)
    (h : write d ov none t = (.ok (), t', log)) :
    ∃ c, d = .ok c ∧ t'.node = .file c ∧ (ov = false → t.exists_ = false) := by
  cases ov <;> cases hex : t.exists_ <;> cases hop : t.openable <;> cases d <;>
    simp [write, writeStream, writeAt, hex, hop] at h ⊢ <;>
    (obtain ⟨rfl, _⟩ := h; rfl)

/-- The content is produced before the target is opened, on every path through `write`:
    if the log contains `open` then `dump` succeeded and was logged before it. -/
theorem C17_dump_before_open (d : Except ErrKind Bytes) (ov : Bool) (wf : Option Nat) (t t' : Target)
    (r : Except ErrKind Unit) (log : List Eff) (h : write d ov wf t = (r, t', log)) (hopen : Eff.open_ ∈ log) :
    (∃ c, d = .ok c) ∧ Eff.dump ∈ log.takeWhile (fun e => e != Eff.open_) := by
  cases ov <;> cases hex : t.exists_ <;> cases hop : t.openable <;> cases d <;> cases wf <;>
    simp [write, writeStream, hex, hop] at h <;>
    (obtain ⟨_, _, rfl⟩ := h) <;> simp_all <;> decide

/-- `write_stream`: nothing is touched unless `dump` succeeded (the stream is returned as it was
    and the error is `dump`'s); on success a seekable stream holds exactly the dumped bytes and a
    non-seekable one its old content followed by them. -/
theorem C17_stream (d : Except ErrKind Bytes) (s s' : Stream) (r : Except ErrKind Unit)
    (h : writeStream d s = (r, s')) :
    (∀ e, d = .error e → r = .error e ∧ s' = s) ∧
    (∀ c, d = .ok c → r = .ok () → s.seekable = true → s'.content = c) ∧
    (∀ c, d = .ok c → r = .ok () → s.seekable = false → s'.content = s.content ++ c) ∧
    (r = .ok () → ∃ c, d = .ok c) := by
  cases d with
  | error e' =>
    simp only [writeStream, Prod.mk.injEq] at h
    obtain ⟨rfl, rfl⟩ := h
    simp
  | ok c =>
    cases hs : s.seekable <;> cases hw : s.writeFails <;>
      simp [writeStream, writeAt, hs, hw] at h <;> obtain ⟨rfl, rfl⟩ := h <;> simp [hs]

/-- non-vacuity: a refused overwrite, a failing dump over an existing file, and a success -/
example : write (.ok [100, 101]) false none { node := .file [1, 2, 3] } =
    (.error .write, { node := .file [1, 2, 3] }, [.existsCheck]) := by rfl
example : write (.error .metainfo) true none { node := .file [1, 2, 3] } =
    (.error .metainfo, { node := .file [1, 2, 3] }, [.dump]) := by rfl
example : write (.ok [100, 101]) true none { node := .file [1, 2, 3] } =
    (.ok (), { node := .file [100, 101] }, [.dump, .open_, .writeFile]) := by rfl
example : writeStream (.ok [100, 101]) { seekable := true, content := [1, 2, 3], pos := 1 } =
    (.ok (), { seekable := true, content := [100, 101], pos := 2 }) := by rfl

end Torf.C17
