/-
  C08, round 6 — keys the model does not know.

  The model of `Torrent.validate()` (and with it `read_stream(validate=True)`, `dump()`, `infohash`) looks at the
  metainfo through a fixed vocabulary: `Validate.topKeys` at the top level, `Validate.infoKeys` in `info`,
  `Validate.fileKeys` in an entry of `info.files`, and integer subscripts.  These theorems say what the model does
  with every *other* key — at any of the three levels, at any position of the mapping, with a value of any type,
  present or absent: nothing.  `Validate.SameKnown a b` = the two metainfos answer every lookup of the vocabulary
  alike.

  The harness harvests the keys the code under test reads from its source on every run and puts values of every
  bencodable type under each of them at every level; a key outside the vocabulary is judged against the model
  evaluated *without* it (justified by `C08_unknown_key_irrelevant`; the driver evaluates both and the harness checks
  that they agree).  A key the model does not know and the code reacts to is then a difference between model and
  code on a concrete input.
-/
import Torf.Lemmas.UnknownKeys
import Torf.Model.Untrusted
namespace Torf.C08
open Torf Torf.Untrusted Torf.Validate Torf.UnknownKeys

/-- **unknown keys are irrelevant**: `validate()` of two metainfos that agree on the model's vocabulary gives the
    same result (success or the same error) — whatever else they hold; every URL oracle, every environment -/
theorem C08_unknown_key_irrelevant (env : Env) {a b : Validate.Items} (h : SameKnown a b) :
    validateT env a = validateT env b := by
  unfold validateT; rw [validate_sameKnown env.urlOk noPath h]

/-- the same with a content path set (every answer of the file system) -/
theorem C08_unknown_key_irrelevant_fs (urlOk : Export.Bytes → Bool) (fs : FsOracle) {a b : Validate.Items}
    (h : SameKnown a b) : Validate.validate urlOk fs a = Validate.validate urlOk fs b :=
  validate_sameKnown urlOk fs h

/-- a top-level key outside `topKeys`: present with **any** value = absent -/
theorem C08_unknown_top_key (env : Env) (k : String) (hk : k ∉ topKeys) (v : PyVal) (t : Validate.Items) :
    validateT env (Codec.setStr k v t) = validateT env (without k t) :=
  C08_unknown_key_irrelevant env (sameKnown_top hk v t)

/-- a key of `info` outside `infoKeys`: present with any value = absent (the seeded `meta version`, at any
    position of the mapping, with `pieces` there or not) -/
theorem C08_unknown_info_key (env : Env) (k : String) (hk : k ∉ infoKeys) (v : PyVal) (t info : Validate.Items) :
    validateT env (Codec.setStr "info" (.dict (Codec.setStr k v info)) t) =
      validateT env (Codec.setStr "info" (.dict (without k info)) t) :=
  C08_unknown_key_irrelevant env (sameKnown_info hk v t info)

/-- a key of a file entry outside `fileKeys`: setting it to any value changes nothing -/
theorem C08_unknown_file_key (env : Env) (k : String) (hk : k ∉ fileKeys) (v : PyVal) (t info e : Validate.Items)
    (l : List PyVal) (n : Nat) (hf : PyVal.lookupStr "files" info = some (.list l)) (he : l[n]? = some (.dict e)) :
    validateT env (Codec.setStr "info"
        (.dict (Codec.setStr "files" (.list (l.set n (.dict (Codec.setStr k v e)))) info)) t) =
      validateT env (Codec.setStr "info" (.dict info) t) :=
  C08_unknown_key_irrelevant env (sameKnown_file hk v t info e l n hf he)

/-- `infohash` and unknown **top-level** keys: the same bytes to hash or the same error (an unknown key of `info` is
    part of what is hashed, so only its validate() part is independent of it) -/
theorem C08_unknown_top_key_infohash (env : Env) (k : String) (hk : k ∉ topKeys) (v : PyVal) (t : Validate.Items) :
    infohashT env (Codec.setStr k v t) = infohashT env (without k t) := by
  unfold infohashT
  rw [infoBytes_agree env.urlOk noPath ((AgreeOn.setStr topKeys hk v t).trans (AgreeOn.without topKeys hk t).symm)]

example : "meta version" ∉ infoKeys ∧ "meta version" ∉ topKeys ∧ "meta version" ∉ fileKeys := by decide

/-- `dump()` (with validation) of two such metainfos: fails on both or on none, with the same error -/
theorem C08_unknown_key_dump (env : Env) {a b : Validate.Items} (h : SameKnown a b) (e : Err)
    (ha : validateT env a = .error e) : dumpT env a true = .error e ∧ dumpT env b true = .error e := by
  have hb : validateT env b = .error e := by rw [← C08_unknown_key_irrelevant env h]; exact ha
  simp [dumpT, ha, hb]

/-- `read_stream(validate=True)`: the step that runs `validate()` on the freshly built torrent (`finish`) accepts or
    refuses two decoded inputs alike, with the same error, when the torrents built from them agree on the vocabulary -/
theorem C08_unknown_key_read (env : Env) (enc enc' : List (Bencode.Bytes × Bencode.BVal)) (md md' : Validate.Items)
    (h : SameKnown (ReadStream.ensureInfo (ReadStream.setPrivate enc md))
                   (ReadStream.ensureInfo (ReadStream.setPrivate enc' md'))) :
    (finish env enc md true).map (fun _ => ()) = (finish env enc' md' true).map (fun _ => ()) := by
  unfold finish
  simp only [if_true]
  rw [C08_unknown_key_irrelevant env h]
  cases validateT env (ReadStream.ensureInfo (ReadStream.setPrivate enc' md')) <;> rfl

/-! ### the vocabulary is not too large: a key *in* it can change the outcome -/

def okInfo : Validate.Items :=
  [(.str "length", .int 5), (.str "name", .str "a"), (.str "piece length", .int 16384),
   (.str "pieces", .bytes (List.replicate 20 120))]

def okSingle : Validate.Items := [(.str "info", .dict okInfo)]

def env0 : Env := { memLimit := 0, decFuel := 0, encFuel := 0, fromTs := fun _ => .valueerror, urlOk := fun _ => false }

example : errIs (validateT env0 okSingle) .metainfo = false ∧
    -- known keys matter: `pieces` absent, `private` a string, `announce` a number
    errIs (validateT env0 [(.str "info", .dict (without "pieces" okInfo))]) .metainfo = true ∧
    errIs (validateT env0 (Codec.setStr "announce" (.int 5) okSingle)) .metainfo = true ∧
    -- unknown ones do not, whatever their value
    errIs (validateT env0 (Codec.setStr "meta version" (.str "2") okSingle)) .metainfo = false ∧
    errIs (validateT env0 [(.str "info", .dict (Codec.setStr "meta version" (.list [.int 2]) okInfo))]) .metainfo = false ∧
    errIs (validateT env0 [(.str "info", .dict (Codec.setStr "meta version" (.str "2") (without "pieces" okInfo)))])
      .metainfo = true := by
  decide +kernel

end Torf.C08
