/-
  C19 — bridge theorems to the kernels translated from `TorrentFileStream._get_open_file` and the
  class body of `TorrentFileStream` (regenerated from the source on every run): the model's
  eviction loop (`Handles.evict`) makes exactly the iterations the code's
  `while len(self._open_files) > self.max_open_files` makes, hence the bound of `C19_open_bound`
  (at most cap + 1 handles) is the bound of the code's loop condition; with the class default of
  `max_open_files` written in the source that is 11 handles — the number the property's statement
  ("a fixed cap") and the harness's default cases refer to.
-/
import Torf.Generated.Kernels
import Torf.Model.Handles
import Torf.Properties.C19
namespace Torf.C19
open Torf Torf.Generated Torf.Handles

/-- one unfolding of the model's loop is one test of the code's `while` condition -/
theorem C19_kernel_evict_step (cap : Nat) (t : Table) :
    evict cap t = if evictWhile t.length cap then evict cap t.tail else t := by
  unfold evictWhile
  cases t with
  | nil => simp [evict]
  | cons e t =>
    simp only [evict, List.length_cons, List.tail_cons]
    by_cases h : cap < t.length + 1
    · have : ((t.length : Int) + 1 > (cap : Int)) := by omega
      simp [h, this]
    · have : ¬ ((t.length : Int) + 1 > (cap : Int)) := by omega
      simp [h, this]

/-- the loop stops exactly when the code's condition is false: afterwards the condition does not hold … -/
theorem C19_kernel_evict_exit (cap : Nat) : ∀ t : Table, evictWhile (evict cap t).length cap = false
  | [] => by simp [evict, evictWhile]
  | e :: t => by
    simp only [evict]
    by_cases h : cap < (e :: t).length
    · simp only [h, if_true]; exact C19_kernel_evict_exit cap t
    · simp only [h, if_false, evictWhile]
      simp only [List.length_cons] at h
      simp
      omega

/-- … and nothing is closed while the condition is false -/
theorem C19_kernel_evict_noop (cap : Nat) (t : Table) (h : evictWhile t.length cap = false) : evict cap t = t := by
  rw [C19_kernel_evict_step, h]; simp

/-- with the class default written in the source, every reachable table of a stream that never had its
    `max_open_files` changed holds at most 11 handles -/
theorem C19_kernel_default_bound [BEq δ] (c : Cfg α δ) (t : Table) (hc : (c.cap : Int) = maxOpenFilesDefault)
    (h : Reach c t) : t.length ≤ 11 := by
  have := C19_open_bound c t h
  unfold maxOpenFilesDefault at hc
  omega

end Torf.C19
