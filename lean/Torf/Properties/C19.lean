/-
  C19 — content-stream objects give history-independent answers.
  Property theorems only (helper lemmas live in Torf.Lemmas.Handles).

  `Cfg` = torrent (piece length, stored hashes, geometry helpers), content on disk (`files`),
  handle cap, hash function.  `run c op t` = one public operation on an object whose handle table
  is `t`; `Reach c t` = `t` is the table of an object after some finite history of operations
  (complete or abandoned iterations, indexed reads, hash checks, closes, context exits).
  All theorems hold for every piece length, layout, cap, geometry function and hash function.
-/
import Torf.Lemmas.Handles
import Torf.Lemmas.HandlesSpec
namespace Torf.C19
open Torf Torf.Handles

/-- History independence: on an object with any past, every operation returns what it returns on
    a fresh object (for the code as it is, `fix = true`). -/
theorem C19_independent [BEq δ] (c : Cfg α δ) (hfix : c.fix = true) (t : Table) (_h : Reach c t)
    (op : Op) : (run c op t).out = (run c op []).out :=
  run_out_indep c hfix op t []

/-- The same for whole histories: the sequence of answers of any history is the sequence of the
    fresh-object answers of its operations. -/
theorem C19_history [BEq δ] (c : Cfg α δ) (hfix : c.fix = true) (ops : List Op) :
    (runAll c ops []).map (·.1) = ops.map fun op => (run c op []).out :=
  runAll_out c hfix ops []

/-- The answers are the specification's: chunks of the concatenated stream (first `k` of them
    for an iteration abandoned after `k` items), whatever was done with the object before. -/
theorem C19_iter_spec [BEq δ] (c : Cfg α δ) (hfix : c.fix = true) (hL : 0 < c.L) (t : Table)
    (_h : Reach c t) :
    (run c .iterFull t).out = .pieces (chunks c.L c.files.flatten) ∧
      ∀ k, (run c (.iterAbandon k) t).out = .pieces ((chunks c.L c.files.flatten).take k) :=
  ⟨run_iterFull_spec c hfix hL t, fun k => run_iterAbandon_spec c hfix hL k t⟩

/-- At most `max_open_files + 1` handles are open after any history … -/
theorem C19_open_bound [BEq δ] (c : Cfg α δ) (t : Table) (h : Reach c t) : t.length ≤ c.cap + 1 := by
  induction h with
  | init => simp
  | step op _ ih => exact run_bound c op _ ih

/-- … after every operation of a history (the sizes reported by `runAll`) … -/
theorem C19_open_bound_history [BEq δ] (c : Cfg α δ) (ops : List Op) :
    ∀ r ∈ runAll c ops [], r.2 ≤ c.cap + 1 :=
  runAll_bound c ops [] (by simp)

/-- … and at every intermediate point: each primitive step on the table (`_get_open_file`,
    `seek`, `read`) preserves the bound (all operations are compositions of these). -/
theorem C19_step_bound (files : List (List α)) (cap : Nat) (t : Table) (j n : Nat)
    (h : t.length ≤ cap + 1) :
    (getOpenFile cap t j).length ≤ cap + 1 ∧ (seek t j n).length ≤ cap + 1 ∧
      (read files t j n).2.1.length ≤ cap + 1 := by
  refine ⟨length_getOpenFile_le cap t j h, ?_, ?_⟩
  · rw [length_seek]; exact h
  · rw [length_read]; exact h

/-- `close()` and leaving the context close every handle, whatever the table was. -/
theorem C19_close [BEq δ] (c : Cfg α δ) (t : Table) :
    (run c .close t).tbl = [] ∧ (run c .ctxExit t).tbl = [] :=
  ⟨closeAll_self t, closeAll_self t⟩

/-- No operation ever reads from a handle that has been evicted/closed, and no fuelled loop of
    the model runs dry (so the model's error values `closedHandle`/`fuel` are never produced by
    an iteration). -/
theorem C19_iter_no_internal_error [BEq δ] (c : Cfg α δ) (hfix : c.fix = true) (hL : 0 < c.L)
    (t : Table) (_h : Reach c t) (k : Nat) :
    (∃ ps, (run c .iterFull t).out = .pieces ps) ∧ ∃ ps, (run c (.iterAbandon k) t).out = .pieces ps :=
  ⟨⟨_, run_iterFull_spec c hfix hL t⟩, ⟨_, run_iterAbandon_spec c hfix hL k t⟩⟩

/-- `get_piece` never reads from a closed handle either (its only errors are the ones of the
    range check, of the geometry helpers and of the final length assertion). -/
theorem C19_getPiece_no_closed_handle (c : Cfg α δ) (hg : ∀ n, c.geom n ≠ .error .closedHandle)
    (i : Int) (t : Table) : (getPiece c i t).1 ≠ .error .closedHandle :=
  getPiece_no_closed c hg i t

/-! ### the code before commit b86c84a (`fix = false`) is *not* history independent -/

/-- three files of 2, 4, 2 bytes, piece length 3 -/
def c0 (fix : Bool) : Cfg Nat Nat :=
  { files := [[1, 2], [3, 4, 5, 6], [7, 8]], L := 3, cap := 10,
    geom := fun i => match i with
      | 0 => .ok ([0, 1], 0)
      | 1 => .ok ([1], 1)
      | _ => .ok ([2], 0),
    H := List.sum, stored := [6, 15, 15], fix := fix }

/-- Without the unconditional `fh.seek(skip_bytes)` the second complete iteration on one object
    yields nothing (defect D19a, repaired in /repo by b86c84a). -/
theorem C19_prefix_counterexample :
    ¬ ∀ (t : Table) (op : Op), Reach (c0 false) t → (run (c0 false) op t).out = (run (c0 false) op []).out := by
  intro h
  have := h (run (c0 false) .iterFull []).tbl .iterFull (.step _ .init)
  revert this
  decide

/-! ### non-vacuity: reachable tables with handles parked at non-zero offsets exist, and the
    current code answers correctly from them -/

example : Reach (c0 true) (run (c0 true) (.iterAbandon 1) (run (c0 true) (.getPiece 1) []).tbl).tbl :=
  .step _ (.step _ .init)
example : (run (c0 true) (.iterAbandon 1) (run (c0 true) (.getPiece 1) []).tbl).tbl = [(1, 1), (0, 2)] := by
  decide
example : (runAll (c0 true) [.getPiece 1, .iterAbandon 1, .iterFull, .verifyPiece 2, .verifyPiece 1,
      .getPiece 3, .close] []).map (·.1)
    = [.piece [4, 5, 6], .pieces [[1, 2, 3]], .pieces [[1, 2, 3], [4, 5, 6], [7, 8]], .bool true,
       .bool true, .err .value, .none] := by
  decide
/-- eviction: cap 1 keeps at most 2 handles -/
example : (runAll { c0 true with cap := 1 } [.iterFull, .getPiece 0] []).map (·.2) = [2, 2] := by
  decide

/-! ### histories in which the stored piece hashes are replaced between operations -/

/-- The stored hashes are an argument of `verify_piece`, not state of the stream object: in a
    history that also replaces `info['pieces']` between operations, every operation answers what a
    fresh object answers with the hashes stored *at that moment*. -/
theorem C19_history_hashes [BEq δ] (c : Cfg α δ) (hfix : c.fix = true) (ss : List (Step δ)) :
    (runAllS c ss []).map (·.1) = freshAllS c ss :=
  runAllS_out c hfix ss []

/-- … and the handle bound is not affected by such replacements. -/
theorem C19_open_bound_history_hashes [BEq δ] (c : Cfg α δ) (ss : List (Step δ)) :
    ∀ r ∈ runAllS c ss [], r.2 ≤ c.cap + 1 :=
  runAllS_bound c ss [] (by simp)

/-- non-vacuity: `verify_piece 1` is `true`, after the stored hash of piece 1 was replaced it is
    `false` on the same object, after the hashes were removed it is a ValueError -/
example : (runAllS (c0 true) [.op (.verifyPiece 1), .setStored [6, 0, 15], .op (.verifyPiece 1),
      .setStored [], .op (.verifyPiece 1)] []).map (·.1)
    = [.bool true, .none, .bool false, .none, .err .value] := by
  decide

/-! ### damaged disks: the `_MissingPieces` record is created per `iter_pieces()` call -/

/-- On a disk with missing / mis-sized files a complete sequential iteration answers
    `Missing.iterItems L sizes disk` — a function of piece length, layout and disk only (C10 proves
    what it is) — whatever iterations the object has performed before. -/
theorem C19_damaged_iter_independent (L : Nat) (sizes : List Nat) (disk : List (Option (List α)))
    (m : MRec) (_h : ReachM true L sizes disk m) :
    (iterDamaged true L sizes disk m).1 = (iterDamaged true L sizes disk {}).1 := rfl

theorem C19_damaged_iter_spec (L : Nat) (sizes : List Nat) (disk : List (Option (List α)))
    (m : MRec) (_h : ReachM true L sizes disk m) :
    (iterDamaged true L sizes disk m).1 = Missing.iterItems L sizes disk := rfl

/-- files of 5, 5, 1, 8, 3 bytes, piece length 4, file 1 missing: its last piece (2) also holds
    the by-catch file 2 and the first byte of file 3 -/
def dSizes : List Nat := [5, 5, 1, 8, 3]
def dDisk : List (Option (List Nat)) :=
  [some [0, 1, 2, 3, 4], none, some [10], some [11, 12, 13, 14, 15, 16, 17, 18], some [19, 20, 21]]

/-- One `_MissingPieces` record per stream object (instead of per call) is *not* history
    independent: the second complete iteration reports fewer `None` pieces, so every later piece
    shifts (model-level image of the seeded regression C19/a). -/
theorem C19_shared_missing_counterexample :
    ¬ ∀ (m : MRec), ReachM false 4 dSizes dDisk m →
      ((iterDamaged false 4 dSizes dDisk m).1.map fun its => its.map (·.data))
        = ((iterDamaged false 4 dSizes dDisk {}).1.map fun its => its.map (·.data)) := by
  intro h
  have := h _ (.step .init)
  revert this
  decide

/-- non-vacuity / what the current code answers there: six items, pieces 1 and 2 are `None` -/
example : ((iterDamaged true 4 dSizes dDisk {}).1.map fun its => its.map (·.data))
    = some [some [0, 1, 2, 3], none, none, some [12, 13, 14, 15], some [16, 17, 18, 19], some [20, 21]] := by
  decide
/-- … and what an object with a shared record answers the second time: one `None` fewer -/
example : ((iterDamaged false 4 dSizes dDisk (iterDamaged false 4 dSizes dDisk {}).2).1.map
      fun its => its.map (·.data))
    = some [some [0, 1, 2, 3], none, some [12, 13, 14, 15], some [16, 17, 18, 19], some [20, 21]] := by
  decide

end Torf.C19
