/-
  C19 — content-stream objects give history-independent answers.
  Property theorems only (helper lemmas live in Torf.Lemmas.Handles).

  `Cfg` = torrent (piece length, stored hashes, geometry helpers), content on disk (`files`),
  handle cap, hash function.  `run c op t` = one public operation on an object whose handle table
  is `t`; `Reach c t` = `t` is the table of an object after some finite history of operations
  (complete or abandoned iterations, indexed reads, hash checks, closes, context exits).
  All theorems hold for every piece length, layout, cap, geometry function and hash function.
-/
import Torf.Lemmas.Handles
import Torf.Lemmas.HandlesSpec
namespace Torf.C19
open Torf Torf.Handles

/-- History independence: on an object with any past, every operation returns what it returns on
    a fresh object (for the code as it is, `fix = true`). -/
theorem C19_independent [BEq δ] (c : Cfg α δ) (hfix : c.fix = true) (t : Table) (_h : Reach c t)
    (op : Op) : (run c op t).out = (run c op []).out :=
  run_out_indep c hfix op t []

/-- The same for whole histories: the sequence of answers of any history is the sequence of the
    fresh-object answers of its operations. -/
theorem C19_history [BEq δ] (c : Cfg α δ) (hfix : c.fix = true) (ops : List Op) :
    (runAll c ops []).map (·.1) = ops.map fun op => (run c op []).out :=
  runAll_out c hfix ops []

/-- The answers are the specification's: chunks of the concatenated stream (first `k` of them
    for an iteration abandoned after `k` items), whatever was done with the object before. -/
theorem C19_iter_spec [BEq δ] (c : Cfg α δ) (hfix : c.fix = true) (hL : 0 < c.L) (t : Table)
    (_h : Reach c t) :
    (run c .iterFull t).out = .pieces (chunks c.L c.files.flatten) ∧
      ∀ k, (run c (.iterAbandon k) t).out = .pieces ((chunks c.L c.files.flatten).take k) :=
  ⟨run_iterFull_spec c hfix hL t, fun k => run_iterAbandon_spec c hfix hL k t⟩

/-- At most `max_open_files + 1` handles are open after any history … -/
theorem C19_open_bound [BEq δ] (c : Cfg α δ) (t : Table) (h : Reach c t) : t.length ≤ c.cap + 1 := by
  induction h with
  | init => simp
  | step op _ ih => exact run_bound c op _ ih

/-- … after every operation of a history (the sizes reported by `runAll`) … -/
theorem C19_open_bound_history [BEq δ] (c : Cfg α δ) (ops : List Op) :
    ∀ r ∈ runAll c ops [], r.2 ≤ c.cap + 1 :=
  runAll_bound c ops [] (by simp)

/-- … and at every intermediate point: each primitive step on the table (`_get_open_file`,
    `seek`, `read`) preserves the bound (all operations are compositions of these). -/
theorem C19_step_bound (files : List (List α)) (cap : Nat) (t : Table) (j n : Nat)
    (h : t.length ≤ cap + 1) :
    (getOpenFile cap t j).length ≤ cap + 1 ∧ (seek t j n).length ≤ cap + 1 ∧
      (read files t j n).2.1.length ≤ cap + 1 := by
  refine ⟨length_getOpenFile_le cap t j h, ?_, ?_⟩
  · rw [length_seek]; exact h
  · rw [length_read]; exact h

/-- `close()` and leaving the context close every handle, whatever the table was. -/
theorem C19_close [BEq δ] (c : Cfg α δ) (t : Table) :
    (run c .close t).tbl = [] ∧ (run c .ctxExit t).tbl = [] :=
  ⟨closeAll_self t, closeAll_self t⟩

/-- No operation ever reads from a handle that has been evicted/closed, and no fuelled loop of
    the model runs dry (so the model's error values `closedHandle`/`fuel` are never produced by
    an iteration). -/
theorem C19_iter_no_internal_error [BEq δ] (c : Cfg α δ) (hfix : c.fix = true) (hL : 0 < c.L)
    (t : Table) (_h : Reach c t) (k : Nat) :
    (∃ ps, (run c .iterFull t).out = .pieces ps) ∧ ∃ ps, (run c (.iterAbandon k) t).out = .pieces ps :=
  ⟨⟨_, run_iterFull_spec c hfix hL t⟩, ⟨_, run_iterAbandon_spec c hfix hL k t⟩⟩

/-- `get_piece` never reads from a closed handle either (its only errors are the ones of the
    range check, of the geometry helpers and of the final length assertion). -/
theorem C19_getPiece_no_closed_handle (c : Cfg α δ) (hg : ∀ n, c.geom n ≠ .error .closedHandle)
    (i : Int) (t : Table) : (getPiece c i t).1 ≠ .error .closedHandle :=
  getPiece_no_closed c hg i t

/-! ### the code before commit b86c84a (`fix = false`) is *not* history independent -/

/-- three files of 2, 4, 2 bytes, piece length 3 -/
def c0 (fix : Bool) : Cfg Nat Nat :=
  { files := [[1, 2], [3, 4, 5, 6], [7, 8]], L := 3, cap := 10,
    geom := fun i => match i with
      | 0 => .ok ([0, 1], 0)
      | 1 => .ok ([1], 1)
      | _ => .ok ([2], 0),
    H := List.sum, stored := [6, 15, 15], fix := fix }

/-- Without the unconditional `fh.seek(skip_bytes)` the second complete iteration on one object
    yields nothing (defect D19a, repaired in /repo by b86c84a). -/
theorem C19_prefix_counterexample :
    ¬ ∀ (t : Table) (op : Op), Reach (c0 false) t → (run (c0 false) op t).out = (run (c0 false) op []).out := by
  intro h
  have := h (run (c0 false) .iterFull []).tbl .iterFull (.step _ .init)
  revert this
  decide

/-! ### non-vacuity: reachable tables with handles parked at non-zero offsets exist, and the
    current code answers correctly from them -/

example : Reach (c0 true) (run (c0 true) (.iterAbandon 1) (run (c0 true) (.getPiece 1) []).tbl).tbl :=
  .step _ (.step _ .init)
example : (run (c0 true) (.iterAbandon 1) (run (c0 true) (.getPiece 1) []).tbl).tbl = [(1, 1), (0, 2)] := by
  decide
example : (runAll (c0 true) [.getPiece 1, .iterAbandon 1, .iterFull, .verifyPiece 2, .verifyPiece 1,
      .getPiece 3, .close] []).map (·.1)
    = [.piece [4, 5, 6], .pieces [[1, 2, 3]], .pieces [[1, 2, 3], [4, 5, 6], [7, 8]], .bool true,
       .bool true, .err .value, .none] := by
  decide
/-- eviction: cap 1 keeps at most 2 handles -/
example : (runAll { c0 true with cap := 1 } [.iterFull, .getPiece 0] []).map (·.2) = [2, 2] := by
  decide

end Torf.C19
