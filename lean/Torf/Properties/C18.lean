/-
  C18 — reusing hashes from another torrent is sound, complete and atomic.
  Property theorems only (helper lemmas: Torf.Lemmas.Reuse).

  Reading guide: `reuse t items cb elapsed : Res × Tor × List Call` is the code-shaped model of
  `Torrent.reuse` (Torf.Model.Reuse): `items` = what `find_torrent_files` yields for the searched
  paths, in order, each `*.torrent` file with the outcome of `Torrent.read` and — for a readable
  candidate — `loc i` = what hashing piece `i` of *that candidate's* geometry from the local
  content gives; `.1` = result / raised error, `.2.1` = the torrent afterwards, `.2.2` = the
  callback trace.
-/
import Torf.Lemmas.Reuse
namespace Torf.C18
open Torf Torf.Reuse

/-- **Soundness.** If `reuse` returns `True`, some candidate `c` of the searched items was
    accepted, and for it: the names are equal; the lists of (relative path joined with the
    separator, size) are permutations of each other (= same set, as the paths are distinct);
    its piece length lies within the torrent's bounds; and for every file of the torrent —
    located in the candidate's layout at stream offset `pos` — the local content has exactly the
    candidate's hash in every sampled piece `fileSamples pl pos size`, which by
    `C18_samples_first_middle_last` are the first, the middle and the last piece of that file.
    The torrent afterwards is `copy c t`. -/
theorem C18_sound (t : Tor) (items : List Item) (cb : Callback) (elapsed : Bool)
    (h : (reuse t items cb elapsed).1 = .ok true) :
    ∃ c loc, Item.file (.torrent c) loc ∈ items ∧ copy c t = .ok (reuse t items cb elapsed).2.1 ∧
      t.name = c.name ∧
      (∃ tid cid, filepathsAndSizes t.name t.single t.files = .ok tid ∧
        filepathsAndSizes c.name c.single c.files c.bytesPath = .ok cid ∧ tid.Perm cid) ∧
      t.plMin ≤ c.pieceLength ∧ c.pieceLength ≤ t.plMax ∧
      ∀ f ∈ t.files, ∃ pos, filePosition c.name f c.files 0 = some pos ∧
        ∀ i ∈ fileSamples c.pieceLength pos f.size, ∃ d, c.hashes[i]? = some d ∧ loc i = .hash d := by
  unfold reuse at h ⊢
  rcases loop_cases t cb elapsed (total items) items 0 0 with ⟨hne, _⟩ | ⟨_, c, loc, hmem, hfm, hcm, hcopy⟩
  · exact absurd h hne
  · obtain ⟨hname, hperm, hmin, hmax⟩ := isFileMatch_true hfm
    obtain ⟨s, hs, hall⟩ := isContentMatch_true hcm
    refine ⟨c, loc, hmem, hcopy, hname, hperm, hmin, hmax, ?_⟩
    intro f hf
    obtain ⟨pos, hpos, hsub⟩ := samples_ok t.files hs f hf
    exact ⟨pos, hpos, fun i hi => hall i (hsub i hi)⟩

/-- The sampled pieces of a non-empty file at stream offset `pos` are: its first piece
    `a = pos / pl`, its last piece `b = (pos + size - 1) / pl`, and the middle one
    `a + (b - a + 1) / 2` — an *absolute* piece index inside `a … b` (the repaired D18a). -/
theorem C18_samples_first_middle_last (pl pos size : Nat) (hs : 0 < size) :
    fileSamples pl pos size =
      [pos / pl, pos / pl + ((pos + size - 1) / pl - pos / pl + 1) / 2, (pos + size - 1) / pl] ∧
    pos / pl ≤ pos / pl + ((pos + size - 1) / pl - pos / pl + 1) / 2 ∧
    pos / pl + ((pos + size - 1) / pl - pos / pl + 1) / 2 ≤ (pos + size - 1) / pl := by
  refine ⟨?_, Nat.le_add_right _ _, ?_⟩
  · rw [fileSamples_eq pl pos size hs]
    unfold firstMiddleLast
    have : ¬ size = 0 := by omega
    simp [this]
  · have hab : pos / pl ≤ (pos + size - 1) / pl := Nat.div_le_div_right (by omega)
    omega

/-- … and the offset at which a file of the torrent is located in the candidate is the sum of
    the sizes of the candidate's entries before the first entry with the same path and size. -/
theorem C18_sample_position (name : String) (f : FileEnt) (files : List FileEnt) (pos : Nat)
    (h : filePosition name f files 0 = some pos) :
    ∃ pre g post, files = pre ++ g :: post ∧ joined name g = joined name f ∧ g.size = f.size ∧
      pos = (pre.map (·.size)).sum := by
  obtain ⟨pre, g, post, h1, h2, h3, h4, _⟩ := filePosition_spec name f files 0 pos h
  exact ⟨pre, g, post, h1, h2, h3, by omega⟩

/-- **After acceptance** the torrent carries the candidate's piece length, its hashes and (for a
    multi-file candidate) its file list in its order — which is a permutation of the torrent's
    former list; name and settings are untouched; and the layout-level validity conditions of
    `validate()` hold for the torrent iff they hold for the candidate (which `Torrent.read`
    validated). -/
theorem C18_after (t : Tor) (items : List Item) (cb : Callback) (elapsed : Bool)
    (h : (reuse t items cb elapsed).1 = .ok true) :
    ∃ c loc, Item.file (.torrent c) loc ∈ items ∧
      let t' := (reuse t items cb elapsed).2.1
      t'.pieceLength = c.pieceLength ∧ t'.pieces = some c.hashes ∧
      (c.single = false → t'.files = c.files ∧ t.files.Perm c.files) ∧
      (c.single = true → t'.files = t.files) ∧
      t'.name = t.name ∧ t'.single = t.single ∧ t'.plMin = t.plMin ∧ t'.plMax = t.plMax ∧
      (c.single = false →
        validCore t'.pieceLength t'.files c.hashes = validCore c.pieceLength c.files c.hashes) := by
  obtain ⟨c, loc, hmem, hcopy, _⟩ := C18_sound t items cb elapsed h
  refine ⟨c, loc, hmem, ?_⟩
  obtain ⟨h1, h2, h3, h4, h5, h6, h7, h8⟩ := copy_ok hcopy
  refine ⟨h1, h2, h3, h4, h5, h6, h7, h8, ?_⟩
  intro hs
  rw [h1, (h3 hs).1]

/-- **Atomicity.** Whatever happens — `False`, any raised error (unreadable / undecodable /
    invalid torrent file without callback, a size or read error from the content check, the
    assertion of `copy`), cancellation by the callback at any call — if the result is not `True`
    the torrent is exactly what it was. -/
theorem C18_atomic (t : Tor) (items : List Item) (cb : Callback) (elapsed : Bool)
    (h : (reuse t items cb elapsed).1 ≠ .ok true) : (reuse t items cb elapsed).2.1 = t := by
  unfold reuse at h ⊢
  rcases loop_cases t cb elapsed (total items) items 0 0 with ⟨_, heq⟩ | ⟨htrue, _⟩
  · exact heq
  · exact absurd htrue h

/-- **Completeness.** If the searched items contain a candidate that passes the file match, whose
    hashes the local content meets at every sampled piece, and that `copy` takes (same file
    entries), and no item before it raises — i.e. every earlier unreadable / undecodable /
    invalid torrent file or bad path meets a callback (with a callback errors are reported and the
    search goes on; without one such an item raises its error instead), and every earlier
    candidate gets through its tests without an exception — then with no callback or one that
    never cancels, `reuse` returns `True`. -/
theorem C18_complete (t : Tor) (cb : Callback) (elapsed : Bool)
    (hp : ∀ g, cb = some g → ∀ call, g call = false)
    (pre : List Item) (c : Cand) (loc : Nat → LocalPiece) (post : List Item)
    (hpre : ∀ it ∈ pre, NoRaise t cb it)
    (hfm : isFileMatch t c = .ok true)
    (s : List Nat) (hs : samples t c = .ok s)
    (hloc : ∀ i ∈ s, ∃ d, c.hashes[i]? = some d ∧ loc i = .hash d)
    (hcopy : ∃ t', copy c t = .ok t') :
    (reuse t (pre ++ .file (.torrent c) loc :: post) cb elapsed).1 = .ok true := by
  unfold reuse
  exact loop_complete t cb elapsed _ hp pre c loc post hpre hfm
    (isContentMatch_of_samples hs hloc) hcopy 0 0

/-- … and without a callback the first unreadable / undecodable / invalid torrent file (or bad
    search path) that is reached raises its documented error. -/
theorem C18_error_raised_without_callback (t : Tor) (elapsed : Bool) (it : Item) (rest : List Item)
    (e : Err) (he : readItem it = .error e) :
    (reuse t (it :: rest) none elapsed).1 = .raised e ∧
    (e = .read ∨ e = .bdecode ∨ e = .metainfo) := by
  unfold reuse loop
  simp only [he, maybeCall]
  refine ⟨trivial, ?_⟩
  cases it with
  | pathError => simp [readItem] at he; simp [← he]
  | file r l =>
    cases r with
    | torrent c => simp [readItem] at he
    | unreadable => simp [readItem] at he; simp [← he]
    | undecodable => simp [readItem] at he; simp [← he]
    | invalid => simp [readItem] at he; simp [← he]

/-! ### Non-vacuity: a concrete search -/

/-- two files of 3 and 2 pieces (piece length 4 for readability), candidate in another order -/
def exT : Tor := ⟨"N", false, [⟨["a"], 10⟩, ⟨["b"], 6⟩], 8, none, 1, 64⟩
def exC : Cand := ⟨"N", false, [⟨["b"], 6⟩, ⟨["a"], 10⟩], 4, ["h0", "h1", "h2", "h3"], false⟩
def exLoc : Nat → LocalPiece := fun i => .hash s!"h{i}"
/-- same shape, but piece 2 differs locally -/
def exLocBad : Nat → LocalPiece := fun i => if i = 2 then .hash "other" else .hash s!"h{i}"

example : (reuse exT [.file .invalid exLoc, .file (.torrent exC) exLoc] (some fun _ => false) true).1
    = .ok true := by decide
example : (reuse exT [.file .invalid exLoc, .file (.torrent exC) exLoc] (some fun _ => false) true).2.1
    = { exT with pieces := some exC.hashes, pieceLength := 4, files := exC.files } := by decide
example : (reuse exT [.file .invalid exLoc, .file (.torrent exC) exLoc] none true)
    = (.raised .metainfo, exT, []) := by decide
example : (reuse exT [.file (.torrent exC) exLocBad] none true) = (.ok false, exT, []) := by decide
example : isFileMatch exT exC = .ok true := by rfl
example : samples exT exC = .ok [1, 2, 3, 0, 1, 1] := by rfl
example : NoRaise exT (some fun _ => false) (.file .invalid exLoc) := by simp [NoRaise]

end Torf.C18
