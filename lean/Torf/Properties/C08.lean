/-
  C08 — untrusted input only ever produces documented errors.  Property theorems only.

  Model: Torf/Model/Untrusted.lean (`read`, `readStreamObj`, `readFile`, `dumpT`, `validateT`,
  `fromString`, `parseSteps`), wrapping the models of C05 (`Bencode.step/run/parse`,
  `ReadStream.decodeTop/assertInfo/setPrivate`) and C07 (`Validate.validate/dumpNoValidate`).

  What is proved for all inputs and all environments (allocation limit, recursion fuel,
  `fromtimestamp`, URL oracle, `urlparse`/`parse_qs`/`int()` oracles):
  * `C08_read_total`            read_stream on bytes up to the limit: ok (validated if asked),
                                BdecodeError, MetainfoError — or exactly what `validate()` raised on
                                the torrent that was built; under the hypothesis that no length
                                prefix in the MemoryError window is reached (finding D08f).
  * `C08_read_total_counterexample`  the full statement (no memory hypothesis) is false: D08f.
  * `C08_no_memory_window`      the hypothesis holds whenever the allocator grants every size a bytes
                                object can have.
  * `C08_read_stream_obj_total`, `C08_read_file_total`   stream objects and `Torrent.read`.
  * `C08_parse_fuel`, `C08_parse_wrap`   the wrapped decoder never runs out of loop fuel and returns
                                only what C05's `parse` returns.
  * `C08_validate_documented`   C07's theorem `C07_validate_only_metainfo_error` (imported from
                                Torf.Properties.C07) at `fs = noPath` *is* `ValidateDocumented`.
  * `C08_returned_validate`, `C08_returned_dump`, `C08_returned_dump_novalidate`   validate()/dump()
                                of any torrent, with any number of frames left: ok or MetainfoError.
                                The only hypothesis of the first two is `filesNotMapping t` (the
                                class of the open finding D07f: `info['files']` is a mapping);
                                `dump(validate=False)` needs no hypothesis at all.
  * `C08_read_documented`       read_stream ∈ {ok (validated if asked), BdecodeError, MetainfoError}
                                under the memory hypothesis (D08f) and `filesNotMapping` of the
                                torrent that is built (D07f) — no fourth alternative left.
  * `C08_returned_dump_deep`    too deep for the frames left ⇒ MetainfoError (fix 19d011f, ex-D08g).
  * `C08_magnet_total`          from_string: ok, MagnetError or URLError for every string and oracle
                                (`parse_qs` an oracle that yields no empty value list).
  Round 2 (`parse_qs` modelled in Model/QueryString.lean; hostile strings in validated fields):
  * `C08_parse_qs_total`, `C08_parse_qs_nonempty`, `C08_parse_qs_field_count`,
    `C08_parse_qs_raises_value`   the modelled `parse_qs`: total with the arguments the code passes,
                                for any number of fields; no empty value list; the field count of
                                the `max_num_fields` test is the number of fields of the loop.
  * `C08_magnet_documented`     from_string with the modelled `parse_qs`: ok, MagnetError or URLError
                                for every string — no hypothesis.  `C08_magnet_modelled_qs` links it
                                to `fromString`.
  * `C08_magnet_field_limit_irrelevant`, `C08_magnet_field_limit_raises`, `C08_magnet_strict_raises`
                                a field limit that is not exceeded changes nothing; every finite
                                limit and strict parsing make from_string raise a bare ValueError on
                                some URI (why the code must keep the defaults).
  * `C08_md5sum_iff`, `C08_md5sum_rejects`, `C08_isHex_ascii`, `C08_md5sum_branch`,
    `C08_md5sum_branch_non_ascii`, `C08_md5sum_single`, `C08_md5sum_file`
                                `is_md5sum` over code points; the md5sum rule of validate() answers
                                pass or MetainfoError for every value, MetainfoError for every
                                string with a non-ASCII character.
  * `C08_returned_infohash`     infohash of any torrent: bytes or MetainfoError (hyp. D07f).
  Round 3 (numbers of any size; `str.strip()` modelled in Model/PyStrip.lean):
  * `C08_single_numbers`, `C08_multi_numbers`, `C08_single_one_piece`
                                validate() of a torrent that is well-formed apart from its numbers is
                                decided by exact integer arithmetic, for all integers at once
                                (2^53, 2^63, 2^1024, 10^4299 are nothing special).
  * `C08_file_length_int`, `C08_piece_length_int`, `C08_length_branch`, `C08_length_branch_int`
                                the two numeric check predicates on integers of any size; the length
                                rule answers pass or MetainfoError for every value.
  * `C08_strip_steps`, `C08_strip_decomp`, `C08_strip_ends`, `C08_magnet_documented_strip`
                                `uri.strip()` as CPython's two scanning loops: at most |s| + 2
                                iterations wherever the white space sits; what it returns; from_string
                                with it.
  * `C08_read_steps`            steps of the decoder ≤ 3·|bs| + 2.
  Round 4 (numbers stored as text, Model/PyInt.lean; exact topics of every URN namespace):
  * `C08_int_digit_limit`       `int()` on an ASCII string with more than 4300 digit characters: ValueError.
  * `C08_xl_documented`, `C08_xl_digit_limit`   the `xl` setter: a length or MagnetError.
  * `C08_creation_date_not_int` a creation date that is not a bencoded integer (digit strings of any
                                length included) is never converted: MetainfoError if truthy.
  * `C08_xt_foreign`, `C08_xt_multiple`, `C08_xt_single_foreign`
                                topics outside btih (urn:btmh: …), several topics of any kinds, a
                                v2-only link: MagnetError — never an index error.
  Round 5 (lazily validated attributes of the parsed URI, Model/UrlAttrs.lean):
  * `C08_attr_reads_safe`       from_string reads only `scheme`/`query` outside its try; is_url reads
                                the lazily validated `port` inside `try … except Exception`.
  * `C08_magnet_no_extra_reads`, `C08_magnet_reads_documented`, `C08_magnet_port_read_raises`
                                from_string with additional attribute reads after the scheme test:
                                none, or only non-raising ones ⇒ documented; a `port` read there ⇒
                                bare ValueError on every magnet URI with an invalid port.
  Partial: CPython's actual time and memory are measured by the harness, not proved.
-/
import Torf.Lemmas.Untrusted
import Torf.Lemmas.QueryString
import Torf.Lemmas.PyStrip
import Torf.Lemmas.PyInt
import Torf.Model.UrlAttrs
import Torf.Lemmas.ValidateSingle
import Torf.Properties.C07
namespace Torf.C08
open Torf Torf.Bencode Torf.Untrusted

/-- the decoder raises MemoryError on this input in this environment (D08f) -/
def HitsMemoryWindow (env : Env) (bs : Bytes) : Prop := isMemoryError (parseU env bs) = true

instance (env : Env) (bs : Bytes) : Decidable (HitsMemoryWindow env bs) := by
  unfold HitsMemoryWindow; exact inferInstance

/-- Reading arbitrary bytes up to the read limit, with or without validation, returns a torrent
    (which validates if validation was asked for) or raises BdecodeError or MetainfoError; the only
    other possibility is that `validate()` itself, run on the torrent that `validate=False` returns,
    raised something else (C07's matter: `C08_returned_validate`). -/
theorem C08_read_total (env : Env) (bs : Bytes) (validate : Bool)
    (hlen : bs.length ≤ env.maxSize) (hmem : ¬ HitsMemoryWindow env bs) :
    (∃ t, Untrusted.read env bs validate = .ok t ∧ (validate = true → validateT env t = .ok ())) ∨
    Untrusted.read env bs validate = .error .bdecode ∨
    Untrusted.read env bs validate = .error .metainfo ∨
    (validate = true ∧ ∃ t e, read env bs false = .ok t ∧ validateT env t = .error e ∧
      Untrusted.read env bs true = .error e) := by
  have hr : ∀ v, Untrusted.read env bs v = readCore env bs v := by
    intro v; unfold Untrusted.read; rw [if_neg (by omega)]
  simp only [hr]
  rcases readCore_cases env bs validate with h | h | h | ⟨h, _⟩ | ⟨hv, t, e, h1, h2, h3⟩
  · exact .inl h
  · exact .inr (.inl h)
  · exact .inr (.inr (.inl h))
  · exact absurd ((isMemoryError_iff _).2 h) hmem
  · subst hv; exact .inr (.inr (.inr ⟨rfl, t, e, h1, h2, h3⟩))

/-- the full statement: no hypothesis about the allocator -/
def C08_read_total_full : Prop :=
  ∀ (env : Env) (bs : Bytes) (validate : Bool), bs.length ≤ env.maxSize →
    ∀ e, Untrusted.read env bs validate = .error e →
      e = .bdecode ∨ e = .metainfo ∨ e = .read ∨
      (∃ t, Untrusted.read env bs false = .ok t ∧ validateT env t = .error e)

/-- an environment whose allocator refuses more than 16 GiB -/
def envSmallMem : Env :=
  { memLimit := 2 ^ 34, decFuel := 997, encFuel := 998, fromTs := fun _ => .valueerror,
    urlOk := fun _ => false }

/-- `b'd4:name223372036854775807:xe'` -/
def d08fWitness : Bytes :=
  [100, 52, 58, 110, 97, 109, 101,
   50, 50, 51, 51, 55, 50, 48, 51, 54, 56, 53, 52, 55, 55, 53, 56, 48, 55, 58, 120, 101]

theorem C08_d08f_reads (v : Bool) :
    Untrusted.read envSmallMem d08fWitness v = .error (.internal "MemoryError") := by
  apply errIs_eq
  cases v <;> decide

/-- Finding D08f: a length prefix between the allocator's limit and `sys.maxsize` escapes as
    MemoryError. -/
theorem C08_read_total_counterexample : ¬ C08_read_total_full := by
  intro h
  rcases h envSmallMem d08fWitness true (by decide) _ (C08_d08f_reads true) with h | h | h | ⟨t, h, _⟩
  · simp at h
  · simp at h
  · simp at h
  · rw [C08_d08f_reads false] at h; simp at h

/-- non-vacuity of `C08_read_total`: the witness of D08f does *not* hit the window when the
    allocator is generous, and a small valid document is read -/
example : ¬ HitsMemoryWindow { envSmallMem with memLimit := 2 ^ 63 } d08fWitness := by decide

/-- The memory hypothesis holds for every input when the allocator grants whatever a bytes object
    can hold. -/
theorem C08_no_memory_window (env : Env) (bs : Bytes) (hm : env.ssizeMax ≤ env.memLimit) :
    ¬ HitsMemoryWindow env bs :=
  fun h => runU_no_memory env hm _ _ _ ((isMemoryError_iff _).1 h)

/-- The loop fuel of the decoder model is never what stops it. -/
theorem C08_parse_fuel (env : Env) (bs : Bytes) : parseU env bs ≠ .error .fuel :=
  parseU_fuel env bs

/-- The wrapper adds exceptions only: a value it returns is the value C05's model returns. -/
theorem C08_parse_wrap (env : Env) (bs : Bytes) (v : BVal) (h : parseU env bs = .ok v) :
    parse env.lim bs = some v :=
  parseU_ok env bs v h

/-- A readable object: ReadError if `read()` raises OSError, else as for the bytes it delivers
    (at most the limit). -/
theorem C08_read_stream_obj_total (env : Env) (s : StreamOutcome) (validate : Bool) :
    readStreamObj env s validate = .error .read ∨
    ∃ bs, bs.length ≤ env.maxSize ∧ readStreamObj env s validate = Untrusted.read env bs validate := by
  cases s with
  | raisesOS => left; rfl
  | data bs =>
    right
    refine ⟨bs.take env.maxSize, by simp [List.length_take]; omega, ?_⟩
    unfold readStreamObj Untrusted.read
    rw [if_neg (by simp [List.length_take]; omega)]

/-- `Torrent.read(filepath)`: ReadError if the file cannot be opened or read, else as for the
    stream. -/
theorem C08_read_file_total (env : Env) (f : FileOutcome) (validate : Bool) :
    readFile env f validate = .error .read ∨
    ∃ s, readFile env f validate = readStreamObj env s validate := by
  cases f with
  | openFails => left; rfl
  | opened s =>
    right
    refine ⟨s, ?_⟩
    unfold readFile
    dsimp only
    split <;> simp_all

/-- what `read_stream(b'd4:infod6:piecesllleeeee', validate=False)` returns: `pieces` is not decoded,
    so its nesting is never checked on read -/
def deepWitness : Items := [(.str "info", .dict [(.str "pieces", .list [.list [.list []]])])]

/-- What C08 needs from C07 — `validate()` without a content path raises MetainfoError and nothing
    else unless `info['files']` is a mapping — is C07's theorem `C07_validate_only_metainfo_error`
    at `fs = noPath` (there `outsideD07f noPath md = filesNotMapping md`: the second half of D07f
    needs a content path, and since /repo 3420ff7 there is no bound on numbers).  No hypothesis. -/
theorem C08_validate_documented : ValidateDocumented := by
  intro urlOk md e hf h
  have ho : Validate.outsideD07f Validate.noPath md = true := by
    simp [Validate.outsideD07f, hf, Validate.noPath]
  rcases C07.C07_validate_only_metainfo_error urlOk Validate.noPath md ho with h' | h'
  · rw [h'] at h; cases h
  · rw [h'] at h; cases h; rfl

/-- `validate()` of a torrent (in particular of every returned one): ok or MetainfoError, for
    every metainfo, URL oracle and environment.  **Only remaining hypothesis:**
    `filesNotMapping t` — `info['files']` is not a mapping, the class of the open finding D07f
    (a mapping with `int` keys makes `validate` raise TypeError; a torrent that comes out of
    `read_stream` can have a `files` mapping, but only with `str`/`bytes` keys, for which the code
    answers MetainfoError — that case is evaluated by the driver on every run, not proved).
    C07's statement about `validate` is no longer a hypothesis: `C08_validate_documented`. -/
theorem C08_returned_validate (env : Env) (t : Items)
    (hf : Validate.filesNotMapping t = true) :
    validateT env t = .ok () ∨ validateT env t = .error .metainfo :=
  validateT_doc C08_validate_documented env t hf

/-- `dump()` of a torrent: bytes or MetainfoError, however few frames are left (`env.encFuel`
    arbitrary).  **Only remaining hypothesis:** `filesNotMapping t` (finding D07f), as for
    `C08_returned_validate`. -/
theorem C08_returned_dump (env : Env) (t : Items)
    (hf : Validate.filesNotMapping t = true) :
    (∃ b, dumpT env t true = .ok b) ∨ dumpT env t true = .error .metainfo :=
  dumpT_validate C08_validate_documented env t hf

/-- the hypothesis of `C08_returned_validate` / `C08_returned_dump` is necessary: on C07's D07f
    witness (`files = {0: {…}}`) `validate()` raises TypeError -/
example : Validate.filesNotMapping C07.d07fWitness = false ∧
    errIs (validateT envSmallMem C07.d07fWitness) (.internal "TypeError") = true := by
  decide +kernel

/-- non-vacuity: a valid torrent and one that fails validation satisfy the hypothesis -/
example : Validate.filesNotMapping C07.validWitness = true ∧
    Validate.filesNotMapping deepWitness = true ∧
    errIs (validateT envSmallMem deepWitness) .metainfo = true := by decide +kernel

/-- **Reading untrusted bytes raises only documented errors**: `C08_read_total` with C07's theorem
    plugged in.  For every environment, every byte string up to the read limit and both values of
    `validate`: a torrent (which validates if validation was asked for), BdecodeError or
    MetainfoError.  Remaining hypotheses, both classes of open findings:
    * `¬ HitsMemoryWindow env bs` — the decoder does not reach a length prefix between the
      allocator's limit and 2^63−34 (finding D08f; `C08_read_total_counterexample`);
    * `filesNotMapping` of the torrent that `validate=False` returns for the same bytes (finding
      D07f; only needed for `validate = true`). -/
theorem C08_read_documented (env : Env) (bs : Bytes) (validate : Bool)
    (hlen : bs.length ≤ env.maxSize) (hmem : ¬ HitsMemoryWindow env bs)
    (hf : ∀ t, Untrusted.read env bs false = .ok t → Validate.filesNotMapping t = true) :
    (∃ t, Untrusted.read env bs validate = .ok t ∧ (validate = true → validateT env t = .ok ())) ∨
    Untrusted.read env bs validate = .error .bdecode ∨
    Untrusted.read env bs validate = .error .metainfo := by
  rcases C08_read_total env bs validate hlen hmem with h | h | h | ⟨hv, t, e, h1, h2, h3⟩
  · exact .inl h
  · exact .inr (.inl h)
  · exact .inr (.inr h)
  · subst hv
    rcases C08_returned_validate env t (hf t h1) with h' | h'
    · rw [h'] at h2; cases h2
    · rw [h'] at h2; cases h2; exact .inr (.inr h3)

/-- `dump(validate=False)`: bytes or MetainfoError for every metainfo (non-UTF-8 keys, any types,
    any nesting) and every number of frames — no hypothesis about `validate`. -/
theorem C08_returned_dump_novalidate (env : Env) (t : Items) :
    (∃ b, dumpT env t false = .ok b) ∨ dumpT env t false = .error .metainfo :=
  dumpT_novalidate env t

/-- Nesting beyond the frames that are left is reported as MetainfoError (fix 19d011f; before it
    the RecursionError escaped: former finding D08g). -/
theorem C08_returned_dump_deep (env : Env) (t : Items)
    (hdeep : env.encFuel < 3 + encFramesKvs (Validate.ensureInfo t)) :
    dumpT env t false = .error .metainfo :=
  dumpT_deep env t hdeep

/-- non-vacuity: the witness is too deep for 8 frames and fits into the default frames -/
example : ({ envSmallMem with encFuel := 8 } : Env).encFuel < 3 + encFramesKvs (Validate.ensureInfo deepWitness) := by
  decide
example : 3 + encFramesKvs (Validate.ensureInfo deepWitness) ≤ envSmallMem.encFuel := by decide

/-- Parsing an arbitrary string as a magnet URI returns a magnet or raises MagnetError or URLError,
    whatever `urlparse`, `parse_qs`, `int()` and `is_url` answer (`parse_qs` yields no empty value
    list). -/
theorem C08_magnet_total (o : MagnetOracle) (uri : String)
    (hq : ∀ s q, o.urlparse uri = some (s, q) → QsNonempty (o.parseQs q)) :
    (∃ m, fromString o uri = .ok m) ∨ fromString o uri = .error .magnet ∨
    fromString o uri = .error .url := by
  unfold fromString
  cases hu : o.urlparse uri with
  | none => right; left; rfl
  | some sq =>
    obtain ⟨scheme, query⟩ := sq
    have hq' := hq scheme query hu
    dsimp only
    split
    · right; left; rfl
    · cases hw : afterQs o (o.parseQs query) with
      | ok m => left; exact ⟨m, rfl⟩
      | error e =>
        rcases afterQs_err hq' hw with h | h <;> subst h
        · right; left; rfl
        · right; right; rfl

/-! ### round 2: `parse_qs` modelled — any number of fields, no field limit, no strict parsing -/

/-- `parse_qs(query)` as `from_string` calls it (no `max_num_fields`, no `strict_parsing`) returns
    for **every** query, whatever its number of fields, separators, blank values and escapes. -/
theorem C08_parse_qs_total (pct : String → String) (qs : String) :
    parseQsE pct {} qs = .ok (parseQs pct qs) :=
  parseQsE_default pct qs

/-- What `parse_qs` returns has no empty value list, under every option: the former hypothesis
    `QsNonempty` of `C08_magnet_total` is a property of the modelled function. -/
theorem C08_parse_qs_nonempty (pct : String → String) (o : QsOpts) (qs : String)
    (q : List (String × List String)) (h : parseQsE pct o qs = .ok q) : QsNonempty q :=
  parseQsE_nonempty h

/-- The number the `max_num_fields` test compares is the number of fields the loop of `parse_qsl`
    iterates over — blank fields and blank values included. -/
theorem C08_parse_qs_field_count (qs : List Char) : (fields qs).length = numFields qs :=
  fields_length qs

/-- `from_string` with the modelled `parse_qs` is `from_string` with that function as oracle. -/
theorem C08_magnet_modelled_qs (o : MagnetOracle) (pct : String → String) (uri : String)
    (hq : o.parseQs = parseQs pct) : fromStringQ o pct {} uri = fromString o uri := by
  unfold fromStringQ fromString
  cases o.urlparse uri with
  | none => rfl
  | some sq =>
    obtain ⟨scheme, query⟩ := sq
    dsimp only
    split
    · rfl
    · rw [C08_parse_qs_total, hq]

/-- **`Magnet.from_string` on an arbitrary string: a magnet, MagnetError or URLError** — for every
    number of `&`-separated fields, with `parse_qs` modelled; no hypothesis left
    (`C08_magnet_total`'s `QsNonempty` is discharged by `C08_parse_qs_nonempty`). -/
theorem C08_magnet_documented (o : MagnetOracle) (pct : String → String) (uri : String) :
    (∃ m, fromStringQ o pct {} uri = .ok m) ∨ fromStringQ o pct {} uri = .error .magnet ∨
    fromStringQ o pct {} uri = .error .url := by
  unfold fromStringQ
  cases o.urlparse uri with
  | none => right; left; rfl
  | some sq =>
    obtain ⟨scheme, query⟩ := sq
    dsimp only
    split
    · right; left; rfl
    · rw [C08_parse_qs_total]
      dsimp only
      cases hw : afterQs o (parseQs pct query) with
      | ok m => left; exact ⟨m, rfl⟩
      | error e =>
        rcases afterQs_err (parseQs_nonempty pct query) hw with h | h <;> subst h
        · right; left; rfl
        · right; right; rfl

/-- A field limit that the query does not exceed changes nothing: below the limit the result of
    `from_string` does not depend on it. -/
theorem C08_magnet_field_limit_irrelevant (o : MagnetOracle) (pct : String → String) (n : Nat)
    (strict : Bool) (uri : String)
    (hn : ∀ s q, o.urlparse uri = some (s, q) → numFields q.toList ≤ n) :
    fromStringQ o pct { maxNumFields := some n, strictParsing := strict } uri =
    fromStringQ o pct { maxNumFields := none, strictParsing := strict } uri := by
  unfold fromStringQ
  cases hu : o.urlparse uri with
  | none => rfl
  | some sq =>
    obtain ⟨scheme, query⟩ := sq
    have := hn scheme query hu
    dsimp only
    split
    · rfl
    · unfold parseQsE parseQsl
      dsimp only
      rw [if_neg (by omega)]

/-- **Any finite field limit breaks the property**: a magnet URI whose query has more fields than
    `max_num_fields` makes `parse_qs` raise a bare ValueError outside every `try` of
    `from_string`.  (Why the code must not pass `max_num_fields`; the harness generates queries
    of 0, 1, 10, 100, 999…1002 and several thousand fields.) -/
theorem C08_magnet_field_limit_raises (o : MagnetOracle) (pct : String → String) (n : Nat)
    (strict : Bool) (uri query : String) (hu : o.urlparse uri = some ("magnet", query))
    (hn : n < numFields query.toList) :
    fromStringQ o pct { maxNumFields := some n, strictParsing := strict } uri =
      .error (.internal "ValueError") := by
  unfold fromStringQ
  rw [hu]
  dsimp only
  rw [if_neg (by decide)]
  unfold parseQsE parseQsl
  dsimp only
  rw [if_pos hn]
  rfl

/-- non-vacuity: `'&' * n` (n ≥ 1) has n + 1 fields — 1000 ampersands exceed a limit of 1000 -/
example (n : Nat) (h : 0 < n) : n < numFields (String.ofList (List.replicate n '&')).toList := by
  rw [String.toList_ofList, numFields_replicate n h]; omega

/-- **Strict parsing breaks the property**: a field without `=` (here the whole query `xt`)
    raises ValueError. -/
theorem C08_magnet_strict_raises (o : MagnetOracle) (pct : String → String) (uri query : String)
    (hu : o.urlparse uri = some ("magnet", query))
    (hq : ∃ nv rest, fields query.toList = nv :: rest ∧ splitFirst '=' nv [] = none) :
    fromStringQ o pct { strictParsing := true } uri = .error (.internal "ValueError") := by
  obtain ⟨nv, rest, hf, hnv⟩ := hq
  unfold fromStringQ
  rw [hu]
  dsimp only
  rw [if_neg (by decide)]
  unfold parseQsE parseQsl
  dsimp only
  rw [hf, qslLoop_error_head pct _ nv rest [] .value (qslField_strict_noeq pct nv hnv)]
  rfl

example : ∃ nv rest, fields "xt".toList = nv :: rest ∧ splitFirst '=' nv [] = none :=
  ⟨['x', 't'], [], by decide, by decide⟩

/-- Whatever options are passed, the only thing `parse_qs` raises is ValueError. -/
theorem C08_parse_qs_raises_value (pct : String → String) (o : QsOpts) (qs : String) (r : Raise)
    (h : parseQsE pct o qs = .error r) : r = .value := by
  unfold parseQsE at h
  split at h
  · cases h; exact parseQsl_err (by assumption)
  · cases h

/-! ### round 2: hostile strings in validated fields — `md5sum`, `infohash` -/

/-- `is_md5sum` on a `str`, over code points: exactly 32 characters `[0-9a-fA-F]`, optionally
    followed by one newline (`$` of the regular expression). -/
theorem C08_md5sum_iff (s : String) :
    Validate.isMd5sum (.str s) = true ↔
      (s.toList.take 32).length = 32 ∧ (∀ c ∈ s.toList.take 32, Validate.isHex c = true) ∧
      (s.toList.drop 32 = [] ∨ s.toList.drop 32 = ['\n']) := by
  simp [Validate.isMd5sum, List.all_eq_true, and_assoc]

/-- a character that is neither a hexadecimal digit nor a newline — every non-ASCII character,
    full-width digits, NUL — anywhere in the string makes `is_md5sum` false -/
theorem C08_md5sum_rejects (s : String) (c : Char) (hc : c ∈ s.toList)
    (hx : Validate.isHex c = false) (hn : c ≠ '\n') : Validate.isMd5sum (.str s) = false := by
  cases h : Validate.isMd5sum (.str s) with
  | false => rfl
  | true =>
    exfalso
    obtain ⟨_, hall, hrest⟩ := (C08_md5sum_iff s).1 h
    rw [← List.take_append_drop 32 s.toList] at hc
    rcases List.mem_append.1 hc with h1 | h2
    · rw [hall c h1] at hx; cases hx
    · rcases hrest with h' | h'
      · rw [h'] at h2; cases h2
      · rw [h'] at h2; simp at h2; exact hn h2

/-- no character outside ASCII is a hexadecimal digit -/
theorem C08_isHex_ascii (c : Char) (h : Validate.isHex c = true) : c.toNat < 128 := by
  unfold Validate.isHex at h
  simp only [Bool.or_eq_true, Bool.and_eq_true, decide_eq_true_eq] at h
  have e9 : ('9' : Char).toNat = 57 := rfl
  have ef : ('f' : Char).toNat = 102 := rfl
  have eF : ('F' : Char).toNat = 70 := rfl
  rcases h with (⟨_, h⟩ | ⟨_, h⟩) | ⟨_, h⟩ <;>
    · have := Char.le_def.1 h
      simp only [Char.toNat, UInt32.le_iff_toNat_le] at *
      omega

/-- **the md5sum branch of `validate()`**: whatever value sits at `md5sum` — any decoded type, any
    string — the check answers "passes" or MetainfoError, nothing else … -/
theorem C08_md5sum_branch (v : PyVal) :
    Validate.checkVal md5Rule v = .ok () ∨ Validate.checkVal md5Rule v = .error .metainfo := by
  unfold Validate.checkVal
  split
  · left; rfl
  · right; rfl

/-- … and it is MetainfoError for every string with a character outside ASCII. -/
theorem C08_md5sum_branch_non_ascii (s : String) (c : Char) (hc : c ∈ s.toList) (hn : 128 ≤ c.toNat) :
    Validate.checkVal md5Rule (.str s) = .error .metainfo := by
  have hx : Validate.isHex c = false := by
    cases h : Validate.isHex c with
    | false => rfl
    | true => have := C08_isHex_ascii c h; omega
  have hnl : c ≠ '\n' := by
    intro h; subst h
    have : ('\n' : Char).toNat = 10 := rfl
    omega
  have := C08_md5sum_rejects s c hc hx hnl
  simp [Validate.checkVal, Validate.passes, md5Rule, this]
  rfl

/-- the value `validate()` hands to the check in the single-file branch is `info['md5sum']` -/
theorem C08_md5sum_single (items info : Items) (v : PyVal)
    (hi : PyVal.lookupStr "info" items = some (.dict info))
    (hv : PyVal.lookupStr "md5sum" info = some v) :
    Validate.assertType (.dict items) [.s "info", .s "md5sum"] md5Rule = Validate.checkVal md5Rule v := by
  simp [Validate.assertType, Validate.getItem, Validate.lookupKey, hi, Validate.assertFinal,
    Validate.keyExists, hv, bind, Except.bind, pure, Except.pure]

/-- … and in the multi-file branch `info['files'][i]['md5sum']` -/
theorem C08_md5sum_file (items info e : Items) (l : List PyVal) (i : Nat) (v : PyVal)
    (hi : PyVal.lookupStr "info" items = some (.dict info))
    (hf : PyVal.lookupStr "files" info = some (.list l)) (he : l[i]? = some (.dict e))
    (hv : PyVal.lookupStr "md5sum" e = some v) :
    Validate.assertType (.dict items) [.s "info", .s "files", .i i, .s "md5sum"] md5Rule =
      Validate.checkVal md5Rule v := by
  simp [Validate.assertType, Validate.getItem, Validate.lookupKey, hi, hf, he, Validate.assertFinal,
    Validate.keyExists, hv, bind, Except.bind, pure, Except.pure]

/-- non-vacuity / the seeded inputs: 32 × `ä`, 31 hex digits + `é`, 32 full-width zeros are
    refused, a digest and a digest + newline pass -/
example : Validate.isMd5sum (.str (String.ofList (List.replicate 32 'ä'))) = false ∧
    Validate.isMd5sum (.str "d41d8cd98f00b204e9800998ecf8427é") = false ∧
    Validate.isMd5sum (.str (String.ofList (List.replicate 32 '０'))) = false ∧
    Validate.isMd5sum (.str "d41d8cd98f00b204e9800998ecf8427e") = true ∧
    Validate.isMd5sum (.str "d41d8cd98f00b204e9800998ecf8427e\n") = true := by decide +kernel

/-- `infohash` of a torrent (in particular of every returned one): the bytes to hash or
    MetainfoError; only hypothesis `filesNotMapping t` (finding D07f), as for validate()/dump(). -/
theorem C08_returned_infohash (env : Env) (t : Items)
    (hf : Validate.filesNotMapping t = true) :
    (∃ b, infohashT env t = .ok b) ∨ infohashT env t = .error .metainfo := by
  unfold infohashT
  cases h : Validate.infoBytes env.urlOk Validate.noPath t with
  | ok b => left; exact ⟨b, rfl⟩
  | error e =>
    right
    have ho : Validate.outsideD07f Validate.noPath t = true := by
      simp [Validate.outsideD07f, hf, Validate.noPath]
    have := C07.C07_only_metainfo_error_infohash_partial env.urlOk Validate.noPath t e ho h
    subst this; rfl

/-! ### round 3: numbers of any size in the numeric fields; `strip()` modelled with its step count -/

/-- `is_file_length` on an `int`: `num >= 0`, for **every** integer — no float conversion, no range. -/
theorem C08_file_length_int (n : Int) : Validate.isFileLength (.int n) = decide (0 ≤ n) := rfl

/-- `is_divisible_by_16_kib` on an `int`: positive multiple of 16384, for every integer. -/
theorem C08_piece_length_int (n : Int) :
    Validate.isDivisibleBy16KiB (.int n) = (decide (0 < n) && decide (n % 16384 = 0)) := by
  unfold Validate.isDivisibleBy16KiB
  simp only [Validate.intVal]
  by_cases h : n ≤ 0
  · have : ¬ 0 < n := by omega
    simp [h, this]
  · have : 0 < n := by omega
    by_cases hm : n % 16384 = 0 <;> simp [h, this, hm]

/-- the rule `validate()` applies to `info.length` and `info.files[i].length` -/
def lengthRule : Validate.Rule := { types := Validate.isIntOrFloat, check := some Validate.isFileLength }

/-- the length branch of `validate()` answers "passes" or MetainfoError for every value … -/
theorem C08_length_branch (v : PyVal) :
    Validate.checkVal lengthRule v = .ok () ∨ Validate.checkVal lengthRule v = .error .metainfo := by
  unfold Validate.checkVal
  split
  · left; rfl
  · right; rfl

/-- … and "passes" for every non-negative integer, however large (2^1024, 10^4299, …) -/
theorem C08_length_branch_int (n : Int) (h : 0 ≤ n) : Validate.checkVal lengthRule (.int n) = .ok () := by
  simp [Validate.checkVal, Validate.passes, lengthRule, Validate.isIntOrFloat, PyVal.isInt, C08_file_length_int, h]
  rfl

/-- a single-file torrent that is well-formed apart from its three numbers: `length`, `piece length`
    and the number `k` of 20-byte piece hashes -/
def singleTmpl (len pl : Int) (k : Nat) : Validate.Items :=
  [(.str "info", .dict [(.str "length", .int len), (.str "name", .str "a"), (.str "piece length", .int pl),
                        (.str "pieces", .bytes (List.replicate (20 * k) 1))])]

/-- a multi-file torrent with two files of lengths `a` and `b` -/
def multiTmpl (a b pl : Int) (k : Nat) : Validate.Items :=
  [(.str "info", .dict [(.str "files", .list [.dict [(.str "length", .int a), (.str "path", .list [.str "x"])],
                                               .dict [(.str "length", .int b), (.str "path", .list [.str "y"])]]),
      (.str "name", .str "a"), (.str "piece length", .int pl), (.str "pieces", .bytes (List.replicate (20 * k) 1))])]

/-- **The number ladder, for all integers at once**: `validate()` of the single-file template is
    decided by exact integer arithmetic — ok iff the piece length is a positive multiple of 16384,
    there is at least one piece, the length is non-negative and the piece count is the ceiling of
    length / piece length — and MetainfoError otherwise; no magnitude (2^53, 2^63, 2^1024, 10^4299)
    plays any role. -/
theorem C08_single_numbers (urlOk : Export.Bytes → Bool) (len pl : Int) (k : Nat) :
    Validate.validate urlOk Validate.noPath (singleTmpl len pl k) =
      if 0 < pl ∧ pl % 16384 = 0 ∧ 0 < k ∧ 0 ≤ len ∧ (k : Int) = Validate.expPieces len pl then .ok ()
      else .error .metainfo := by
  open Validate in
  simp [Validate.validate, singleTmpl, ensureInfo, PyVal.lookupStr, getE, getItem, lookupKey, checkCommon, assertType,
    assertFinal, keyExists, checkVal, passes, bind, Except.bind, pure, Except.pure, checkAnnounceList, lenE, pyLen, inE,
    checkSingle, noPath, isStrOrBytes, PyVal.isDict, PyVal.isStr, PyVal.isBytes, PyVal.isInt, isIntOrFloat, PyVal.isFloat,
    isFileLength, isDivisibleBy16KiB, intVal, numVal?]
  by_cases h1 : pl ≤ 0
  · have : ¬ 0 < pl := by omega
    simp [h1, this, throw, throwThe, MonadExceptOf.throw]
  · have h1' : 0 < pl := by omega
    by_cases h2 : pl % 16384 = 0
    · by_cases h3 : k = 0
      · simp [h1, h1', h2, h3, throw, throwThe, MonadExceptOf.throw]
      · have h3' : 0 < k := by omega
        have h6 : ¬ 20 * k = 0 := by omega
        by_cases h4 : 0 ≤ len
        · by_cases h5 : (k : Int) = Validate.expPieces len pl
          · simp [h1, h1', h2, h3', h6, h4, h5]
          · simp [h1, h1', h2, h3', h6, h4, h5, throw, throwThe, MonadExceptOf.throw]
        · simp [h1, h1', h2, h3', h6, h4, throw, throwThe, MonadExceptOf.throw]
    · simp [h1, h1', h2, throw, throwThe, MonadExceptOf.throw]

/-- the same for two files: only the exact **sum** of the lengths matters (pairs whose sum crosses
    2^53, 2^63, 2^1024 or the 4300-digit limit are nothing special) -/
theorem C08_multi_numbers (urlOk : Export.Bytes → Bool) (a b pl : Int) (k : Nat) :
    Validate.validate urlOk Validate.noPath (multiTmpl a b pl k) =
      if 0 < pl ∧ pl % 16384 = 0 ∧ 0 < k ∧ 0 ≤ a ∧ 0 ≤ b ∧ (k : Int) = Validate.expPieces (a + b) pl then .ok ()
      else .error .metainfo := by
  open Validate in
  simp [Validate.validate, multiTmpl, ensureInfo, PyVal.lookupStr, getE, getItem, lookupKey, checkCommon, assertType,
    assertFinal, keyExists, checkVal, passes, bind, Except.bind, pure, Except.pure, checkAnnounceList, lenE, pyLen, inE,
    checkMulti, noPath, isStrOrBytes, PyVal.isDict, PyVal.isStr, PyVal.isBytes, PyVal.isInt, isIntOrFloat, PyVal.isFloat,
    isFileLength, isDivisibleBy16KiB, intVal, numVal?, PyVal.isIterable, iterE, pyIter, forEnum, checkFile, sumLengths,
    List.range, List.range.loop]
  by_cases h1 : pl ≤ 0
  · have : ¬ 0 < pl := by omega
    simp [h1, this, throw, throwThe, MonadExceptOf.throw]
  · have h1' : 0 < pl := by omega
    by_cases h2 : pl % 16384 = 0
    · by_cases h3 : k = 0
      · simp [h1, h1', h2, h3, throw, throwThe, MonadExceptOf.throw]
      · have h3' : 0 < k := by omega
        have h6 : ¬ 20 * k = 0 := by omega
        by_cases h4 : 0 ≤ a
        · by_cases h4b : 0 ≤ b
          · by_cases h5 : (k : Int) = Validate.expPieces (a + b) pl
            · simp [h1, h1', h2, h3', h6, h4, h4b, h5]
            · simp [h1, h1', h2, h3', h6, h4, h4b, h5, throw, throwThe, MonadExceptOf.throw]
          · simp [h1, h1', h2, h3', h6, h4, h4b, throw, throwThe, MonadExceptOf.throw]
        · simp [h1, h1', h2, h3', h6, h4, throw, throwThe, MonadExceptOf.throw]
    · simp [h1, h1', h2, throw, throwThe, MonadExceptOf.throw]

/-- a torrent whose only file is as large as the piece (`piece length` = a positive multiple of 16384
    ≥ `length` ≥ 1) validates — beyond the float range too: the seeded input `length = 2^1024` is
    *valid* with a fitting piece length, and MetainfoError with `piece length = 16384` -/
theorem C08_single_one_piece (urlOk : Export.Bytes → Bool) (len pl : Int)
    (hl : 1 ≤ len) (hp : len ≤ pl) (hm : pl % 16384 = 0) :
    Validate.validate urlOk Validate.noPath (singleTmpl len pl 1) = .ok () := by
  rw [C08_single_numbers, if_pos]
  refine ⟨by omega, hm, by omega, by omega, ?_⟩
  rw [Validate.expPieces_eq (by omega) (by omega)]
  have : (len.toNat + pl.toNat - 1) / pl.toNat = 1 := by
    apply Nat.div_eq_of_lt_le <;> omega
  rw [this]

example : Validate.validate (fun _ => false) Validate.noPath (singleTmpl (2 ^ 1024) (16384 * 2 ^ 1020) 1) = .ok () :=
  C08_single_one_piece _ _ _ (by decide +kernel) (by decide +kernel) (by decide +kernel)

example : Validate.validate (fun _ => false) Validate.noPath (singleTmpl (2 ^ 1024) 16384 1) = .error .metainfo := by
  rw [C08_single_numbers, if_neg]
  intro ⟨_, _, _, _, h⟩
  revert h
  decide +kernel

/-- `uri.strip()`: white space, the stripped string, white space — … -/
theorem C08_strip_decomp (s : List Char) :
    ∃ w₁ w₂, (∀ c ∈ w₁, isPySpace c = true) ∧ (∀ c ∈ w₂, isPySpace c = true) ∧ s = w₁ ++ pyStrip s ++ w₂ := by
  obtain ⟨w₁, h₁, e₁⟩ := lstrip_decomp s
  obtain ⟨w₂, h₂, e₂⟩ := lstrip_decomp (lstrip s).reverse
  refine ⟨w₁, w₂.reverse, h₁, fun c hc => h₂ c (List.mem_reverse.1 hc), ?_⟩
  have : lstrip s = pyStrip s ++ w₂.reverse := by
    unfold pyStrip
    rw [← List.reverse_append, ← e₂, List.reverse_reverse]
  rw [List.append_assoc, ← this]; exact e₁

/-- … with no white space left at either end -/
theorem C08_strip_ends (s : List Char) (c : Char) :
    ((pyStrip s).head? = some c → isPySpace c = false) ∧ ((pyStrip s).getLast? = some c → isPySpace c = false) := by
  unfold pyStrip
  constructor
  · intro h
    rw [List.head?_reverse] at h
    have h' := lstrip_getLast _ c h
    rw [List.getLast?_reverse] at h'
    exact lstrip_head s c h'
  · intro h
    rw [List.getLast?_reverse] at h
    exact lstrip_head _ c h

/-- **`strip()` is linear**: the two scanning loops of CPython's `do_strip` make at most |s| + 2
    iterations together, wherever the white space sits (start, middle, end) and whatever it is. -/
theorem C08_strip_steps (s : List Char) : stripSteps s ≤ s.length + 2 :=
  stripSteps_le s

/-- `from_string` with `strip()` and `parse_qs` modelled: a magnet, MagnetError or URLError for every
    string (`C08_magnet_documented` on the stripped string). -/
theorem C08_magnet_documented_strip (o : MagnetOracle) (pct : String → String) (uri : String) :
    (∃ m, fromStringS o pct {} uri = .ok m) ∨ fromStringS o pct {} uri = .error .magnet ∨
    fromStringS o pct {} uri = .error .url :=
  C08_magnet_documented o pct _

/-! ### round 4: numbers stored as text; exact topics of every URN namespace -/

/-- **`int()` and the digit limit**: an ASCII string with more than `lim` (= 4300) digit characters
    — leading zeros count; sign, white space and underscores do not — is refused (ValueError),
    whatever else it contains. -/
theorem C08_int_digit_limit (lim : Nat) (s : List Char) (h : lim < (s.filter isAsciiDigit).length) :
    pyIntAscii lim s = none :=
  pyIntAscii_limit lim s h

/-- non-vacuity and the corner cases of the grammar: `1_000`, signs, surrounding white space and
    leading zeros are accepted; `_1`, `1_`, `1__0`, `0x10`, `1e5`, inner spaces, the empty string
    and a lone sign are refused -/
example : pyIntAscii 4300 "1_000".toList = some 1000 ∧ pyIntAscii 4300 " -007\n".toList = some (-7) ∧
    pyIntAscii 4300 "+5".toList = some 5 ∧ pyIntAscii 4300 "_1".toList = none ∧
    pyIntAscii 4300 "1_".toList = none ∧ pyIntAscii 4300 "1__0".toList = none ∧
    pyIntAscii 4300 "0x10".toList = none ∧ pyIntAscii 4300 "1e5".toList = none ∧
    pyIntAscii 4300 "5 5".toList = none ∧ pyIntAscii 4300 "".toList = none ∧
    pyIntAscii 4300 "-".toList = none ∧ pyIntAscii 3 "0001".toList = none ∧
    pyIntAscii 3 "0_0_1".toList = some 1 := by decide +kernel

/-- the `xl` setter: a length or MagnetError, whatever `int()` answers … -/
theorem C08_xl_documented (o : MagnetOracle) (v : String) :
    (∃ n, setXl o v = .ok n) ∨ setXl o v = .error .magnet := by
  cases h : setXl o v with
  | ok n => left; exact ⟨n, rfl⟩
  | error e => right; rw [setXl_err h]

/-- … and MagnetError for every ASCII value with more than 4300 digits (the ValueError of the digit
    limit is caught by the setter) -/
theorem C08_xl_digit_limit (o : MagnetOracle) (oracle : String → Option Int) (v : String)
    (ho : o.intOf = intOfM 4300 oracle) (ha : isAsciiStr v.toList = true)
    (h : 4300 < (v.toList.filter isAsciiDigit).length) : setXl o v = .error .magnet := by
  unfold setXl
  rw [ho]
  unfold intOfM
  rw [if_pos ha, C08_int_digit_limit 4300 _ h]

/-- **A `creation date` that is not a bencoded integer is never converted**: any byte string — a
    string of digits of any length included — list or dict is MetainfoError when it is truthy and
    "no creation date" when it is empty.  (The creation-date setter only converts `int`/`float`;
    `read_stream` passes the raw decoded value.) -/
theorem C08_creation_date_not_int (env : Env) (enc : List (Bytes × BVal)) (md : Items) (v : BVal)
    (hv : lookup ReadStream.kCreationDate enc = some v) (hni : ∀ i, v ≠ .int i) :
    creationDateStep env enc md =
      if ReadStream.truthy v then .error .metainfo
      else .ok (Codec.popStr "creation date" (ReadStream.ensureInfo md)) := by
  unfold creationDateStep
  rw [hv]
  dsimp only
  cases v with
  | int i => exact absurd rfl (hni i)
  | bytes b => unfold setCreationDateU; dsimp only; by_cases ht : ReadStream.truthy (.bytes b) = true <;> simp [ht, catchCreationDate]
  | list l => unfold setCreationDateU; dsimp only; by_cases ht : ReadStream.truthy (.list l) = true <;> simp [ht, catchCreationDate]
  | dict kvs => unfold setCreationDateU; dsimp only; by_cases ht : ReadStream.truthy (.dict kvs) = true <;> simp [ht, catchCreationDate]

/-- **Every exact topic outside the `btih` namespace is MagnetError**: a value that is neither a
    bare 40-hex / 32-base32 info hash nor starts with `urn:btih:` (any ASCII case) — `urn:btmh:…`
    (BitTorrent v2 multihash), `urn:sha1:`, `urn:ed2k:`, `urn:tree:tiger:`, `urn:md5:`, `urn:aich:`,
    `urn:kzhash:`, `urn:bitprint:` … -/
theorem C08_xt_foreign (v : String) (h1 : matchesInfohash v.toList = false)
    (h2 : prefixCI "urn:btih:".toList v.toList = none) : setXt v = .error .magnet := by
  unfold setXt
  rw [h1]
  simp only [Bool.false_eq_true, if_false]
  rw [h2]

example : matchesInfohash "urn:btmh:1220caf1e1c30e81cb361b9ee167c4aa64228a7fa4fa9f6105232b28ad099f3a302e".toList = false ∧
    prefixCI "urn:btih:".toList "urn:btmh:1220caf1e1c30e81cb361b9ee167c4aa64228a7fa4fa9f6105232b28ad099f3a302e".toList = none ∧
    prefixCI "urn:btih:".toList "urn:sha1:YNCKHTQCWBTRNJIV4WNAE52SJUQCZO5C".toList = none ∧
    prefixCI "urn:btih:".toList "URN:ED2K:354b15e68fb8f36d7cd88ff94116cdc1".toList = none := by decide +kernel

/-- **Several exact topics are MagnetError, whatever they are** — v1 + v2 (hybrid), v2 + v2, any
    order, any multiplicity ≥ 2: the multiplicity test comes before any topic is looked at … -/
theorem C08_xt_multiple (o : MagnetOracle) (q : List (String × List String)) (xts : List String)
    (h : qlookup "xt" q = some xts) (hl : 1 < xts.length) : withXt o q = .error .magnet := by
  unfold withXt
  rw [h]
  dsimp only
  rw [if_pos hl]

/-- … and a single topic outside `btih` is MagnetError before any other parameter is looked at
    (a v2-only link): never an index or key error. -/
theorem C08_xt_single_foreign (o : MagnetOracle) (q : List (String × List String)) (xt : String)
    (h : qlookup "xt" q = some [xt]) (h1 : matchesInfohash xt.toList = false)
    (h2 : prefixCI "urn:btih:".toList xt.toList = none) : withXt o q = .error .magnet := by
  unfold withXt
  rw [h]
  dsimp only
  rw [if_neg (by simp), C08_xt_foreign xt h1 h2]

/-! ### round 5: lazily validated attributes of the parsed URI -/

/-- **Where the unchanged code reads what**: `from_string` reads only the eager fields `scheme` and
    `query` outside its `try`; `is_url` reads the lazily validated `port` inside `try … except
    Exception`.  No read that can raise sits outside a `try`. -/
theorem C08_attr_reads_safe : readsSafe fromStringReads = true ∧ readsSafe isUrlReads = true := by decide

/-- no additional read ⇒ `fromStringA` is `from_string` -/
theorem C08_magnet_no_extra_reads (o : MagnetOracle) (pct : String → String) (raises : UrlAttr → Bool)
    (uri : String) : fromStringA o pct raises [] uri = fromStringS o pct {} uri := by
  unfold fromStringA fromStringS fromStringQ
  cases o.urlparse (String.ofList (pyStrip uri.toList)) with
  | none => rfl
  | some sq =>
    obtain ⟨scheme, query⟩ := sq
    dsimp only [firstRaise]
    split <;> rfl

theorem firstRaise_none (raises : UrlAttr → Bool) : ∀ (l : List UrlAttr),
    (∀ a ∈ l, raises a = false) → firstRaise raises l = none := by
  intro l
  induction l with
  | nil => intro _; rfl
  | cons a rest ih =>
    intro h
    unfold firstRaise
    rw [h a (List.mem_cons_self ..)]
    exact ih (fun b hb => h b (List.mem_cons_of_mem _ hb))

/-- Additional reads of attributes that do not raise for this URI — in particular of every eager
    field, `hostname`, `username`, `password` when only `port` is validated lazily — leave the
    documented behaviour: a magnet, MagnetError or URLError. -/
theorem C08_magnet_reads_documented (o : MagnetOracle) (pct : String → String) (raises : UrlAttr → Bool)
    (extra : List UrlAttr) (uri : String) (h : ∀ a ∈ extra, raises a = false) :
    (∃ m, fromStringA o pct raises extra uri = .ok m) ∨ fromStringA o pct raises extra uri = .error .magnet ∨
    fromStringA o pct raises extra uri = .error .url := by
  unfold fromStringA
  rw [firstRaise_none raises extra h]
  cases o.urlparse (String.ofList (pyStrip uri.toList)) with
  | none => right; left; rfl
  | some sq =>
    obtain ⟨scheme, query⟩ := sq
    dsimp only
    split
    · right; left; rfl
    · exact C08_magnet_documented_strip o pct uri

/-- **A read of `port` after the scheme test and outside the `try` breaks the property**: for every
    URI with scheme `magnet` whose port is invalid (`magnet://:99999/?xt=…`) a bare ValueError
    escapes, whatever else is read before it without raising. -/
theorem C08_magnet_port_read_raises (o : MagnetOracle) (pct : String → String) (raises : UrlAttr → Bool)
    (before after : List UrlAttr) (uri query : String)
    (hu : o.urlparse (String.ofList (pyStrip uri.toList)) = some ("magnet", query))
    (hb : ∀ a ∈ before, raises a = false) (hp : raises .port = true) :
    fromStringA o pct raises (before ++ .port :: after) uri = .error (.internal "ValueError") := by
  unfold fromStringA
  rw [hu]
  dsimp only
  rw [if_neg (by decide)]
  have : firstRaise raises (before ++ .port :: after) = some .port := by
    induction before with
    | nil => simp [firstRaise, hp]
    | cons a rest ih =>
      simp only [List.cons_append, firstRaise]
      rw [hb a (List.mem_cons_self ..)]
      exact ih (fun b hb' => hb b (List.mem_cons_of_mem _ hb'))
  rw [this]

/-- The decoder is linear: one unit per input byte, per iteration of the outer loop and per
    iteration of the inner pop loop add up to at most 3·|bs| + 2. -/
theorem C08_read_steps (lim : Nat) (bs : Bytes) : parseSteps lim bs ≤ 3 * bs.length + 2 := by
  unfold parseSteps
  have := runSteps_le lim (bs.length + 1) bs []
  simp only [List.length_nil] at this
  omega

end Torf.C08
