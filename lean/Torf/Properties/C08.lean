/-
  C08 — untrusted input only ever produces documented errors.  Property theorems only.

  Model: Torf/Model/Untrusted.lean (`read`, `readStreamObj`, `readFile`, `dumpT`, `validateT`,
  `fromString`, `parseSteps`), wrapping the models of C05 (`Bencode.step/run/parse`,
  `ReadStream.decodeTop/assertInfo/setPrivate`) and C07 (`Validate.validate/dumpNoValidate`).

  What is proved for all inputs and all environments (allocation limit, recursion fuel,
  `fromtimestamp`, URL oracle, `urlparse`/`parse_qs`/`int()` oracles):
  * `C08_read_total`            read_stream on bytes up to the limit: ok (validated if asked),
                                BdecodeError, MetainfoError — or exactly what `validate()` raised on
                                the torrent that was built; under the hypothesis that no length
                                prefix in the MemoryError window is reached (finding D08f).
  * `C08_read_total_counterexample`  the full statement (no memory hypothesis) is false: D08f.
  * `C08_no_memory_window`      the hypothesis holds whenever the allocator grants every size a bytes
                                object can have.
  * `C08_read_stream_obj_total`, `C08_read_file_total`   stream objects and `Torrent.read`.
  * `C08_parse_fuel`, `C08_parse_wrap`   the wrapped decoder never runs out of loop fuel and returns
                                only what C05's `parse` returns.
  * `C08_validate_documented`   C07's theorem `C07_validate_only_metainfo_error` (imported from
                                Torf.Properties.C07) at `fs = noPath` *is* `ValidateDocumented`.
  * `C08_returned_validate`, `C08_returned_dump`, `C08_returned_dump_novalidate`   validate()/dump()
                                of any torrent, with any number of frames left: ok or MetainfoError.
                                The only hypothesis of the first two is `filesNotMapping t` (the
                                class of the open finding D07f: `info['files']` is a mapping);
                                `dump(validate=False)` needs no hypothesis at all.
  * `C08_read_documented`       read_stream ∈ {ok (validated if asked), BdecodeError, MetainfoError}
                                under the memory hypothesis (D08f) and `filesNotMapping` of the
                                torrent that is built (D07f) — no fourth alternative left.
  * `C08_returned_dump_deep`    too deep for the frames left ⇒ MetainfoError (fix 19d011f, ex-D08g).
  * `C08_magnet_total`          from_string: ok, MagnetError or URLError for every string and oracle.
  * `C08_read_steps`            steps of the decoder ≤ 3·|bs| + 2.
  Partial: CPython's actual time and memory are measured by the harness, not proved.
-/
import Torf.Lemmas.Untrusted
import Torf.Properties.C07
namespace Torf.C08
open Torf Torf.Bencode Torf.Untrusted

/-- the decoder raises MemoryError on this input in this environment (D08f) -/
def HitsMemoryWindow (env : Env) (bs : Bytes) : Prop := isMemoryError (parseU env bs) = true

instance (env : Env) (bs : Bytes) : Decidable (HitsMemoryWindow env bs) := by
  unfold HitsMemoryWindow; exact inferInstance

/-- Reading arbitrary bytes up to the read limit, with or without validation, returns a torrent
    (which validates if validation was asked for) or raises BdecodeError or MetainfoError; the only
    other possibility is that `validate()` itself, run on the torrent that `validate=False` returns,
    raised something else (C07's matter: `C08_returned_validate`). -/
theorem C08_read_total (env : Env) (bs : Bytes) (validate : Bool)
    (hlen : bs.length ≤ env.maxSize) (hmem : ¬ HitsMemoryWindow env bs) :
    (∃ t, Untrusted.read env bs validate = .ok t ∧ (validate = true → validateT env t = .ok ())) ∨
    Untrusted.read env bs validate = .error .bdecode ∨
    Untrusted.read env bs validate = .error .metainfo ∨
    (validate = true ∧ ∃ t e, read env bs false = .ok t ∧ validateT env t = .error e ∧
      Untrusted.read env bs true = .error e) := by
  have hr : ∀ v, Untrusted.read env bs v = readCore env bs v := by
    intro v; unfold Untrusted.read; rw [if_neg (by omega)]
  simp only [hr]
  rcases readCore_cases env bs validate with h | h | h | ⟨h, _⟩ | ⟨hv, t, e, h1, h2, h3⟩
  · exact .inl h
  · exact .inr (.inl h)
  · exact .inr (.inr (.inl h))
  · exact absurd ((isMemoryError_iff _).2 h) hmem
  · subst hv; exact .inr (.inr (.inr ⟨rfl, t, e, h1, h2, h3⟩))

/-- the full statement: no hypothesis about the allocator -/
def C08_read_total_full : Prop :=
  ∀ (env : Env) (bs : Bytes) (validate : Bool), bs.length ≤ env.maxSize →
    ∀ e, Untrusted.read env bs validate = .error e →
      e = .bdecode ∨ e = .metainfo ∨ e = .read ∨
      (∃ t, Untrusted.read env bs false = .ok t ∧ validateT env t = .error e)

/-- an environment whose allocator refuses more than 16 GiB -/
def envSmallMem : Env :=
  { memLimit := 2 ^ 34, decFuel := 997, encFuel := 998, fromTs := fun _ => .valueerror,
    urlOk := fun _ => false }

/-- `b'd4:name223372036854775807:xe'` -/
def d08fWitness : Bytes :=
  [100, 52, 58, 110, 97, 109, 101,
   50, 50, 51, 51, 55, 50, 48, 51, 54, 56, 53, 52, 55, 55, 53, 56, 48, 55, 58, 120, 101]

theorem C08_d08f_reads (v : Bool) :
    Untrusted.read envSmallMem d08fWitness v = .error (.internal "MemoryError") := by
  apply errIs_eq
  cases v <;> decide

/-- Finding D08f: a length prefix between the allocator's limit and `sys.maxsize` escapes as
    MemoryError. -/
theorem C08_read_total_counterexample : ¬ C08_read_total_full := by
  intro h
  rcases h envSmallMem d08fWitness true (by decide) _ (C08_d08f_reads true) with h | h | h | ⟨t, h, _⟩
  · simp at h
  · simp at h
  · simp at h
  · rw [C08_d08f_reads false] at h; simp at h

/-- non-vacuity of `C08_read_total`: the witness of D08f does *not* hit the window when the
    allocator is generous, and a small valid document is read -/
example : ¬ HitsMemoryWindow { envSmallMem with memLimit := 2 ^ 63 } d08fWitness := by decide

/-- The memory hypothesis holds for every input when the allocator grants whatever a bytes object
    can hold. -/
theorem C08_no_memory_window (env : Env) (bs : Bytes) (hm : env.ssizeMax ≤ env.memLimit) :
    ¬ HitsMemoryWindow env bs :=
  fun h => runU_no_memory env hm _ _ _ ((isMemoryError_iff _).1 h)

/-- The loop fuel of the decoder model is never what stops it. -/
theorem C08_parse_fuel (env : Env) (bs : Bytes) : parseU env bs ≠ .error .fuel :=
  parseU_fuel env bs

/-- The wrapper adds exceptions only: a value it returns is the value C05's model returns. -/
theorem C08_parse_wrap (env : Env) (bs : Bytes) (v : BVal) (h : parseU env bs = .ok v) :
    parse env.lim bs = some v :=
  parseU_ok env bs v h

/-- A readable object: ReadError if `read()` raises OSError, else as for the bytes it delivers
    (at most the limit). -/
theorem C08_read_stream_obj_total (env : Env) (s : StreamOutcome) (validate : Bool) :
    readStreamObj env s validate = .error .read ∨
    ∃ bs, bs.length ≤ env.maxSize ∧ readStreamObj env s validate = Untrusted.read env bs validate := by
  cases s with
  | raisesOS => left; rfl
  | data bs =>
    right
    refine ⟨bs.take env.maxSize, by simp [List.length_take]; omega, ?_⟩
    unfold readStreamObj Untrusted.read
    rw [if_neg (by simp [List.length_take]; omega)]

/-- `Torrent.read(filepath)`: ReadError if the file cannot be opened or read, else as for the
    stream. -/
theorem C08_read_file_total (env : Env) (f : FileOutcome) (validate : Bool) :
    readFile env f validate = .error .read ∨
    ∃ s, readFile env f validate = readStreamObj env s validate := by
  cases f with
  | openFails => left; rfl
  | opened s =>
    right
    refine ⟨s, ?_⟩
    unfold readFile
    dsimp only
    split <;> simp_all

/-- what `read_stream(b'd4:infod6:piecesllleeeee', validate=False)` returns: `pieces` is not decoded,
    so its nesting is never checked on read -/
def deepWitness : Items := [(.str "info", .dict [(.str "pieces", .list [.list [.list []]])])]

/-- What C08 needs from C07 — `validate()` without a content path raises MetainfoError and nothing
    else unless `info['files']` is a mapping — is C07's theorem `C07_validate_only_metainfo_error`
    at `fs = noPath` (there `outsideD07f noPath md = filesNotMapping md`: the second half of D07f
    needs a content path, and since /repo 3420ff7 there is no bound on numbers).  No hypothesis. -/
theorem C08_validate_documented : ValidateDocumented := by
  intro urlOk md e hf h
  have ho : Validate.outsideD07f Validate.noPath md = true := by
    simp [Validate.outsideD07f, hf, Validate.noPath]
  rcases C07.C07_validate_only_metainfo_error urlOk Validate.noPath md ho with h' | h'
  · rw [h'] at h; cases h
  · rw [h'] at h; cases h; rfl

/-- `validate()` of a torrent (in particular of every returned one): ok or MetainfoError, for
    every metainfo, URL oracle and environment.  **Only remaining hypothesis:**
    `filesNotMapping t` — `info['files']` is not a mapping, the class of the open finding D07f
    (a mapping with `int` keys makes `validate` raise TypeError; a torrent that comes out of
    `read_stream` can have a `files` mapping, but only with `str`/`bytes` keys, for which the code
    answers MetainfoError — that case is evaluated by the driver on every run, not proved).
    C07's statement about `validate` is no longer a hypothesis: `C08_validate_documented`. -/
theorem C08_returned_validate (env : Env) (t : Items)
    (hf : Validate.filesNotMapping t = true) :
    validateT env t = .ok () ∨ validateT env t = .error .metainfo :=
  validateT_doc C08_validate_documented env t hf

/-- `dump()` of a torrent: bytes or MetainfoError, however few frames are left (`env.encFuel`
    arbitrary).  **Only remaining hypothesis:** `filesNotMapping t` (finding D07f), as for
    `C08_returned_validate`. -/
theorem C08_returned_dump (env : Env) (t : Items)
    (hf : Validate.filesNotMapping t = true) :
    (∃ b, dumpT env t true = .ok b) ∨ dumpT env t true = .error .metainfo :=
  dumpT_validate C08_validate_documented env t hf

/-- the hypothesis of `C08_returned_validate` / `C08_returned_dump` is necessary: on C07's D07f
    witness (`files = {0: {…}}`) `validate()` raises TypeError -/
example : Validate.filesNotMapping C07.d07fWitness = false ∧
    errIs (validateT envSmallMem C07.d07fWitness) (.internal "TypeError") = true := by
  decide +kernel

/-- non-vacuity: a valid torrent and one that fails validation satisfy the hypothesis -/
example : Validate.filesNotMapping C07.validWitness = true ∧
    Validate.filesNotMapping deepWitness = true ∧
    errIs (validateT envSmallMem deepWitness) .metainfo = true := by decide +kernel

/-- **Reading untrusted bytes raises only documented errors**: `C08_read_total` with C07's theorem
    plugged in.  For every environment, every byte string up to the read limit and both values of
    `validate`: a torrent (which validates if validation was asked for), BdecodeError or
    MetainfoError.  Remaining hypotheses, both classes of open findings:
    * `¬ HitsMemoryWindow env bs` — the decoder does not reach a length prefix between the
      allocator's limit and 2^63−34 (finding D08f; `C08_read_total_counterexample`);
    * `filesNotMapping` of the torrent that `validate=False` returns for the same bytes (finding
      D07f; only needed for `validate = true`). -/
theorem C08_read_documented (env : Env) (bs : Bytes) (validate : Bool)
    (hlen : bs.length ≤ env.maxSize) (hmem : ¬ HitsMemoryWindow env bs)
    (hf : ∀ t, Untrusted.read env bs false = .ok t → Validate.filesNotMapping t = true) :
    (∃ t, Untrusted.read env bs validate = .ok t ∧ (validate = true → validateT env t = .ok ())) ∨
    Untrusted.read env bs validate = .error .bdecode ∨
    Untrusted.read env bs validate = .error .metainfo := by
  rcases C08_read_total env bs validate hlen hmem with h | h | h | ⟨hv, t, e, h1, h2, h3⟩
  · exact .inl h
  · exact .inr (.inl h)
  · exact .inr (.inr h)
  · subst hv
    rcases C08_returned_validate env t (hf t h1) with h' | h'
    · rw [h'] at h2; cases h2
    · rw [h'] at h2; cases h2; exact .inr (.inr h3)

/-- `dump(validate=False)`: bytes or MetainfoError for every metainfo (non-UTF-8 keys, any types,
    any nesting) and every number of frames — no hypothesis about `validate`. -/
theorem C08_returned_dump_novalidate (env : Env) (t : Items) :
    (∃ b, dumpT env t false = .ok b) ∨ dumpT env t false = .error .metainfo :=
  dumpT_novalidate env t

/-- Nesting beyond the frames that are left is reported as MetainfoError (fix 19d011f; before it
    the RecursionError escaped: former finding D08g). -/
theorem C08_returned_dump_deep (env : Env) (t : Items)
    (hdeep : env.encFuel < 3 + encFramesKvs (Validate.ensureInfo t)) :
    dumpT env t false = .error .metainfo :=
  dumpT_deep env t hdeep

/-- non-vacuity: the witness is too deep for 8 frames and fits into the default frames -/
example : ({ envSmallMem with encFuel := 8 } : Env).encFuel < 3 + encFramesKvs (Validate.ensureInfo deepWitness) := by
  decide
example : 3 + encFramesKvs (Validate.ensureInfo deepWitness) ≤ envSmallMem.encFuel := by decide

/-- Parsing an arbitrary string as a magnet URI returns a magnet or raises MagnetError or URLError,
    whatever `urlparse`, `parse_qs`, `int()` and `is_url` answer (`parse_qs` yields no empty value
    list). -/
theorem C08_magnet_total (o : MagnetOracle) (uri : String)
    (hq : ∀ s q, o.urlparse uri = some (s, q) → QsNonempty (o.parseQs q)) :
    (∃ m, fromString o uri = .ok m) ∨ fromString o uri = .error .magnet ∨
    fromString o uri = .error .url := by
  unfold fromString
  cases hu : o.urlparse uri with
  | none => right; left; rfl
  | some sq =>
    obtain ⟨scheme, query⟩ := sq
    have hq' := hq scheme query hu
    dsimp only
    split
    · right; left; rfl
    · split
      · right; left; rfl
      · cases hw : withXt o (o.parseQs query) with
        | ok m => left; exact ⟨m, rfl⟩
        | error e =>
          rcases withXt_err hq' hw with h | h <;> subst h
          · right; left; rfl
          · right; right; rfl

/-- The decoder is linear: one unit per input byte, per iteration of the outer loop and per
    iteration of the inner pop loop add up to at most 3·|bs| + 2. -/
theorem C08_read_steps (lim : Nat) (bs : Bytes) : parseSteps lim bs ≤ 3 * bs.length + 2 := by
  unfold parseSteps
  have := runSteps_le lim (bs.length + 1) bs []
  simp only [List.length_nil] at this
  omega

end Torf.C08
