/-
  C15 over histories — one `Torrent` object whose settings are changed step by step.

  The created torrent is a function of the tree at `path` and the *current* settings, whatever
  the object went through before: `path` assigned before or after the patterns, patterns changed
  any number of times (each change = `_filters_changed` firing with the lists as they are then),
  states in which every file is excluded, empty directories, `path = None` in between, a single
  file replaced by a directory and back.

  * `C15_history_independent` … after every history, if `_path` is set (and was not re-attached
    by the `files` setter, see below), `info` holds exactly what reading that path with the final
    settings gives — i.e. what a fresh `Torrent(path, <final settings>)` holds
    (`C15_history_eq_fresh`), and under `hypB` the specified torrent (`C15_history_spec`).
  * `C15_history_info_full` … the same for the key `info['name']` in the state without files:
    false (finding D15e: the name of an earlier state stays); `C15_history_info_partial`: with
    files the name is the fresh one.
  * After `path = None` a change of the patterns runs `files = files`, whose `_set_files` sets
    `_path` again if something called like the torrent exists below the cwd (`reattached`); the
    theorems say nothing about that state (it is not "created from a directory or file"); the
    next change of the patterns reads that path and is covered again.
-/
import Torf.Lemmas.CreateHistory
import Torf.Properties.C15
namespace Torf.C15
open Torf Torf.Paths Torf.Create

/-- For every world that lists real names, every sequence of `path` assignments and callback
    firings, from a new object: if `_path` is set at the end (by reading a path), `info` is what
    reading that path with the final settings gives.  No hypothesis on spellings, the cwd, the
    patterns or the shape of the trees. -/
theorem C15_history_independent (o : Oracles) (w : World) (hw : w.Clean) (ops : List HOp)
    (B : PPath)
    (hre : (run o w HSt.init ops).reattached = false)
    (hB : (run o w HSt.init ops).path = some B) :
    scan o (run o w HSt.init ops).st w B = .ok (run o w HSt.init ops).created :=
  HInv_run o w hw HSt.init ops (HInv_init o w) hre B hB

/-- … which is the content (and `info['name']`) of the fresh object `Torrent(path = B, <the final
    settings>)`: constructor = four list assignments, then the path. -/
theorem C15_history_eq_fresh (o : Oracles) (w : World) (hw : w.Clean) (ops : List HOp)
    (B : PPath)
    (hre : (run o w HSt.init ops).reattached = false)
    (hB : (run o w HSt.init ops).path = some B) :
    (run o w HSt.init ops).created = (fresh o w (run o w HSt.init ops).st B).created := by
  have h := C15_history_independent o w hw ops B hre hB
  have hn : pathlibNorm B = B := HNorm_run o w HSt.init ops (fun _ h => by cases h) B hB
  rw [← hn] at h
  exact (fresh_created o w _ B _ h).1.symm

/-- the same from any starting state that satisfies the invariant, e.g. an object made by the
    constructor with other settings (`Torrent(path, <initial patterns>)` and then changes) -/
theorem C15_history_independent_from (o : Oracles) (w : World) (hw : w.Clean) (s0 : HSt)
    (h0 : HInv o w s0) (ops : List HOp) (B : PPath)
    (hre : (run o w s0 ops).reattached = false) (hB : (run o w s0 ops).path = some B) :
    scan o (run o w s0 ops).st w B = .ok (run o w s0 ops).created :=
  HInv_run o w hw s0 ops h0 hre B hB

/-- If `_path` leads to tree `t` (`hypB`: well-formedness only) the history ends in the specified
    torrent for the final settings. -/
theorem C15_history_spec (o : Oracles) (w : World) (hw : w.Clean) (ops : List HOp)
    (B : PPath) (order : List FileEnt) (t : Tree)
    (hre : (run o w HSt.init ops).reattached = false)
    (hB : (run o w HSt.init ops).path = some B)
    (hl : w.listing B = some order)
    (hyp : Spec.hypB ⟨w.cwd, B, order, w.pathExists⟩ t = true) :
    (run o w HSt.init ops).created = Spec.created o (run o w HSt.init ops).st t := by
  have h := C15_history_independent o w hw ops B hre hB
  unfold scan at h
  rw [hl] at h
  simp only [C15_created_env o _ _ t hyp] at h
  exact (Except.ok.inj h).symm

/-- With files in the torrent, `info['name']` is the name stored with them. -/
theorem C15_history_info_partial (o : Oracles) (w : World) (ops : List HOp) (n : String)
    (h : nameOf (run o w HSt.init ops).created = some n) :
    (run o w HSt.init ops).infoName = some n :=
  HName_run o w HSt.init ops (fun _ h => by cases h) n h

/-- the whole `info` dictionary as far as this layer writes it — including the key `name` when
    no file is kept — would be that of the fresh object.  FALSE (finding D15e). -/
def C15_history_info_full : Prop :=
  ∀ (o : Oracles) (w : World), w.Clean → ∀ (ops : List HOp) (B : PPath),
    (run o w HSt.init ops).reattached = false → (run o w HSt.init ops).path = some B →
    (run o w HSt.init ops).infoName = (fresh o w (run o w HSt.init ops).st B).infoName

/-! ### witnesses -/

def witWorld : World :=
  { cwd := ["r", "P"]
    pathExists := fsExists (witFSm ++ [(["r", "P", "f.bin"], some 7), (["r", "P", "E"], none)]) ["r", "P"]
    listing := fun B =>
      if B == ⟨false, ["T"]⟩ then some witTm.files
      else if B == ⟨false, ["f.bin"]⟩ then some [⟨[], 7⟩]
      else if B == ⟨false, ["E"]⟩ then some []
      else none }

theorem witWorld_clean : witWorld.Clean := by
  intro B order h
  unfold witWorld at h
  simp only at h
  split at h
  · cases h; decide
  · split at h
    · cases h; decide
    · split at h
      · cases h; intro f hf; cases hf
      · cases h

def witAll : Settings := ⟨["T/a.txt", "T/sub/b.txt", "T/sub/c.log", "f.bin"], [], [], []⟩
def witNone : Settings := ⟨[], [], [], []⟩

/-- D15e: `Torrent('T')`, then every file excluded: `info` keeps `'name': 'T'`; the fresh
    `Torrent('T', exclude_globs=[…])` has no `name`. -/
theorem C15_history_info_counterexample : ¬ C15_history_info_full := by
  intro h
  exact absurd (h witO witWorld witWorld_clean [.path (some ⟨false, ["T"]⟩), .fire witAll]
    ⟨false, ["T"]⟩ (by decide) (by decide)) (by decide)

/-- non-vacuity: a history through "everything excluded", `path = None`, an empty directory and
    a single file ends, with `_path` set by reading, in what the final settings give -/
example :
    let ops : List HOp := [.fire witAll, .path (some ⟨false, [".", "T"]⟩), .fire witStm,
      .fire witAll, .path none, .fire witNone, .path (some ⟨false, ["E"]⟩),
      .path (some ⟨false, ["f.bin"]⟩), .fire witAll, .fire witNone, .path (some ⟨false, ["T", ""]⟩),
      .fire witAll, .fire witStm]
    let s := run witO witWorld HSt.init ops
    s.reattached = false ∧ s.path = some ⟨false, ["T"]⟩ ∧
    s.created = .multi "T" [(["a.txt"], 3), (["sub", "c.log"], 2)] ∧
    s.created = Spec.created witO witStm witTm := by decide

/-- the intermediate states of such a history: all excluded (stale name), single file, and the
    `ReadError` of a path that does not exist, which changes nothing -/
example :
    (run witO witWorld HSt.init [.path (some ⟨false, ["T"]⟩), .fire witAll]).created = .empty ∧
    (run witO witWorld HSt.init [.path (some ⟨false, ["T"]⟩), .fire witAll]).infoName = some "T" ∧
    (fresh witO witWorld witAll ⟨false, ["T"]⟩).infoName = none ∧
    (run witO witWorld HSt.init [.path (some ⟨false, ["T"]⟩), .fire witAll, .fire witNone]).created
      = (fresh witO witWorld witNone ⟨false, ["T"]⟩).created ∧
    (run witO witWorld HSt.init [.path (some ⟨false, ["f.bin"]⟩)]).created = .single "f.bin" 7 ∧
    (step witO witWorld (run witO witWorld HSt.init [.path (some ⟨false, ["f.bin"]⟩)])
      (.path (some ⟨false, ["nowhere"]⟩))).2 = some .read := by decide

/-- after `path = None` a change of the patterns re-filters the stored list and, because a `T`
    exists below the cwd, sets `_path` again (`reattached`); files excluded in that state are
    gone until the next change of the patterns reads the path -/
example :
    let s := run witO witWorld HSt.init
      [.path (some ⟨false, ["T"]⟩), .path none, .fire ⟨["T/a.txt"], [], [], []⟩]
    s.reattached = true ∧ s.path = some ⟨false, ["T"]⟩ ∧
    (step witO witWorld s (.fire witNone)).1.reattached = false ∧
    (step witO witWorld s (.fire witNone)).1.created
      = (fresh witO witWorld witNone ⟨false, ["T"]⟩).created := by decide

end Torf.C15
