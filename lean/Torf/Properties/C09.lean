/-
  C09 — piece hashes never outlive the content layout they were computed for; the derived
  attributes stay coherent under any history of attribute operations.
  Property theorems only (model: Torf.Model.Attrs, invariant: Torf.Spec.Attrs, helper lemmas:
  Torf.Lemmas.Attrs).
-/
import Torf.Lemmas.Attrs
namespace Torf.C09
open Torf Torf.Attrs

/-- A fresh `Torrent()` satisfies the invariant. -/
theorem C09_inv_init : Inv Attrs.init := by decide

/-- **Step.** Whatever the file system (`env`) looks like, every attribute operation — path,
    files, filepaths and their list mutations, filter-list edits, name, piece size and its
    bounds, hashing, an unrelated field — applied in a state that satisfies the invariant leaves
    a state that satisfies it, *also when the operation raises* (the model returns the state a
    raising setter leaves behind).  Hypothesis `StepOk`: the operation is not a bound assignment
    (`None` counting as the class default) across the other bound (`OpOk`, open finding D09b), and
    it does not fail inside the recalculation of the piece length (the class's
    `calculate_piece_size` raises or returns a value the `piece_size` setter rejects) — for those
    failures see `C09_stamp_step`, `C09_weak_step`, `C09_inv_recovers`, `C09_inv_tracked`. -/
theorem C09_inv_step (env : Env) (s : St) (op : Op) (h : Inv s) (hok : StepOk env s op) :
    Inv (apply env s op).1 :=
  apply_inv h env op hok

/-- **All histories**, of any length, from any state that satisfies the invariant. -/
theorem C09_inv_reachable (env : Env) (ops : List Op) (s : St) (h : Inv s) (hok : AllOk env s ops) :
    Inv (run env s ops) := by
  induction ops generalizing s with
  | nil => exact h
  | cons op ops ih => exact ih _ (apply_inv h env op hok.1) hok.2

/-- … in particular every history on a fresh `Torrent()`. -/
theorem C09_inv_history (env : Env) (ops : List Op) (hok : AllOk env Attrs.init ops) :
    Inv (run env Attrs.init ops) :=
  C09_inv_reachable env ops _ C09_inv_init hok

/-- Operations other than the three kinds of bound assignment that can cross the other bound
    (`piece_size_min = v`, `piece_size_max = v`, `piece_size_max = None`) need no hypothesis at all
    — in particular `piece_size_min = None`. -/
theorem C09_inv_step_unconditional (env : Env) (s : St) (op : Op) (h : Inv s)
    (hop : ∀ v, op ≠ .setMin (some v) ∧ op ≠ .setMax (some v) ∧ op ≠ .setMax none)
    (hnf : (apply env s op).2.faulted = false) :
    Inv (apply env s op).1 := by
  apply apply_inv h env op
  refine ⟨?_, hnf⟩
  cases op with
  | setMin v => cases v with
    | none => exact True.intro
    | some x => exact absurd rfl (hop x).1
  | setMax v => cases v with
    | none => exact absurd rfl (hop 0).2.2
    | some x => exact absurd rfl (hop x).2.1
  | _ => exact True.intro

/-- The full-strength statement (no hypothesis on the operation).  The current code falsifies it. -/
def C09_inv_step_full : Prop :=
  ∀ (env : Env) (s : St) (op : Op), Inv s → Inv (apply env s op).1

/-- D09b: `piece_size_max = 32768` is in force; `piece_size_min = 65536` is stored (nothing is
    raised because no piece size is set) and leaves min > max. -/
theorem C09_inv_step_counterexample : ¬ C09_inv_step_full := by
  intro h
  have := h ⟨[], [], []⟩ { Attrs.init with pmax := 32768 } (.setMin (some 65536)) (by decide)
  revert this; decide

/-- **Resetting a bound** (repaired finding D09c, fix 2a4faa5).  `piece_size_max = None` in a
    state whose minimum does not exceed the class default keeps the invariant, and afterwards the
    piece length, if any, is at most the default maximum of 16 MiB (it is clamped, and the hashes
    are dropped if that changed it); `piece_size_min = None` needs no hypothesis. -/
theorem C09_inv_bound_reset (env : Env) (s : St) (h : Inv s) :
    Inv (apply env s (.setMin none)).1 ∧
    (s.pmin ≤ defaultMax →
      Inv (apply env s (.setMax none)).1 ∧ (apply env s (.setMax none)).1.pmax = defaultMax ∧
      ∀ pl, (apply env s (.setMax none)).1.pl = some pl → pl ≤ defaultMax) := by
  refine ⟨apply_inv h env _ ⟨True.intro, setMin_not_faulted s none⟩, fun hle => ?_⟩
  have hi : Inv (apply env s (.setMax none)).1 :=
    apply_inv h env (.setMax none) ⟨hle, setMax_not_faulted s none⟩
  have hm : (apply env s (.setMax none)).1.pmax = defaultMax := setMax_none_pmax s
  refine ⟨hi, hm, fun pl hp => ?_⟩
  have hpl := hi.2.2.2.1
  unfold PlOk at hpl
  rw [hp, hm] at hpl
  exact hpl.2.2

/-- regression of the D09c witness: explicit maximum 32 MiB, piece size 32 MiB, then
    `piece_size_max = None` — the invariant holds and the piece size was clamped to 16 MiB -/
example : Inv (apply ⟨[], [], []⟩ { Attrs.init with pmax := 33554432, pl := some 33554432 } (.setMax none)).1 ∧
    (apply ⟨[], [], []⟩ { Attrs.init with pmax := 33554432, pl := some 33554432 } (.setMax none)).1.pl
      = some 16777216 := by decide

/-- **Crossing, then corrected** (narrows D09b).  A bound assignment — whatever it does: cross the
    other bound, raise after storing the bound — followed directly by an accepted assignment
    (`None` or a positive multiple of 16 KiB) of the *same* bound that does not cross the other
    bound leaves a state satisfying the invariant.  So the damage of D09b is confined to the
    bound itself and is undone by re-assigning that bound (piece length and hashes were not
    touched by the crossing assignment). -/
theorem C09_inv_corrected_step (env : Env) (s : St) (op op' : Op) (h : Inv s)
    (hs : sameBound op op' = true) (hok : OpOk s op') :
    Inv (apply env (apply env s op).1 op').1 :=
  apply_corrected_inv h env op op' hs hok

/-- All histories in which every bound assignment across the other bound is directly followed by
    such a corrective assignment (hypothesis `AllOkC`, evaluated by the driver as `hypC`). -/
theorem C09_inv_reachable_corrected (env : Env) (ops : List Op) (s : St) (h : Inv s)
    (hok : AllOkC env s ops) : Inv (run env s ops) :=
  allOkC_inv env ops s h hok

theorem C09_inv_history_corrected (env : Env) (ops : List Op) (hok : AllOkC env Attrs.init ops) :
    Inv (run env Attrs.init ops) :=
  allOkC_inv env ops _ C09_inv_init hok

/-- `AllOkC` is weaker than `AllOk`: the `_corrected` theorems subsume `C09_inv_reachable/history`. -/
theorem C09_allOk_corrected (env : Env) (ops : List Op) (s : St) (hok : AllOk env s ops) :
    AllOkC env s ops :=
  allOk_allOkC env ops s hok

/-! ### operations that fail half-way, and the object is used again

`_set_files` (the routine behind `path`, `files`, `filepaths`, their list edits and the callback of
the four filter lists) writes the new file list first and recalculates the piece length last; the
recalculation can fail — the class's `calculate_piece_size` raises (the stock method: beyond the
range of a float) or returns a value the `piece_size` setter rejects (an override; bounds that
crossed) — and the caller may catch the error and go on.  `Env.rules` describes the class, so the
theorems below hold for every such class. -/

/-- a fresh `Torrent()` satisfies both weaker invariants -/
theorem C09_stamp_init : InvS Attrs.init ∧ InvW Attrs.init := by decide

/-- **Step, no hypothesis at all.**  Whatever the operation, the file system and the class's
    `calculate_piece_size` do, whether the operation completes, is rejected, or fails half-way
    after it has already replaced the file list: in the state it leaves behind the mode matches
    the file list and piece hashes, if present, are the ones computed for the **current** content
    path, file list and piece length (`InvS`).  No `OpOk` either: this also covers the states of
    open finding D09b (minimum above maximum). -/
theorem C09_stamp_step (env : Env) (s : St) (op : Op) (h : InvS s) : InvS (apply env s op).1 :=
  apply_invS h env op

theorem C09_stamp_reachable (env : Env) (ops : List Op) (s : St) (h : InvS s) :
    InvS (run env s ops) := by
  induction ops generalizing s with
  | nil => exact h
  | cons op ops ih => exact ih _ (apply_invS h env op)

/-- **All histories, no hypothesis**: after any sequence of operations on a fresh `Torrent()` —
    failed ones included, and whatever came after them — hashes never outlive their layout. -/
theorem C09_stamp_history (env : Env) (ops : List Op) : InvS (run env Attrs.init ops) :=
  C09_stamp_reachable env ops _ C09_stamp_init.1

/-- the same, read off for the hashes: if hashes are present after an operation — in particular
    after one that **raised** —, they describe the current path, layout and piece length, their
    number is `ceil(size / piece length)`, and unless the operation was `generate()` they are the
    hashes that were there before and nothing they depend on was changed by the operation -/
theorem C09_failed_step_no_stale_hashes (env : Env) (s : St) (op : Op) (h : InvS s)
    (hex : PathEx env s) (g : Ghost) (hg : (apply env s op).1.pieces = some g) :
    Current (apply env s op).1 g ∧
    (op ≠ .generate → s.pieces = some g ∧ (apply env s op).1.path = s.path ∧
      (apply env s op).1.content = s.content ∧ (apply env s op).1.pl = s.pl) := by
  refine ⟨?_, fun hop => ?_⟩
  · have := (apply_invS h env op).2
    unfold StampOk at this; rw [hg] at this; exact this
  · obtain ⟨a, b, c, d, _⟩ := apply_same h env hex op hop g hg
    exact ⟨by rw [← a]; exact hg, b, c, d⟩

/-- **What a failing `_set_files` leaves behind** (the model of the failed step): the new name
    and file list, the new content path, **no hashes**, and the piece length and bounds it found. -/
theorem C09_set_files_failed (env : Env) (s : St) (files : List (Path × Nat)) (bp : Option Path)
    (hf : (setFilesCore env s files bp).2 ≠ .ok) :
    (setFilesCore env s files bp).2.faulted = true ∧
    (setFilesCore env s files bp).1.pieces = none ∧
    (setFilesCore env s files bp).1.pl = s.pl ∧
    (setFilesCore env s files bp).1.content = (place s.name (filterFiles s files (bp.getD [])) (bp.getD [])).1 ∧
    (setFilesCore env s files bp).1.pmin = s.pmin ∧ (setFilesCore env s files bp).1.pmax = s.pmax := by
  unfold setFilesCore at hf ⊢
  simp only at hf ⊢
  generalize hs2 : ({ s with content := _, name := _, pieces := none, path := _ } : St) = s2 at hf ⊢
  rcases recalc_cases env s2 with ⟨_, e⟩ | ⟨_, e, hfl⟩ | ⟨_, n, _, _, _, e⟩
  · rw [e] at hf; exact absurd rfl hf
  · rw [e]; subst hs2; exact ⟨hfl, rfl, rfl, rfl, rfl, rfl⟩
  · rw [e] at hf; exact absurd rfl hf

/-- **Step that may fail inside the recalculation**: under `OpOk` everything of the invariant
    survives except "content of positive size has a piece length" — bounds, the 16 KiB rule, the
    piece length (the previous one, if the recalculation failed) within the bounds, mode, hashes. -/
theorem C09_weak_step (env : Env) (s : St) (op : Op) (h : InvW s) (hok : OpOk s op) :
    InvW (apply env s op).1 :=
  apply_invW h env op hok

theorem C09_weak_reachable (env : Env) (ops : List Op) (s : St) (h : InvW s)
    (hok : AllOpOk env s ops) : InvW (run env s ops) := by
  induction ops generalizing s with
  | nil => exact h
  | cons op ops ih => exact ih _ (apply_invW h env op hok.1) hok.2

theorem C09_weak_history (env : Env) (ops : List Op) (hok : AllOpOk env Attrs.init ops) :
    InvW (run env Attrs.init ops) :=
  C09_weak_reachable env ops _ C09_stamp_init.2 hok

/-- **Recovery**: after a failed operation (any state satisfying `InvW`), the next content or
    `piece_size` assignment that completes restores the full invariant. -/
theorem C09_inv_recovers (env : Env) (s : St) (op : Op) (h : InvW s) (hok : OpOk s op)
    (hr : restores op = true) (hres : (apply env s op).2 = .ok) : Inv (apply env s op).1 :=
  Inv.of_weak (apply_invW h env op hok) (apply_restores env s op hr hres)

/-- one tracked step: `InvW` always, `Inv` if `fullAfter` says so -/
theorem C09_inv_tracked_step (env : Env) (s : St) (full : Bool) (op : Op) (h : InvW s)
    (hfull : full = true → Inv s) (hok : OpOk s op) :
    InvW (apply env s op).1 ∧ (fullAfter env s full op = true → Inv (apply env s op).1) := by
  refine ⟨apply_invW h env op hok, fun hfa => ?_⟩
  unfold fullAfter at hfa
  split at hfa
  · exact Bool.noConfusion hfa
  · rename_i hnf
    have hnf' : (apply env s op).2.faulted = false := by simpa using hnf
    cases full with
    | true => exact apply_inv (hfull rfl) env op ⟨hok, hnf'⟩
    | false =>
      simp only [Bool.false_or, Bool.and_eq_true, decide_eq_true_eq] at hfa
      exact C09_inv_recovers env s op h hok hfa.1 hfa.2

/-- **Histories with failing steps** (every operation satisfies `OpOk`; failures inside the
    recalculation are allowed anywhere): `InvW` holds at the end, and the full invariant holds
    whenever the tracker `runFull` says so — it is lost by a step that fails inside the
    recalculation and regained by the next content / `piece_size` assignment that completes. -/
theorem C09_inv_tracked (env : Env) (ops : List Op) : ∀ (s : St) (full : Bool), InvW s →
    (full = true → Inv s) → AllOpOk env s ops →
    InvW (run env s ops) ∧ (runFull env s full ops = true → Inv (run env s ops)) := by
  induction ops with
  | nil => intro s full h hfull _; exact ⟨h, hfull⟩
  | cons op ops ih =>
    intro s full h hfull hok
    obtain ⟨h1, h2⟩ := C09_inv_tracked_step env s full op h hfull hok.1
    exact ih _ _ h1 h2 hok.2

theorem C09_inv_tracked_history (env : Env) (ops : List Op) (hok : AllOpOk env Attrs.init ops) :
    InvW (run env Attrs.init ops) ∧
    (runFull env Attrs.init true ops = true → Inv (run env Attrs.init ops)) :=
  C09_inv_tracked env ops _ true C09_stamp_init.2 (fun _ => C09_inv_init) hok

/-- **The stock class**: with no overriding clause and a size below the float limit, the class's
    method is the integer function `calcPieceSize`, the `None` route of the `piece_size` setter is
    `setPieceSize s none`, and — the bounds being legal and not crossed — it cannot fail.  So for
    the stock class a recalculation fails only beyond the float limit or in a D09b state. -/
theorem C09_recalc_stock (env : Env) (s : St) (hr : env.rules = []) (hsz : size s < floatLimit) :
    (recalc env s).1 = (setPieceSize s none).1 ∧
    (s.pmin ≤ s.pmax → Mult16 s.pmin → Mult16 s.pmax → (recalc env s).2 = .ok) := by
  have hc : calcOf env (size s) s.pmin s.pmax =
      .value (calcPieceSize (size s) s.pmin s.pmax : Nat) := by
    unfold calcOf
    rw [hr]
    simp only [List.find?_nil]
    rw [if_neg (by omega)]
  refine ⟨(recalc_stock env s hc).1, fun hb hmn hmx => ?_⟩
  unfold recalc
  split
  · rfl
  · rw [hc]
    simp only
    have hbd := calc_bounds (size s) s.pmin s.pmax hb
    have hm := calc_mult16 (size s) s.pmin s.pmax hb hmn hmx
    rcases checkAndStore_cases s (calcPieceSize (size s) s.pmin s.pmax : Nat) with he | ⟨m, _, _, _, _, he⟩
    · exfalso
      unfold checkAndStore at he
      have hd : divisible ((calcPieceSize (size s) s.pmin s.pmax : Nat) : Int) = true := by
        unfold Mult16 at hm
        simp only [divisible, Bool.and_eq_true, decide_eq_true_eq, beq_iff_eq]; omega
      have hbnd : ((s.pmin : Int) ≤ (calcPieceSize (size s) s.pmin s.pmax : Nat) &&
          ((calcPieceSize (size s) s.pmin s.pmax : Nat) : Int) ≤ s.pmax) = true := by
        simp only [Bool.and_eq_true, decide_eq_true_eq]; omega
      simp only [hd, hbnd, Bool.not_true, Bool.false_eq_true, if_false] at he
      have := congrArg Prod.snd he
      simp at this
    · rw [he]

/-- … and beyond the float limit the stock method raises: the recalculation fails, the state is
    untouched -/
theorem C09_recalc_overflow (env : Env) (s : St) (hr : env.rules = []) (hsz : floatLimit ≤ size s) :
    recalc env s = (s, .err (.calcRaised "OverflowError")) := by
  have hpos : ¬ size s ≤ 0 := by unfold floatLimit at hsz; have := Nat.two_pow_pos 1036; omega
  unfold recalc
  rw [if_neg hpos]
  unfold calcOf
  rw [hr]
  simp only [List.find?_nil]
  rw [if_pos hsz]

/-- `size` is the sum of the sizes of the listed files — in every state. -/
theorem C09_size_sum (s : St) : size s = ((filesOf s).map (·.2)).sum := by
  unfold size filesOf sizeC
  cases s.content with
  | none => rfl
  | single n => simp
  | multi fs => simp [sumSizes, List.map_map, Function.comp_def]

/-- mode matches the file list: `None` iff nothing is listed, `singlefile` lists exactly one
    file (named like the torrent), `multifile` lists at least one. -/
theorem C09_mode_files (s : St) (h : Inv s) :
    (mode s = 0 ↔ filesOf s = []) ∧ (mode s = 1 → (filesOf s).length = 1) ∧
    (mode s = 2 → 0 < (filesOf s).length) ∧ (mode s = 0 ↔ size s = 0) := by
  have hc := h.2.2.2.2.2.1
  unfold mode filesOf size
  cases hcont : s.content with
  | none => simp [sizeC]
  | single n =>
    rw [hcont] at hc
    have : 0 < n := hc
    simp [sizeC]; omega
  | multi fs =>
    rw [hcont] at hc
    have hpos := sumSizes_pos_of_any fs hc
    cases fs with
    | nil => simp [sumSizes] at hpos
    | cons a t => simp [sizeC]; omega

/-- The piece length, when present, is a multiple of 16 KiB within `[min, max]`, `min ≤ max`,
    and the number of stored digests is `ceil(size / piece length)` (read off the invariant). -/
theorem C09_coherent (s : St) (h : Inv s) :
    s.pmin ≤ s.pmax ∧
    (∀ pl, s.pl = some pl → pl % 16384 = 0 ∧ 0 < pl ∧ s.pmin ≤ pl ∧ pl ≤ s.pmax) ∧
    (∀ g, s.pieces = some g → ∃ pl, s.pl = some pl ∧ g.count = nPieces pl (size s)) := by
  obtain ⟨hb, _, _, hpl, _, _, hs⟩ := h
  refine ⟨hb, ?_, ?_⟩
  · intro pl hp
    unfold PlOk at hpl; rw [hp] at hpl
    exact ⟨hpl.1.2, hpl.1.1, hpl.2.1, hpl.2.2⟩
  · intro g hg
    unfold StampOk at hs; rw [hg] at hs
    exact ⟨g.pl, hs.2.2.1, hs.2.2.2.1⟩

/-- **Ready ⇒ the stamp is current.**  If `is_ready` holds in a state satisfying the invariant,
    piece hashes are present, they were computed at the current content path for the current
    layout and the current piece length, their number is `ceil(size / piece length) > 0`, and
    (by `validate`'s own file-system checks) every listed file exists with the listed size.
    Together with C01 (`generate` stores the SHA-1 chunks of exactly that layout) and C02
    (`verify` recomputes them) this is "a ready torrent verifies against its own path". -/
theorem C09_ready_current (env : Env) (s : St) (h : Inv s) (hr : isReady env s = true) :
    ∃ g p, s.pieces = some g ∧ s.path = some p ∧ g.path = p ∧ g.layout = layout s.content ∧
      s.pl = some g.pl ∧ Mult16 g.pl ∧ g.count = nPieces g.pl (size s) ∧ 0 < g.count ∧
      (∀ f ∈ layout s.content, env.sizeOf? (p ++ f.path) = some f.size) := by
  obtain ⟨_, _, _, hpl, _, _, hs⟩ := h
  unfold isReady at hr
  simp only [Bool.and_eq_true] at hr
  obtain ⟨⟨⟨_, _⟩, h3⟩, h4⟩ := hr
  cases hp : s.pieces with
  | none => rw [hp] at h3; simp at h3
  | some g =>
    unfold StampOk at hs; rw [hp] at hs
    obtain ⟨c1, c2, c3, c4, _⟩ := hs
    unfold PlOk at hpl; rw [c3] at hpl
    rw [hp, c3] at h3
    simp only [Bool.and_eq_true, bne_iff_ne, ne_eq] at h3
    refine ⟨g, g.path, rfl, c1, rfl, c2, c3, hpl.1, c4, by omega, ?_⟩
    rw [c1] at h4
    cases hc : s.content with
    | none => rw [hc] at h4; simp at h4
    | single n =>
      rw [hc] at h4
      simp only [Bool.and_eq_true, beq_iff_eq] at h4
      intro f hf
      simp only [layout, List.mem_singleton] at hf
      subst hf
      simpa using h4.2
    | multi fs =>
      rw [hc] at h4
      simp only [Bool.and_eq_true, List.all_eq_true, beq_iff_eq] at h4
      intro f hf
      exact h4.2 f hf

/-- **Discard.** In a state satisfying the invariant whose content path (if any) exists, if piece
    hashes are present after an operation other than `generate`, they are the ones present
    before, and the operation changed neither the content path, the listed files and their
    sizes, the piece length, nor any of the four filter lists.  Contrapositive: whenever the set
    of files, their sizes, the filters or the piece length change, previously computed hashes are
    discarded.  The operations include every edit of a filter list — slice and index assignment
    (so `torrent.exclude_globs = […]`), `append`, `insert`, `extend`, `+=` on the list and on the
    attribute, `del` (item and slice), `pop`, `remove`, `clear`, `reverse`, re-assigning the value
    the list already has — on all four lists,
    with any items, duplicates included (no exclusion for D09d any more: fix e62ce6d). -/
theorem C09_pieces_survive_only_unchanged (env : Env) (s : St) (op : Op) (h : InvS s)
    (hex : PathEx env s) (hop : op ≠ .generate) (g : Ghost)
    (hg : (apply env s op).1.pieces = some g) :
    s.pieces = some g ∧ (apply env s op).1.path = s.path ∧
    (apply env s op).1.content = s.content ∧ (apply env s op).1.pl = s.pl ∧
    (apply env s op).1.exGlobs = s.exGlobs ∧ (apply env s op).1.inGlobs = s.inGlobs ∧
    (apply env s op).1.exRegexs = s.exRegexs ∧ (apply env s op).1.inRegexs = s.inRegexs := by
  obtain ⟨a, b, c, d, e, f, g', h'⟩ := apply_same h env hex op hop g hg
  exact ⟨by rw [← a]; exact hg, b, c, d, e, f, g', h'⟩

/-- **An accepted edit of a filter list discards the hashes** (the callback `_filters_changed`
    re-runs `path = path` / `files = files`, which pops `pieces`), whatever the edit leaves in the
    list — also when it leaves the list as it was (`x = x`, `append` of a present pattern). -/
theorem C09_filter_edit_discards (env : Env) (s : St) (h : InvS s) (hex : PathEx env s) (inc : Bool) :
    (∀ l, (filtersChanged env (putGlobs s inc l)).1.pieces = none) ∧
    (∀ l, (filtersChanged env (putRxs s inc l)).1.pieces = none) :=
  ⟨fun l => put_none env _ (putGlobs_ok env inc) h hex l,
   fun l => put_none env _ (putRxs_ok env inc) h hex l⟩

/-! ### slice and index assignment on the filter lists (`MonitoredList.__setitem__`, fix e62ce6d) -/

/-- **The re-adding loop is first-occurrence-wins de-duplication**: `ML.readd` (the code's loop
    through `_filter_func`) is the specification `dedupFirst`; the result has no duplicates, has
    exactly the members of the assigned list, and a duplicate-free list is left as it is. -/
theorem C09_readd_spec {α : Type} [DecidableEq α] (l : List α) :
    ML.readd l = dedupFirst l ∧ (ML.readd l).Nodup ∧ (∀ y, y ∈ ML.readd l ↔ y ∈ l) ∧
    (l.Nodup → ML.readd l = l) := by
  rw [readd_eq_dedupFirst]
  exact ⟨rfl, nodup_dedupFirst l, mem_dedupFirst l, dedupFirst_of_nodup l⟩

/-- **A rejected item changes nothing.**  If one of the new items of a slice assignment (so of
    `torrent.exclude_regexs = vs`), the item of an index assignment or of `append` is not a valid
    regular expression, the operation raises `re.error` and the state is exactly the state before
    (list, files, hashes); an index assignment with a valid item and an index out of range
    raises `IndexError` and changes nothing. -/
theorem C09_filter_assign_rejected (env : Env) (s : St) (inc : Bool) :
    (∀ a b vs, vs.all Rx.valid = false →
      apply env s (.rx inc (.setSlice a b vs)) = (s, .err .regex)) ∧
    (∀ i v, Rx.valid v = false → apply env s (.rx inc (.setIndex i v)) = (s, .err .regex)) ∧
    (∀ v, Rx.valid v = false → apply env s (.rx inc (.append v)) = (s, .err .regex)) ∧
    (∀ i v, Rx.valid v = true → ML.pyIndex (getRxs s inc).length i = none →
      apply env s (.rx inc (.setIndex i v)) = (s, .err .index)) ∧
    (∀ i v, ML.pyIndex (getGlobs s inc).length i = none →
      apply env s (.glob inc (.setIndex i v)) = (s, .err .index)) := by
  refine ⟨fun a b vs hv => ?_, fun i v hv => ?_, fun v hv => ?_, fun i v hv hi => ?_, fun i v hi => ?_⟩
  · simp [apply, applyL, setSliceL, hv]
  · simp [apply, applyL, setIndexL, hv]
  · simp [apply, applyL, appendL, hv]
  · simp [apply, applyL, setIndexL, hv, hi]
  · simp [apply, applyL, setIndexL, hi]

/-- **An accepted slice assignment** `lst[a:b] = vs` (all items valid; a glob list accepts every
    item): the list afterwards is the spliced list with later duplicates dropped — duplicates
    among the new items and items that are already in the part of the list that stays —, the
    other three lists are untouched, and everything else is what the callback makes of it. -/
theorem C09_filter_assign (env : Env) (s : St) (inc : Bool) (a : Nat) (b : Option Nat) :
    (∀ vs, apply env s (.glob inc (.setSlice a b vs)) =
        filtersChanged env (putGlobs s inc (dedupFirst (ML.spliced (getGlobs s inc) a b vs))) ∧
      getGlobs (apply env s (.glob inc (.setSlice a b vs))).1 inc =
        dedupFirst (ML.spliced (getGlobs s inc) a b vs)) ∧
    (∀ vs, vs.all Rx.valid = true →
      apply env s (.rx inc (.setSlice a b vs)) =
        filtersChanged env (putRxs s inc (dedupFirst (ML.spliced (getRxs s inc) a b vs))) ∧
      getRxs (apply env s (.rx inc (.setSlice a b vs))).1 inc =
        dedupFirst (ML.spliced (getRxs s inc) a b vs)) := by
  constructor
  · intro vs
    have e : apply env s (.glob inc (.setSlice a b vs)) =
        filtersChanged env (putGlobs s inc (dedupFirst (ML.spliced (getGlobs s inc) a b vs))) := by
      simp [apply, applyL, setSliceL, readd_eq_dedupFirst]
    exact ⟨e, by rw [e]; exact get_changed env _ _ (globs_lens inc) s _⟩
  · intro vs hv
    have e : apply env s (.rx inc (.setSlice a b vs)) =
        filtersChanged env (putRxs s inc (dedupFirst (ML.spliced (getRxs s inc) a b vs))) := by
      simp [apply, applyL, setSliceL, readd_eq_dedupFirst, hv]
    exact ⟨e, by rw [e]; exact get_changed env _ _ (rxs_lens inc) s _⟩

/-- **An accepted index assignment** `lst[i] = v`: the item at (Python) position `i` is replaced
    and later duplicates are dropped (so assigning an item that is elsewhere in the list shortens
    the list instead of storing `None`). -/
theorem C09_filter_assign_index (env : Env) (s : St) (inc : Bool) (i : Int) (j : Nat) :
    (∀ v, ML.pyIndex (getGlobs s inc).length i = some j →
      getGlobs (apply env s (.glob inc (.setIndex i v))).1 inc =
        dedupFirst ((getGlobs s inc).set j v)) ∧
    (∀ v, Rx.valid v = true → ML.pyIndex (getRxs s inc).length i = some j →
      getRxs (apply env s (.rx inc (.setIndex i v))).1 inc = dedupFirst ((getRxs s inc).set j v)) := by
  constructor
  · intro v hi
    have e : apply env s (.glob inc (.setIndex i v)) =
        filtersChanged env (putGlobs s inc (dedupFirst ((getGlobs s inc).set j v))) := by
      simp [apply, applyL, setIndexL, readd_eq_dedupFirst, hi]
    rw [e]; exact get_changed env _ _ (globs_lens inc) s _
  · intro v hv hi
    have e : apply env s (.rx inc (.setIndex i v)) =
        filtersChanged env (putRxs s inc (dedupFirst ((getRxs s inc).set j v))) := by
      simp [apply, applyL, setIndexL, readd_eq_dedupFirst, hi, hv]
    rw [e]; exact get_changed env _ _ (rxs_lens inc) s _

/-- **The filter lists stay well formed**: a fresh `Torrent()` has duplicate-free filter lists
    whose regex lists hold only valid patterns, and *every* operation — raising or not, with any
    arguments, no hypothesis — keeps that (D09d left `[None]` in a list). -/
theorem C09_filters_ok_init : FiltersOk Attrs.init := by decide

theorem C09_filters_ok_step (env : Env) (s : St) (op : Op) (h : FiltersOk s) :
    FiltersOk (apply env s op).1 :=
  apply_filtersOk h env op

theorem C09_filters_ok_history (env : Env) (ops : List Op) :
    FiltersOk (run env Attrs.init ops) := by
  suffices ∀ s, FiltersOk s → FiltersOk (run env s ops) from this _ C09_filters_ok_init
  induction ops with
  | nil => intro s h; exact h
  | cons op ops ih => intro s h; exact ih _ (apply_filtersOk h env op)

/-- Only an edit of a filter list changes a filter list. -/
theorem C09_filters_only_by_edit (env : Env) (s : St) (op : Op) (hg : ∀ inc o, op ≠ .glob inc o)
    (hr : ∀ inc o, op ≠ .rx inc o) :
    (apply env s op).1.exGlobs = s.exGlobs ∧ (apply env s op).1.inGlobs = s.inGlobs ∧
    (apply env s op).1.exRegexs = s.exRegexs ∧ (apply env s op).1.inRegexs = s.inRegexs :=
  apply_filt env s op hg hr

/-- **Re-assigning the value a list already has** (`torrent.exclude_globs = torrent.exclude_globs`,
    `lst[:] = lst`, or assigning a list equal to the current one a second time — the case the
    thorough tier found before fix e62ce6d): in a state with well-formed filter lists this is
    exactly one run of the callback; no list changes (and, by `C09_filter_edit_discards`, the
    hashes are dropped). -/
theorem C09_filter_reassign_same (env : Env) (s : St) (h : FiltersOk s) (inc : Bool) :
    apply env s (.glob inc .assignSelf) = filtersChanged env s ∧
    apply env s (.glob inc (.setSlice 0 none (getGlobs s inc))) = filtersChanged env s ∧
    apply env s (.rx inc .assignSelf) = filtersChanged env s ∧
    apply env s (.rx inc (.setSlice 0 none (getRxs s inc))) = filtersChanged env s := by
  rw [filtersOk_iff] at h
  have hg : putGlobs s inc (ML.readd (ML.spliced (getGlobs s inc) 0 none (getGlobs s inc))) = s := by
    rw [spliced_self, readd_eq_dedupFirst, dedupFirst_of_nodup _ (h.1 inc).1]
    unfold putGlobs getGlobs; cases inc <;> rfl
  have hr : putRxs s inc (ML.readd (ML.spliced (getRxs s inc) 0 none (getRxs s inc))) = s := by
    rw [spliced_self, readd_eq_dedupFirst, dedupFirst_of_nodup _ (h.2 inc).1]
    unfold putRxs getRxs; cases inc <;> rfl
  have hv : (getRxs s inc).all Rx.valid = true := (h.2 inc).2
  refine ⟨?_, ?_, ?_, ?_⟩
  · simp only [apply, applyL, setSliceL]; simp [hg]
  · simp only [apply, applyL, setSliceL]; simp [hg]
  · simp only [apply, applyL, setSliceL, hv]; simp [hr]
  · simp only [apply, applyL, setSliceL, hv]; simp [hr]

/-- **`torrent.exclude_globs += vs` is `extend(vs)`** followed — if `extend` did not raise — by one
    more run of the callback (the setter receives the list itself: former finding D09d, where
    this left `[None]`).  The lists afterwards are those `extend` left. -/
theorem C09_filter_iadd_attr (env : Env) (s : St) (h : FiltersOk s) (inc : Bool) :
    (∀ vs, apply env s (.glob inc (.iaddAttr vs)) =
      if (apply env s (.glob inc (.extend vs))).2 = .ok
      then filtersChanged env (apply env s (.glob inc (.extend vs))).1
      else apply env s (.glob inc (.extend vs))) ∧
    (∀ vs, apply env s (.rx inc (.iaddAttr vs)) =
      if (apply env s (.rx inc (.extend vs))).2 = .ok
      then filtersChanged env (apply env s (.rx inc (.extend vs))).1
      else apply env s (.rx inc (.extend vs))) := by
  constructor
  · intro vs
    have h' := C09_filters_ok_step env s (.glob inc (.extend vs)) h
    have e := (C09_filter_reassign_same env _ h' inc).1
    by_cases hok : (apply env s (.glob inc (.extend vs))).2 = .ok
    · rw [if_pos hok, ← e]
      simp only [apply] at hok ⊢
      rw [iaddAttr_eq]
      simp only [applyL] at hok ⊢
      rw [if_pos hok]
    · rw [if_neg hok]
      simp only [apply] at hok ⊢
      rw [iaddAttr_eq]
      simp only [applyL] at hok ⊢
      rw [if_neg hok]
  · intro vs
    have h' := C09_filters_ok_step env s (.rx inc (.extend vs)) h
    have e := (C09_filter_reassign_same env _ h' inc).2.2.1
    by_cases hok : (apply env s (.rx inc (.extend vs))).2 = .ok
    · rw [if_pos hok, ← e]
      simp only [apply] at hok ⊢
      rw [iaddAttr_eq]
      simp only [applyL] at hok ⊢
      rw [if_pos hok]
    · rw [if_neg hok]
      simp only [apply] at hok ⊢
      rw [iaddAttr_eq]
      simp only [applyL] at hok ⊢
      rw [if_neg hok]

/-- **`lst.reverse()`** (fix 3d3793a: one slice assignment `self[:] = self._items[::-1]`; the
    inherited `MutableSequence.reverse()` swapped items by pairs of index assignments, whose first
    half creates a duplicate that is dropped, so a pattern was lost and `IndexError` raised).  In
    a state with well-formed filter lists the operation is exactly one run of the callback on the
    state whose list is the reversed list: the list afterwards is **exactly** the reversed list
    (nothing dropped, nothing stored twice), the callback does not touch it, and — in a state
    satisfying the invariant whose content path exists — the piece hashes are discarded. -/
theorem C09_filter_reverse (env : Env) (s : St) (h : FiltersOk s) (inc : Bool) :
    apply env s (.glob inc .reverse) = filtersChanged env (putGlobs s inc (getGlobs s inc).reverse) ∧
    getGlobs (apply env s (.glob inc .reverse)).1 inc = (getGlobs s inc).reverse ∧
    apply env s (.rx inc .reverse) = filtersChanged env (putRxs s inc (getRxs s inc).reverse) ∧
    getRxs (apply env s (.rx inc .reverse)).1 inc = (getRxs s inc).reverse ∧
    (Inv s → PathEx env s →
      (apply env s (.glob inc .reverse)).1.pieces = none ∧
      (apply env s (.rx inc .reverse)).1.pieces = none) := by
  rw [filtersOk_iff] at h
  have eg : apply env s (.glob inc .reverse) =
      filtersChanged env (putGlobs s inc (getGlobs s inc).reverse) := by
    simp only [apply, applyL, setSliceL]
    simp [spliced_all, readd_eq_dedupFirst, dedupFirst_of_nodup _ (nodup_reverse (h.1 inc).1)]
  have er : apply env s (.rx inc .reverse) =
      filtersChanged env (putRxs s inc (getRxs s inc).reverse) := by
    have hv : (getRxs s inc).reverse.all Rx.valid = true := by rw [List.all_reverse]; exact (h.2 inc).2
    simp only [apply, applyL, setSliceL, hv]
    simp [spliced_all, readd_eq_dedupFirst, dedupFirst_of_nodup _ (nodup_reverse (h.2 inc).1)]
  refine ⟨eg, ?_, er, ?_, fun hi hex => ⟨?_, ?_⟩⟩
  · rw [eg]; exact get_changed env _ _ (globs_lens inc) s _
  · rw [er]; exact get_changed env _ _ (rxs_lens inc) s _
  · rw [eg]; exact put_none env _ (putGlobs_ok env inc) hi.stamp hex _
  · rw [er]; exact put_none env _ (putRxs_ok env inc) hi.stamp hex _

/-- **The other in-place edits**, each through the primitives of `MonitoredList`
    (`insert`, `__delitem__`, the callback).  `insert(i, v)`: a rejected item raises `re.error` and
    changes nothing; a present item only runs the callback; a new item goes to Python's clamped
    position.  `pop(i)` / `del lst[i]`: `IndexError` and nothing changed for an index out of range,
    else the item is erased.  `remove(v)`: `ValueError` and nothing changed if `v` is not in the
    list, else its (only) occurrence is erased.  `del lst[a:b]`: the slice is cut out.  Every
    accepted one is one run of the callback (so the hashes go: `C09_filter_edit_discards`). -/
theorem C09_filter_inplace_edits (env : Env) (s : St) (inc : Bool) :
    (∀ i v, Rx.valid v = false → apply env s (.rx inc (.insert i v)) = (s, .err .regex)) ∧
    (∀ i v, Rx.valid v = true → v ∈ getRxs s inc →
      apply env s (.rx inc (.insert i v)) = filtersChanged env s) ∧
    (∀ i v, Rx.valid v = true → v ∉ getRxs s inc →
      apply env s (.rx inc (.insert i v)) = filtersChanged env (putRxs s inc
        ((getRxs s inc).take (ML.insertPos (getRxs s inc).length i) ++
          v :: (getRxs s inc).drop (ML.insertPos (getRxs s inc).length i)))) ∧
    (∀ i, ML.pyIndex (getRxs s inc).length i = none →
      apply env s (.rx inc (.pop i)) = (s, .err .index)) ∧
    (∀ i j, ML.pyIndex (getRxs s inc).length i = some j →
      apply env s (.rx inc (.pop i)) = filtersChanged env (putRxs s inc ((getRxs s inc).eraseIdx j))) ∧
    (∀ v, v ∉ getRxs s inc → apply env s (.rx inc (.remove v)) = (s, .err .value)) ∧
    (∀ v, v ∈ getRxs s inc →
      apply env s (.rx inc (.remove v)) = filtersChanged env (putRxs s inc ((getRxs s inc).erase v))) ∧
    (∀ a b, apply env s (.rx inc (.delSlice a b)) =
      filtersChanged env (putRxs s inc (ML.cut (getRxs s inc) a b))) := by
  have hput : putRxs s inc (getRxs s inc) = s := by unfold putRxs getRxs; cases inc <;> rfl
  refine ⟨fun i v hv => ?_, fun i v hv hm => ?_, fun i v hv hm => ?_, fun i hi => ?_,
    fun i j hi => ?_, fun v hm => ?_, fun v hm => ?_, fun a b => rfl⟩
  · simp [apply, applyL, insertL, hv]
  · simp [apply, applyL, insertL, hv, hm, hput]
  · simp [apply, applyL, insertL, hv, hm]
  · simp [apply, applyL, popL, hi]
  · simp [apply, applyL, popL, hi]
  · simp [apply, applyL, removeL, hm]
  · simp [apply, applyL, removeL, hm]

/-- … and the same on the glob lists, which accept every item (`type=str`). -/
theorem C09_filter_inplace_edits_globs (env : Env) (s : St) (inc : Bool) :
    (∀ i v, v ∈ getGlobs s inc → apply env s (.glob inc (.insert i v)) = filtersChanged env s) ∧
    (∀ i v, v ∉ getGlobs s inc →
      apply env s (.glob inc (.insert i v)) = filtersChanged env (putGlobs s inc
        ((getGlobs s inc).take (ML.insertPos (getGlobs s inc).length i) ++
          v :: (getGlobs s inc).drop (ML.insertPos (getGlobs s inc).length i)))) ∧
    (∀ i, ML.pyIndex (getGlobs s inc).length i = none →
      apply env s (.glob inc (.pop i)) = (s, .err .index)) ∧
    (∀ i j, ML.pyIndex (getGlobs s inc).length i = some j →
      apply env s (.glob inc (.pop i)) =
        filtersChanged env (putGlobs s inc ((getGlobs s inc).eraseIdx j))) ∧
    (∀ v, v ∉ getGlobs s inc → apply env s (.glob inc (.remove v)) = (s, .err .value)) ∧
    (∀ v, v ∈ getGlobs s inc →
      apply env s (.glob inc (.remove v)) =
        filtersChanged env (putGlobs s inc ((getGlobs s inc).erase v))) ∧
    (∀ a b, apply env s (.glob inc (.delSlice a b)) =
      filtersChanged env (putGlobs s inc (ML.cut (getGlobs s inc) a b))) := by
  have hput : putGlobs s inc (getGlobs s inc) = s := by unfold putGlobs getGlobs; cases inc <;> rfl
  refine ⟨fun i v hm => ?_, fun i v hm => ?_, fun i hi => ?_,
    fun i j hi => ?_, fun v hm => ?_, fun v hm => ?_, fun a b => rfl⟩
  · simp [apply, applyL, insertL, hm, hput]
  · simp [apply, applyL, insertL, hm]
  · simp [apply, applyL, popL, hi]
  · simp [apply, applyL, popL, hi]
  · simp [apply, applyL, removeL, hm]
  · simp [apply, applyL, removeL, hm]

/-- The side condition of `C09_pieces_survive_only_unchanged` is itself an invariant of every
    operation under an unchanging file system (and holds for a fresh `Torrent()`). -/
theorem C09_path_exists_step (env : Env) (s : St) (op : Op) (h : PathEx env s) :
    PathEx env (apply env s op).1 :=
  apply_pathEx h op

theorem C09_path_exists_init (env : Env) : PathEx env Attrs.init := by
  intro p hp; simp [Attrs.init] at hp

/-- `generate()` never fails for want of a piece length in a state satisfying the invariant. -/
theorem C09_generate_no_internal (env : Env) (s : St) (h : Inv s) (w : String) :
    (generate env s).2 ≠ .err (.internal w) := by
  obtain ⟨_, _, _, _, hpp, hc, _⟩ := h
  unfold generate
  split
  · simp
  · split
    · simp
    · rename_i d hd
      split
      · simp
      · split
        · rename_i hpl
          exfalso
          have hne : s.content ≠ .none := by
            intro hcn
            have : diskSize env s = some 0 := by
              unfold diskSize; rw [filepathsOf_none hcn]; rfl
            rw [this] at hd
            have : d = 0 := by injection hd with e; exact e.symm
            omega
          have := hpp (sizeC_pos s.content hc hne)
          rw [hpl] at this; simp at this
        · simp

/-- `calculate_piece_size` (integer model): a power of two or one of the bounds; within the
    bounds when min ≤ max; a positive multiple of 16 KiB when the bounds are. -/
theorem C09_calc_piece_size_spec (size mn mx : Nat) :
    ((∃ k, calcPieceSize size mn mx = 2 ^ k) ∨ calcPieceSize size mn mx = mn ∨
        calcPieceSize size mn mx = mx) ∧
    (mn ≤ mx → mn ≤ calcPieceSize size mn mx ∧ calcPieceSize size mn mx ≤ mx) ∧
    (mn ≤ mx → Mult16 mn → Mult16 mx → Mult16 (calcPieceSize size mn mx)) :=
  ⟨calc_shape size mn mx, calc_bounds size mn mx, calc_mult16 size mn mx⟩

/-- The unclamped value is `2^e` for the least `e ≥ 0` with `size ≤ 2^e · max_pieces`
    (i.e. `2^ceil(log2(size / max_pieces))`), or 0 when `size ≤ max_pieces / 2`. -/
theorem C09_calc_raw_least (size : Nat) (h : ¬ 2 * size ≤ maxPieces size) :
    ∃ k, rawPieceSize size = 2 ^ k ∧ size ≤ 2 ^ k * maxPieces size ∧
      (0 < k → ¬ size ≤ 2 ^ (k - 1) * maxPieces size) := by
  unfold rawPieceSize
  simp only [h, if_false]
  obtain ⟨k, _, hk⟩ := pow2Search_pow size (maxPieces size) size 0
  refine ⟨k, hk, ?_, ?_⟩
  · rw [← hk]
    apply pow2Search_ge
    have h1 := lt_two_pow_self' size
    have h2 := maxPieces_pos size
    simp only [Nat.zero_add]
    calc size ≤ 2 ^ size := h1
      _ = 2 ^ size * 1 := (Nat.mul_one _).symm
      _ ≤ 2 ^ size * maxPieces size := Nat.mul_le_mul_left _ h2
  · intro hpos
    exact pow2Search_least size (maxPieces size) size 0 k hk hpos

/-! ### two objects: `Torrent.copy()` (round 5) -/

/-- **What `copy()` carries over**: the metainfo (name, `length`/`files`, piece length, the hashes
    with the stamp they were computed for, comment) — and nothing else: the copy has no content
    path, four empty filter lists of its own (well formed), the class-default bounds. -/
theorem C09_copy_carries (s : St) :
    (copyOf s).name = s.name ∧ (copyOf s).content = s.content ∧ (copyOf s).pl = s.pl ∧
    (copyOf s).pieces = s.pieces ∧ (copyOf s).comment = s.comment ∧ (copyOf s).path = none ∧
    (copyOf s).exGlobs = [] ∧ (copyOf s).inGlobs = [] ∧ (copyOf s).exRegexs = [] ∧
    (copyOf s).inRegexs = [] ∧ (copyOf s).pmin = defaultMin ∧ (copyOf s).pmax = defaultMax ∧
    FiltersOk (copyOf s) ∧ size (copyOf s) = size s ∧ mode (copyOf s) = mode s :=
  ⟨rfl, rfl, rfl, rfl, rfl, rfl, rfl, rfl, rfl, rfl, rfl, rfl, by simp [FiltersOk, copyOf, Attrs.init],
   rfl, rfl⟩

/-- **Independence.**  A step on one object leaves the other object's state — metainfo, content
    path, bounds, all four filter lists — exactly as it was, and what it does to its own object
    depends on that object's state only (the filter lists of a copy are its own, their callback is
    its own `_filters_changed`); `other = this.copy()` does not change `this`. -/
theorem C09_copy_independent (env : Env) (w : St2) (op : Op) :
    (apply2 env w (.on false op)).1.b = w.b ∧ (apply2 env w (.on true op)).1.a = w.a ∧
    (apply2 env w (.on false op)).1.a = (apply env w.a op).1 ∧
    (apply2 env w (.on true op)).1.b = (apply env w.b op).1 ∧
    (apply2 env w (.on false op)).2 = (apply env w.a op).2 ∧
    (apply2 env w (.on true op)).2 = (apply env w.b op).2 ∧
    (apply2 env w (.copy false)).1.a = w.a ∧ (apply2 env w (.copy true)).1.b = w.b ∧
    (apply2 env w (.copy false)).1.b = copyOf w.a ∧ (apply2 env w (.copy true)).1.a = copyOf w.b :=
  ⟨rfl, rfl, rfl, rfl, rfl, rfl, rfl, rfl, rfl, rfl⟩

/-- The copy of an object that satisfies the invariant satisfies it too, if the source carries
    no hashes and its piece length lies within the class-default bounds (`CopyOk`; the second
    clause is the observation formerly listed as D09f: outside the property, a copy starts like a torrent that was read). -/
theorem C09_copy_inv (s : St) (h : Inv s) (hc : CopyOk s) : Inv (copyOf s) := by
  obtain ⟨_, _, _, hpl, hpp, hcont, _⟩ := h
  obtain ⟨hp, hb⟩ := hc
  refine ⟨(by decide : defaultMin ≤ defaultMax), (by decide : Mult16 defaultMin),
    (by decide : Mult16 defaultMax), ?_, hpp, hcont, ?_⟩
  · unfold PlOk at hpl ⊢
    show match s.pl with | none => True | some pl => Mult16 pl ∧ defaultMin ≤ pl ∧ pl ≤ defaultMax
    cases hq : s.pl with
    | none => exact True.intro
    | some pl => rw [hq] at hpl hb; exact ⟨hpl.1, hb.1, hb.2⟩
  · show StampOk (copyOf s)
    unfold StampOk
    show match s.pieces with | none => True | some g => Current (copyOf s) g
    rw [hp]; exact True.intro

/-- the counterexample (observation formerly listed as D09f): explicit maximum 32 MiB, piece size 32 MiB; the copy has
    `piece_size > piece_size_max` -/
example : Inv { Attrs.init with pmax := 33554432, pl := some 33554432 } ∧
    ¬ Inv (copyOf { Attrs.init with pmax := 33554432, pl := some 33554432 }) := by decide

/-- **The invariant over two-object histories**: both objects satisfy `Inv` after every step that
    satisfies `OpOk2` (an attribute operation satisfying `OpOk` on its own object, or a copy
    satisfying `CopyOk`), hence after every history satisfying `AllOk2` on two fresh objects. -/
theorem C09_inv2_step (env : Env) (w : St2) (op : Op2) (ha : Inv w.a) (hb : Inv w.b)
    (hok : OpOk2 env w op) : Inv (apply2 env w op).1.a ∧ Inv (apply2 env w op).1.b := by
  cases op with
  | on second o =>
    cases second
    · exact ⟨apply_inv ha env o hok, hb⟩
    · exact ⟨ha, apply_inv hb env o hok⟩
  | copy fromSecond =>
    cases fromSecond
    · exact ⟨ha, C09_copy_inv _ ha hok⟩
    · exact ⟨C09_copy_inv _ hb hok, hb⟩

theorem C09_inv2_reachable (env : Env) (ops : List Op2) :
    ∀ w : St2, Attrs.Inv w.a → Attrs.Inv w.b → AllOk2 env w ops →
      Attrs.Inv (run2 env w ops).a ∧ Attrs.Inv (run2 env w ops).b := by
  induction ops with
  | nil => intro w ha hb _; exact ⟨ha, hb⟩
  | cons op ops ih =>
    intro w ha hb hok
    obtain ⟨h1, h2⟩ := C09_inv2_step env w op ha hb hok.1
    exact ih _ h1 h2 hok.2

theorem C09_inv2_history (env : Env) (ops : List Op2) (hok : AllOk2 env init2 ops) :
    Attrs.Inv (run2 env init2 ops).a ∧ Attrs.Inv (run2 env init2 ops).b :=
  C09_inv2_reachable env ops _ C09_inv_init C09_inv_init hok

/-- The filter lists of **both** objects are well formed after every two-object history (no
    hypothesis): a copy starts with empty lists of its own. -/
theorem C09_filters_ok2_history (env : Env) (ops : List Op2) :
    FiltersOk (run2 env init2 ops).a ∧ FiltersOk (run2 env init2 ops).b := by
  suffices ∀ w : St2, FiltersOk w.a → FiltersOk w.b →
      FiltersOk (run2 env w ops).a ∧ FiltersOk (run2 env w ops).b
    from this _ C09_filters_ok_init C09_filters_ok_init
  induction ops with
  | nil => intro w ha hb; exact ⟨ha, hb⟩
  | cons op ops ih =>
    intro w ha hb
    cases op with
    | on second o =>
      cases second
      · exact ih _ (apply_filtersOk ha env o) hb
      · exact ih _ ha (apply_filtersOk hb env o)
    | copy fromSecond =>
      cases fromSecond
      · exact ih _ ha (C09_copy_carries w.a).2.2.2.2.2.2.2.2.2.2.2.2.1
      · exact ih _ (C09_copy_carries w.b).2.2.2.2.2.2.2.2.2.2.2.2.1 hb

/-- **A detached copy** (any object without a content path that carries hashes, e.g. the copy of
    a hashed torrent) keeps its hashes through a content, piece-size or bound operation only if
    that operation changed nothing the hashes depend on (no invariant needed: these setters drop
    `pieces` on every path that changes something). -/
theorem C09_copy_detached_survive (env : Env) (c : St) (g : Ghost) :
    (∀ v, (setPath env c v).1.pieces = some g → Same c (setPath env c v).1) ∧
    (∀ fs, (setFilesAttr env c fs).1.pieces = some g → Same c (setFilesAttr env c fs).1) ∧
    (∀ ps, (setFilepathsAttr env c ps).1.pieces = some g → Same c (setFilepathsAttr env c ps).1) ∧
    (∀ x, (setPieceSize c (some x)).1.pieces = some g → Same c (setPieceSize c (some x)).1) ∧
    (∀ v, (setMin c v).1.pieces = some g → Same c (setMin c v).1) ∧
    (∀ v, (setMax c v).1.pieces = some g → Same c (setMax c v).1) ∧
    (c.path = none → (filtersChanged env c).1.pieces = some g → Same c (filtersChanged env c).1) :=
  ⟨fun v => setPath_same env c v g, fun fs => setFilesAttr_same env c fs g,
   fun ps => setFilepathsAttr_same env c ps g, fun x => checkAndStore_same c x g,
   fun v => setMin_same v g, fun v => setMax_same v g,
   fun hp hg => by
     unfold filtersChanged at hg ⊢
     rw [hp] at hg ⊢
     exact setFilesAttr_same env c _ g hg⟩

/-! ### non-vacuity: the hypotheses are met by histories that hash and then change things
   (a single-file torrent whose content path is the empty component list, so that `decide`
   never has to compare strings) -/

def exEnv : Env := { files := [([], 81920)] }
def exS : St :=
  { Attrs.init with name := some "f", content := .single 81920, path := some [], pl := some 16384 }
def exOps : List Op := [.setPieceSize (some 49152), .generate]

example : Inv exS := by decide
example : AllOk exEnv exS (exOps ++ [.setMin (some 65536), .setMax none, .setPieceSize (some 32768)]) := by
  decide
example : (run exEnv exS exOps).pieces.isSome = true ∧ isReady exEnv (run exEnv exS exOps) = true := by
  decide
example : (run exEnv exS (exOps ++ [.setPieceSize (some 65536)])).pieces = none := by decide
example : (run exEnv exS (exOps ++ [.setMin (some 65536)])).pieces = none := by decide
example : (run exEnv exS (exOps ++ [.setPieceSize (some 49152), .setName none])).pieces.isSome = true := by
  decide
/-- `AllOkC` is strictly weaker: `piece_size_max = 32768; piece_size_min = 65536` (raises, leaves
    min > max: D09b) `; piece_size_min = 32768` — not `AllOk`, but `AllOkC`; the invariant fails
    after the second and holds again after the third assignment (piece size clamped to 32768). -/
example :
    let ops : List Op := [.setMax (some 32768), .setMin (some 65536), .setMin (some 32768), .generate]
    ¬ AllOk exEnv exS ops ∧ AllOkC exEnv exS ops ∧ ¬ Inv (run exEnv exS (ops.take 2)) ∧
    Inv (run exEnv exS (ops.take 3)) ∧ (run exEnv exS ops).pieces.isSome = true := by decide
example : ∃ size, ¬ 2 * size ≤ maxPieces size ∧ 16384 < rawPieceSize size := ⟨2 ^ 24, by decide⟩

/-! ### non-vacuity of the filter-list theorems (concrete lists and histories) -/

example : ML.readd [1, 2, 1, 3, 2] = [1, 2, 3] := by decide
/-- `l = [1, 2, 3]; l[1:] = [3, 1, 4]` leaves `[1, 3, 4]` (the assigned `1` is already there) -/
example : ML.readd (ML.spliced [1, 2, 3] 1 none [3, 1, 4]) = [1, 3, 4] := by decide
example : ML.pyIndex 3 (-1) = some 2 ∧ ML.pyIndex 3 3 = none ∧ ML.pyIndex 3 (-4) = none := by decide

/-- the history the thorough tier found before fix e62ce6d: `exclude_regexs = ['e\\.']`, hash,
    `exclude_regexs = ['e\\.']` again — the list is unchanged (not `[None]`), the hashes are
    dropped, both invariants hold -/
example :
    let r := Rx.lit "e."
    let s1 := run exEnv exS [.rx false (.setSlice 0 none [r]), .generate]
    let s2 := (apply exEnv s1 (.rx false (.setSlice 0 none [r]))).1
    s1.pieces.isSome = true ∧ s1.exRegexs = [r] ∧ s2.exRegexs = [r] ∧ s2.pieces = none ∧
    FiltersOk s2 ∧ Inv s2 := by decide +kernel

/-- the witness of former finding D09d: `exclude_globs += ['*.tmp']` after hashing leaves
    `['*.tmp']`; `include_regexs += [r, '(']` raises `re.error` with `r` kept and applied -/
example :
    let s1 := run exEnv exS [.generate]
    let a := apply exEnv s1 (.glob false (.iaddAttr [.suffix ".tmp"]))
    let b := apply exEnv s1 (.rx true (.iaddAttr [.pre "f", .invalid "("]))
    a.1.exGlobs = [.suffix ".tmp"] ∧ a.2 = .ok ∧ a.1.pieces = none ∧
    b.1.inRegexs = [.pre "f"] ∧ b.2 = .err .regex ∧ b.1.pieces = none := by decide +kernel

/-- a rejected assignment changes nothing (hashes stay); duplicates in the new value are dropped;
    assigning an item that is elsewhere in the list shortens the list; `IndexError` -/
example :
    let r1 := Rx.suffix ".tmp"; let r2 := Rx.lit "/sub/"
    let s1 := run exEnv exS [.rx false (.setSlice 0 none [r1, r2, r1]), .generate]
    s1.exRegexs = [r1, r2] ∧
    apply exEnv s1 (.rx false (.setSlice 0 none [r2, .invalid "[a"])) = (s1, .err .regex) ∧
    apply exEnv s1 (.rx false (.setIndex 2 r1)) = (s1, .err .index) ∧
    (apply exEnv s1 (.rx false (.setIndex (-1) r1))).1.exRegexs = [r1] ∧
    (apply exEnv s1 (.rx false (.setSlice 1 (some 1) [r2, .pre "x", r1]))).1.exRegexs
      = [r1, r2, .pre "x"] := by decide +kernel

/-- `reverse()` on `[r1, r2, r3]` after hashing: exactly `[r3, r2, r1]`, hashes gone (the inherited
    swap-by-index-assignment reverse would be `l[0] = r3` ⇒ `[r3, r2]`, then `l[2] = r1` ⇒
    `IndexError` — the model says so too); `pop`, `remove`, `insert`, `del l[a:b]` -/
example :
    let r1 := Rx.suffix ".tmp"; let r2 := Rx.lit "/sub/"; let r3 := Rx.pre "x"
    let s1 := run exEnv exS [.rx false (.setSlice 0 none [r1, r2, r3]), .generate]
    let a := apply exEnv s1 (.rx false .reverse)
    a.1.exRegexs = [r3, r2, r1] ∧ a.2 = .ok ∧ a.1.pieces = none ∧ s1.pieces.isSome = true ∧
    (apply exEnv s1 (.rx false (.setIndex 0 r3))).1.exRegexs = [r3, r2] ∧
    apply exEnv (apply exEnv s1 (.rx false (.setIndex 0 r3))).1 (.rx false (.setIndex 2 r1))
      = ((apply exEnv s1 (.rx false (.setIndex 0 r3))).1, .err .index) ∧
    (apply exEnv s1 (.rx false (.pop (-1)))).1.exRegexs = [r1, r2] ∧
    apply exEnv s1 (.rx false (.pop 3)) = (s1, .err .index) ∧
    (apply exEnv s1 (.rx false (.remove r2))).1.exRegexs = [r1, r3] ∧
    apply exEnv s1 (.rx false (.remove (.lit "q"))) = (s1, .err .value) ∧
    (apply exEnv s1 (.rx false (.insert (-1) (.lit "q")))).1.exRegexs = [r1, r2, .lit "q", r3] ∧
    (apply exEnv s1 (.rx false (.insert 9 r1))).1.exRegexs = [r1, r2, r3] ∧
    (apply exEnv s1 (.rx false (.insert 9 r1))).1.pieces = none ∧
    (apply exEnv s1 (.rx false (.delSlice 1 none))).1.exRegexs = [r1] := by decide +kernel

/-! ### non-vacuity: histories in which an operation fails half-way and the object is used again -/

/-- a class whose `calculate_piece_size` raises for content of 100 000 bytes and more; a single
    file `T` (80 KiB) and a directory `U` with one file of 120 000 bytes -/
def faultEnv : Env :=
  { files := [(["T"], 81920), (["U", "a"], 120000)], rules := [⟨100000, none, .raise "CalcFault"⟩] }

/-- `path = T; generate()`, then `path = U` fails inside the recalculation: the file list is the
    new one, the hashes are gone, the piece length is still the one of `T`; `InvS` and `InvW` hold
    (and here, a piece length being present, even `Inv`); the tracker gives up the full invariant;
    `path = T` completes and restores it (tracker and invariant agree) -/
example :
    let s1 := run faultEnv Attrs.init [.setPath (some ["T"]), .generate]
    let a := apply faultEnv s1 (.setPath (some ["U"]))
    s1.pieces.isSome = true ∧ isReady faultEnv s1 = true ∧
    a.2 = .err (.calcRaised "CalcFault") ∧ a.2.faulted = true ∧
    a.1.content = .multi [⟨["a"], 120000⟩] ∧ a.1.path = some ["U"] ∧ a.1.pieces = none ∧
    a.1.pl = s1.pl ∧ InvS a.1 ∧ InvW a.1 ∧
    AllOpOk faultEnv Attrs.init [.setPath (some ["T"]), .generate, .setPath (some ["U"]), .setPath (some ["T"])] ∧
    runFull faultEnv Attrs.init true [.setPath (some ["T"]), .generate, .setPath (some ["U"])] = false ∧
    runFull faultEnv Attrs.init true [.setPath (some ["T"]), .generate, .setPath (some ["U"]), .setPath (some ["T"])] = true ∧
    ¬ StepOk faultEnv s1 (.setPath (some ["U"])) := by decide +kernel

/-- on a fresh object the same failure leaves content without any piece length: `Inv` fails,
    `InvW` holds, and the next completed content assignment restores `Inv` (`C09_inv_recovers`);
    a failing `files.append` / filter edit behaves alike -/
example :
    let a := apply faultEnv Attrs.init (.setPath (some ["U"]))
    a.2.faulted = true ∧ ¬ Inv a.1 ∧ InvW a.1 ∧ size a.1 = 120000 ∧ a.1.pl = none ∧
    Inv (apply faultEnv a.1 (.setPath (some ["T"]))).1 ∧ restores (.setPath (some ["T"])) = true ∧
    (apply faultEnv a.1 (.setPath (some ["T"]))).2 = .ok := by decide +kernel

/-- the stock class: `files = [File('N/huge', size=2**1100)]` on the hashed single-file torrent of the
    first examples — `OverflowError` from `calculate_piece_size`, the file list is the new one, the
    hashes are gone, the piece length stays -/
example :
    let s1 := run exEnv exS exOps
    let a := apply exEnv s1 (.setFiles [(["N", "huge"], 2 ^ 1100)])
    s1.pieces.isSome = true ∧ a.2 = .err (.calcRaised "OverflowError") ∧ a.1.pieces = none ∧
    size a.1 = 2 ^ 1100 ∧ a.1.pl = s1.pl ∧ InvS a.1 ∧ InvW a.1 := by decide +kernel

/-- an override that returns a value the `piece_size` setter rejects (`1000`: not a multiple of
    16 KiB) fails with `PieceSizeError` after the file list was replaced -/
example :
    let env : Env := { files := [(["T"], 81920)], rules := [⟨0, none, .value 1000⟩] }
    let a := apply env Attrs.init (.setPath (some ["T"]))
    a.2 = .err .calcRejected ∧ a.1.content = .single 81920 ∧ a.1.pl = none ∧ InvW a.1 ∧ ¬ Inv a.1 :=
  by decide +kernel

end Torf.C09
