/-
  C13 — magnet links round-trip: torrents whose tracker / webseed metainfo was not laid out by
  torf's own setters (third-party files, `torrent.metainfo` edited directly).
  Property theorems only (helper lemmas: Torf.Lemmas.MagnetTorrent).
-/
import Torf.Lemmas.MagnetTorrent
import Torf.Properties.C13
namespace Torf.C13
open Torf Torf.Magnet

/-- **Torrent → magnet → torrent for any tracker layout.**  Whatever `announce`, `announce-list`
    and `url-list` hold — `announce` missing from `announce-list`, an empty `announce-list`, empty
    tiers, duplicates within and across tiers, a single string as `url-list`, … —: whenever the
    getters `Torrent.trackers` / `Torrent.webseeds` can be read at all (`viewOfMeta … = ok v`; `v` is
    what they show), `magnet()` succeeds, its link parses back to the same magnet, the magnet holds
    exactly the getter's flat tracker list and webseeds, and `torrent()` gives back `v`: infohash,
    name, size, tracker URLs in order, webseeds.  No hypothesis on the metainfo fields; `is_url` is
    any predicate that rejects the empty string. -/
theorem C13_meta_roundtrip (isUrl : Str → Bool) (hne : isUrl [] = false) (intO : Str → IntResult)
    (t : TorrentMeta) (hb : MetaBaseOk t = true) (v : TorrentView)
    (hv : viewOfMeta isUrl t = .ok v) :
    ∃ m, magnetOfMeta isUrl t = .ok m ∧ fromString isUrl intO (render m) = .ok m ∧
      m.tr = v.trackers ∧ m.ws = v.webseeds ∧ torrentOfMagnet m = .ok v := by
  have hok := view_torrentOk isUrl hne t hb v hv
  obtain ⟨m, h1, h2, h3⟩ := C13_torrent_roundtrip isUrl intO v hok
  refine ⟨m, ?_, h2, ?_, ?_, h3⟩
  · simp only [magnetOfMeta, hv, bind, Except.bind]; exact h1
  · simp only [torrentOfMagnet, bind, Except.bind] at h3
    split at h3
    · cases h3
    · simp only [pure, Except.pure, Except.ok.injEq] at h3
      rw [← h3]
  · simp only [torrentOfMagnet, bind, Except.bind] at h3
    split at h3
    · cases h3
    · simp only [pure, Except.pure, Except.ok.injEq] at h3
      rw [← h3]

/-- **What the getters show** (the `trackers` field of the view is *defined* as the result of C16's
    model of the `Torrent.trackers` getter; this is its closed form): the URLs in the order
    `announce` — unless that very string occurs in `announce-list` — then `announce-list` tier by
    tier, every URL with ' ' → '+', each at its first occurrence only; webseeds likewise from
    `url-list` (a blank string counts as no URL).  The other three attributes are passed through. -/
theorem C13_meta_getter_flat (isUrl : Str → Bool) (t : TorrentMeta) (v : TorrentView)
    (hv : viewOfMeta isUrl t = .ok v) :
    v.trackers = flatTrackersSpec t ∧ v.webseeds = webseedsSpec t ∧
    v.infohash = t.infohash ∧ v.name = t.name ∧ v.size = t.size := by
  obtain ⟨T, W, hT, hW, rfl⟩ := viewOfMeta_ok isUrl t v hv
  obtain ⟨_, _, _, h1⟩ := trackersOfMeta_ok isUrl t T hT
  obtain ⟨_, _, _, h2⟩ := webseedsOfMeta_ok isUrl t W hW
  exact ⟨h1, h2, rfl, rfl, rfl⟩

/-- **When the getters can be read**: iff every URL of `announce` / `announce-list` / `url-list` is
    acceptable to `utils.URL` (valid as given and with ' ' → '+').  Otherwise they raise URLError —
    and so does `magnet()` (such metainfo passes `validate()`: finding D07i of C07, outside C13). -/
theorem C13_meta_readable (isUrl : Str → Bool) (t : TorrentMeta) :
    ((∃ v, viewOfMeta isUrl t = .ok v) ↔
      (rawTrackerUrls t ++ rawWebseedUrls t).all (urlAccepts isUrl) = true) ∧
    (∀ e, viewOfMeta isUrl t = .error e → e = .url ∧ magnetOfMeta isUrl t = .error .url) := by
  constructor
  · rw [List.all_append, Bool.and_eq_true, ← trackersOfMeta_readable, ← webseedsOfMeta_readable]
    constructor
    · rintro ⟨v, hv⟩
      obtain ⟨T, W, hT, hW, _⟩ := viewOfMeta_ok isUrl t v hv
      exact ⟨⟨T, hT⟩, ⟨W, hW⟩⟩
    · rintro ⟨⟨T, hT⟩, ⟨W, hW⟩⟩
      refine ⟨{ infohash := t.infohash, name := t.name, size := t.size, trackers := T.flatten, webseeds := W }, ?_⟩
      simp only [viewOfMeta, hT, hW, bind, Except.bind, pure, Except.pure]
  · intro e he
    have := viewOfMeta_error isUrl t e he
    subst this
    exact ⟨rfl, by simp only [magnetOfMeta, he, bind, Except.bind]⟩

/-- The same round trip for a `magnet()` that takes the tracker URLs straight from the metainfo
    (`flatten(metainfo['announce-list'])` if present, else `(metainfo['announce'],)`; seeded change
    C13-6b) instead of from the `trackers` getter … -/
def C13_meta_raw_full : Prop :=
  ∀ (isUrl : Str → Bool) (t : TorrentMeta) (v : TorrentView),
    MetaBaseOk t = true → viewOfMeta isUrl t = .ok v →
    ∃ m, magnetOfMetaRaw isUrl t = .ok m ∧ torrentOfMagnet m = .ok v

def foreignWitness : TorrentMeta :=
  { infohash := witnessHash, name := some ['n'], size := some 1,
    announce := some "http://main/".toList, announceList := some [["http://t1/".toList]] }

/-- … is false: `announce` that is not repeated in `announce-list` is shown first by the getter and
    is missing from that magnet. -/
theorem C13_meta_raw_counterexample : ¬ C13_meta_raw_full := by
  intro h
  have hread := (C13_meta_readable (fun _ => true) foreignWitness).1.2 (by decide)
  obtain ⟨v, hv⟩ := hread
  obtain ⟨m, hm, hback⟩ := h (fun _ => true) foreignWitness v (by decide) hv
  obtain ⟨h1, h2, h3, h4, h5⟩ := C13_meta_getter_flat _ _ _ hv
  obtain ⟨ih, name, size, trackers, webseeds⟩ := v
  simp only at h1 h2 h3 h4 h5
  subst h1 h2 h3 h4 h5
  simp only [magnetOfMetaRaw, hv, bind, Except.bind] at hm
  have hm' : magnetOfTorrent (fun _ => true)
      { infohash := foreignWitness.infohash, name := foreignWitness.name, size := foreignWitness.size,
        trackers := ["http://t1/".toList], webseeds := webseedsSpec foreignWitness } =
      .ok { infohash := witnessHash, dn := some ['n'], xl := some 1, tr := ["http://t1/".toList] } := by
    rfl
  have e : m = { infohash := witnessHash, dn := some ['n'], xl := some 1, tr := ["http://t1/".toList] } := by
    have := hm.symm.trans hm'
    exact Except.ok.inj this
  subst e
  have hb' : torrentOfMagnet { infohash := witnessHash, dn := some ['n'], xl := some 1, tr := ["http://t1/".toList] } =
      .ok { infohash := witnessHash, name := some ['n'], size := some 1, trackers := ["http://t1/".toList],
            webseeds := [] } := by
    rfl
  have := congrArg TorrentView.trackers (Except.ok.inj (hb'.symm.trans hback))
  revert this
  decide

/-! ### non-vacuity -/

/-- hypotheses of `C13_meta_roundtrip`: a foreign layout (announce not in announce-list, an empty
    tier, a duplicate, a URL with a space, `url-list` a single string) that is readable -/
example : MetaBaseOk foreignWitness = true ∧
    (rawTrackerUrls { foreignWitness with
        announceList := some [["http://t1/a b".toList], [], ["http://t1/a+b".toList]],
        urlList := .str "http://w/".toList }
      ++ rawWebseedUrls { foreignWitness with urlList := .str "http://w/".toList }).all
      (urlAccepts fun s => s.take 4 = "http".toList) = true ∧
    flatTrackersSpec { foreignWitness with
        announceList := some [["http://t1/a b".toList], [], ["http://t1/a+b".toList]] }
      = ["http://main/".toList, "http://t1/a+b".toList] := by decide

end Torf.C13
