/-
  C20 on spelled content paths — the size check judges the tree the *operating system* resolves
  the given `path` to: absolute or relative to the working directory, with `.`, `..`, doubled or
  trailing slashes, through symbolic links (`link/..` is the parent of the link's target).
  Property theorems only (helper lemmas: Torf.Lemmas.FileSizePath).

  Reading guide: `verifyFilesizeAt lexical w dt t p cb` (Torf.Model.FileSizePath) is
  `verify_filesize(p, cb)` in the world `w` (inode table + working directory, path resolution =
  `Torf.Reuse.resolve` of property C18; `dt` = total size below a directory); `lexical = false`
  is the code (`os.path.isdir(path)` on the spelling as given, every file through
  `pathlib.Path(path, *names)`), `lexical = true` the variant that first takes
  `os.path.normpath(path)`.  `treeAt fs dt k loc` is the tree at a *location* (chain of real
  directories, or a regular file) — no spelling occurs in it; `k` = symbolic links still allowed
  per lookup (the OS allows 40 per resolution; the ones met in the spelling are used up).
-/
import Torf.Lemmas.FileSizePath
namespace Torf.C20
open Torf Torf.FileSize
open Torf.Paths (PPath)
open Torf.Reuse (resolve walk maxLinks Loc Node)

/-- **The verdict depends on the directory the spelling resolves to, not on its text.**  If the OS
    resolves `path` to the directory `st`, then — for every torrent with a well-formed layout and
    every callback — result, raised error and callback trace of `verify_filesize(path)` are those
    of the specification (`spec`: exactness, one error per offending file, callback protocol)
    evaluated on the tree at `st`; the spelling enters only through the number `k ≤ 40` of symbolic
    links that are still allowed below it. -/
theorem C20_path_spelling (w : Reuse.World) (dt : Nat → Nat) (p : PPath) (st : List Nat)
    (hres : resolve w p = .ok (.dir st)) :
    ∃ k, k ≤ maxLinks ∧ ∀ (t : Torrent) (cb : Callback), WF t →
      verifyFilesizeAt false w dt t p cb = spec t (treeAt w.fs dt k (.dir st)) cb := by
  obtain ⟨k, hk, hkk⟩ := resolve_fsPath_names w p st hres
  refine ⟨k, hk, fun t cb hwf => ?_⟩
  apply verifyFilesizeAt_eq_spec w dt t hwf p cb
  · intro _
    simp [Reuse.isdir, hres, treeAt, walk_nil, entryOf, isDirEntry]
  · intro f hf
    simp only [viewOf, treeAt]
    rw [hkk f.path (hwf.2 f hf)]

/-- … and a single-file torrent whose `path` the OS resolves to a regular file is judged on that
    file, whatever the spelling. -/
theorem C20_path_spelling_file (w : Reuse.World) (dt : Nat → Nat) (p : PPath) (ino : Nat)
    (hres : resolve w p = .ok (.file ino)) (t : Torrent) (hs : t.isSingle = true) (hwf : WF t)
    (cb : Callback) :
    verifyFilesizeAt false w dt t p cb = spec t (treeAt w.fs dt 0 (.file ino)) cb := by
  apply verifyFilesizeAt_eq_spec w dt t hwf p cb
  · intro _
    simp only [Reuse.isdir, hres, treeAt, List.isEmpty_nil, if_true, entryOf]
    cases w.fs[ino]? with
    | none => rfl
    | some nd => cases nd <;> rfl
  · intro f hf
    have hl : f.path = [] := by
      unfold Torrent.isSingle at hs
      unfold Torrent.listed at hf
      cases hm : t.mode with
      | single n => simp only [hm, List.mem_singleton] at hf; rw [hf]
      | multi fl => simp [hm] at hs
    simp only [viewOf, treeAt, hl, List.isEmpty_nil, if_true]
    rw [resolve_fsPath_nil w p _ hres]

/-- **Two spellings of the same directory get the same verdict** (result, raised error, callback
    trace index by index), as long as the OS's limit of 40 symbolic links per resolution is not hit
    when the listed files are looked up through either of them. -/
theorem C20_path_spelling_same (w : Reuse.World) (dt : Nat → Nat) (p q : PPath) (st : List Nat)
    (hp : resolve w p = .ok (.dir st)) (hq : resolve w q = .ok (.dir st))
    (t : Torrent) (hwf : WF t) (cb : Callback)
    (hlp : ∀ f ∈ t.listed, resolve w (fsPath p f.path) ≠ .error .loop)
    (hlq : ∀ f ∈ t.listed, resolve w (fsPath q f.path) ≠ .error .loop) :
    verifyFilesizeAt false w dt t p cb = verifyFilesizeAt false w dt t q cb := by
  obtain ⟨kp, _, hkp⟩ := resolve_fsPath_names w p st hp
  obtain ⟨kq, _, hkq⟩ := resolve_fsPath_names w q st hq
  have hqq := verifyFilesizeAt_eq_spec w dt t hwf q cb (treeAt w.fs dt kq (.dir st))
    (fun _ => by simp [Reuse.isdir, hq, treeAt, walk_nil, entryOf, isDirEntry])
    (fun f hf => by simp only [viewOf, treeAt]; rw [hkq f.path (hwf.2 f hf)])
  rw [hqq]
  apply verifyFilesizeAt_eq_spec w dt t hwf p cb
  · intro _
    simp [Reuse.isdir, hp, treeAt, walk_nil, entryOf, isDirEntry]
  · intro f hf
    simp only [viewOf, treeAt]
    have h1 := hlp f hf
    have h2 := hlq f hf
    rw [hkp f.path (hwf.2 f hf)] at h1 ⊢
    rw [hkq f.path (hwf.2 f hf)] at h2
    rw [walk_budget_irrelevant w.fs kp kq st f.path h1 h2]

/-- **pathlib's tidying is harmless**: the path the code reports and hands to the OS for the top
    (`str(pathlib.Path(path))`: no empty or `.` components, `..` kept) denotes what `path` denotes. -/
theorem C20_path_tidy_sound (w : Reuse.World) (p : PPath) (l : Loc) (h : resolve w p = .ok l) :
    resolve w (fsPath p []) = .ok l :=
  resolve_fsPath_nil w p l h

/-! ### lexical normalisation (`os.path.normpath`, hence `abspath`) is not path resolution -/

/-- `/dl/current -> /store/incoming`; the content lies in `/store/Album` (file `a`, truncated to
    3 bytes); an unrelated intact-looking `Album` lies at the lexical location `/dl/Album` -/
def exFS : Reuse.FS :=
  [ .dir true true [("dl", 1), ("store", 3)],          -- 0  /
    .dir true true [("current", 2), ("Album", 7)],     -- 1  /dl
    .link ⟨true, ["store", "incoming"]⟩,               -- 2  /dl/current
    .dir true true [("incoming", 4), ("Album", 5)],    -- 3  /store
    .dir true true [],                                  -- 4  /store/incoming
    .dir true true [("a", 6)],                          -- 5  /store/Album
    .file 3 true 0,                                     -- 6  /store/Album/a   (5 bytes recorded)
    .dir true true [("a", 8)],                          -- 7  /dl/Album
    .file 5 true 1 ]                                    -- 8  /dl/Album/a
def exWorld : Reuse.World := ⟨exFS, [], 0, fun _ => (.undecodable, fun _ => .missing)⟩
/-- the same, but the real content is intact and nothing lies at the lexical location -/
def exFS2 : Reuse.FS :=
  [ .dir true true [("dl", 1), ("store", 3)], .dir true true [("current", 2)],
    .link ⟨true, ["store", "incoming"]⟩, .dir true true [("incoming", 4), ("Album", 5)],
    .dir true true [], .dir true true [("a", 6)], .file 5 true 0 ]
def exWorld2 : Reuse.World := ⟨exFS2, [], 0, fun _ => (.undecodable, fun _ => .missing)⟩
def exSpelling : PPath := ⟨true, ["dl", "current", "..", "Album"]⟩
def exAlbum : Torrent := ⟨"Album", .multi [⟨["a"], 5⟩], 16384, 20⟩

/-- **Counterexample for the normalising variant.**  The OS resolves `/dl/current/../Album` to
    `/store/Album`; `normpath` makes `/dl/Album` of it.  World 1: the code reports the truncated
    file (3 instead of 5 bytes), the variant returns `True` — it looked at the unrelated tree.
    World 2: the content is complete and the code returns `True`, the variant reports the file as
    missing (where full verification, which hands the spelling to the OS, succeeds). -/
theorem C20_lexical_normalisation_unsound :
    resolve exWorld exSpelling = .ok (.dir [5, 3]) ∧
    normP exSpelling = ⟨true, ["dl", "Album"]⟩ ∧
    resolve exWorld (normP exSpelling) = .ok (.dir [7, 1]) ∧
    verifyFilesizeAt false exWorld (fun _ => 0) exAlbum exSpelling none = (.raised (.size 3 5), []) ∧
    verifyFilesizeAt true exWorld (fun _ => 0) exAlbum exSpelling none = (.ok true, []) ∧
    verifyFilesizeAt false exWorld2 (fun _ => 0) exAlbum exSpelling none = (.ok true, []) ∧
    verifyFilesizeAt true exWorld2 (fun _ => 0) exAlbum exSpelling (some fun _ => false)
      = (.ok false, [⟨0, 1, 1, some .read⟩]) :=
  ⟨rfl, rfl, rfl, rfl, rfl, rfl, rfl⟩

/-! ### Non-vacuity -/

example : WF exAlbum := by decide
/-- the hypotheses of `C20_path_spelling_same`: another spelling of `/store/Album` (relative to the
    working directory `/dl`, doubled and trailing slashes, a `.`), no ELOOP under either -/
def exSpelling2 : PPath := ⟨false, ["current", "..", "", "incoming", ".", "..", "Album", ""]⟩
example : resolve { exWorld with cwd := [1] } exSpelling2 = .ok (.dir [5, 3]) := rfl
example : resolve { exWorld with cwd := [1] } exSpelling = .ok (.dir [5, 3]) := rfl
example : ∀ f ∈ exAlbum.listed,
    resolve { exWorld with cwd := [1] } (fsPath exSpelling2 f.path) = .ok (.file 6) := by
  intro f hf
  simp only [exAlbum, Torrent.listed, List.mem_singleton] at hf
  subst hf; rfl
example : verifyFilesizeAt false { exWorld with cwd := [1] } (fun _ => 0) exAlbum exSpelling2 none
    = (.raised (.size 3 5), []) := rfl
/-- the top itself a symbolic link, a single-file torrent at a regular file -/
example : resolve exWorld ⟨true, ["store", "Album", "a"]⟩ = .ok (.file 6) := rfl
example : verifyFilesizeAt false exWorld (fun _ => 0) ⟨"a", .single 3, 16384, 20⟩
    ⟨true, ["dl", "current", "..", "Album", ".", "a"]⟩ none = (.ok true, []) := rfl

end Torf.C20
