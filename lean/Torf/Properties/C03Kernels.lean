/-
  C03 — bridge theorem to the kernel translated from the source (regenerated on every run):
  the capacity of the piece queue chosen by `Torrent.generate`/`verify` (`queue_size=…`) is a
  valid capacity for the transition system (the theorems hold for every capacity ≥ 1).
-/
import Torf.Generated.Kernels
import Torf.Spec.Pipeline
namespace Torf.C03
open Torf.Generated Torf.Pipeline

theorem C03_kernel_queue_size (N : Nat) (hN : 1 ≤ N) (cfg : Cfg)
    (hcfg : cfg.N = N ∧ (cfg.cap : Int) = queueSize N) : wf cfg = true := by
  unfold wf
  obtain ⟨h1, h2⟩ := hcfg
  unfold queueSize at h2
  have : 1 ≤ cfg.cap := by omega
  simp [h1, hN, this]

/-- what the collector is handed for an item of each kind: (exceptions non-empty, piece_hash non-empty) -/
def kindFlags : ItemKind → Bool × Bool
  | .data => (false, true)
  | .mismatch => (false, true)      -- a digest that differs is still a digest; the verifying callback turns it into an error
  | .nodata => (false, false)
  | .exc => (true, false)

/-- `Collector._collect`: the model adds an item to `collected` exactly when the code's test
    (`not exceptions and piece_hash`) stores the result in `_hashes_unsorted` -/
theorem C03_kernel_collect_stores (kind : ItemKind) :
    (kind == .data || kind == .mismatch) = collectStores (kindFlags kind).1 (kindFlags kind).2 := by
  cases kind <;> rfl

end Torf.C03
