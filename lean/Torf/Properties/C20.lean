/-
  C20 — the file-size check is exact and never disagrees with full verification.
  Property theorems only (helper lemmas: Torf.Lemmas.FileSize).

  Reading guide: `verifyFilesize t fs cb : Res × List Call` is the code-shaped model of
  `Torrent.verify_filesize(path, callback)` (Torf.Model.FileSize); `fs comps` is what the OS finds
  at `path/comps`; `cb = none` is "no callback", `cb = some g` a callback with `g call = true` iff
  it returned something that is not `None`.  `WF t` = listed paths pairwise distinct, no empty
  component.  `errOf fs f` (Torf.Spec.FileSize) is *the* definition of "what is wrong with f".
-/
import Torf.Lemmas.FileSize
namespace Torf.C20
open Torf Torf.FileSize

/-- a callback that never asks to stop -/
def Passive (cb : Callback) : Prop := ∀ g, cb = some g → ∀ c, g c = false

/-- "every listed file exists under the path with exactly the recorded size", spelled out on the
    file system: a regular file of that size — or, in a multi-file torrent, a directory whose
    files total that size (torf measures whatever it finds with `real_size`). -/
def AllGood (t : Torrent) (fs : FS) : Prop :=
  ∀ f ∈ t.listed, fs f.path = .file f.size ∨ (t.isSingle = false ∧ fs f.path = .dir f.size)

theorem good_iff (fs : FS) (f : Listed) :
    good fs f = true ↔ fs f.path = .file f.size ∨ fs f.path = .dir f.size := by
  unfold good errOf
  cases h : fs f.path with
  | missing => simp
  | file n => by_cases hn : n = f.size <;> simp [hn]
  | dir n => by_cases hn : n = f.size <;> simp [hn]

theorem allGood_iff (t : Torrent) (fs : FS) : allGood t fs = true ↔ AllGood t fs := by
  unfold allGood AllGood singleAtDir
  simp only [Bool.and_eq_true, Bool.not_eq_true', Bool.and_eq_false_iff, List.all_eq_true, good_iff]
  cases hs : t.isSingle with
  | false => simp
  | true =>
    have hl : t.listed = [⟨[], match t.mode with | .single n => n | .multi _ => 0⟩] := by
      unfold Torrent.isSingle at hs; unfold Torrent.listed
      cases hm : t.mode <;> simp [hm] at hs ⊢
    simp only [hl, List.mem_singleton, forall_eq, Bool.true_eq_false, false_or, false_and, or_false]
    constructor
    · rintro ⟨hd, h⟩
      rcases h with h | h
      · exact h
      · rw [h] at hd; simp [isDirEntry] at hd
    · intro h
      exact ⟨by rw [h]; rfl, Or.inl h⟩

/-- **Refinement.** For every well-formed layout, every file system and every callback, the model
    of `verify_filesize` returns/raises exactly what the specification says and makes exactly the
    specified callback calls. -/
theorem C20_refines (t : Torrent) (hwf : WF t) (fs : FS) (cb : Callback) :
    verifyFilesize t fs cb = spec t fs cb :=
  verifyFilesize_eq_spec t hwf fs cb

/-- **Exactness.** Without a callback or with one that never cancels, a valid torrent's size check
    returns `True` iff every listed file is there with exactly the recorded size. -/
theorem C20_iff (t : Torrent) (hwf : WF t) (hv : validateCore t = true) (fs : FS) (cb : Callback)
    (hp : Passive cb) :
    (verifyFilesize t fs cb).1 = .ok true ↔ AllGood t fs := by
  rw [C20_refines t hwf, ← allGood_iff]
  unfold spec
  simp only [hv, Bool.not_true, Bool.false_eq_true, if_false]
  cases cb with
  | none =>
    unfold allGood
    by_cases hd : singleAtDir t fs = true
    · simp [hd]
    · simp only [hd, if_false, Bool.false_eq_true]
      have := firstErr_none_iff fs t.listed
      cases hfe : firstErr fs t.listed with
      | none => rw [hfe] at this; simp [this.mp rfl, hd]
      | some e =>
        rw [hfe] at this
        have : ¬ (t.listed.all (good fs) = true) := fun h => by simpa using this.mpr h
        simp [this]
  | some g =>
    have hg : ∀ l : List Call, l.any g = false := by
      intro l; simp [hp g rfl]
    simp [hg]

/-- … and with *any* callback (also a cancelling one) `True` is only ever returned when every
    listed file is there with exactly the recorded size. -/
theorem C20_true_sound (t : Torrent) (hwf : WF t) (fs : FS) (cb : Callback)
    (h : (verifyFilesize t fs cb).1 = .ok true) : AllGood t fs := by
  rw [C20_refines t hwf] at h
  rw [← allGood_iff]
  unfold spec at h
  by_cases hv : validateCore t = true
  · simp only [hv, Bool.not_true, Bool.false_eq_true, if_false] at h
    cases cb with
    | none =>
      by_cases hd : singleAtDir t fs = true
      · simp [hd] at h
      · simp only [hd, if_false, Bool.false_eq_true] at h
        cases hfe : firstErr fs t.listed with
        | none =>
          have := (firstErr_none_iff fs t.listed).mp hfe
          unfold allGood; simp [this, hd]
        | some e => simp [hfe] at h
    | some g =>
      simp only [Res.ok.injEq, Bool.and_eq_true] at h
      exact h.1
  · simp [hv] at h

theorem firstErr_some_iff (fs : FS) (l : List Listed) (e : Err) :
    firstErr fs l = some e ↔
      ∃ pre f post, l = pre ++ f :: post ∧ (∀ g ∈ pre, errOf fs g = none) ∧ errOf fs f = some e := by
  induction l with
  | nil => simp [firstErr]
  | cons a rest ih =>
    unfold firstErr
    cases ha : errOf fs a with
    | some e' =>
      constructor
      · intro h
        exact ⟨[], a, rest, rfl, by simp, by simpa [ha] using h⟩
      · rintro ⟨pre, f, post, hl, hpre, hf⟩
        cases pre with
        | nil =>
          simp only [List.nil_append, List.cons.injEq] at hl
          rw [← hl.1] at hf; rw [ha] at hf; simpa using hf
        | cons p pre' =>
          simp only [List.cons_append, List.cons.injEq] at hl
          have := hpre p (List.mem_cons_self ..)
          rw [← hl.1, ha] at this; cases this
    | none =>
      simp only [ih]
      constructor
      · rintro ⟨pre, f, post, hl, hpre, hf⟩
        refine ⟨a :: pre, f, post, by simp [hl], ?_, hf⟩
        intro g hg
        rcases List.mem_cons.mp hg with rfl | hg
        · exact ha
        · exact hpre g hg
      · rintro ⟨pre, f, post, hl, hpre, hf⟩
        cases pre with
        | nil =>
          simp only [List.nil_append, List.cons.injEq] at hl
          rw [← hl.1, ha] at hf; cases hf
        | cons p pre' =>
          simp only [List.cons_append, List.cons.injEq] at hl
          exact ⟨pre', f, post, hl.2, fun g hg => hpre g (List.mem_cons_of_mem _ hg), hf⟩

/-- **One error per offending file (a): no callback.** A valid torrent's size check either returns
    `True`, or raises: the is-a-directory error for a single-file torrent pointed at a directory,
    otherwise exactly the read/size error of the *first* offending file in listing order. -/
theorem C20_errors_each_nocallback (t : Torrent) (hwf : WF t) (hv : validateCore t = true)
    (fs : FS) (e : Err) :
    (verifyFilesize t fs none).1 = .raised e ↔
      (singleAtDir t fs = true ∧ e = .isDir) ∨
      (singleAtDir t fs = false ∧ ∃ pre f post, t.listed = pre ++ f :: post ∧
          (∀ g ∈ pre, errOf fs g = none) ∧ errOf fs f = some e) := by
  rw [C20_refines t hwf, ← firstErr_some_iff]
  unfold spec
  simp only [hv, Bool.not_true, Bool.false_eq_true, if_false]
  by_cases hd : singleAtDir t fs = true
  · simp only [hd, if_true, Res.raised.injEq, true_and, Bool.true_eq_false, false_and, or_false]
    exact eq_comm
  · simp only [hd, if_false, Bool.false_eq_true, false_and, false_or]
    simp only [Bool.not_eq_true] at hd
    simp only [hd, true_and]
    cases firstErr fs t.listed <;> simp

theorem fullCallsFrom_map_exc (fs : FS) (total i : Nat) (l : List Listed) :
    (fullCallsFrom fs total i l).map (·.exc) = l.map (errOf fs) := by
  induction l generalizing i with
  | nil => rfl
  | cons f rest ih => simp [fullCallsFrom, ih]

theorem takeThrough_passive (p : α → Bool) (l : List α) (h : ∀ c, p c = false) :
    takeThrough p l = l := by
  induction l with
  | nil => rfl
  | cons a rest ih => simp [takeThrough, h, ih]

/-- **One error per offending file (b): passive callback.** The exception arguments of the
    callback calls are, file by file, exactly `errOf` of the listed files (`None` for a good
    file, the read error for a missing one, the size error with actual and expected size
    otherwise); nothing is raised; the result is `False` iff some file offends. For a
    single-file torrent pointed at a directory there is the one is-a-directory report. -/
theorem C20_errors_each_callback (t : Torrent) (hwf : WF t) (hv : validateCore t = true)
    (fs : FS) (g : Call → Bool) (hp : ∀ c, g c = false) :
    ((verifyFilesize t fs (some g)).2.map (·.exc) =
        if singleAtDir t fs then [some .isDir] else t.listed.map (errOf fs)) ∧
    (verifyFilesize t fs (some g)).1 = .ok (allGood t fs) := by
  rw [C20_refines t hwf]
  unfold spec
  simp only [hv, Bool.not_true, Bool.false_eq_true, if_false]
  rw [takeThrough_passive g _ hp]
  constructor
  · unfold fullCalls
    by_cases hd : singleAtDir t fs = true
    · simp [hd]
    · simp [hd, fullCallsFrom_map_exc]
  · have hg : ∀ l : List Call, l.any g = false := by
      intro l; simp [hp]
    simp [hg]

theorem fullCallsFrom_getElem? (fs : FS) (total i : Nat) (l : List Listed) (j : Nat) :
    (fullCallsFrom fs total i l)[j]? =
      l[j]?.map (fun f => (⟨i + j, i + j + 1, total, errOf fs f⟩ : Call)) := by
  induction l generalizing i j with
  | nil => simp [fullCallsFrom]
  | cons f rest ih =>
    cases j with
    | zero => simp [fullCallsFrom]
    | succ j =>
      simp only [fullCallsFrom, List.getElem?_cons_succ, ih]
      congr 1
      funext f
      have : i + 1 + j = i + (j + 1) := by omega
      rw [this]

theorem takeThrough_spec (p : α → Bool) (l : List α) :
    ∃ k, k ≤ l.length ∧ takeThrough p l = l.take k ∧
      (∀ j, j + 1 < k → ∀ c, l[j]? = some c → p c = false) ∧
      (k < l.length → ∃ c, l[k - 1]? = some c ∧ 0 < k ∧ p c = true) ∧
      ((takeThrough p l).any p = true ↔ ∃ c, 0 < k ∧ l[k - 1]? = some c ∧ p c = true) := by
  induction l with
  | nil => exact ⟨0, by simp [takeThrough]⟩
  | cons a rest ih =>
    obtain ⟨k, hk, htake, hbefore, hlast, hany⟩ := ih
    by_cases ha : p a = true
    · refine ⟨1, by simp, by simp [takeThrough, ha], ?_, ?_, ?_⟩
      · intro j hj; omega
      · intro _; exact ⟨a, by simp, by omega, ha⟩
      · simp [takeThrough, ha]
    · simp only [Bool.not_eq_true] at ha
      refine ⟨k + 1, by simp; omega, by simp [takeThrough, ha, htake], ?_, ?_, ?_⟩
      · intro j hj c hc
        cases j with
        | zero => simp at hc; rw [← hc]; exact ha
        | succ j => exact hbefore j (by omega) c (by simpa using hc)
      · intro hlt
        simp only [List.length_cons] at hlt
        obtain ⟨c, hc, hpos, hpc⟩ := hlast (by omega)
        refine ⟨c, ?_, by omega, hpc⟩
        have : k + 1 - 1 = (k - 1) + 1 := by omega
        rw [this, List.getElem?_cons_succ]; exact hc
      · simp only [takeThrough, ha, Bool.false_eq_true, if_false, List.any_cons, Bool.false_or]
        rw [hany]
        constructor
        · rintro ⟨c, hpos, hc, hpc⟩
          refine ⟨c, by omega, ?_, hpc⟩
          have : k + 1 - 1 = (k - 1) + 1 := by omega
          rw [this, List.getElem?_cons_succ]; exact hc
        · rintro ⟨c, _, hc, hpc⟩
          cases k with
          | zero => simp at hc; rw [← hc] at hpc; rw [ha] at hpc; cases hpc
          | succ k' =>
            refine ⟨c, by omega, ?_, hpc⟩
            simpa using hc

/-- **Callback protocol.** For *every* callback (also a cancelling one) on a valid multi-file or
    single-file torrent whose path is not the single-file-at-directory case: there is a `k ≤ n`
    (`n` = number of listed files) such that exactly `k` calls are made; call number `j` (0-based)
    is about listed file `j`, has `files_done = j + 1`, `files_total = n` and the exception
    `errOf` of file `j`; no call before the last one asked to stop; `k < n` only if the last call
    asked to stop; and the result is `False` whenever a call asked to stop. -/
theorem C20_callback_order (t : Torrent) (hwf : WF t) (hv : validateCore t = true) (fs : FS)
    (g : Call → Bool) (hd : singleAtDir t fs = false) :
    let r := verifyFilesize t fs (some g)
    let n := t.listed.length
    ∃ k, k ≤ n ∧ r.2.length = k ∧
      (∀ j, j < k → ∃ f, t.listed[j]? = some f ∧ r.2[j]? = some ⟨j, j + 1, n, errOf fs f⟩) ∧
      (∀ j c, j + 1 < k → r.2[j]? = some c → g c = false) ∧
      (k < n → ∃ c, r.2[k - 1]? = some c ∧ 0 < k ∧ g c = true) ∧
      ((∃ c ∈ r.2, g c = true) → r.1 = .ok false) := by
  intro r n
  have hr : r = spec t fs (some g) := C20_refines t hwf fs (some g)
  unfold spec at hr
  simp only [hv, Bool.not_true, Bool.false_eq_true, if_false, fullCalls, hd] at hr
  obtain ⟨k, hk, htake, hbefore, hlast, _⟩ := takeThrough_spec g (fullCallsFrom fs n 0 t.listed)
  have hlen : (fullCallsFrom fs n 0 t.listed).length = n := by
    have := congrArg List.length (fullCallsFrom_map_exc fs n 0 t.listed)
    simpa using this
  rw [hlen] at hk hlast
  have h2 : r.2 = (fullCallsFrom fs n 0 t.listed).take k := by rw [hr]; exact htake
  have hget : ∀ j, j < k → r.2[j]? = (fullCallsFrom fs n 0 t.listed)[j]? := by
    intro j hj; rw [h2, List.getElem?_take]; simp [hj]
  refine ⟨k, hk, by rw [h2]; simp [hlen]; omega, ?_, ?_, ?_, ?_⟩
  · intro j hj
    have hjn : j < t.listed.length := by omega
    refine ⟨t.listed[j], by simp, ?_⟩
    rw [hget j hj, fullCallsFrom_getElem?]
    simp [hjn]
  · intro j c hj hc
    rw [hget j (by omega)] at hc
    exact hbefore j hj c hc
  · intro hkn
    obtain ⟨c, hc, hpos, hpc⟩ := hlast hkn
    exact ⟨c, by rw [hget (k - 1) (by omega)]; exact hc, hpos, hpc⟩
  · rintro ⟨c, hc, hpc⟩
    have hany : (takeThrough g (fullCallsFrom fs n 0 t.listed)).any g = true := by
      rw [← htake] at h2
      rw [← h2]
      exact List.any_eq_true.mpr ⟨c, hc, hpc⟩
    have hany' : (takeThrough g (fullCallsFrom fs t.listed.length 0 t.listed)).any g = true := hany
    rw [hr]
    simp [hany']

/-- … and in the single-file-at-a-directory case a callback is called exactly once, for the one
    listed file, with the is-a-directory error, and the result is `False` whatever it returns. -/
theorem C20_callback_single_at_dir (t : Torrent) (hwf : WF t) (hv : validateCore t = true)
    (fs : FS) (g : Call → Bool) (hd : singleAtDir t fs = true) :
    verifyFilesize t fs (some g) = (.ok false, [⟨0, 1, 1, some .isDir⟩]) := by
  rw [C20_refines t hwf]
  unfold spec
  simp only [hv, Bool.not_true, Bool.false_eq_true, if_false, fullCalls, hd, if_true, takeThrough]
  have : allGood t fs = false := by unfold allGood; simp [hd]
  cases g ⟨0, 1, 1, some Err.isDir⟩ <;> simp [this]

/-- **Agreement with full verification.** Whenever full content verification succeeds on a path
    (C02's specification: every listed file present as a regular file of exactly the recorded
    size, and all piece hashes match), the size check succeeds on it too. -/
theorem C20_verify_implies (t : Torrent) (hwf : WF t) (fs : FS) (hashesMatch : Bool)
    (cb : Callback) (hp : Passive cb) (h : fullVerifyOk t fs hashesMatch = true) :
    (verifyFilesize t fs cb).1 = .ok true := by
  unfold fullVerifyOk allPresentExact at h
  simp only [Bool.and_eq_true, List.all_eq_true, presentExact, beq_iff_eq] at h
  obtain ⟨⟨hv, hall⟩, _⟩ := h
  rw [C20_iff t hwf hv fs cb hp]
  intro f hf
  exact Or.inl (hall f hf)

/-- **Only documented errors.** On a well-formed layout the check never raises the (undocumented)
    unknown-path error of `partial_size`, with a callback it raises nothing once `validate()` has
    passed, and an invalid torrent raises the metainfo error before anything else happens. -/
theorem C20_no_internal (t : Torrent) (hwf : WF t) (fs : FS) (cb : Callback) :
    (verifyFilesize t fs cb).1 ≠ .raised .path ∧
    (validateCore t = true → cb.isSome → ∃ b, (verifyFilesize t fs cb).1 = .ok b) ∧
    (validateCore t = false → verifyFilesize t fs cb = (.raised .metainfo, [])) := by
  rw [C20_refines t hwf]
  unfold spec
  refine ⟨?_, ?_, ?_⟩
  · by_cases hv : validateCore t = true
    · simp only [hv, Bool.not_true, Bool.false_eq_true, if_false]
      cases cb with
      | none =>
        by_cases hd : singleAtDir t fs = true
        · simp [hd]
        · simp only [hd, if_false, Bool.false_eq_true]
          cases hfe : firstErr fs t.listed with
          | none => simp
          | some e =>
            simp only [ne_eq, Res.raised.injEq]
            intro he; subst he
            obtain ⟨pre, f, post, _, _, hf⟩ := (firstErr_some_iff fs t.listed _).mp hfe
            unfold errOf at hf
            cases hfs : fs f.path with
            | missing => simp [hfs] at hf
            | file n => by_cases hn : n = f.size <;> simp [hfs, hn] at hf
            | dir n => by_cases hn : n = f.size <;> simp [hfs, hn] at hf
      | some g => simp
    · simp [hv]
  · intro hv hcb
    cases cb with
    | none => cases hcb
    | some g => simp [hv]
  · intro hv; simp [hv]

/-! ### Non-vacuity: concrete layouts meeting every hypothesis -/

/-- two files and a zero-length entry, 16 KiB pieces, 2 digests -/
def exT : Torrent :=
  ⟨"T", .multi [⟨["a"], 16384⟩, ⟨["d", "z"], 0⟩, ⟨["d", "b"], 7⟩], 16384, 40⟩

def exFsGood : FS := fun p =>
  if p = ["a"] then .file 16384 else if p = ["d", "z"] then .file 0
  else if p = ["d", "b"] then .file 7 else .missing

/-- second file missing, third one byte too long -/
def exFsBad : FS := fun p =>
  if p = ["a"] then .file 16384 else if p = ["d", "b"] then .file 8 else .missing

example : WF exT := by decide
example : validateCore exT = true := by decide
example : verifyFilesize exT exFsGood none = (.ok true, []) := by decide
example : fullVerifyOk exT exFsGood true = true := by decide
example : verifyFilesize exT exFsBad none = (.raised .read, []) := by decide
example : verifyFilesize exT exFsBad (some fun _ => false)
    = (.ok false, [⟨0, 1, 3, none⟩, ⟨1, 2, 3, some .read⟩, ⟨2, 3, 3, some (.size 8 7)⟩]) := by decide
/-- cancelling at the second call -/
example : verifyFilesize exT exFsBad (some fun c => c.done == 2)
    = (.ok false, [⟨0, 1, 3, none⟩, ⟨1, 2, 3, some .read⟩]) := by decide
/-- a directory in place of a listed file passes when its files total the recorded size -/
example : verifyFilesize exT (fun p => if p = ["d", "b"] then .dir 7 else exFsGood p) none
    = (.ok true, []) := by decide
/-- single-file torrent pointed at a directory -/
example : verifyFilesize ⟨"s", .single 5, 16384, 20⟩ (fun _ => .dir 5) (some fun _ => false)
    = (.ok false, [⟨0, 1, 1, some .isDir⟩]) := by decide
example : singleAtDir ⟨"s", .single 5, 16384, 20⟩ (fun _ => .dir 5) = true := by decide

end Torf.C20
