/-
  C13 — magnet links round-trip: the size clauses ("URL lists of any length").
  Property theorems only (helper lemmas: Torf.Lemmas.MagnetSize).
-/
import Torf.Lemmas.MagnetSize
import Torf.Properties.C13
namespace Torf.C13
open Torf Torf.Magnet

/-- The rendered link of a well-formed magnet has exactly `fieldCount m` `key=value` fields
    (`xt`, one for each of dn / xl / xs that is set, one for all keywords, one per tracker, one per
    webseed): this is the number `urllib.parse.parse_qsl` would compare with a `max_num_fields`. -/
theorem C13_field_count (isUrl : Str → Bool) (m : MagnetObj) (h : WF isUrl m = true) :
    numFields (intercalateStr ['&'] (pieces m)) = fieldCount m :=
  numFields_query isUrl m h

/-- The code's parser passes no field limit to `parse_qs`: the parser with `limit = none` is
    `from_string`. -/
theorem C13_no_field_limit (isUrl : Str → Bool) (intO : Str → IntResult) (uri : Str) :
    fromStringMax none isUrl intO uri = fromString isUrl intO uri :=
  fromStringMax_none isUrl intO uri

/-- What a parser with `parse_qs(query, max_num_fields=n)` (ValueError → MagnetError) does on the
    link of a well-formed magnet: it gives back the magnet iff the magnet has at most `n` fields,
    and raises MagnetError otherwise. -/
theorem C13_field_limit (isUrl : Str → Bool) (intO : Str → IntResult) (m : MagnetObj)
    (h : WF isUrl m = true) (n : Nat) :
    fromStringMax (some n) isUrl intO (render m) =
      if n < fieldCount m then .err .magnet else .ok m :=
  fromStringMax_render isUrl intO m h n

/-- The round-trip statement for a parser with a field limit `n` … -/
def C13_field_limit_full (n : Nat) : Prop :=
  ∀ (isUrl : Str → Bool) (intO : Str → IntResult) (m : MagnetObj),
    WF isUrl m = true → fromStringMax (some n) isUrl intO (render m) = .ok m

/-- … is false for **every** `n` (seeded change C13-6a had `n = 100`): a magnet with `n` trackers
    is well-formed, renders to `n + 1` fields, and is rejected.  The property's "URL lists of any
    length" leaves no room for any limit. -/
theorem C13_field_limit_counterexample (n : Nat) : ¬ C13_field_limit_full n := by
  intro h
  have hr := h (fun _ => true) (fun _ => none) (bigMagnet n) (bigMagnet_wf n)
  rw [C13_field_limit _ _ _ (bigMagnet_wf n), bigMagnet_fields] at hr
  simp at hr

/-- Non-vacuity in the size dimension: for every `n` there is a well-formed magnet with `n`
    trackers (more than `n` fields) — and it round-trips through the code's parser. -/
theorem C13_parse_render_any_size (n : Nat) :
    ∃ m, WF (fun _ => true) m = true ∧ m.tr.length = n ∧ n < fieldCount m ∧
      ∀ intO, fromString (fun _ => true) intO (render m) = .ok m :=
  ⟨bigMagnet n, bigMagnet_wf n, by simp [bigMagnet, manyUrls_length],
   by rw [bigMagnet_fields]; omega,
   fun intO => C13_parse_render _ intO _ (bigMagnet_wf n)⟩

/-! ### non-vacuity -/

example : WF (fun _ => true) (bigMagnet 3) = true ∧ fieldCount (bigMagnet 3) = 4 := by decide

end Torf.C13
