/-
  C02 — bridge theorems to the kernels translated from the source (Torf/Generated/Kernels.lean is
  regenerated from /repo on every run): the model's "which files does a content error name" test
  is exactly the source's three-way comparison with the source's `err_i_beg` / `err_i_end`.

  Loop kernel (second half): the whole body of `VerifyContentError.__init__` up to the store
  `self._files = tuple(corrupt_files)` is translated statement by statement (`corruptFilesFn`:
  the `len(file_sizes)` cases, `err_i_beg` / `err_i_end`, `cur_pos = 0`, the loop over the
  `(filepath, filesize)` pairs with the test, the `append` and `cur_pos += filesize`; the message
  string is not translated, only the bounds check of its `corrupt_files[0]`).
  `C02_kernel_loop_corrupt_files`: it computes the model's `corruptFiles` for every list of sizes,
  every piece index and every piece size (an empty list: RuntimeError).
-/
import Torf.Generated.Kernels
import Torf.Spec.Verify
namespace Torf.C02
open Torf Torf.Missing Torf.Verify Torf.Generated

theorem C02_kernel_corrupt_files (L : Nat) (sizes : List Nat) (i k : Nat) (hlen : sizes.length ≠ 1) :
    k ∈ corruptFiles L sizes i ↔
      (k < sizes.length ∧
        corruptCond (pos sizes k) ((pos sizes k : Int) + sizeOf sizes k)
          (corruptErrBeg i L) (corruptErrEnd (corruptErrBeg i L) L) = true) := by
  unfold corruptFiles corruptCond corruptErrBeg corruptErrEnd
  simp only [hlen, if_false, List.mem_filter, List.mem_range, Bool.or_eq_true, Bool.and_eq_true,
    decide_eq_true_eq]
  have e : ((i * L : Nat) : Int) = (i : Int) * (L : Int) := Int.natCast_mul i L
  constructor
  · rintro ⟨hk, h⟩
    exact ⟨hk, by omega⟩
  · rintro ⟨hk, h⟩
    exact ⟨hk, by omega⟩

/-! ### Loop kernel: `VerifyContentError.__init__` as a whole -/

open Torf.Loop

/-- the three-way test on integers, for a file of size `s` starting at `fb` -/
private def hit (eb ee fb : Int) (s : Nat) : Bool :=
  (decide (fb ≤ eb) && decide (eb < fb + (s : Int))) || (decide (fb < ee) && decide (ee ≤ fb + (s : Int))) ||
    (decide (fb ≥ eb) && decide (fb + (s : Int) < ee))

/-- the loop of the source in the model's vocabulary: files `idx, idx+1, …` of sizes `rest`, the
    first one starting at `p` -/
private def corruptLoop (eb ee : Int) : List Nat → Nat → Int → List Nat
  | [], _, _ => []
  | s :: rest, idx, p => (if hit eb ee p s then [idx] else []) ++ corruptLoop eb ee rest (idx + 1) (p + (s : Int))

private theorem hit_iff (eb ee fb : Int) (s : Nat) :
    hit eb ee fb s = true ↔
      ((fb ≤ eb ∧ eb < fb + (s : Int)) ∨ (fb < ee ∧ ee ≤ fb + (s : Int))) ∨ (fb ≥ eb ∧ fb + (s : Int) < ee) := by
  simp only [hit, Bool.or_eq_true, Bool.and_eq_true, decide_eq_true_eq]

private theorem bnot_eq_true (b : Bool) : ((!b) = true) ↔ ¬ (b = true) := by cases b <;> simp

private theorem isSome_getIdx_zero {α : Type} (xs : List α) :
    (getIdx xs (0 : Int)).isSome = decide (0 < xs.length) := by
  cases xs <;> simp [getIdx]

local macro "loop_arith" : tactic =>
  `(tactic| (try simp only [Bool.or_eq_true, Bool.and_eq_true, bnot_eq_true, decide_eq_true_eq, isSome_getIdx_zero,
               List.length_map, Bool.true_eq_false, Bool.false_eq_true, not_true_eq_false, not_false_eq_true] at *
             omega))

/-- model side: the loop started behind the files `pre` collects the indexes the model's filter keeps -/
private theorem corruptLoop_eq (eb ee : Int) :
    ∀ (rest pre : List Nat),
      corruptLoop eb ee rest pre.length ((pre.sum : Nat) : Int) =
        (List.range' pre.length rest.length).filter
          (fun k => hit eb ee (pos (pre ++ rest) k) (sizeOf (pre ++ rest) k))
  | [], pre => by simp [corruptLoop]
  | s :: rest, pre => by
    have ih := corruptLoop_eq eb ee rest (pre ++ [s])
    have hp : pos (pre ++ s :: rest) pre.length = pre.sum := by simp [Torf.Missing.pos]
    have hs : sizeOf (pre ++ s :: rest) pre.length = s := by simp [Torf.Missing.sizeOf]
    simp only [List.length_append, List.length_cons, List.length_nil, List.sum_append, List.sum_cons, List.sum_nil,
      List.append_assoc, List.cons_append, List.nil_append, Nat.zero_add, Nat.add_zero] at ih
    simp only [corruptLoop, List.length_cons, List.range'_succ, List.filter_cons, hp, hs]
    have e : ((pre.sum : Nat) : Int) + (s : Int) = ((pre.sum + s : Nat) : Int) := by omega
    rw [e, ih]
    split <;> simp

/-- loop invariant: started at pair `idx` with running position `cur` and the files `acc`
    collected so far, the source's loop stores `acc` followed by what `corruptLoop` collects -/
private theorem corruptFiles_inv (pi ps eb ee : Int) :
    ∀ (rest : List Nat) (idx : Nat) (cur cur' : Int) (acc : List Nat), cur = cur' →
      corruptFilesFn.loop pi ps eb ee (rest.map Int.ofNat) idx acc cur =
        .ret (acc ++ corruptLoop eb ee rest idx cur')
  | [], idx, cur, cur', acc, h => by
    simp only [List.map_nil, corruptFilesFn.loop, corruptLoop, List.append_nil]
    repeat' split
    all_goals first
      | rfl
      | loop_arith
  | s :: rest, idx, cur, cur', acc, h => by
    subst h
    simp only [List.map_cons, corruptFilesFn.loop, corruptLoop, Int.ofNat_eq_natCast]
    have hm := hit_iff eb ee cur s
    by_cases hh : hit eb ee cur s = true
    · rw [if_pos hh]
      have hm' := hm.mp hh
      clear hm hh
      repeat' split
      all_goals first
        | loop_arith
        | (rw [corruptFiles_inv pi ps eb ee rest _ _ (cur + (s : Int)) _ (by omega)]
           simp)
    · rw [if_neg hh]
      have hm' := mt hm.mpr hh
      clear hm hh
      repeat' split
      all_goals first
        | loop_arith
        | (rw [corruptFiles_inv pi ps eb ee rest _ _ (cur + (s : Int)) _ (by omega)]
           simp)

/-- `VerifyContentError.__init__` as written in the source computes the model's `corruptFiles`:
    for every list of file sizes (zero-length files included), every piece index and every piece
    size; an empty list of files is the RuntimeError of the source -/
theorem C02_kernel_loop_corrupt_files (L : Nat) (sizes : List Nat) (i : Nat) :
    corruptFilesFn (sizes.map Int.ofNat) i L =
      if sizes = [] then .raised "RuntimeError" else .ret (corruptFiles L sizes i) := by
  have hmodel : sizes.length ≠ 1 → corruptFiles L sizes i =
      corruptLoop ((i : Int) * (L : Int)) ((i : Int) * (L : Int) + (L : Int)) sizes 0 0 := by
    intro hlen
    have h := corruptLoop_eq ((i : Int) * (L : Int)) ((i : Int) * (L : Int) + (L : Int)) sizes []
    simp only [List.length_nil, List.sum_nil, List.nil_append] at h
    rw [show ((0 : Nat) : Int) = 0 from rfl] at h
    rw [h]
    unfold corruptFiles
    rw [if_neg hlen, List.range_eq_range']
    apply List.filter_congr
    intro k _
    have e : ((i * L : Nat) : Int) = (i : Int) * (L : Int) := Int.natCast_mul i L
    rw [Bool.eq_iff_iff, hit_iff]
    simp only [Bool.or_eq_true, Bool.and_eq_true, decide_eq_true_eq]
    omega
  unfold corruptFilesFn
  have hl : ((sizes.map Int.ofNat).length : Int) = (sizes.length : Int) := by simp
  by_cases h0 : sizes = []
  · subst h0
    simp
  · rw [if_neg h0]
    have hpos : 0 < sizes.length := List.length_pos_iff.mpr h0
    by_cases h1 : sizes.length = 1
    · have : corruptFiles L sizes i = [0] := by unfold corruptFiles; rw [if_pos h1]
      rw [this]
      repeat' split
      all_goals first
        | rfl
        | loop_arith
    · rw [hmodel h1]
      repeat' split
      all_goals first
        | loop_arith
        | (rw [corruptFiles_inv _ _ _ _ sizes 0 _ 0 _ (by omega)]
           simp only [List.nil_append]
           try (congr 2 <;> first | omega | grind))

/-- the translated function runs: sizes (3, 2, 4), piece size 2 -/
example :
    corruptFilesFn [3, 2, 4] 1 2 = .ret [0, 1] ∧ corruptFilesFn [3, 2, 4] 2 2 = .ret [1, 2] ∧
    corruptFilesFn [7] 5 2 = .ret [0] ∧ corruptFilesFn [] 0 2 = .raised "RuntimeError" ∧
    corruptFilesFn [3, 0, 4] 9 2 = .ret [] := by decide

end Torf.C02
