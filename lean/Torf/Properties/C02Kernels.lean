/-
  C02 — bridge theorems to the kernels translated from the source (Torf/Generated/Kernels.lean is
  regenerated from /repo on every run): the model's "which files does a content error name" test
  is exactly the source's three-way comparison with the source's `err_i_beg` / `err_i_end`.
-/
import Torf.Generated.Kernels
import Torf.Spec.Verify
namespace Torf.C02
open Torf Torf.Missing Torf.Verify Torf.Generated

theorem C02_kernel_corrupt_files (L : Nat) (sizes : List Nat) (i k : Nat) (hlen : sizes.length ≠ 1) :
    k ∈ corruptFiles L sizes i ↔
      (k < sizes.length ∧
        corruptCond (pos sizes k) ((pos sizes k : Int) + sizeOf sizes k)
          (corruptErrBeg i L) (corruptErrEnd (corruptErrBeg i L) L) = true) := by
  unfold corruptFiles corruptCond corruptErrBeg corruptErrEnd
  simp only [hlen, if_false, List.mem_filter, List.mem_range, Bool.or_eq_true, Bool.and_eq_true,
    decide_eq_true_eq]
  have e : ((i * L : Nat) : Int) = (i : Int) * (L : Int) := Int.natCast_mul i L
  constructor
  · rintro ⟨hk, h⟩
    exact ⟨hk, by omega⟩
  · rintro ⟨hk, h⟩
    exact ⟨hk, by omega⟩

end Torf.C02
