/-
  C06 — bridge theorem to the constant translated from `Torrent.magnet` (regenerated from the source
  on every run): the text the code puts in front of `self.infohash` to form the exact topic is the
  model's `urnBtih`, so `C06_magnet` (the topic is `urn:btih:` followed by the reported infohash) speaks
  about the prefix the source contains now.
-/
import Torf.Generated.Kernels
import Torf.Model.ReadStream
namespace Torf.C06
open Torf Torf.Bencode Torf.Codec Torf.Generated Torf.ReadStream

theorem C06_kernel_xt_prefix : magnetXtPrefix.map (fun s => s.toUTF8.toList) = [urnBtih] := by
  decide +kernel

/-- with that prefix: what `Torrent.magnet()` hands to `Magnet(xt=…)` is the prefix followed by the
    hash the `infohash` getter returns -/
theorem C06_kernel_magnet_xt (env : Env) (H : Bytes → Bytes) (md : List (PyVal × PyVal)) (h : Bytes)
    (hh : infohash env H md = .ok h) :
    magnetXtOf env H md = magnetXt ((magnetXtPrefix.map (fun s => s.toUTF8.toList)).flatten ++ h) := by
  rw [C06_kernel_xt_prefix]
  simp [magnetXtOf, hh]

end Torf.C06
