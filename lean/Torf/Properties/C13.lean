/-
  C13 — magnet links round-trip.  Property theorems only (helper lemmas: Torf.Lemmas.MagnetUri).
-/
import Torf.Lemmas.MagnetUri
namespace Torf.C13
open Torf Torf.Magnet

/-- Percent-quoting is lossless: for every string of Unicode scalar values (reserved characters,
    control characters, non-BMP, …) `unquote_plus(quote_plus(s)) = s`. -/
theorem C13_unquote_quote (s : Str) : unquotePlus (quotePlus s) = some s :=
  unquotePlus_quotePlus s

end Torf.C13
