/-
  C13 — magnet links round-trip.  Property theorems only (helper lemmas: Torf.Lemmas.MagnetUri).
-/
import Torf.Lemmas.MagnetUri
import Torf.Properties.C14
namespace Torf.C13
open Torf Torf.Magnet

/-- Percent-quoting is lossless: for every string of Unicode scalar values (reserved characters,
    control characters, non-BMP, …) `unquote_plus(quote_plus(s)) = s`. -/
theorem C13_unquote_quote (s : Str) : unquotePlus (quotePlus s) = some s :=
  unquotePlus_quotePlus s

/-- `parse_qsl` undoes the renderer's joining and quoting for any list of parameters whose keys
    are the renderer's and whose encoded values are non-empty `quote_plus` output. -/
theorem C13_parse_qsl_render (eps : List EP) (hne : eps ≠ []) (h : ∀ e ∈ eps, e.good) :
    parseQsl (intercalateStr ['&'] (eps.map fun e => kv e.k e.enc)) =
      some (eps.map fun e => (e.k, e.dec)) :=
  parseQsl_pieces eps hne h

/-- Rendering a well-formed magnet and parsing the link gives back the same object, field by
    field (info hash as stored, display name, length, trackers in order, exact source, webseeds,
    keywords) — for every URL-validity predicate and every `int()` oracle.  `WF` = what the
    constructor produces minus the open findings (no `as_`, no extension parameters, no empty
    name / keyword), keywords without whitespace. -/
theorem C13_parse_render (isUrl : Str → Bool) (intO : Str → IntResult) (m : MagnetObj)
    (h : WF isUrl m = true) : fromString isUrl intO (render m) = .ok m := by
  obtain ⟨h1, h2⟩ := query_parse isUrl m h
  unfold fromString
  rw [h1]
  simp only [ne_eq, not_true_eq_false, if_false, h2, fromPairs_pairsOf isUrl intO m h]

/-- The full statement over everything the constructor can produce … -/
def C13_parse_render_full : Prop :=
  ∀ (isUrl : Str → Bool) (intO : Str → IntResult) (m : MagnetObj),
    constructible isUrl m = true → fromString isUrl intO (render m) = .ok m

def witnessHash : Str := List.replicate 40 'a'

/-- … is falsified by the code: an acceptable source is rendered as `as_=` and the parser
    rejects that key (D13a). -/
theorem C13_parse_render_counterexample : ¬ C13_parse_render_full := by
  intro h
  have hr := h (fun _ => true) (fun _ => none)
    { infohash := witnessHash, as_ := some ['u'] } (by decide)
  -- the rendered link is `magnet:?xt=urn:btih:aaaa…&as_=u`; its two parameters parse back to …
  let eps : List EP := [⟨kXt, urnPrefix ++ witnessHash, urnPrefix ++ witnessHash⟩, ⟨kAsUnderscore, ['u'], ['u']⟩]
  have hp : pieces { infohash := witnessHash, as_ := some ['u'] } = eps.map (fun e => kv e.k e.enc) := by
    decide
  have hgood : ∀ e ∈ eps, e.good := by
    intro e he
    simp only [eps, List.mem_cons, List.not_mem_nil, or_false] at he
    rcases he with rfl | rfl
    · exact (good_plain _ _ (Or.inl rfl) (by decide) (hash_chars witnessHash (by decide))).1
    · exact ⟨by decide, by decide, by decide, by decide,
        unquotePlus_plain _ (by decide), unquotePlus_plain _ (by decide)⟩
  have hq := parseQsl_pieces eps (by simp [eps]) hgood
  have hu := urlparse_rendered (intercalateStr ['&'] (eps.map fun e => kv e.k e.enc)) (by decide)
  unfold fromString render at hr
  rw [hp, hu] at hr
  simp only [ne_eq, not_true_eq_false, if_false, hq] at hr
  -- … a key the parser does not know
  have hf : fromPairs (fun _ => true) (fun _ => none) (eps.map fun e => (e.k, e.dec)) = .error .magnet := by
    rfl
  rw [hf] at hr
  cases hr

/-- A torrent (40-digit lower-case hex infohash, non-empty name without newline, size ≥ 1, valid
    distinct tracker and webseed URLs) converted to a magnet, rendered, parsed and converted
    back has the same infohash, name, size, flat tracker order and webseeds. -/
theorem C13_torrent_roundtrip (isUrl : Str → Bool) (intO : Str → IntResult) (t : TorrentView)
    (h : TorrentOk isUrl t = true) :
    ∃ m, magnetOfTorrent isUrl t = .ok m ∧ fromString isUrl intO (render m) = .ok m ∧
      torrentOfMagnet m = .ok t := by
  obtain ⟨ih, name, size, trackers, webseeds⟩ := t
  simp only [TorrentOk, Bool.and_eq_true, decide_eq_true_eq] at h
  obtain ⟨⟨⟨⟨⟨⟨hih, hname⟩, hsize⟩, htr⟩, htrn⟩, hws⟩, hwsn⟩ := h
  cases name with
  | none => simp at hname
  | some d =>
    cases size with
    | none => simp at hsize
    | some n =>
      have hname' : ¬ d = [] ∧ '\n' ∉ d := by simpa using hname
      have hsize' : 1 ≤ n ∧ decLen n n ≤ 4300 := by simpa using hsize
      obtain ⟨hv, hcan⟩ := C14.C14_lowerHex_canonical ih hih
      have hm : magnetOfTorrent isUrl ⟨ih, some d, some n, trackers, webseeds⟩ =
          .ok { infohash := ih, dn := some d, xl := some n, tr := trackers, ws := webseeds } := by
        have h1 : ¬ ((n : Int) < 1) := by omega
        simp [magnetOfTorrent, construct_urn ih hv, setUrls_ok isUrl trackers htr htrn,
          setUrls_ok isUrl webseeds hws hwsn, liftSet, setXl, h1, normDn_id d hname'.2,
          bind, Except.bind, pure, Except.pure]
      refine ⟨_, hm, ?_, ?_⟩
      · apply C13_parse_render
        simp only [WF, Bool.and_eq_true, decide_eq_true_eq]
        simp [hv, hname', hsize', htr, htrn, hws, hwsn]
      · simp [torrentOfMagnet, C14.C14_torrent_hash ih hv, hcan, bind, Except.bind, pure, Except.pure]

/-- The URL clauses of `WF` / `TorrentOk` are no restriction: whatever the URL setters of a magnet
    accept (C14's model of `utils.URL` and `MonitoredList.replace`) is stored valid, non-empty, free of
    spaces and without duplicates — for every validity predicate that rejects the empty string, as
    `utils.is_url` does.  (Before the repair of D13e a constructed magnet could hold the invalid
    `+http://…`; such objects were excluded by `WF`.) -/
theorem C13_stored_urls_ok (isUrl : Str → Bool) (hne : isUrl [] = false) (st vs : List Str)
    (st1 : Option Str) (v : Str) :
    ((setUrls isUrl st vs).1 = none →
      (setUrls isUrl st vs).2.all (urlOk isUrl) = true ∧ (setUrls isUrl st vs).2.Nodup) ∧
    ((setUrl isUrl st1 (some v)).1 = none →
      ∃ u, (setUrl isUrl st1 (some v)).2 = some u ∧ urlOk isUrl u = true) := by
  have hok : ∀ u, isUrl u = true → ' ' ∉ u → urlOk isUrl u = true := by
    intro u h1 h2
    have : u ≠ [] := by intro e; rw [e, hne] at h1; cases h1
    simp [urlOk, h1, this, h2]
  obtain ⟨_, _, h3, h4, _⟩ := C14.C14_urls isUrl st vs st1 v
  constructor
  · intro h
    obtain ⟨e, hall⟩ := h3 h
    refine ⟨List.all_eq_true.mpr fun u hu => hok u (hall u hu).1 (hall u hu).2, ?_⟩
    rw [e]; exact (C14.C14_keepFirst _).1
  · intro h
    rw [h4] at h ⊢
    by_cases ha : urlAccepts isUrl v = true
    · simp only [ha, if_true]
      refine ⟨_, rfl, hok _ ?_ ?_⟩
      · simp only [urlAccepts, Bool.and_eq_true] at ha; exact ha.2
      · intro hm
        obtain ⟨c, _, hc⟩ := List.mem_map.mp hm
        by_cases hcs : c = ' ' <;> simp [hcs] at hc
    · simp [ha] at h

/-! ### histories on one object: a rendering shows the fields the object holds *now* -/

/-- In any history of edits (through setters, through the monitored `tr`/`ws` lists, in place on the
    plain `kt` list / `x` dict — arbitrary functions of the field values) and renderings on one
    magnet object, every `str(m)` is the rendering of the field values the object holds at that
    moment, whatever was rendered before; hence parsing it gives back exactly those values whenever
    they are well-formed (the round-trip clause holds on the *current* state after every step). -/
theorem C13_render_history_independent (isUrl : Str → Bool) (intO : Str → IntResult)
    (m : MagnetObj) (ops : List MOp) :
    (runR m ops).1 = (statesAtStr m ops).map render ∧
    (∀ s ∈ statesAtStr m ops, WF isUrl s = true → fromString isUrl intO (render s) = .ok s) := by
  refine ⟨?_, fun s _ h => C13_parse_render isUrl intO s h⟩
  induction ops generalizing m with
  | nil => rfl
  | cons op ops ih =>
    cases op with
    | set g => exact ih (g m)
    | listEdit g => exact ih (g m)
    | plainEdit g => exact ih (g m)
    | str => simp only [runR, statesAtStr, List.map_cons, ih m]

/-- The same statement for a renderer that remembers its result until a setter or a `tr`/`ws`
    callback fires (seeded change C13-4a) … -/
def C13_render_memo_full : Prop :=
  ∀ (m : MagnetObj) (ops : List MOp), (runMemo m none ops).1 = (statesAtStr m ops).map render

/-- … is false: render, append a keyword in place, render again — the second string is the first. -/
theorem C13_render_memo_counterexample : ¬ C13_render_memo_full := by
  intro h
  have := h { infohash := witnessHash } [.str, .plainEdit (fun m => { m with kt := m.kt ++ [['k']] }), .str]
  revert this
  decide

/-- A memo keyed by the field **values** is faithful: it returns exactly what the code returns, in
    every history (so such a change of the code must not alarm the check). -/
theorem C13_render_value_memo_faithful (m : MagnetObj) (ops : List MOp)
    (cache : Option (MagnetObj × Str)) (hc : ∀ m' s, cache = some (m', s) → s = render m') :
    runValueMemo m cache ops = runR m ops := by
  induction ops generalizing m cache with
  | nil => rfl
  | cons op ops ih =>
    cases op with
    | set g => exact ih (g m) cache hc
    | listEdit g => exact ih (g m) cache hc
    | plainEdit g => exact ih (g m) cache hc
    | str =>
      have hnew : ∀ m' s, some (m, render m) = some (m', s) → s = render m' := by
        intro m' s e; cases e; rfl
      cases cache with
      | none => simp only [runValueMemo, runR, ih m _ hnew]
      | some c =>
        obtain ⟨m', s⟩ := c
        have hs := hc m' s rfl
        by_cases e : m' = m
        · subst e
          subst hs
          simp only [runValueMemo, runR, if_true, ih m' _ hnew]
        · simp only [runValueMemo, runR, e, if_false, ih m _ hnew]

/-! ### non-vacuity -/

example : WF (fun _ => true)
    { infohash := witnessHash, dn := some "a&b=c d".toList, xl := some 12,
      tr := ["http://a/b+c".toList, "udp://t".toList], kt := ["k+1".toList] } = true := by decide

/-- hypotheses of `C13_stored_urls_ok`: a predicate that rejects '' and accepts a URL with a space -/
example : (fun s : Str => s.take 4 = "http".toList) [] = false ∧
    (setUrls (fun s => s.take 4 = "http".toList) [] ["http://a/b c".toList, "http://a/b+c".toList]).1 = none := by
  decide

example : TorrentOk (fun _ => true)
    { infohash := witnessHash, name := some "n m".toList, size := some 5,
      trackers := ["http://a/b".toList], webseeds := [] } = true := by decide

end Torf.C13
