/-
  C18 — search trees with symbolic links to directories (siblings, ancestors = real loops,
  descendants, names that are string prefixes of one another).

  Which candidates a search path reaches is `Below` (Properties/C18Search): the search path as
  given, followed by names the OS lists — every such spelling that resolves to a `*.torrent` file
  is yielded (`C18_search_complete`), *whatever the directories are called and wherever a link
  leads*.  Here: the code has no loop guard (`C18_guard_free`); a guard that compares the text of
  real paths loses reachable candidates (`C18_prefix_guard_incomplete`), and so does a correct
  ancestor test when the ancestor lies above the search path (`C18_ancestor_guard_incomplete`);
  what the unchanged code does on a real loop (`C18_self_loop_search`: it ends, thanks to the
  OS's limit of 40 links, with 41 copies of every file and one path error).
-/
import Torf.Properties.C18Search
import Torf.Model.ReuseLinks
namespace Torf.C18
open Torf Torf.Reuse Torf.Paths

/-- the code as it is descends into every entry: the guarded search without a guard is `find` -/
theorem C18_guard_free (w : World) (fuel : Nat) (p : PPath) : findG noGuard w fuel p = find w fuel p := by
  induction fuel generalizing p with
  | zero => rfl
  | succ f ih =>
    unfold findG find
    simp only [noGuard, Bool.false_eq_true, if_false, ih]
    rfl

/-! ### a sibling whose name is a string prefix of the search directory's name

`/x/torrents/2024/s.torrent`; the search paths `/x/torrents-new` and `/x/incoming` both hold
`old -> ../torrents`. -/

def lnFS : FS :=
  [ .dir true true [("x", 1)],                                             -- 0  /
    .dir true true [("torrents", 2), ("torrents-new", 4), ("incoming", 7)], -- 1  /x
    .dir true true [("2024", 3)],                                          -- 2  /x/torrents
    .dir true true [("s.torrent", 6)],                                     -- 3  /x/torrents/2024
    .dir true true [("old", 5)],                                           -- 4  /x/torrents-new
    .link ⟨false, ["..", "torrents"]⟩,                                     -- 5  /x/torrents-new/old
    .file 100 true 0,                                                      -- 6  s.torrent
    .dir true true [("old", 8)],                                           -- 7  /x/incoming
    .link ⟨false, ["..", "torrents"]⟩ ]                                    -- 8  /x/incoming/old

def lnWorld : World := ⟨lnFS, [], 1000, fun _ => (.undecodable, fun _ => .missing)⟩
def lnNew : PPath := ⟨true, ["x", "torrents-new"]⟩
def lnIncoming : PPath := ⟨true, ["x", "incoming"]⟩
def lnGoal (p : PPath) : PPath := { p with comps := p.comps ++ ["old", "2024", "s.torrent"] }

/-- **A loop guard that compares real paths as text is incomplete.**  `torrents-new/old/2024/s.torrent`
    lies under the search path as the OS resolves it (so `C18_search_complete` demands it, and the
    code as it is yields it), but `realpath("/x/torrents-new").startswith(realpath("/x/torrents-new/old"))`
    — `"/x/torrents"` is a *string* prefix, not an ancestor — makes the guarded search skip the link:
    nothing is found.  The same tree searched from `incoming` is found by both; so is the candidate
    under a component-wise ancestor test. -/
theorem C18_prefix_guard_incomplete :
    Below lnWorld 3 lnNew (lnGoal lnNew) ∧
    resolve lnWorld (lnGoal lnNew) = .ok (.file 6) ∧
    find lnWorld 10 lnNew = [.tfile (lnGoal lnNew) true] ∧
    findG prefixGuard lnWorld 10 lnNew = [] ∧
    findG prefixGuard lnWorld 10 lnIncoming = [.tfile (lnGoal lnIncoming) true] ∧
    findG ancestorGuard lnWorld 10 lnNew = [.tfile (lnGoal lnNew) true] := by
  refine ⟨?_, rfl, by decide +kernel, by decide +kernel, by decide +kernel, by decide +kernel⟩
  exact .step (names := ["old"]) (n := "old") rfl (by simp)
    (.step (names := ["2024"]) (n := "2024") rfl (by simp)
      (.step (names := ["s.torrent"]) (n := "s.torrent") rfl (by simp) (.here _)))

/-! ### a link to an ancestor *above* the search path

`/x/tree/a/up -> ..`, `/x/tree/c/s.torrent`; the search path is `/x/tree/a`. -/

def upFS : FS :=
  [ .dir true true [("x", 1)],                        -- 0  /
    .dir true true [("tree", 2)],                     -- 1  /x
    .dir true true [("a", 3), ("c", 5)],              -- 2  /x/tree
    .dir true true [("up", 4)],                       -- 3  /x/tree/a
    .link ⟨false, [".."]⟩,                            -- 4  /x/tree/a/up -> ..
    .dir true true [("s.torrent", 6)],                -- 5  /x/tree/c
    .file 100 true 0 ]                                -- 6  s.torrent

def upWorld : World := ⟨upFS, [], 1000, fun _ => (.undecodable, fun _ => .missing)⟩
def upSearch : PPath := ⟨true, ["x", "tree", "a"]⟩
def upGoal : PPath := ⟨true, ["x", "tree", "a", "up", "c", "s.torrent"]⟩

/-- **Even a correct ancestor test loses candidates**: `up` leads to a real ancestor of the
    directory it lies in (a loop: `up/a/up/a/…`), but that ancestor lies *above* the search path
    and has other children; `a/up/c/s.torrent` is under the search path for the OS, the code as it
    is finds it (among the copies the loop produces), the guarded search finds nothing. -/
theorem C18_ancestor_guard_incomplete :
    Below upWorld 3 upSearch upGoal ∧
    resolve upWorld upGoal = .ok (.file 6) ∧
    Found.tfile upGoal true ∈ find upWorld 100 upSearch ∧
    findG ancestorGuard upWorld 100 upSearch = [] := by
  refine ⟨?_, rfl, by decide +kernel, by decide +kernel⟩
  exact .step (names := ["up"]) (n := "up") rfl (by simp)
    (.step (names := ["a", "c"]) (n := "c") rfl (by simp)
      (.step (names := ["s.torrent"]) (n := "s.torrent") rfl (by simp) (.here _)))

/-! ### a real loop

`/t/loop -> .`, `/t/s.torrent`. -/

def loopFS : FS :=
  [ .dir true true [("t", 1)],                           -- 0  /
    .dir true true [("loop", 2), ("s.torrent", 3)],      -- 1  /t
    .link ⟨false, ["."]⟩,                                -- 2  /t/loop -> .
    .file 100 true 0 ]                                   -- 3  s.torrent

def loopWorld : World := ⟨loopFS, [], 1000, fun _ => (.undecodable, fun _ => .missing)⟩
def loopSearch : PPath := ⟨true, ["t"]⟩

/-- the spelling `/t/loop/…/loop` with `k` links -/
def loops (k : Nat) : PPath := ⟨true, "t" :: List.replicate k "loop"⟩

/-- **What the code as it is does on a real loop**: it ends.  The OS follows at most 40 links
    per resolution, so `/t/loop^k` is a directory for `k ≤ 40` and does not resolve for `k = 41`:
    the search yields a path error for that spelling first (without a callback that is the
    ReadError `reuse()` raises) and then the torrent file once per level, 41 times. -/
theorem C18_self_loop_search :
    isdir loopWorld (loops 40) = true ∧ pexists loopWorld (loops 41) = false ∧
    find loopWorld 100 loopSearch =
      .pathError (loops 41) :: (List.range 41).reverse.map (fun k => .tfile (push (loops k) "s.torrent") true) := by
  refine ⟨by decide +kernel, by decide +kernel, by decide +kernel⟩

end Torf.C18
