/-
  C11 — bridge theorems to the kernels translated from the source (regenerated on every run):
  the overlap test of `get_files_at_byte_range`, the piece range of a file, the range check /
  byte range / seek position / expected length of `get_piece`, and the index arithmetic of
  `get_absolute_piece_indexes` / `get_relative_piece_indexes` used by the geometry model are the
  source's expressions.  (`math.floor(a / b)` is translated to exact integer division — trusted
  base of the translator: operands below 2^53, divisor positive.)

  Loop kernels (second half of the file): `get_file_at_position`, `get_files_at_byte_range`,
  `get_file_position`, `get_files_at_piece_index` and `get_byte_range_of_file` are translated as
  *whole functions* (kernel kind `loop`: statement by statement, the `for file in
  self._torrent.files` loop as a structural recursion over the list of sizes with the index of the
  current file and the integer locals as arguments).  The theorems `C11_kernel_loop_*` say that
  these generated functions compute, for every list of sizes and every argument, exactly what the
  hand-written model functions compute — by induction over the list with a loop invariant
  (generalised over the index, the running position and the files collected so far).

  Second batch: `get_piece_indexes_of_file` (both values of `exclusive`),
  `get_absolute_piece_indexes` and `get_relative_piece_indexes` as whole functions (lists of
  integers, `remove`, `in`, `xs[0]` / `xs[-1]`, a set that is added to and sorted, a loop over a
  list of integers): `C11_kernel_loop_piece_indexes_of_file*`,
  `C11_kernel_loop_absolute_piece_indexes`, `C11_kernel_loop_relative_piece_indexes`.
-/
import Torf.Generated.Kernels
import Torf.Model.Geometry
import Torf.Properties.C11
namespace Torf.C11
open Torf Torf.Generated Torf.Geometry Torf.GeomLemmas

theorem C11_kernel_byte_range (a b pos : Int) (s : Nat) :
    Torf.Geometry.rangeHit a b pos s = byteRangeCond a b pos (byteRangeFileLast pos s) := by
  unfold Torf.Geometry.rangeHit byteRangeCond byteRangeFileLast
  all_goals first
    | rfl
    | (rw [Bool.eq_iff_iff]
       simp only [Bool.or_eq_true, Bool.and_eq_true, decide_eq_true_eq] <;> omega)

/-- `get_piece_indexes_of_file`: first and last piece of a file at stream position `pos` -/
theorem C11_kernel_file_pieces (pos sz L : Nat) :
    floorDiv (pos : Int) L = pifFirst pos L ∧
    floorDiv ((pos : Int) + (sz : Int) - 1) L = pifLast pos sz L := by
  unfold floorDiv pifFirst pifLast
  exact ⟨rfl, rfl⟩

/-- `get_piece`: the greatest piece index and the range check -/
theorem C11_kernel_piece_range (T : Int) (L : Nat) (i : Int) :
    floorDiv (T - 1) L = gpMaxPieceIndex T L ∧
    (!(decide (0 ≤ i) && decide (i ≤ floorDiv (T - 1) L))) = gpOutOfRange 0 i (gpMaxPieceIndex T L) := by
  unfold floorDiv gpMaxPieceIndex gpOutOfRange
  exact ⟨rfl, rfl⟩

/-- `get_piece`: first and last byte of the piece, where to seek in the first relevant file, and
    the length the last piece must have -/
theorem C11_kernel_piece_bytes (T : Int) (L : Nat) (i p sz : Int) :
    i * (L : Int) = gpFirstByte i L ∧
    min (i * (L : Int) + (L : Int) - 1) (T - 1) = gpLastByte (gpFirstByte i L) L T ∧
    i * (L : Int) - p = gpSeekSingle (gpFirstByte i L) p ∧
    sz - ((p + sz) % (L : Int)) = gpSeekMulti sz p L ∧
    T % (L : Int) = gpLastPieceSize T L := by
  unfold gpFirstByte gpLastByte gpSeekSingle gpSeekMulti gpLastPieceSize
  exact ⟨rfl, rfl, rfl, rfl, rfl⟩

/-- the clamping step of `get_absolute_piece_indexes`:
    `if pi_rel < 0: pi_rel = pi_rel_max - abs(pi_rel) + 1; pi_rel = max(0, min(pi_rel_max, pi_rel))`,
    then `pi_abs_min + pi_rel`, with `pi_rel_max = pi_abs_max - pi_abs_min` -/
theorem C11_kernel_absolute (absMin absMax r : Int) :
    absMin + clampRel (absMax - absMin) r =
      absToAbs absMin (absClamp 0 (absRelMax absMax absMin)
        (if r < 0 then absFromEnd (absRelMax absMax absMin) r else r)) := by
  unfold clampRel absToAbs absClamp absRelMax absFromEnd
  first
    | rfl
    | (simp only []; split <;> omega)

/-- the same step in `get_relative_piece_indexes`, with `max_piece_index = floor((size-1)/piece_size)` -/
theorem C11_kernel_relative (fileSize L : Nat) (r : Int) :
    clampRel (floorDiv ((fileSize : Int) - 1) L) r =
      relClamp 0 (relMax fileSize L) (if r < 0 then relFromEnd (relMax fileSize L) r else r) := by
  unfold clampRel relClamp relMax relFromEnd floorDiv
  first
    | rfl
    | (simp only []; split <;> omega)


/-! ### Loop kernels: whole functions translated from the source

The proofs do not depend on how the source spells its arithmetic: each `if` of the generated
function is split, its test is turned into linear arithmetic and compared with the model's test
by `omega`; the arguments of the recursive call are compared with the model's by `omega` as well
(the invariants take the model-side position as a separate argument `pos'` with `pos = pos'`). -/

open Torf.Loop

/-- a translated function's outcome in the vocabulary of the geometry model: `ValueError` is the
    documented error, every other exception class an internal one (injective) -/
def ofOut {α : Type} : Out α → Res α
  | .ret v => .ok v
  | .raised e => if e = "ValueError" then .error .value else .error (.internal e)

/-- the file sizes as the translated functions take them (Python integers) -/
def ints (sizes : List Nat) : List Int := sizes.map Int.ofNat

/-- indexes relative to the loop start, shifted to indexes in `Torrent.files` -/
def shift (idx : Nat) (js : List Nat) : List Nat := js.map (· + idx)

/-- the answer of the search loop started at index `idx` -/
def foundAt (idx : Nat) : Option Nat → Out Nat
  | some j => .ret (idx + j)
  | none => .raised "ValueError"

private theorem ofOut_bind {α β : Type} (o : Out α) (k : α → Out β) :
    ofOut (o.bind k) = (ofOut o) >>= (fun v => ofOut (k v)) := by
  cases o with
  | ret v => rfl
  | raised e =>
    simp only [Out.bind, ofOut]
    split <;> rfl

private theorem shift_cons_succ (idx : Nat) (js : List Nat) :
    shift idx (js.map (· + 1)) = shift (idx + 1) js := by
  simp only [shift, List.map_map]
  apply List.map_congr_left
  intro j _
  simp only [Function.comp]
  omega

private theorem shift_hit (idx : Nat) (js : List Nat) :
    shift idx ([0] ++ js.map (· + 1)) = idx :: shift (idx + 1) js := by
  rw [← shift_cons_succ]; simp [shift]

private theorem shift_miss (idx : Nat) (js : List Nat) :
    shift idx ([] ++ js.map (· + 1)) = shift (idx + 1) js := by
  rw [← shift_cons_succ]; simp

private theorem rangeHit_iff (a b pos : Int) (s : Nat) :
    rangeHit a b pos s = true ↔
      ((a ≤ pos ∧ pos ≤ b) ∨ (a ≤ pos + (s : Int) - 1 ∧ pos + (s : Int) - 1 ≤ b)) ∨
        (a ≥ pos ∧ b ≤ pos + (s : Int) - 1) := by
  simp only [rangeHit, Bool.or_eq_true, Bool.and_eq_true, decide_eq_true_eq]

private theorem sum_ints (xs : List Nat) : List.sum (ints xs) = ((List.sum xs : Nat) : Int) := by
  induction xs with
  | nil => rfl
  | cons x xs ih =>
    simp only [ints, List.map_cons, List.sum_cons, Int.ofNat_eq_natCast] at ih ⊢
    rw [ih]; omega

private theorem sliceTo_ints (xs : List Nat) (k : Int) (j : Nat) (h : k = (j : Int)) :
    sliceTo (ints xs) k = ints (xs.take j) := by
  subst h
  simp [sliceTo, ints, List.map_take]

private theorem bnot_eq_true (b : Bool) : ((!b) = true) ↔ ¬ (b = true) := by cases b <;> simp

/-- a branch of the generated function that the model does not take: its tests, read as linear
    arithmetic, contradict the model's test -/
local macro "loop_arith" : tactic =>
  `(tactic| (try simp only [Bool.or_eq_true, Bool.and_eq_true, bnot_eq_true, decide_eq_true_eq,
               Bool.true_eq_false, Bool.false_eq_true, not_true_eq_false, not_false_eq_true] at *
             omega))

/-- loop invariant of `get_file_at_position`: started at file `idx` with running position `pos`,
    the source's loop answers what the model's loop answers, shifted by `idx` -/
private theorem fileAtPosition_inv (position : Int) :
    ∀ (rest : List Nat) (idx : Nat) (pos pos' : Int), pos = pos' →
      fileAtPositionFn.loop position (ints rest) idx pos = foundAt idx (fileAtPosLoop position rest pos')
  | [], idx, pos, pos', h => by
    simp only [ints, List.map_nil, fileAtPositionFn.loop, fileAtPosLoop, foundAt]
  | s :: rest, idx, pos, pos', h => by
    subst h
    simp only [ints, List.map_cons, fileAtPositionFn.loop, fileAtPosLoop, Int.ofNat_eq_natCast]
    by_cases hm : pos + (s : Int) - 1 ≥ position
    · rw [if_pos hm]
      repeat' split
      all_goals first
        | loop_arith
        | simp [foundAt]
    · rw [if_neg hm]
      repeat' split
      all_goals first
        | loop_arith
        | (rw [← ints, fileAtPosition_inv position rest _ _ (pos + (s : Int) - 1 + 1) (by omega)]
           cases fileAtPosLoop position rest (pos + (s : Int) - 1 + 1) <;> simp [foundAt] <;> omega)

/-- `get_file_at_position` as written in the source = the model, for every list of sizes (zero-length
    entries included) and every position (negative and too large ones included) -/
theorem C11_kernel_loop_file_at_position (sizes : List Nat) (position : Int) :
    ofOut (fileAtPositionFn (ints sizes) position) = getFileAtPosition sizes position := by
  have hmodel : getFileAtPosition sizes position =
      if position ≥ 0 then ofOut (foundAt 0 (fileAtPosLoop position sizes 0)) else .error .value := by
    unfold getFileAtPosition
    cases fileAtPosLoop position sizes 0 <;> simp [ofOut, foundAt]
  rw [hmodel]
  unfold fileAtPositionFn
  by_cases hm : position ≥ 0
  · rw [if_pos hm]
    repeat' split
    all_goals first
      | loop_arith
      | rw [fileAtPosition_inv position sizes 0 _ 0 (by omega)]
  · rw [if_neg hm]
    repeat' split
    all_goals first
      | loop_arith
      | simp [ofOut]

/-- loop invariant of `get_files_at_byte_range`: started at file `idx` with running position `pos`
    and the files `acc` collected so far, the source's loop returns `acc` followed by what the
    model's loop collects, shifted by `idx` -/
private theorem filesAtByteRange_inv (a b : Int) :
    ∀ (rest : List Nat) (idx : Nat) (pos pos' : Int) (acc : List Nat), pos = pos' →
      filesAtByteRangeFn.loop a b (ints rest) idx pos acc =
        .ret (acc ++ shift idx (byteRangeLoop a b rest pos'))
  | [], idx, pos, pos', acc, h => by
    simp [ints, filesAtByteRangeFn.loop, byteRangeLoop, shift]
  | s :: rest, idx, pos, pos', acc, h => by
    subst h
    simp only [ints, List.map_cons, filesAtByteRangeFn.loop, byteRangeLoop, Int.ofNat_eq_natCast]
    have hm := rangeHit_iff a b pos s
    by_cases hh : rangeHit a b pos s = true
    · rw [if_pos hh]
      have hm' := hm.mp hh
      clear hm hh
      repeat' split
      all_goals first
        | loop_arith
        | (rw [← ints, filesAtByteRange_inv a b rest _ _ (pos + (s : Int)) _ (by omega)]
           rw [shift_hit]; simp)
    · rw [if_neg hh]
      have hm' := mt hm.mpr hh
      clear hm hh
      repeat' split
      all_goals first
        | loop_arith
        | (rw [← ints, filesAtByteRange_inv a b rest _ _ (pos + (s : Int)) _ (by omega)]
           rw [shift_miss])

/-- `get_files_at_byte_range` as written in the source = the model, for every list of sizes and
    every pair of byte indexes (`first > last`: the failed `assert`) -/
theorem C11_kernel_loop_files_at_byte_range (sizes : List Nat) (a b : Int) :
    ofOut (filesAtByteRangeFn (ints sizes) a b) = getFilesAtByteRange sizes a b := by
  unfold filesAtByteRangeFn getFilesAtByteRange
  by_cases hm : a ≤ b
  · rw [if_pos hm]
    repeat' split
    all_goals first
      | loop_arith
      | (rw [filesAtByteRange_inv a b sizes 0 _ 0 _ (by omega)]
         simp [ofOut, shift])
  · rw [if_neg hm]
    repeat' split
    all_goals first
      | loop_arith
      | simp [ofOut]

/-- `get_file_position`: `files.index(file)` (a file is its index; not listed ⇒ ValueError) and
    the sum over `files[:file_index]` -/
theorem C11_kernel_loop_file_position (sizes : List Nat) (j : Nat) :
    ofOut (filePositionFn (ints sizes) j) = (fun (n : Nat) => (n : Int)) <$> getFilePosition sizes j := by
  unfold filePositionFn getFilePosition lookupFile
  have hl : (ints sizes).length = sizes.length := by simp [ints]
  by_cases hj : j < sizes.length
  · rw [List.getElem?_eq_getElem hj]
    split
    · simp only []
      rw [sliceTo_ints sizes _ j (by omega), sum_ints]
      rfl
    · omega
  · rw [List.getElem?_eq_none (by omega)]
    split
    · omega
    · rfl

/-- `get_files_at_piece_index`: the guard, the byte range of the piece handed to (the translated)
    `get_files_at_byte_range`, and the empty answer turned into ValueError -/
theorem C11_kernel_loop_files_at_piece_index (sizes : List Nat) (L : Nat) (i : Int) :
    ofOut (filesAtPieceIndexFn (ints sizes) i L) = getFilesAtPieceIndex sizes L i := by
  unfold filesAtPieceIndexFn getFilesAtPieceIndex
  by_cases hm : i ≥ 0
  · rw [if_pos hm]
    split
    · simp only []
      rw [ofOut_bind, C11_kernel_loop_files_at_byte_range]
      have e1 : ∀ x y x' y', x = x' → y = y' →
          getFilesAtByteRange sizes x y = getFilesAtByteRange sizes x' y' := by
        intro x y x' y' h1 h2; rw [h1, h2]
      rw [e1 _ _ (i * (L : Int)) ((i + 1) * (L : Int) - 1) (by first | omega | grind) (by first | omega | grind)]
      cases getFilesAtByteRange sizes (i * (L : Int)) ((i + 1) * (L : Int) - 1) with
      | error e => rfl
      | ok files => cases files <;> simp [ofOut, bind, Except.bind, pure, Except.pure]
    · rename_i hg; simp only [decide_eq_true_eq] at hg; omega
  · rw [if_neg hm]
    split
    · rename_i hg; simp only [decide_eq_true_eq] at hg; omega
    · simp [ofOut]

/-- `get_byte_range_of_file` for a file object of size `sz` (a listed file: its size in the list) -/
theorem C11_kernel_loop_byte_range_of_file (sizes : List Nat) (j : Nat) (sz : Nat)
    (hsz : ∀ h : j < sizes.length, sizes[j] = sz) :
    ofOut (byteRangeOfFileFn (ints sizes) j sz) = getByteRangeOfFile sizes j := by
  unfold byteRangeOfFileFn
  rw [ofOut_bind, C11_kernel_loop_file_position]
  unfold getFilePosition getByteRangeOfFile lookupFile
  by_cases hj : j < sizes.length
  · rw [List.getElem?_eq_getElem hj, hsz hj]
    simp only [ofOut]
    show Except.ok (_, _) = Except.ok (_, _)
    congr 2
  · rw [List.getElem?_eq_none (by omega)]
    rfl

/-! ### Loop kernels, second batch: lists of integers

`get_piece_indexes_of_file` (both values of `exclusive`), `get_absolute_piece_indexes` and
`get_relative_piece_indexes` as whole functions: `list(range(a, b + 1))` is `pyRange`, `remove` is
`List.erase` behind a membership test, `xs[0]` / `xs[-1]` are `getIdx` (IndexError), the set that is
added to and sorted is `sortedSet` of the added values.  The model mirrors the code including its
defects (D11a, D11c), so these are equalities for every input. -/

private theorem floorDiv_eq (a : Int) (L : Nat) : floorDiv a L = a / (L : Int) := rfl

private theorem pyRange_succ (a b : Int) : pyRange a (b + 1) = rangeIncl a b := rfl

private theorem sortedSet_eq (xs : List Int) : sortedSet xs = sortDedup xs := by
  have h : ∀ (x : Int) (l : List Int), insertAsc x l = insertSorted x l := by
    intro x l
    induction l with
    | nil => rfl
    | cons y ys ih => simp only [insertAsc, insertSorted, ih]
  induction xs with
  | nil => rfl
  | cons x xs ih =>
    show insertAsc x (sortedSet xs) = insertSorted x (sortDedup xs)
    rw [ih, h]

private theorem getIdx_zero {α : Type} (xs : List α) : getIdx xs (0 : Int) = xs.head? := by
  cases xs <;> simp [getIdx]

private theorem getIdx_neg_one {α : Type} (xs : List α) : getIdx xs (-(1 : Int)) = xs.getLast? := by
  cases xs with
  | nil => simp [getIdx]
  | cons x xs =>
    simp only [getIdx, List.getLast?_eq_getElem?, List.length_cons]
    rw [if_neg (by omega), if_pos (by simp)]
    simp

private theorem ofOut_ite {α : Type} (c : Prop) [Decidable c] (a b : Out α) :
    ofOut (if c then a else b) = if c then ofOut a else ofOut b := by
  split <;> rfl

private theorem ofOut_ret {α : Type} (v : α) : ofOut (Out.ret v) = .ok v := rfl
private theorem ofOut_value {α : Type} : ofOut (Out.raised "ValueError" : Out α) = .error .value := rfl

/-- one more value added to the set: the generated loop adds `v`, the model maps the next element to `w` -/
private theorem sorted_step {acc rest : List Int} {v w : Int} (h : v = w) :
    (Out.ret (sortedSet ((acc ++ [v]) ++ rest)) : Out (List Int)) = .ret (sortedSet (acc ++ w :: rest)) := by
  subst h; simp

/-- `get_piece_indexes_of_file(file, exclusive)` for a file object of size `sz` (a listed file: its size in
    the list): the position through the translated `get_file_position`, the range of pieces, and for
    `exclusive` the two look-ups through the translated `get_files_at_piece_index`, the comparisons with
    `[file]`, the membership test and the `remove`s (ValueError when the index is not there: D11a) -/
theorem C11_kernel_loop_piece_indexes_of_file (sizes : List Nat) (L : Nat) (j : Nat) (sz : Nat) (excl : Bool)
    (hsz : ∀ h : j < sizes.length, sizes[j] = sz) :
    ofOut (pieceIndexesOfFileFn (ints sizes) j excl sz L) = getPieceIndexesOfFile sizes L j excl := by
  unfold pieceIndexesOfFileFn
  simp only []
  rw [ofOut_bind, C11_kernel_loop_file_position]
  unfold getFilePosition getPieceIndexesOfFile lookupFile
  by_cases hj : j < sizes.length
  · rw [List.getElem?_eq_getElem hj, hsz hj]
    simp only [bind, Except.bind, pure, Except.pure, Functor.map, Except.map]
    repeat rw [floorDiv_eq]
    rw [← pyRange_succ]
    cases excl with
    | false => simp [ofOut]
    | true =>
      simp only [ofOut_bind, ofOut_ite, ofOut_ret, ofOut_value, C11_kernel_loop_files_at_piece_index, if_true]
      generalize getFilesAtPieceIndex sizes L (((sizes.take j).sum : Nat) / (L : Int)) = r1
      generalize getFilesAtPieceIndex sizes L ((((sizes.take j).sum : Nat) + (sz : Int) - 1) / (L : Int)) = r2
      generalize pyRange (((sizes.take j).sum : Nat) / (L : Int)) ((((sizes.take j).sum : Nat) + (sz : Int) - 1) / (L : Int) + 1) = idxs
      generalize (((sizes.take j).sum : Nat) / (L : Int) : Int) = a
      generalize ((((sizes.take j).sum : Nat) + (sz : Int) - 1) / (L : Int) : Int) = b
      cases r1 <;> cases r2 <;> simp only [bind, Except.bind, listRemove] <;> (repeat' split) <;> simp_all
  · rw [List.getElem?_eq_none (by omega)]
    rfl

theorem C11_kernel_loop_piece_indexes_of_file_all (sizes : List Nat) (L : Nat) (j : Nat) (sz : Nat)
    (hsz : ∀ h : j < sizes.length, sizes[j] = sz) :
    ofOut (pieceIndexesOfFileFn (ints sizes) j false sz L) = getPieceIndexesOfFile sizes L j false :=
  C11_kernel_loop_piece_indexes_of_file sizes L j sz false hsz

theorem C11_kernel_loop_piece_indexes_of_file_exclusive (sizes : List Nat) (L : Nat) (j : Nat) (sz : Nat)
    (hsz : ∀ h : j < sizes.length, sizes[j] = sz) :
    ofOut (pieceIndexesOfFileFn (ints sizes) j true sz L) = getPieceIndexesOfFile sizes L j true :=
  C11_kernel_loop_piece_indexes_of_file sizes L j sz true hsz

/-- the value one iteration adds, in both functions: the generated text (after its `if`s are split) against
    the model's `clampRel` -/
local macro "clamp_arith" : tactic =>
  `(tactic| (unfold clampRel
             simp only []
             repeat' split
             all_goals loop_arith))

/-- loop invariant of `get_relative_piece_indexes`: with `acc` added so far, the loop returns the sorted set of
    `acc` and the clamped rest -/
private theorem relative_inv (rels0 : List Int) (sz L lo mx mx' : Int) (h0 : lo = 0) (hm : mx = mx') :
    ∀ (rest acc : List Int),
      relativePieceIndexesFn.loop sz mx lo L rels0 rest acc =
        .ret (sortedSet (acc ++ rest.map (fun r => clampRel mx' r)))
  | [], acc => by simp [relativePieceIndexesFn.loop]
  | r :: rest, acc => by
    simp only [relativePieceIndexesFn.loop, List.map_cons]
    repeat' split
    all_goals
      rw [relative_inv rels0 sz L lo mx mx' h0 hm rest]
      refine sorted_step ?_
      clamp_arith

/-- `get_relative_piece_indexes` as written in the source = the model (which mirrors it: `file.size` only, the
    file is never looked up; zero-length files give `max_piece_index = -1`, D11c) -/
theorem C11_kernel_loop_relative_piece_indexes (sizes : List Int) (L fileSize : Nat) (rels : List Int) :
    relativePieceIndexesFn sizes rels fileSize L = .ret (getRelativePieceIndexes L fileSize rels) := by
  unfold relativePieceIndexesFn getRelativePieceIndexes
  simp only []
  rw [relative_inv _ _ _ _ _ (floorDiv ((fileSize : Int) - 1) L) (by first | rfl | omega)
    (by first | rfl | (unfold floorDiv; congr 1; omega))]
  simp [sortedSet_eq]

/-- loop invariant of `get_absolute_piece_indexes` -/
private theorem absolute_inv (file : Nat) (rels0 : List Int) (sz L : Int) (fpi : List Int)
    (amin amax lo mx amin' mx' : Int) (h0 : lo = 0) (ha : amin = amin') (hm : mx = mx') :
    ∀ (rest acc : List Int),
      absolutePieceIndexesFn.loop file fpi sz amax amin mx lo L rels0 rest acc =
        .ret (sortedSet (acc ++ rest.map (fun r => amin' + clampRel mx' r)))
  | [], acc => by simp [absolutePieceIndexesFn.loop]
  | r :: rest, acc => by
    simp only [absolutePieceIndexesFn.loop, List.map_cons]
    repeat' split
    all_goals
      rw [absolute_inv file rels0 sz L fpi amin amax lo mx amin' mx' h0 ha hm rest]
      refine sorted_step ?_
      clamp_arith

/-- `get_absolute_piece_indexes` as written in the source = the model: the pieces of the file through the
    translated `get_piece_indexes_of_file` (its `exclusive` left to the default written in the signature), the
    first and the last of them (IndexError if there is none), and the loop over the relative indexes -/
theorem C11_kernel_loop_absolute_piece_indexes (sizes : List Nat) (L : Nat) (j : Nat) (sz : Nat) (rels : List Int)
    (hsz : ∀ h : j < sizes.length, sizes[j] = sz) :
    ofOut (absolutePieceIndexesFn (ints sizes) j rels sz L) = getAbsolutePieceIndexes sizes L j rels := by
  unfold absolutePieceIndexesFn getAbsolutePieceIndexes
  rw [ofOut_bind, C11_kernel_loop_piece_indexes_of_file sizes L j sz false hsz]
  cases getPieceIndexesOfFile sizes L j false with
  | error e => rfl
  | ok fpi =>
    simp only [bind, Except.bind, getIdx_zero, getIdx_neg_one]
    cases fpi with
    | nil => simp [ofOut, Out.bind]
    | cons x xs =>
      simp only [List.head?_cons, Out.ofOption_some, Out.bind_ret]
      cases hl : (x :: xs).getLast? with
      | none => simp at hl
      | some y =>
        simp only [Out.ofOption_some, Out.bind_ret]
        rw [absolute_inv _ _ _ _ _ _ _ _ _ x (y - x) (by first | rfl | omega) (by first | rfl | omega)
          (by first | rfl | omega)]
        simp [ofOut, sortedSet_eq, pure, Except.pure]

/-! the translated source meets the arithmetic definition (composition with `C11_*_spec`) -/

theorem C11_kernel_loop_file_at_position_meets_spec (sizes : List Nat) (p : Int) :
    ofOut (fileAtPositionFn (ints sizes) p) = GeomSpec.fileAtPosition sizes p := by
  rw [C11_kernel_loop_file_at_position, C11_get_file_at_position_spec]

theorem C11_kernel_loop_files_at_byte_range_meets_spec (sizes : List Nat) (a b : Int)
    (hne : NoEmpty sizes) (hab : a ≤ b) :
    ofOut (filesAtByteRangeFn (ints sizes) a b) = .ok (GeomSpec.filesAtByteRange sizes a b) := by
  rw [C11_kernel_loop_files_at_byte_range, C11_get_files_at_byte_range_spec sizes a b hne hab]

theorem C11_kernel_loop_files_at_piece_index_meets_spec (sizes : List Nat) (L : Nat) (i : Int)
    (hL : 0 < L) (hne : NoEmpty sizes) :
    ofOut (filesAtPieceIndexFn (ints sizes) i L) = GeomSpec.filesAtPieceIndex sizes L i := by
  rw [C11_kernel_loop_files_at_piece_index, C11_get_files_at_piece_index_spec sizes L i hL hne]

/-- non-vacuity of the hypotheses above, and the translated functions run: sizes (3, 2, 4) -/
example : NoEmpty [3, 2, 4] := by intro s hs; simp at hs; omega
example :
    fileAtPositionFn [3, 2, 4] 4 = .ret 1 ∧ fileAtPositionFn [3, 2, 4] 9 = .raised "ValueError" ∧
    filesAtByteRangeFn [3, 2, 4] 2 5 = .ret [0, 1, 2] ∧ filesAtByteRangeFn [3, 2, 4] 5 2 = .raised "AssertionError" ∧
    filePositionFn [3, 2, 4] 2 = .ret 5 ∧ filePositionFn [3, 2, 4] 3 = .raised "ValueError" ∧
    filesAtPieceIndexFn [3, 2, 4] 1 4 = .ret [1, 2] ∧ filesAtPieceIndexFn [3, 2, 4] 3 4 = .raised "ValueError" ∧
    byteRangeOfFileFn [3, 2, 4] 1 2 = .ret (3, 4) := by decide
example :
    pieceIndexesOfFileFn [3, 2, 4] 2 false 4 2 = .ret [2, 3, 4] ∧ pieceIndexesOfFileFn [3, 2, 4] 2 true 4 2 = .ret [3, 4] ∧
    pieceIndexesOfFileFn [3, 2, 4] 1 true 2 2 = .ret [] ∧ pieceIndexesOfFileFn [1, 0] 1 true 0 1 = .ret [] ∧ pieceIndexesOfFileFn [2, 0, 2] 0 true 2 2 = .ret [] ∧
    pieceIndexesOfFileFn [3, 2, 4] 3 false 1 2 = .raised "ValueError" ∧
    absolutePieceIndexesFn [3, 2, 4] 2 [0, -1, 7, -9, 1] 4 2 = .ret [2, 3, 4] ∧
    absolutePieceIndexesFn [0] 0 [0] 0 2 = .raised "IndexError" ∧
    relativePieceIndexesFn [] [0, -1, 7, -9, 1] 5 2 = .ret [0, 1, 2] ∧
    relativePieceIndexesFn [] [0, 3] 0 2 = .ret [0] := by decide

end Torf.C11
