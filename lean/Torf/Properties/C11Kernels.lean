/-
  C11 — bridge theorems to the kernels translated from the source (regenerated on every run):
  the overlap test of `get_files_at_byte_range`, the piece range of a file, the range check /
  byte range / seek position / expected length of `get_piece`, and the index arithmetic of
  `get_absolute_piece_indexes` / `get_relative_piece_indexes` used by the geometry model are the
  source's expressions.  (`math.floor(a / b)` is translated to exact integer division — trusted
  base of the translator: operands below 2^53, divisor positive.)
-/
import Torf.Generated.Kernels
import Torf.Model.Geometry
namespace Torf.C11
open Torf Torf.Generated Torf.Geometry

theorem C11_kernel_byte_range (a b pos : Int) (s : Nat) :
    Torf.Geometry.rangeHit a b pos s = byteRangeCond a b pos (byteRangeFileLast pos s) := by
  unfold Torf.Geometry.rangeHit byteRangeCond byteRangeFileLast
  all_goals first
    | rfl
    | (rw [Bool.eq_iff_iff]
       simp only [Bool.or_eq_true, Bool.and_eq_true, decide_eq_true_eq] <;> omega)

/-- `get_piece_indexes_of_file`: first and last piece of a file at stream position `pos` -/
theorem C11_kernel_file_pieces (pos sz L : Nat) :
    floorDiv (pos : Int) L = pifFirst pos L ∧
    floorDiv ((pos : Int) + (sz : Int) - 1) L = pifLast pos sz L := by
  unfold floorDiv pifFirst pifLast
  exact ⟨rfl, rfl⟩

/-- `get_piece`: the greatest piece index and the range check -/
theorem C11_kernel_piece_range (T : Int) (L : Nat) (i : Int) :
    floorDiv (T - 1) L = gpMaxPieceIndex T L ∧
    (!(decide (0 ≤ i) && decide (i ≤ floorDiv (T - 1) L))) = gpOutOfRange 0 i (gpMaxPieceIndex T L) := by
  unfold floorDiv gpMaxPieceIndex gpOutOfRange
  exact ⟨rfl, rfl⟩

/-- `get_piece`: first and last byte of the piece, where to seek in the first relevant file, and
    the length the last piece must have -/
theorem C11_kernel_piece_bytes (T : Int) (L : Nat) (i p sz : Int) :
    i * (L : Int) = gpFirstByte i L ∧
    min (i * (L : Int) + (L : Int) - 1) (T - 1) = gpLastByte (gpFirstByte i L) L T ∧
    i * (L : Int) - p = gpSeekSingle (gpFirstByte i L) p ∧
    sz - ((p + sz) % (L : Int)) = gpSeekMulti sz p L ∧
    T % (L : Int) = gpLastPieceSize T L := by
  unfold gpFirstByte gpLastByte gpSeekSingle gpSeekMulti gpLastPieceSize
  exact ⟨rfl, rfl, rfl, rfl, rfl⟩

/-- the clamping step of `get_absolute_piece_indexes`:
    `if pi_rel < 0: pi_rel = pi_rel_max - abs(pi_rel) + 1; pi_rel = max(0, min(pi_rel_max, pi_rel))`,
    then `pi_abs_min + pi_rel`, with `pi_rel_max = pi_abs_max - pi_abs_min` -/
theorem C11_kernel_absolute (absMin absMax r : Int) :
    absMin + clampRel (absMax - absMin) r =
      absToAbs absMin (absClamp 0 (absRelMax absMax absMin)
        (if r < 0 then absFromEnd (absRelMax absMax absMin) r else r)) := by
  unfold clampRel absToAbs absClamp absRelMax absFromEnd
  rfl

/-- the same step in `get_relative_piece_indexes`, with `max_piece_index = floor((size-1)/piece_size)` -/
theorem C11_kernel_relative (fileSize L : Nat) (r : Int) :
    clampRel (floorDiv ((fileSize : Int) - 1) L) r =
      relClamp 0 (relMax fileSize L) (if r < 0 then relFromEnd (relMax fileSize L) r else r) := by
  unfold clampRel relClamp relMax relFromEnd floorDiv
  rfl

end Torf.C11
