/-
  C11 — bridge theorem to the kernels translated from the source (regenerated on every run):
  the overlap test of `get_files_at_byte_range` used by the geometry model is the source's.
-/
import Torf.Generated.Kernels
import Torf.Model.Geometry
namespace Torf.C11
open Torf Torf.Generated

theorem C11_kernel_byte_range (a b pos : Int) (s : Nat) :
    Torf.Geometry.rangeHit a b pos s = byteRangeCond a b pos (byteRangeFileLast pos s) := by
  unfold Torf.Geometry.rangeHit byteRangeCond byteRangeFileLast
  all_goals first
    | rfl
    | (rw [Bool.eq_iff_iff]
       simp only [Bool.or_eq_true, Bool.and_eq_true, decide_eq_true_eq] <;> omega)

end Torf.C11
