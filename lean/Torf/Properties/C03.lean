/-
  C03 — hashing is schedule-independent and always terminates.

  Theorems about the labelled transition system `Torf.Pipeline` (Model/Pipeline.lean: main,
  reader, N hashers, janitor; one label = one synchronisation operation of one thread; timeouts
  are nondeterministic), for every configuration: any number of hashers, any queue capacity, any
  item list, fault plan and callback.  `Reachable cfg s` = some label sequence leads from
  `init cfg` to `s`, i.e. every schedule and every timing is covered.
-/
import Torf.Lemmas.PipelineLive
namespace Torf.C03
open Torf.Pipeline

/-- No piece is lost or duplicated, ever: the pieces collected by main, in the hash queue, in
    the hands of hashers and in the piece queue are exactly the pieces pushed so far, each once. -/
theorem C03_conservation {cfg : Cfg} {s : State} (h : Reachable cfg s) : Conserved s = true :=
  (InvA.of_reachable h).conserved

/-- `assert piece_index not in self._pieces_seen` never fires and no IndexError is raised. -/
theorem C03_no_internal {cfg : Cfg} {s : State} (h : Reachable cfg s) : noInternalError s = true :=
  (InvA.of_reachable h).noInternalError

/-- When `generate()`/`verify()` returns or raises, no worker thread is left running — for every
    schedule, with cancelling or raising callbacks and with read faults as well. -/
theorem C03_threads_done {cfg : Cfg} {s : State} (_hwf : wf cfg = true) (hrf : cfg.refuse = [])
    (h : Reachable cfg s) (ht : terminal s = true) : allThreadsDone s = true :=
  (Inv.of_reachable hrf h).threads_done ht

/-- Deadlock freedom: in every reachable state in which main has not returned, some thread can
    take a progress step (a step that changes the core state; the janitor possibly after the
    idle steps of its current polling round). -/
theorem C03_deadlock_free {cfg : Cfg} {s : State} (hwf : wf cfg = true) (hrf : cfg.refuse = [])
    (h : Reachable cfg s) (ht : terminal s = false) : canProgress cfg s = true :=
  (Inv.of_reachable hrf h).deadlock_free hwf hrf ht

end Torf.C03
