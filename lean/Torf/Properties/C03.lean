/-
  C03 — hashing is schedule-independent and always terminates.

  Theorems about the labelled transition system `Torf.Pipeline` (Model/Pipeline.lean: main,
  reader, N hashers, janitor; one label = one synchronisation operation of one thread; timeouts
  are nondeterministic), for every configuration: any number of hashers, any queue capacity, any
  item list, fault plan and callback.  `Reachable cfg s` = some label sequence leads from
  `init cfg` to `s`, i.e. every schedule and every timing is covered.

  Proof: an inductive invariant, checked step by step (Lemmas/Pipeline*.lean).
  * `InvA` (PipelineCons; every cfg): the pieces in flight (`seen ++ hq ++ held ++ pq`) are a
    permutation of `range n`, `n` = their number = the reader's position while it is `putting`;
    nothing is in flight before the reader begins; `n ≤ #items`, and `n = #items` once an
    unstopped, fault-free reader has left its loop; main's pending exception is never the
    duplicate-assertion or an IndexError; `collected = seen.filter isHashed`; hashers at or
    above main's start position are `notStarted`.
  With `cfg.refuse = []` (`Inv` = `InvA ∧ InvB1 ∧ InvB2 ∧ InvB3`, PipelineInv):
  * `InvB1` (PipelineCtl): `hs.length = N`, `tracked.length ≤ N`, nothing is `refused`; the reader
    is `notStarted` iff main is before `startReader`; hashers below main's start position are
    started; the janitor is `notStarted` iff main is before/at `startJanitor`, and then
    `tracked = range N`; after `reader.join()` the reader is `done`.
  * `InvB2` (PipelineSent): while the reader is not `done` there is no sentinel in `pq`, no
    hasher at `requeue`/`setEv`, and `fin = false`; once it is `done` a sentinel is in `pq` or a
    hasher is at `requeue`; a hasher at `requeue` ⇒ `pq = []` (so re-queueing never blocks) and
    it is the only one; a sentinel can only be the last element of `pq`; `fin` or a hasher at
    `setEv` ⇒ `pq` holds sentinels only; hasher 0 `done` ⇒ `fin` (the vital hasher only leaves
    through `setEv`).
  * `InvB3` (PipelineJan): every running hasher is in `tracked`; `prune`/`spin` lists are
    non-empty and no longer than N; `spin rest` ⇒ `fin` and every running tracked hasher is
    still in `rest`; janitor `closing`/`done` ⇒ `fin` and no hasher is running; main `finished`
    ⇒ janitor `done`; janitor `done` and main still collecting ⇒ the sentinel is in `hq`; the
    sentinel is in `hq` only if the janitor is `done`, and only as the last element.
  With `noFaults` and a passive callback additionally
  * `InvC` (PipelineOut): `rexc = false`; while main has not left the collect loop, `stop = false`
    and no seen piece raises; main's join phase without pending exception ⇒ `seen` is a
    permutation of all pieces and none raises; a pending exception is `.item k` of a raising
    piece `k`; a returned result is `collected`.
  Deadlock freedom (PipelineProg, PipelineLive) is a case split on main's program point; when main
  is blocked, `workers_progress` finds a hasher or the reader that can move (the vital hasher
  is alive as long as the reader runs; a full queue has a taker), and when the reader and all
  hashers are done the event is set and the janitor reaches a progress step within its round.
  Termination (PipelineMeasure, PipelineCore, PipelineFair): the measure `mu` (thread ranks + 3 per
  piece-queue entry + 1 per hash-queue entry + 1 per tracked hasher) strictly decreases with
  every progress step, so executions have at most `14·N + 4·#items + 27` of them; in the idle
  suffix of an infinite execution the core state is constant, the steps of main/reader/hashers
  commute with `core`, each thread has at most one enabled label, and weak fairness forces the
  progress step that deadlock freedom provides.
-/
import Torf.Lemmas.PipelineLive
import Torf.Lemmas.PipelineOut
import Torf.Lemmas.PipelineMeasure
import Torf.Lemmas.PipelineFair
namespace Torf.C03
open Torf.Pipeline

/-- No piece is lost or duplicated, ever: the pieces collected by main, in the hash queue, in
    the hands of hashers and in the piece queue are exactly the pieces pushed so far, each once. -/
theorem C03_conservation {cfg : Cfg} {s : State} (h : Reachable cfg s) : Conserved s = true :=
  (InvA.of_reachable h).conserved

/-- `assert piece_index not in self._pieces_seen` never fires and no IndexError is raised. -/
theorem C03_no_internal {cfg : Cfg} {s : State} (h : Reachable cfg s) : noInternalError s = true :=
  (InvA.of_reachable h).noInternalError

/-- When `generate()`/`verify()` returns or raises, no worker thread is left running — for every
    schedule, with cancelling or raising callbacks and with read faults as well. -/
theorem C03_threads_done {cfg : Cfg} {s : State} (_hwf : wf cfg = true) (hrf : cfg.refuse = [])
    (h : Reachable cfg s) (ht : terminal s = true) : allThreadsDone s = true :=
  (Inv.of_reachable hrf h).threads_done ht

/-- Deadlock freedom: in every reachable state in which main has not returned, some thread can
    take a progress step (a step that changes the core state; the janitor possibly after the
    idle steps of its current polling round). -/
theorem C03_deadlock_free {cfg : Cfg} {s : State} (hwf : wf cfg = true) (hrf : cfg.refuse = [])
    (h : Reachable cfg s) (ht : terminal s = false) : canProgress cfg s = true :=
  (Inv.of_reachable hrf h).deadlock_free hwf hrf ht

/-- The outcome is schedule-independent: without faults and with a passive callback, every
    terminal state carries the result of the sequential reference — all digests collected (in
    some arrival order) if no piece raises, otherwise the exception of one of the raising
    pieces. -/
theorem C03_outcome {cfg : Cfg} {s : State} (_hwf : wf cfg = true) (hnf : noFaults cfg = true)
    (hcb : ∀ k d, cfg.cb k d = .pass) (h : Reachable cfg s) (ht : terminal s = true) :
    ∃ r, result? s = some r ∧ outcomeOk cfg r = true := by
  simp only [noFaults, Bool.and_eq_true, Option.isNone_iff_eq_none, List.isEmpty_iff] at hnf
  obtain ⟨hi, hc⟩ := InvC.of_reachable hnf.1 hnf.2 hcb h
  exact hc.outcome hi ht

/-- Digests end up in piece order whatever the arrival order: sorting the collected indexes of a
    returned result gives exactly the data pieces. -/
theorem C03_sorted_result {cfg : Cfg} {s : State} {c : List Nat} (hwf : wf cfg = true)
    (hnf : noFaults cfg = true) (hcb : ∀ k d, cfg.cb k d = .pass) (h : Reachable cfg s)
    (hr : result? s = some (.returned c)) :
    c.mergeSort (fun a b => decide (a ≤ b)) = hashedItems cfg := by
  have ht : terminal s = true := by
    unfold result? at hr; unfold terminal
    split at hr <;> simp_all
  obtain ⟨r, hr', hok⟩ := C03_outcome hwf hnf hcb h ht
  rw [hr] at hr'
  simp only [Option.some.injEq] at hr'
  subst hr'
  simp only [outcomeOk, Bool.and_eq_true, beq_iff_eq] at hok
  exact hok.2

/-- A returned result is complete: no piece raised and every data piece has a digest. -/
theorem C03_returned_complete {cfg : Cfg} {s : State} {c : List Nat} (hwf : wf cfg = true)
    (hnf : noFaults cfg = true) (hcb : ∀ k d, cfg.cb k d = .pass) (h : Reachable cfg s)
    (hr : result? s = some (.returned c)) : badItems cfg = [] ∧ c.Perm (hashedItems cfg) := by
  refine ⟨?_, ?_⟩
  · have ht : terminal s = true := by
      unfold result? at hr; unfold terminal
      split at hr <;> simp_all
    obtain ⟨r, hr', hok⟩ := C03_outcome hwf hnf hcb h ht
    rw [hr] at hr'
    simp only [Option.some.injEq] at hr'
    subst hr'
    simp only [outcomeOk, Bool.and_eq_true, List.isEmpty_iff] at hok
    exact hok.1
  · rw [← C03_sorted_result hwf hnf hcb h hr]
    exact (List.mergeSort_perm c _).symm

/-- No livelock among progress steps: every execution, under any schedule and any timing of the
    timeouts, contains at most `14·N + 4·#items + 27` steps that change the core state.  Together
    with `C03_deadlock_free`: the only way not to terminate is to repeat idle steps (the vital
    hasher's idle timeout, janitor rounds that prune nothing, the janitor's busy wait) forever
    while a progress step stays enabled, which a fair scheduler does not do. -/
theorem C03_progress_bound {cfg : Cfg} {s : State} {ls : List Label} (hrf : cfg.refuse = [])
    (h : run cfg (init cfg) ls = some s) : progressSteps cfg (init cfg) ls ≤ progressBound cfg := by
  have := progressSteps_le hrf ls (init cfg) s (Inv.init cfg) h
  rw [mu_init] at this
  omega

/-- an idle step leaves the core state — and with it the enabledness of every other thread's
    steps — unchanged; a progress step strictly decreases the measure `mu` -/
theorem C03_progress_measure {cfg : Cfg} {s s' : State} {l : Label} (hrf : cfg.refuse = [])
    (h : Reachable cfg s) (hs : step cfg s l = some s') :
    (isProgress s s' = true → mu cfg s' < mu cfg s) ∧ (isProgress s s' = false → core s' = core s) := by
  constructor
  · intro hp
    have := mu_progress hrf (Inv.of_reachable hrf h) hs
    rw [hp] at this
    simp only [↓reduceIte] at this
    omega
  · intro hp
    simp only [isProgress, decide_eq_false_iff_not, Decidable.not_not] at hp
    exact hp.symm

/-- Deadlock freedom in its plain form: a reachable state in which no thread can take any step
    is a state in which main has returned (and then all threads are done, `C03_threads_done`). -/
theorem C03_stuck_is_terminal {cfg : Cfg} {s : State} (hwf : wf cfg = true) (hrf : cfg.refuse = [])
    (h : Reachable cfg s) (hstuck : ∀ l, step cfg s l = none) : terminal s = true := by
  cases ht : terminal s with
  | true => rfl
  | false =>
    have hcp := C03_deadlock_free hwf hrf h ht
    unfold canProgress at hcp
    simp only [Bool.or_eq_true, List.any_eq_true] at hcp
    rcases hcp with ⟨l, _, hl⟩ | hj
    · simp [hstuck l] at hl
    · unfold janitorReachesProgress at hj
      simp [hstuck] at hj

/-- Termination: there is no infinite execution under a weakly fair scheduler (one that does not
    ignore a thread that stays enabled) — whatever the schedule and the timing of the timeouts,
    with cancelling or raising callbacks and read faults as well.  With `C03_stuck_is_terminal`:
    every fair execution is finite and ends with main returned and all threads done. -/
theorem C03_termination {cfg : Cfg} (hwf : wf cfg = true) (hrf : cfg.refuse = []) (e : Exec cfg) :
    ¬ e.Fair :=
  fun hfair => e.not_fair hwf hrf hfair

/-! ### the hypotheses are satisfiable: concrete schedules -/

private def lM : Label := ⟨.main, false⟩
private def lR : Label := ⟨.reader, false⟩
private def lH : Label := ⟨.hasher 0, false⟩
private def lJ : Label := ⟨.janitor, false⟩

/-- one hasher, queue capacity 1, one data piece -/
private def cfgOk : Cfg :=
  { N := 1, cap := 1, items := [.data], readFault := none, refuse := [], raiseOnBad := false,
    cb := fun _ _ => .pass }

/-- one hasher, queue capacity 1, one piece that makes the callback raise -/
private def cfgBad : Cfg :=
  { N := 1, cap := 1, items := [.exc], readFault := none, refuse := [], raiseOnBad := true,
    cb := fun _ _ => .pass }

/-- a complete schedule of `cfgOk` -/
private def schedOk : List Label :=
  [lM, lM, lM, lM, lM, lM, lR, lR, lH, lH, lR, lH, lH, lH, lH, lJ, lJ, lJ, lJ, lM, lM, lM, lM, lM]

/-- a complete schedule of `cfgBad` -/
private def schedBad : List Label :=
  [lM, lM, lM, lM, lM, lM, lR, lR, lH, lH, lR, lH, lM, lM, lM, lH, lH, lH, lM, lM, lJ, lJ, lJ, lJ, lM]

/-- the state a schedule leads to -/
private def after (cfg : Cfg) (ls : List Label) : State := (run cfg (init cfg) ls).getD (init cfg)

private theorem reach_after {cfg : Cfg} {ls : List Label}
    (h : (run cfg (init cfg) ls).isSome = true) : Reachable cfg (after cfg ls) := by
  refine ⟨ls, ?_⟩
  unfold after
  cases hr : run cfg (init cfg) ls with
  | none => simp [hr] at h
  | some s => rfl

/-- conservation and absence of internal errors are stated for every reachable state; here is a
    reachable state with a piece in the hands of the hasher and one with a piece in each queue -/
example : Reachable cfgOk (after cfgOk (schedOk.take 10)) ∧ held (after cfgOk (schedOk.take 10)) = [0] :=
  ⟨reach_after (by decide), by decide⟩

example : Conserved (after cfgOk (schedOk.take 10)) = true :=
  C03_conservation (reach_after (by decide))

example : Reachable cfgOk (after cfgOk (schedOk.take 12)) ∧ (after cfgOk (schedOk.take 12)).hq = [some 0] ∧
    (after cfgOk (schedOk.take 12)).pq = [none] ∧ noInternalError (after cfgOk (schedOk.take 12)) = true :=
  ⟨reach_after (by decide), by decide, by decide, by decide⟩

/-- the hypotheses of `C03_threads_done` and `C03_outcome` hold for a run that returns … -/
example : wf cfgOk = true ∧ noFaults cfgOk = true ∧ Reachable cfgOk (after cfgOk schedOk) ∧
    terminal (after cfgOk schedOk) = true ∧
    result? (after cfgOk schedOk) = some (.returned [0]) ∧ allThreadsDone (after cfgOk schedOk) = true :=
  ⟨by decide, by decide, reach_after (by decide), by decide, by decide, by decide⟩

/-- … and for a run that raises the exception of a bad piece -/
example : wf cfgBad = true ∧ noFaults cfgBad = true ∧ Reachable cfgBad (after cfgBad schedBad) ∧
    terminal (after cfgBad schedBad) = true ∧
    result? (after cfgBad schedBad) = some (.raised (.item 0)) ∧
    allThreadsDone (after cfgBad schedBad) = true :=
  ⟨by decide, by decide, reach_after (by decide), by decide, by decide, by decide⟩

/-- `outcomeOk` of these results, via the theorem -/
example : outcomeOk cfgOk (.returned [0]) = true := by
  obtain ⟨r, hr, hok⟩ := C03_outcome (cfg := cfgOk) (s := after cfgOk schedOk) (by decide) (by decide)
    (fun _ _ => rfl) (reach_after (by decide)) (by decide)
  have h2 : result? (after cfgOk schedOk) = some (Result.returned [0]) := by decide
  rw [h2] at hr
  exact (Option.some.inj hr) ▸ hok

example : outcomeOk cfgBad (.raised (.item 0)) = true := by decide

/-- the complete schedule of `cfgOk` consists of 24 progress steps; the bound is 45 -/
example : progressSteps cfgOk (init cfgOk) schedOk = 24 ∧ progressBound cfgOk = 45 := by decide

/-- infinite executions exist (so `C03_termination` is about something) and fairness is needed:
    with main descheduled after starting the vital hasher, the hasher's idle timeout can repeat
    forever -/
private def idleLab (n : Nat) : Label := [lM, lM, lM, lM, lH].getD n ⟨.hasher 0, true⟩

private def idleSt : Nat → State
  | 0 => init cfgOk
  | n + 1 => (step cfgOk (idleSt n) (idleLab n)).getD (idleSt n)

private theorem idleSt_const (n : Nat) : idleSt (n + 5) = idleSt 5 := by
  induction n with
  | zero => rfl
  | succ n ih =>
    have hl : idleLab (n + 5) = ⟨.hasher 0, true⟩ := by simp [idleLab]
    have hs : step cfgOk (idleSt 5) ⟨.hasher 0, true⟩ = some (idleSt 5) := by decide
    show (step cfgOk (idleSt (n + 5)) (idleLab (n + 5))).getD (idleSt (n + 5)) = idleSt 5
    rw [ih, hl, hs]; rfl

private def idleExec : Exec cfgOk where
  st := idleSt
  lab := idleLab
  start := rfl
  next := by
    intro n
    match n with
    | 0 | 1 | 2 | 3 | 4 => decide
    | n + 5 =>
      have hl : idleLab (n + 5) = ⟨.hasher 0, true⟩ := by simp [idleLab]
      have hs : step cfgOk (idleSt 5) ⟨.hasher 0, true⟩ = some (idleSt 5) := by decide
      rw [show n + 5 + 1 = (n + 1) + 5 by omega, idleSt_const n, idleSt_const (n + 1), hl, hs]

example : ¬ idleExec.Fair := C03_termination (by decide) rfl idleExec

/-- the hypotheses of `C03_deadlock_free` hold in non-terminal reachable states, e.g. while main
    is blocked on the empty hash queue and while it is blocked in `join` -/
example : wf cfgOk = true ∧ cfgOk.refuse = [] ∧ Reachable cfgOk (after cfgOk (schedOk.take 8)) ∧
    terminal (after cfgOk (schedOk.take 8)) = false ∧
    (after cfgOk (schedOk.take 8)).main = .collect ∧ (after cfgOk (schedOk.take 8)).hq = [] :=
  ⟨by decide, rfl, reach_after (by decide), by decide, by decide, by decide⟩

example : wf cfgBad = true ∧ cfgBad.refuse = [] ∧ Reachable cfgBad (after cfgBad (schedBad.take 15)) ∧
    terminal (after cfgBad (schedBad.take 15)) = false ∧
    (after cfgBad (schedBad.take 15)).main = .joinHasher 0 0 (some (.item 0)) :=
  ⟨by decide, rfl, reach_after (by decide), by decide, by decide⟩

end Torf.C03
