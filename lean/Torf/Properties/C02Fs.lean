/-
  C02 — content verification is exact, over every state a listed path can be in.
  Property theorems only (helper lemmas live in Torf.Lemmas.VerifyFs*).

  `verifyFs` (Model/VerifyFs.lean) is the sequential reference of `Torrent.verify` where a listed
  path is a regular file, or cannot be stat'ed and `open` raises OSError(errno) (ENOENT, ENOTDIR,
  ELOOP, ENAMETOOLONG, EACCES …), or can be stat'ed but `open` raises OSError(errno) (EISDIR,
  EACCES, ENXIO, EMFILE, EIO …), or is a regular file one byte of which makes `read` raise
  OSError(errno).  `owed` (Spec/VerifyFs.lean) fixes the documented error each state owes: a wrong
  size that stat shows is VerifyFileSizeError, everything else is ReadError carrying the errno of
  the OSError — whatever that errno is.

  * `C02_fs_conservative`        on the two classic states `verifyFs` *is* `verifySeq`, so every
                                 theorem of C02.lean speaks about it verbatim
  * `C02_fs_classic_projection`  … and more generally whenever no byte is unreadable and no path
                                 of the recorded size is unopenable
  * `C02_fs_iff`                 no callback: `True` ⇔ every path is a regular file of the recorded
                                 size whose content has the stored digests (unconditional)
  * `C02_fs_first_damaged_nocb`, `C02_fs_first_damaged_cb`, `C02_fs_first_damaged_errno`
                                 the first file that owes an error gets exactly that error:
                                 raised without a callback (unless an earlier piece differs),
                                 handed to the callback (or raised, for an unreadable byte); its
                                 ReadError carries the errno of the OSError `open` raised
  * `C02_fs_callback`            with a callback, no `read` failing: result, the read/size errors
                                 (sound, each bad file at most once, in order, complete for what
                                 stat shows), content errors, nothing else, progress arguments
  * `C02_fs_nocb_first_exception` without a callback the first of those exceptions is raised
  * `C02_fs_read_fault`          a failing `read`: ReadError naming that file is raised (callback
                                 or not); what the callback saw before is a prefix of the run with
                                 the byte readable
  * `C02_fs_exceptions`          the exceptions of a run in terms of the projected disk
  * `C02_fs_documented`          every outcome is `True`/`False` or a documented error that is
                                 owed: no internal error, no error naming a good file
  Hypotheses where needed: `0 < L`, a proper path kind, `pieces` of the right length and (as in
  C10) no *bad* zero-length entry (`NoBadEmpty` of the projected disk, finding D10a).
-/
import Torf.Properties.C02
import Torf.Lemmas.VerifyFsOwed
namespace Torf.C02
open Torf Torf.Missing Torf.Verify Torf.VerifyFs

variable {α δ : Type} [Inhabited α] [DecidableEq δ]

/-- **Conservative extension.** A classic disk (`none` = no such file, `some c` = a regular file)
    read as a description over the full alphabet gives the classic model: all theorems of
    `C02.lean` are theorems about `verifyFs`. -/
theorem C02_fs_conservative (H : List α → δ) (L : Nat) (sizes : List Nat)
    (disk : List (Option (List α))) (stored : List δ) (hasCb single pathIsDir : Bool) :
    verifyFs H L sizes (ofClassic disk) stored hasCb single pathIsDir =
      verifySeq H L sizes disk stored hasCb single pathIsDir := by
  rw [verifyFs_eq_verifySeq H L sizes _ stored hasCb single pathIsDir (noReadErr_ofClassic disk)
    (noSilent_ofClassic sizes disk), mainDisk_ofClassic]

/-- **Projection.** Without unreadable bytes and without paths of the recorded size that cannot
    be opened, every state behaves like one of the two classic ones: a path that cannot be opened
    like a missing file, a path whose stat size is wrong like a file of that size. -/
theorem C02_fs_classic_projection (H : List α → δ) (L : Nat) (sizes : List Nat)
    (fd : List (FState α)) (stored : List δ) (hasCb single pathIsDir : Bool)
    (hr : NoReadErr fd = true) (hs : NoSilent sizes fd = true) :
    verifyFs H L sizes fd stored hasCb single pathIsDir =
      verifySeq H L sizes (mainDisk sizes fd) stored hasCb single pathIsDir :=
  verifyFs_eq_verifySeq H L sizes fd stored hasCb single pathIsDir hr hs

/-! ### exactness -/

/-- **The first damaged file, without a callback.** If file `j0` is the first (in metainfo
    order) that owes an error, `verify` raises exactly that error — ReadError for every OSError
    of `open`/`read`, VerifyFileSizeError for a wrong stat size — unless a piece before it
    already differs (VerifyContentError) or an internal error escapes (excluded by
    `C02_fs_documented` under its hypotheses). -/
theorem C02_fs_first_damaged_nocb (H : List α → δ) (L : Nat) (sizes : List Nat)
    (fd : List (FState α)) (stored : List δ) (single pathIsDir : Bool)
    (hp : ProperPath single pathIsDir) (j0 : Nat) (o : Owed) (hj0 : j0 < sizes.length)
    (hbad : owedAt sizes fd j0 = some o) (hfirst : ∀ k < j0, owedAt sizes fd k = none) :
    let r := (verifyFs H L sizes fd stored false single pathIsDir).1
    r = .error (owedErr j0 o) ∨ r = .error .internal ∨ ∃ p fs, r = .error (.content p fs) := by
  unfold ProperPath at hp
  have hp1 : (single && pathIsDir) = false := by subst hp; cases pathIsDir <;> rfl
  have hp2 : (!single && !pathIsDir) = false := by subst hp; cases pathIsDir <;> rfl
  intro r
  have hfd := iterItemsFs_first_damaged L sizes fd j0 o hj0 hbad hfirst
  have hr : r = (verifyFs H L sizes fd stored false single pathIsDir).1 := rfl
  unfold verifyFs at hr
  simp only [hp1, hp2, Bool.false_eq_true, if_false] at hr
  generalize iterItemsFs L sizes fd = run at hfd hr
  cases hfd with
  | internal => right; left; exact hr
  | reported pre first rest fault kind hd he hfile ho herrno =>
    simp only at hr
    have hz : (pre.map dataItem ++ first :: rest).zipIdx
        = (pre.map dataItem).zipIdx ++ (first, pre.length) :: (rest.zipIdx (pre.length + 1)) := by
      rw [List.zipIdx_append]; simp
    rw [hz, List.foldl_append, List.foldl_cons] at hr
    have hk := fold_data_kind H L sizes stored pre 0 {} rfl
    simp only at hk
    generalize (pre.map dataItem).zipIdx.foldl (collectItem H L sizes stored false) {} = acc
      at hk hr
    rcases hk with hnone | hint | ⟨p, fs, hc⟩
    · have h1 := collectItem_exc_nocb H L sizes stored acc first pre.length (j0, kind) hnone he
      rw [fold_raised _ _ _ _ _ _ _ (by rw [h1]; rfl), h1] at hr
      left; rw [hr, ho]
    · rw [collectItem_raised _ _ _ _ _ _ _ (by rw [hint]; rfl),
        fold_raised _ _ _ _ _ _ _ (by rw [hint]; rfl), hint] at hr
      right; left; exact hr
    · rw [collectItem_raised _ _ _ _ _ _ _ (by rw [hc]; rfl),
        fold_raised _ _ _ _ _ _ _ (by rw [hc]; rfl), hc] at hr
      right; right; exact ⟨p, fs, hr⟩
  | readFault pre e ho =>
    simp only at hr
    have hk := fold_data_kind H L sizes stored pre 0 {} rfl
    simp only at hk
    generalize (pre.map dataItem).zipIdx.foldl (collectItem H L sizes stored false) {} = acc
      at hk hr
    rcases hk with hnone | hint | ⟨p, fs, hc⟩
    · rw [hnone] at hr
      left; rw [hr, ho]; rfl
    · rw [hint] at hr
      right; left; exact hr
    · rw [hc] at hr
      right; right; exact ⟨p, fs, hr⟩

/-- **Exactness (iff).** Without a callback `verify` returns `True` if and only if every listed
    path is a regular file of exactly the recorded size all of whose bytes can be read, and the
    digests of the consecutive chunks of the content equal the stored ones — for every layout,
    piece length and state of every path. -/
theorem C02_fs_iff (H : List α → δ) (L : Nat) (hL : 0 < L) (sizes : List Nat)
    (fd : List (FState α)) (stored : List δ) (single pathIsDir : Bool)
    (hp : ProperPath single pathIsDir) :
    (verifyFs H L sizes fd stored false single pathIsDir).1 = .ok true ↔
      SpecOkFs H L sizes fd stored = true := by
  cases hg : AllGoodFs sizes fd with
  | true =>
    rw [verifyFs_of_allGoodFs H L sizes fd stored false single pathIsDir hg,
      ← specOk_of_allGoodFs H L sizes fd stored hg]
    exact C02_iff H L hL sizes (mainDisk sizes fd) stored single pathIsDir hp
  | false =>
    have hs : SpecOkFs H L sizes fd stored = false := by unfold SpecOkFs; simp [hg]
    simp only [hs, Bool.false_eq_true, iff_false]
    obtain ⟨j0, o, hj0, hbad, hfirst⟩ := exists_first_owed sizes fd hg
    have := C02_fs_first_damaged_nocb H L sizes fd stored single pathIsDir hp j0 o hj0 hbad hfirst
    simp only at this
    rcases this with h | h | ⟨p, fs, h⟩ <;> rw [h] <;> simp

/-! non-vacuity / concrete instances (computed by the kernel): a symlink loop (ELOOP = 40), a
    directory of the recorded size (EISDIR = 21), an unreadable byte (EIO = 5) -/
example : (verifyFs (fun p : List Nat => p) 3 [2, 4, 0, 2]
    [.file [1, 2], .file [3, 4, 5, 6], .file [], .file [7, 8]] [[1, 2, 3], [4, 5, 6], [7, 8]]
    false false true).1 = .ok true := by decide
example : (verifyFs (fun p : List Nat => p) 3 [2, 4, 0, 2]
    [.file [1, 2], .gone 40, .file [], .file [7, 8]] [[1, 2, 3], [4, 5, 6], [7, 8]]
    false false true).1 = .error (.read 1) := by decide
example : (verifyFs (fun p : List Nat => p) 3 [2, 4, 0, 2]
    [.file [1, 2], .noOpen 4 21, .file [], .file [7, 8]] [[1, 2, 3], [4, 5, 6], [7, 8]]
    false false true).1 = .error (.read 1) := by decide
example : (verifyFs (fun p : List Nat => p) 3 [2, 4, 0, 2]
    [.file [1, 2], .noOpen 40 21, .file [], .file [7, 8]] [[1, 2, 3], [4, 5, 6], [7, 8]]
    false false true).1 = .error (.size 1) := by decide
example : verifyFs (fun p : List Nat => p) 3 [2, 4, 0, 2]
    [.file [1, 2], .readErr [3, 4, 5, 6] 2 5, .file [], .file [7, 8]]
    [[1, 2, 3], [4, 5, 6], [7, 8]] true false true =
    (.error (.read 1), [⟨1, 0, some [1, 2, 3], none⟩]) := by decide

/-! ### with a callback -/

/-- **Callback run.** For a proper path, any layout, piece length and state of every listed path
    (no bad zero-length entry, as in C10), a `pieces` field of the right length, and no `read`
    failing (`C02_fs_read_fault` is the other case), `verify` with a (passive) callback
    * never raises and returns exactly `SpecOkFs`;
    * hands the callback ReadErrors / VerifyFileSizeErrors only for files that owe exactly that
      error, each such file at most once, in file order …
    * … among them every file whose damage `stat` shows (missing, not stat-able, wrong size),
      and — when no path of the recorded size is unopenable — every damaged file;
    * hands it exactly one VerifyContentError per piece that carries data and whose digest differs
      from the stored one (in piece order), naming `corruptFiles` of that piece, in a call whose
      `piece_index` is that piece; and no other kind of exception;
    * reports at least one exception whenever it returns `False`;
    * and every call has `pieces_done = piece_index + 1 ≥ 1`, `piece_index < nPieces`. -/
theorem C02_fs_callback (H : List α → δ) (L : Nat) (hL : 0 < L) (sizes : List Nat)
    (fd : List (FState α)) (stored : List δ) (single pathIsDir : Bool)
    (hp : ProperPath single pathIsDir)
    (hyp : NoBadEmpty sizes (mainDisk sizes fd) = true)
    (hlen : stored.length = nPieces L sizes.sum) (hnf : readFault L sizes fd = none) :
    let r := verifyFs H L sizes fd stored true single pathIsDir
    r.1 = .ok (SpecOkFs H L sizes fd stored) ∧
    ((excsOf r.2).filter isFileErr).Sublist ((badFiles sizes (mainDisk sizes fd)).map excOf) ∧
    (∀ e ∈ (excsOf r.2).filter isFileErr, ∃ k o, k < sizes.length ∧
      owedAt sizes fd k = some o ∧ e = owedErr k o) ∧
    ((badFiles sizes (statDisk fd)).map excOf).Sublist ((excsOf r.2).filter isFileErr) ∧
    (NoSilent sizes fd = true →
      (excsOf r.2).filter isFileErr = (badFiles sizes (mainDisk sizes fd)).map excOf) ∧
    (excsOf r.2).filter isContentErr =
      (mismatches H L sizes (mainDisk sizes fd) stored).map
        (fun p => VErr.content p (corruptFiles L sizes p)) ∧
    (∀ e ∈ excsOf r.2, isFileErr e = true ∨ isContentErr e = true) ∧
    (∀ c ∈ r.2, ∀ p fs, c.exc = some (.content p fs) → c.piece = p) ∧
    (SpecOkFs H L sizes fd stored = false → ∃ c ∈ r.2, c.exc.isSome = true) ∧
    (∀ c ∈ r.2, 1 ≤ c.done ∧ c.piece < nPieces L sizes.sum ∧ c.done = c.piece + 1) := by
  obtain ⟨items, run⟩ := runFs_exists H L hL sizes fd stored hyp hlen hnf
  intro r
  have hr : r = (.ok (SpecOk H L sizes (mainDisk sizes fd) stored),
      items.zipIdx.flatMap (itemCalls H L sizes stored)) :=
    verifyFs_cb H L sizes fd stored items hlen run single pathIsDir hp
  -- the result is `SpecOkFs`: by the iff and the run without callback
  have hspec : SpecOk H L sizes (mainDisk sizes fd) stored = SpecOkFs H L sizes fd stored := by
    cases hg : AllGoodFs sizes fd with
    | true => exact specOk_of_allGoodFs H L sizes fd stored hg
    | false =>
      have h2 : SpecOkFs H L sizes fd stored = false := by unfold SpecOkFs; simp [hg]
      rw [h2]
      cases hs : SpecOk H L sizes (mainDisk sizes fd) stored with
      | false => rfl
      | true =>
        -- all good on the projected disk, yet some file owes an error: it is a file with an
        -- unreadable byte, and it is the first damaged file — its `read` would have failed
        exfalso
        have hgood : AllGood sizes (mainDisk sizes fd) = true := by
          unfold SpecOk at hs; simp only [Bool.and_eq_true] at hs; exact hs.1
        have hnil : reported items = [] := by
          have := run.repSub
          rw [badFiles_eq_nil_of_good sizes _ hgood] at this
          exact List.sublist_nil.mp this
        obtain ⟨j0, o, hj0, hbad, hfirst⟩ := exists_first_owed sizes fd hg
        have hfd := iterItemsFs_first_damaged L sizes fd j0 o hj0 hbad hfirst
        rw [run.hit] at hfd
        generalize hrun : (some (⟨items, none⟩ : FsRun α)) = r' at hfd
        cases hfd with
        | internal => cases hrun
        | reported pre first rest fault kind hd he hfile ho herrno =>
          simp only [Option.some.injEq, FsRun.mk.injEq] at hrun
          have hne : reported items ≠ [] := by
            rw [hrun.1, reported_append, reported_cons]
            cases hx : first.excs with
            | nil => simp [hx] at he
            | cons x xs => simp
          exact hne hnil
        | readFault pre e ho =>
          simp only [Option.some.injEq, FsRun.mk.injEq] at hrun
          exact absurd hrun.2 (by simp)
  rw [hr]
  refine ⟨by rw [hspec], ?_, ?_, ?_, ?_, ?_, ?_, ?_, ?_, ?_⟩
  · rw [excs_file]
    exact List.Sublist.map _ run.repSub
  · intro e he
    rw [excs_file] at he
    obtain ⟨x, hx, rfl⟩ := List.mem_map.mp he
    obtain ⟨hk, o, ho, hoe⟩ := owed_of_badFiles sizes fd x (run.repSub.subset hx)
    exact ⟨x.1, o, hk, ho, hoe.symm⟩
  · rw [excs_file]
    exact List.Sublist.map _ run.repSup
  · intro hns
    rw [excs_file]
    congr 1
    have heq : badFiles sizes (statDisk fd) = badFiles sizes (mainDisk sizes fd) := by
      unfold badFiles
      congr 1
      funext k
      rw [fileError_eq_of_noSilent sizes fd hns k]
    have hsup : (badFiles sizes (mainDisk sizes fd)).Sublist (reported items) := by
      rw [← heq]; exact run.repSup
    exact run.repSub.eq_of_length_le hsup.length_le
  · rw [excs_content H L sizes stored items 0 run.clean, mismatches_eq, run.data]
  · exact excs_kinds H L sizes stored _
  · intro c hc p fs he
    exact ((calls_progress H L sizes stored items c hc).2.2 p fs he).1.symm
  · intro hs
    have hne := run.exc (by rw [hspec]; exact hs)
    obtain ⟨e, he⟩ := List.exists_mem_of_ne_nil _ hne
    obtain ⟨c, hc, hce⟩ := List.mem_filterMap.mp he
    exact ⟨c, hc, by rw [hce]; rfl⟩
  · intro c hc
    obtain ⟨h1, h2, _⟩ := calls_progress H L sizes stored items c hc
    rw [run.len] at h2
    exact ⟨by omega, h2, h1⟩

/-! non-vacuity of the hypotheses of `C02_fs_callback`, and a concrete trace: file 1 is a directory
    of the recorded size (ReadError, EISDIR), file 2 — wholly inside piece 1, which file 1 already
    blanks — has the recorded size but cannot be opened and is not probed; file 3 is missing -/
def exFs : List (FState Nat) :=
  [.file [1, 2], .noOpen 3 21, .noOpen 1 13, .gone 2, .file [7, 8, 9]]

example : ProperPath false true ∧ NoBadEmpty [2, 3, 1, 1, 3] (mainDisk [2, 3, 1, 1, 3] exFs) = true ∧
    [[1, 2, 3], [4, 5, 6], [0, 7, 8], [9]].length = nPieces 3 [2, 3, 1, 1, 3].sum ∧
    readFault 3 [2, 3, 1, 1, 3] exFs = none ∧ NoSilent [2, 3, 1, 1, 3] exFs = false :=
  ⟨rfl, by decide, by decide, by decide, by decide⟩
example : verifyFs (fun p : List Nat => p) 3 [2, 3, 1, 1, 3] exFs
    [[1, 2, 3], [4, 5, 6], [0, 7, 8], [9]] true false true =
    (.ok false, [⟨1, 0, none, some (.read 1)⟩, ⟨2, 1, none, none⟩,
                 ⟨3, 2, none, some (.read 3)⟩, ⟨4, 3, some [9], none⟩]) := by decide
example : badFiles [2, 3, 1, 1, 3] (mainDisk [2, 3, 1, 1, 3] exFs) =
    [(1, .read), (2, .read), (3, .read)] ∧
    badFiles [2, 3, 1, 1, 3] (statDisk exFs) = [(3, .read)] := by decide

/-! ### without a callback -/

/-- **First exception.** Without a callback `verify` raises the first exception the callback
    would have been handed, and returns `True` if there is none (no `read` failing). -/
theorem C02_fs_nocb_first_exception (H : List α → δ) (L : Nat) (hL : 0 < L) (sizes : List Nat)
    (fd : List (FState α)) (stored : List δ) (single pathIsDir : Bool)
    (hp : ProperPath single pathIsDir)
    (hyp : NoBadEmpty sizes (mainDisk sizes fd) = true)
    (hlen : stored.length = nPieces L sizes.sum) (hnf : readFault L sizes fd = none) :
    verifyFs H L sizes fd stored false single pathIsDir =
      (match (excsOf (verifyFs H L sizes fd stored true single pathIsDir).2).head? with
        | some e => .error e
        | none => .ok true, []) := by
  obtain ⟨items, run⟩ := runFs_exists H L hL sizes fd stored hyp hlen hnf
  rw [verifyFs_cb H L sizes fd stored items hlen run single pathIsDir hp,
    verifyFs_nocb H L sizes fd stored items hlen run single pathIsDir hp]
  rfl

/-! ### a failing `read` -/

/-- **Unreadable byte.** If a `read` fails (OSError with any errno, at any offset of any file —
    the first, a middle or the last one — including the `read` that would hit end-of-file), then
    * that file is a regular file of the recorded size and the error it owes is ReadError(errno);
    * `verify` raises ReadError naming that file, with a callback as well as without one (without
      a callback an exception the callback would have been handed earlier comes first);
    * what the callback was handed before is a prefix of what it is handed when the byte is
      readable — to that run `C02_fs_callback` applies: nothing was reported that is not owed. -/
theorem C02_fs_read_fault (H : List α → δ) (L : Nat) (hL : 0 < L) (sizes : List Nat)
    (fd : List (FState α)) (stored : List δ) (single pathIsDir : Bool)
    (hp : ProperPath single pathIsDir)
    (hyp : NoBadEmpty sizes (mainDisk sizes fd) = true)
    (hlen : stored.length = nPieces L sizes.sum) (j e : Nat)
    (h : readFault L sizes fd = some (j, e)) :
    let cb := verifyFs H L sizes fd stored true single pathIsDir
    let nocb := verifyFs H L sizes fd stored false single pathIsDir
    j < sizes.length ∧ owedAt sizes fd j = some (.read e) ∧
    cb.1 = .error (.read j) ∧
    cb.2 <+: (verifyFs H L sizes (heal fd) stored true single pathIsDir).2 ∧
    (readFault L sizes (heal fd) = none ∧
      NoBadEmpty sizes (mainDisk sizes (heal fd)) = true ∧
      mainDisk sizes (heal fd) = mainDisk sizes fd ∧ statDisk (heal fd) = statDisk fd) ∧
    nocb.1 = (match (excsOf cb.2).head? with
      | some x => .error x
      | none => .error (.read j)) := by
  intro cb nocb
  obtain ⟨hrf, hj, _⟩ := iterItemsFs_fault L sizes fd j e h
  obtain ⟨items, calls, _, _, hcb, hpre, hno⟩ :=
    verifyFs_fault H L hL sizes fd stored hyp hlen single pathIsDir hp j e h
  have hcb' : cb = (.error (.read j), calls) := hcb
  refine ⟨hj, owed_of_readFails sizes fd j e hrf, by rw [hcb'], by rw [hcb']; exact hpre,
    ⟨readFault_none_of_noReadErr L sizes (heal fd) (noReadErr_heal fd),
      by rw [mainDisk_heal]; exact hyp, mainDisk_heal sizes fd, statDisk_heal fd⟩, ?_⟩
  rw [hcb']
  exact hno

/-! non-vacuity of `C02_fs_read_fault`: byte 2 of file 1 is unreadable (EIO); piece 0 was read -/
example : readFault 3 [2, 4, 0, 2]
    ([.file [1, 2], .readErr [3, 4, 5, 6] 2 5, .file [], .file [7, 8]] : List (FState Nat))
    = some (1, 5) := by decide
example : readFault 3 [2, 4, 0, 2]
    ([.gone 2, .readErr [3, 4, 5, 6] 0 5, .file [], .file [7, 8]] : List (FState Nat))
    = none := by decide     -- the unreadable byte lies in the piece the missing file 0 blanks: it is skipped

/-! ### only documented, owed errors -/

/-- what an exception handed to the callback or raised may be: the error a file owes, or the
    content error of a data piece whose digest differs -/
def Documented (H : List α → δ) (L : Nat) (sizes : List Nat) (fd : List (FState α))
    (stored : List δ) (x : VErr) : Prop :=
  (∃ k o, k < sizes.length ∧ owedAt sizes fd k = some o ∧ x = owedErr k o) ∨
  (∃ p ∈ mismatches H L sizes (mainDisk sizes fd) stored,
    x = .content p (corruptFiles L sizes p))

/-- **Exceptions of a run.** Every exception handed to the callback (no `read` failing) is the
    error of a file that is bad on the projected disk, or the content error of a data piece whose
    digest differs. -/
theorem C02_fs_exceptions (H : List α → δ) (L : Nat) (hL : 0 < L) (sizes : List Nat)
    (fd : List (FState α)) (stored : List δ) (single pathIsDir : Bool)
    (hp : ProperPath single pathIsDir)
    (hyp : NoBadEmpty sizes (mainDisk sizes fd) = true)
    (hlen : stored.length = nPieces L sizes.sum) (hnf : readFault L sizes fd = none) :
    ∀ x ∈ excsOf (verifyFs H L sizes fd stored true single pathIsDir).2,
      (∃ y ∈ badFiles sizes (mainDisk sizes fd), x = excOf y) ∨
      (∃ p ∈ mismatches H L sizes (mainDisk sizes fd) stored,
        x = .content p (corruptFiles L sizes p)) := by
  obtain ⟨_, hsub, _, _, _, hcont, hkinds, _⟩ :=
    C02_fs_callback H L hL sizes fd stored single pathIsDir hp hyp hlen hnf
  intro x hx
  rcases hkinds x hx with hk | hk
  · left
    have := hsub.subset (List.mem_filter.mpr ⟨hx, hk⟩)
    obtain ⟨y, hy, rfl⟩ := List.mem_map.mp this
    exact ⟨y, hy, rfl⟩
  · right
    have : x ∈ (mismatches H L sizes (mainDisk sizes fd) stored).map
        (fun p => VErr.content p (corruptFiles L sizes p)) := by
      rw [← hcont]; exact List.mem_filter.mpr ⟨hx, hk⟩
    obtain ⟨p, hp', rfl⟩ := List.mem_map.mp this
    exact ⟨p, hp', rfl⟩

/-- **Only documented, owed outcomes.** For every state of every listed path:
    * with a callback `verify` returns `SpecOkFs`, or raises the ReadError a file with an
      unreadable byte owes; without one it returns `True` or raises;
    * every exception handed to the callback, and the exception raised without a callback, is the
      error owed by a listed file (ReadError for every OSError of `open`/`read` whatever its
      errno, VerifyFileSizeError for a wrong stat size) or the VerifyContentError of a data piece
      whose digest differs — never an undocumented exception, never an error about a file that is
      as recorded, never `False` without a callback. -/
theorem C02_fs_documented (H : List α → δ) (L : Nat) (hL : 0 < L) (sizes : List Nat)
    (fd : List (FState α)) (stored : List δ) (single pathIsDir : Bool)
    (hp : ProperPath single pathIsDir)
    (hyp : NoBadEmpty sizes (mainDisk sizes fd) = true)
    (hlen : stored.length = nPieces L sizes.sum) :
    let cb := verifyFs H L sizes fd stored true single pathIsDir
    let nocb := (verifyFs H L sizes fd stored false single pathIsDir).1
    (cb.1 = .ok (SpecOkFs H L sizes fd stored) ∨
      ∃ j e, j < sizes.length ∧ owedAt sizes fd j = some (.read e) ∧ cb.1 = .error (.read j)) ∧
    (∀ x ∈ excsOf cb.2, Documented H L sizes fd stored x) ∧
    (nocb = .ok true ∨ ∃ x, Documented H L sizes fd stored x ∧ nocb = .error x) := by
  intro cb nocb
  -- exceptions of a run without failing `read`, on a description with the same projections
  have key : ∀ g : List (FState α), mainDisk sizes g = mainDisk sizes fd →
      readFault L sizes g = none →
      ∀ x ∈ excsOf (verifyFs H L sizes g stored true single pathIsDir).2,
        Documented H L sizes fd stored x := by
    intro g hg hnf x hx
    have hyp' : NoBadEmpty sizes (mainDisk sizes g) = true := by rw [hg]; exact hyp
    rcases C02_fs_exceptions H L hL sizes g stored single pathIsDir hp hyp' hlen hnf x hx with
      ⟨y, hy, rfl⟩ | ⟨p, hp', rfl⟩
    · left
      rw [hg] at hy
      obtain ⟨hk, o, ho, hoe⟩ := owed_of_badFiles sizes fd y hy
      exact ⟨y.1, o, hk, ho, hoe.symm⟩
    · right
      rw [hg] at hp'
      exact ⟨p, hp', rfl⟩
  cases hrf : readFault L sizes fd with
  | none =>
    obtain ⟨hres, _⟩ := C02_fs_callback H L hL sizes fd stored single pathIsDir hp hyp hlen hrf
    have hdoc := key fd rfl hrf
    refine ⟨Or.inl hres, hdoc, ?_⟩
    have hno := C02_fs_nocb_first_exception H L hL sizes fd stored single pathIsDir hp hyp hlen hrf
    have hn : nocb = (match (excsOf cb.2).head? with
        | some e => VResult.error e
        | none => VResult.ok true) := by
      show (verifyFs H L sizes fd stored false single pathIsDir).1 = _
      rw [hno]
    cases hx : excsOf cb.2 with
    | nil => left; rw [hn, hx]; rfl
    | cons x xs =>
      right
      refine ⟨x, hdoc x (by show x ∈ excsOf cb.2; rw [hx]; exact List.mem_cons_self), ?_⟩
      rw [hn, hx]; rfl
  | some je =>
    obtain ⟨j, e⟩ := je
    obtain ⟨hj, hown, hres, hpre, ⟨hnf', _, hmd, _⟩, hno⟩ :=
      C02_fs_read_fault H L hL sizes fd stored single pathIsDir hp hyp hlen j e hrf
    have hdoc : ∀ x ∈ excsOf cb.2, Documented H L sizes fd stored x := by
      intro x hx
      apply key (heal fd) hmd hnf' x
      exact (List.IsPrefix.filterMap _ hpre).subset hx
    refine ⟨Or.inr ⟨j, e, hj, hown, hres⟩, hdoc, Or.inr ?_⟩
    have hn : nocb = (match (excsOf cb.2).head? with
        | some x => VResult.error x
        | none => VResult.error (.read j)) := hno
    cases hx : excsOf cb.2 with
    | nil =>
      refine ⟨.read j, Or.inl ⟨j, .read e, hj, hown, rfl⟩, ?_⟩
      rw [hn, hx]; rfl
    | cons x xs =>
      refine ⟨x, hdoc x (by show x ∈ excsOf cb.2; rw [hx]; exact List.mem_cons_self), ?_⟩
      rw [hn, hx]; rfl

/-- **The first damaged file, with a callback.** The error owed by the first file (in metainfo
    order) that owes one is handed to the callback, or — for an unreadable byte — raised. -/
theorem C02_fs_first_damaged_cb (H : List α → δ) (L : Nat) (hL : 0 < L) (sizes : List Nat)
    (fd : List (FState α)) (stored : List δ) (single pathIsDir : Bool)
    (hp : ProperPath single pathIsDir)
    (hyp : NoBadEmpty sizes (mainDisk sizes fd) = true)
    (hlen : stored.length = nPieces L sizes.sum)
    (j0 : Nat) (o : Owed) (hj0 : j0 < sizes.length)
    (hbad : owedAt sizes fd j0 = some o) (hfirst : ∀ k < j0, owedAt sizes fd k = none) :
    let cb := verifyFs H L sizes fd stored true single pathIsDir
    owedErr j0 o ∈ excsOf cb.2 ∨ cb.1 = .error (owedErr j0 o) := by
  intro cb
  have hfd := iterItemsFs_first_damaged L sizes fd j0 o hj0 hbad hfirst
  cases hrf : readFault L sizes fd with
  | none =>
    obtain ⟨items, run⟩ := runFs_exists H L hL sizes fd stored hyp hlen hrf
    have hcb : cb = _ := verifyFs_cb H L sizes fd stored items hlen run single pathIsDir hp
    rw [run.hit] at hfd
    generalize hrun : (some (⟨items, none⟩ : FsRun α)) = r' at hfd
    cases hfd with
    | internal => cases hrun
    | reported pre first rest fault kind hd he hfile ho herrno =>
      simp only [Option.some.injEq, FsRun.mk.injEq] at hrun
      left
      rw [hcb, hrun.1, ho]
      exact mem_excs_of_head H L sizes stored _ first rest _ he
    | readFault pre e ho =>
      simp only [Option.some.injEq, FsRun.mk.injEq] at hrun
      exact absurd hrun.2 (by simp)
  | some je =>
    obtain ⟨j, e⟩ := je
    obtain ⟨items, calls, hit, hcalls, hres, _⟩ :=
      verifyFs_fault H L hL sizes fd stored hyp hlen single pathIsDir hp j e hrf
    have hcb : cb = (.error (.read j), calls) := hres
    rw [hit] at hfd
    generalize hrun : (some (⟨items, some (j, e)⟩ : FsRun α)) = r' at hfd
    cases hfd with
    | internal => cases hrun
    | reported pre first rest fault kind hd he hfile ho herrno =>
      simp only [Option.some.injEq, FsRun.mk.injEq] at hrun
      left
      rw [hcb, hcalls, hrun.1, ho]
      exact mem_excs_of_head H L sizes stored _ first rest _ he
    | readFault pre e' ho =>
      simp only [Option.some.injEq, FsRun.mk.injEq, Prod.mk.injEq] at hrun
      right
      rw [hcb, ho, hrun.2.1]
      rfl

/-! non-vacuity of the hypotheses of `C02_fs_first_damaged_*`: file 1 of `exFs` (a directory of
    the recorded size) is the first that owes an error, a ReadError with EISDIR -/
example : 1 < [2, 3, 1, 1, 3].length ∧ owedAt [2, 3, 1, 1, 3] exFs 1 = some (.read 21) ∧
    ∀ k < 1, owedAt [2, 3, 1, 1, 3] exFs k = none := by decide

/-- **The errno of the first damaged file.** When the first file that owes an error owes a
    ReadError because `open` raised `OSError(errno)` — whatever the errno: ENOENT, EACCES,
    EISDIR, ENOTDIR, ELOOP, ENAMETOOLONG, EMFILE, EIO … — the item that reports it is an item of
    that file and the ReadError carries exactly that errno. -/
theorem C02_fs_first_damaged_errno (L : Nat) (sizes : List Nat) (fd : List (FState α))
    (j0 : Nat) (o : Owed) (hj0 : j0 < sizes.length)
    (hbad : owedAt sizes fd j0 = some o) (hfirst : ∀ k < j0, owedAt sizes fd k = none)
    (pre : List (List α)) (first : Item α) (rest : List (Item α)) (fault : Option (Nat × Nat))
    (hit : iterItemsFs L sizes fd = some ⟨pre.map dataItem ++ first :: rest, fault⟩)
    (hdata : first.data = none) :
    ∃ x, first.excs.head? = some x ∧ x.1 = j0 ∧ excOf x = owedErr j0 o ∧
      ∀ n, excErrno fd first x = some n → o = .read n := by
  have hfd := iterItemsFs_first_damaged L sizes fd j0 o hj0 hbad hfirst
  rw [hit] at hfd
  generalize hrun : (some (⟨pre.map dataItem ++ first :: rest, fault⟩ : FsRun α)) = r' at hfd
  -- two decompositions "data items, then an item without data" of one list coincide
  have split_unique : ∀ (p1 p2 : List (List α)) (f1 f2 : Item α) (r1 r2 : List (Item α)),
      p1.map dataItem ++ f1 :: r1 = p2.map dataItem ++ f2 :: r2 →
      f1.data = none → f2.data = none → f1 = f2 := by
    intro p1
    induction p1 with
    | nil =>
      intro p2 f1 f2 r1 r2 h h1 h2
      cases p2 with
      | nil => simp only [List.map_nil, List.nil_append, List.cons.injEq] at h; exact h.1
      | cons q qs =>
        simp only [List.map_nil, List.nil_append, List.map_cons, List.cons_append,
          List.cons.injEq] at h
        rw [h.1] at h1; cases h1
    | cons q qs ih =>
      intro p2 f1 f2 r1 r2 h h1 h2
      cases p2 with
      | nil =>
        simp only [List.map_nil, List.nil_append, List.map_cons, List.cons_append,
          List.cons.injEq] at h
        rw [← h.1] at h2; cases h2
      | cons q' qs' =>
        simp only [List.map_cons, List.cons_append, List.cons.injEq] at h
        exact ih qs' f1 f2 r1 r2 h.2 h1 h2
  cases hfd with
  | internal => cases hrun
  | reported pre' first' rest' fault' kind hd he hfile ho herrno =>
    simp only [Option.some.injEq, FsRun.mk.injEq] at hrun
    have hf : first = first' := split_unique pre pre' first first' rest rest' hrun.1 hdata hd
    subst hf
    refine ⟨(j0, kind), he, rfl, ho.symm, ?_⟩
    intro n hn
    unfold excErrno at hn
    cases kind with
    | size => cases hn
    | read =>
      simp only [hfile, if_true, Option.some.injEq] at hn
      rw [herrno rfl, hn]
  | readFault pre' e ho =>
    simp only [Option.some.injEq, FsRun.mk.injEq] at hrun
    -- all items are data items, but `first` is not
    exfalso
    have : first ∈ pre'.map dataItem := by rw [← hrun.1]; simp
    obtain ⟨q, _, hq⟩ := List.mem_map.mp this
    rw [← hq] at hdata
    cases hdata

end Torf.C02
