/-
  C12 — bridge theorems to the kernels translated from the source (regenerated on every run):
  the model's force rule is `GenerateCallback._force_callback` / `VerifyCallback._force_callback`.
-/
import Torf.Generated.Kernels
import Torf.Model.Callbacks
namespace Torf.C12
open Torf.Callbacks Torf.Generated Torf.Pipeline

/-- generate: `exceptions or pieces_done >= pieces_total` -/
theorem C12_kernel_force_generate (total done : Nat) (k : ItemKind) :
    force false total done k = forceGenerate (k == .exc) done total := by
  unfold force forceGenerate
  cases k <;> simp

/-- verify: `exceptions or pieces_done >= pieces_total or (hash is not None and hash != expected)` -/
theorem C12_kernel_force_verify (total done : Nat) (k : ItemKind) :
    force true total done k = forceVerify (k == .exc) (k == .mismatch) done total := by
  unfold force forceVerify
  cases k <;> simp <;> omega

end Torf.C12
