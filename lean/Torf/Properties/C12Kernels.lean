/-
  C12 — bridge theorems to the kernels translated from the source (regenerated on every run):
  the model's force rule is `GenerateCallback._force_callback` / `VerifyCallback._force_callback`,
  its interval gate is the condition of `_IntervaledCallback.__call__`.
-/
import Torf.Generated.Kernels
import Torf.Model.Callbacks
namespace Torf.C12
open Torf.Callbacks Torf.Generated Torf.Pipeline

/-- generate: `exceptions or pieces_done >= pieces_total` -/
theorem C12_kernel_force_generate (total done : Nat) (k : ItemKind) :
    force false total done k = forceGenerate (k == .exc) done total := by
  unfold force forceGenerate
  cases k <;> simp

/-- verify: `exceptions or pieces_done >= pieces_total or (hash is not None and hash != expected)` -/
theorem C12_kernel_force_verify (total done : Nat) (k : ItemKind) :
    force true total done k = forceVerify (k == .exc) (k == .mismatch) done total := by
  unfold force forceVerify
  cases k <;> simp <;> omega

/-- `_IntervaledCallback.__call__`: `diff = now - self._prev_call_time; if force or diff >= self._interval`
    — one step of the model passes the gate exactly when the source's condition holds -/
theorem C12_kernel_gate (verify : Bool) (interval : Int) (total : Nat) (st : GateSt) (e : Ev) :
    (stepEv verify interval total st e).calls =
      if intervalGate (force verify total (st.done + 1) e.kind) (intervalDiff e.now st.prev) interval
      then st.calls ++ emit verify (st.done + 1) e else st.calls := by
  unfold stepEv intervalGate intervalDiff
  by_cases h : (force verify total (st.done + 1) e.kind || decide (e.now - st.prev ≥ interval)) = true
  · simp only [h, if_true]
  · simp only [h, if_false, Bool.false_eq_true]

end Torf.C12
