/-
  C04 — failures shut the pipeline down cleanly: faults in the reader's other OS calls and
  failures of the calling thread (`Model/PipelineExit.lean`; proofs in `Lemmas/PipelineExit.lean`).

  1. What reaches the caller when the reader thread died (`C04_reader_exc_result`,
     `C04_close_error_surfaces`, `C04_read_seek_error_is_read_error`, `C04_exit_read_refined`):
     `reader.join()` re-raises exactly the exception the reader stored — the one of a failing
     `stream.close()` if there was one, otherwise the one that ended the generator.  It is the
     library's read error for read/seek/out-of-memory faults; for a failing `close()` (in the
     `finally` block or of an evicted file) it is a bare `OSError`:
     `C04_reader_failure_is_read_error_full` is false (`…_counterexample`, finding D04d),
     `…_partial` is what holds.
  2. Threads (`C04_exit_threads_done_partial`): with no failure window, whatever the reader's
     faults, nothing is left running.  A failure of the calling thread between the start of the
     first worker and `collect()` always leaves a running worker behind
     (`C04_main_failure_leaks`), nobody ever stops or joins it (`C04_main_failure_final`), and
     after a failure in `HasherPool.__init__` the reader of a torrent with at least `cap` pieces
     never ends (`C04_pool_failure_reader_never_ends`): `C04_exit_threads_done_full` is false
     (`…_counterexample`, finding D04c; same window as D04a).
-/
import Torf.Properties.C03Exit
import Torf.Properties.C04
namespace Torf.C04
open Torf.Pipeline Torf.PipelineExit Torf.C03

/-- What the caller gets when the run is over (no refused start, no failure window): if the
    reader thread stored an exception, `reader.join()` re-raises it and it replaces everything
    else (a callback's exception, an error item, the return value); otherwise the result of the
    base system.  The stored exception is the `close()` error of the `finally` block if that call
    failed, else the exception that ended the generator. -/
theorem C04_reader_exc_result {c : CfgE} {x : StateE} (hrf : c.base.refuse = [])
    (hmf : c.mainFail = none) (h : ReachableE c x) (ht : terminalE x = true) :
    resultE? x = (match exitExc c x.base with
                  | some k => some (.readerExc k)
                  | none => (result? x.base).map .base) ∧
    exitExc c x.base = (if c.closeFault = true then some .osError
                        else if x.base.rexc = true then some c.faultCall.exc else none) := by
  have hf := failed_none hmf h
  simp only [terminalE, hf, Option.isSome_none, Bool.false_or] at ht
  obtain ⟨r, hr⟩ := result_of_terminal ht
  have hI := Inv.of_reachable hrf h.base
  have hpost : postReaderJoin x.base.main = true := by simp [hr, postReaderJoin]
  have hd := hI.b1.rjoined hpost
  have hj := (InvJ.of_reachable hrf h).joined hpost
  have hk := (InvX.of_reachable h).kind
  constructor
  · simp only [resultE?, hf, result?, hr, hj, hk]
    cases exitExc c x.base <;> rfl
  · simp [exitExc, hd]

/-- A failing `close()` of the stream always surfaces: the run still shuts down
    (`C03_exit_threads_done`), and the caller gets that error — as a bare `OSError`. -/
theorem C04_close_error_surfaces {c : CfgE} {x : StateE} (hrf : c.base.refuse = [])
    (hmf : c.mainFail = none) (hcf : c.closeFault = true) (h : ReachableE c x)
    (ht : terminalE x = true) : resultE? x = some (.readerExc .osError) := by
  obtain ⟨h1, h2⟩ := C04_reader_exc_result hrf hmf h ht
  rw [h1, h2]
  simp [hcf]

/-- A failing read or seek (or the out-of-memory handler giving up) surfaces as the library's
    read error, provided closing the stream does not fail on top of it. -/
theorem C04_read_seek_error_is_read_error {c : CfgE} {x : StateE} (hrf : c.base.refuse = [])
    (hmf : c.mainFail = none) (hcf : c.closeFault = false) (hfc : c.faultCall ≠ .evict)
    (h : ReachableE c x) (ht : terminalE x = true) (hx : x.base.rexc = true) :
    resultE? x = some (.readerExc .readError) := by
  obtain ⟨h1, h2⟩ := C04_reader_exc_result hrf hmf h ht
  rw [h1, h2]
  cases hc : c.faultCall <;> simp_all [FaultCall.exc]

/-- The base system's "the reader's own exception" never reaches the caller unrefined: the
    extended system always says which class it has. -/
theorem C04_exit_read_refined {c : CfgE} {x : StateE} (hrf : c.base.refuse = [])
    (hmf : c.mainFail = none) (h : ReachableE c x) (ht : terminalE x = true) :
    resultE? x ≠ some (.base (.raised .read)) := by
  obtain ⟨h1, h2⟩ := C04_reader_exc_result hrf hmf h ht
  intro hres
  rw [h1] at hres
  cases he : exitExc c x.base with
  | some k => simp [he] at hres
  | none =>
    simp only [he, Option.map_eq_some_iff, ResultE.base.injEq, exists_eq_right] at hres
    have hm := terminal_of_result hres
    have hrx := (InvG.of_reachable h.base).rdExc (by simp [hm, mainExc])
    rw [h2, hrx] at he
    cases hc : c.closeFault <;> simp [hc] at he

/-- the full statement of the property for the reader's failures: whatever ends the reader, the
    caller sees the library's read error -/
def C04_reader_failure_is_read_error_full : Prop :=
  ∀ (c : CfgE) (x : StateE) (k : RExc), c.base.refuse = [] → c.mainFail = none → ReachableE c x →
    resultE? x = some (.readerExc k) → k = .readError

/-- … holds when no `close()` call fails … -/
theorem C04_reader_failure_is_read_error_partial {c : CfgE} {x : StateE} {k : RExc}
    (hrf : c.base.refuse = []) (hmf : c.mainFail = none) (hcf : c.closeFault = false)
    (hfc : c.faultCall ≠ .evict) (h : ReachableE c x) (hres : resultE? x = some (.readerExc k)) :
    k = .readError := by
  have ht : terminalE x = true := by
    simp only [resultE?, failed_none hmf h] at hres
    cases hr : result? x.base with
    | none => simp [hr] at hres
    | some r => simp [terminalE, terminal, terminal_of_result hr]
  obtain ⟨h1, h2⟩ := C04_reader_exc_result hrf hmf h ht
  rw [h1, h2] at hres
  cases hc : c.faultCall <;> cases hx : x.base.rexc <;> simp_all [FaultCall.exc]

/-! ### concrete schedules -/

private def lM : Label := ⟨.main, false⟩
private def lR : Label := ⟨.reader, false⟩
private def lH : Label := ⟨.hasher 0, false⟩
private def lJ : Label := ⟨.janitor, false⟩

private def baseOne (items : List ItemKind) (cap : Nat) : Cfg :=
  { N := 1, cap := cap, items := items, readFault := none, refuse := [], raiseOnBad := false,
    cb := fun _ _ => .pass }

/-- one hasher, capacity 1, one data piece, `stream.close()` fails -/
private def cfgClose : CfgE := { base := baseOne [.data] 1, closeFault := true }

private def schedClose : List Label :=
  [lM, lM, lM, lM, lM, lM, lR, lR, lH, lH, lR, lH, lH, lH, lH, lJ, lJ, lJ, lJ, lM, lM, lM, lM, lM]

private def afterE (c : CfgE) (ls : List Label) : StateE := (runE c (initE c) ls).getD (initE c)

private theorem reachE_after {c : CfgE} {ls : List Label}
    (h : (runE c (initE c) ls).isSome = true) : ReachableE c (afterE c ls) := by
  refine ⟨ls, ?_⟩
  unfold afterE
  cases hr : runE c (initE c) ls with
  | none => simp [hr] at h
  | some s => rfl

/-- … and is false in general: a failing `close()` reaches the caller as a bare `OSError`
    (finding D04d) -/
theorem C04_reader_failure_is_read_error_counterexample : ¬ C04_reader_failure_is_read_error_full := by
  intro hfull
  have := hfull cfgClose (afterE cfgClose schedClose) .osError rfl rfl (reachE_after (by decide))
    (by decide)
  simp at this

/-- the hypotheses of `C04_close_error_surfaces` are satisfiable -/
example : cfgClose.base.refuse = [] ∧ cfgClose.mainFail = none ∧ cfgClose.closeFault = true ∧
    ReachableE cfgClose (afterE cfgClose schedClose) ∧ terminalE (afterE cfgClose schedClose) = true ∧
    allThreadsDone (afterE cfgClose schedClose).base = true :=
  ⟨rfl, rfl, rfl, reachE_after (by decide), by decide, by decide⟩

/-- a failing seek: the reader dies before the first piece, the caller gets the read error -/
private def cfgSeek : CfgE :=
  { base := { baseOne [.data] 1 with readFault := some 0 }, faultCall := .seek }

private def schedSeek : List Label :=
  [lM, lM, lM, lM, lM, lM, lR, lR, lH, lH, lH, lH, lJ, lJ, lJ, lJ, lM, lM, lM, lM]

example : cfgSeek.closeFault = false ∧ cfgSeek.faultCall ≠ .evict ∧
    ReachableE cfgSeek (afterE cfgSeek schedSeek) ∧ terminalE (afterE cfgSeek schedSeek) = true ∧
    (afterE cfgSeek schedSeek).base.rexc = true ∧
    resultE? (afterE cfgSeek schedSeek) = some (.readerExc .readError) :=
  ⟨rfl, by decide, reachE_after (by decide), by decide, by decide, by decide⟩

/-! ### failures of the calling thread -/

/-- With no failure window the run leaves no worker thread behind, whatever OS call of the reader
    fails and whatever the callback does (no refused start). -/
theorem C04_exit_threads_done_partial {c : CfgE} {x : StateE} (hwf : wf c.base = true)
    (hrf : c.base.refuse = []) (hmf : c.mainFail = none) (h : ReachableE c x)
    (ht : terminalE x = true) : allThreadsDone x.base = true :=
  C03_exit_threads_done hwf hrf hmf h ht

/-- A failure of the calling thread between the start of the first worker and `collect()` always
    leaves a running worker behind: at the moment the call raises, the thread started last (the
    reader for a failure in `HasherPool.__init__`, the janitor for one before `collect()`) is
    running.  Every configuration, every schedule. -/
theorem C04_main_failure_leaks {c : CfgE} {x x' : StateE} {l : Label} {p : MainPoint}
    (hs : stepE c x l = some x') (h0 : x.failed = none) (hp : x'.failed = some p) :
    terminalE x' = true ∧ resultE? x' = some (.mainFailed p) ∧ allThreadsDone x'.base = false := by
  refine ⟨by simp [terminalE, hp], by simp [resultE?, hp], ?_⟩
  rcases stepE_cases hs with hl | hl | ⟨hm, hr⟩
  · subst hl
    obtain ⟨_, b, hb, hx⟩ := stepE_main hs
    subst hx
    simp only [windowOf] at hp
    split at hp
    · split at hp
      · rename_i hbr; simp [allThreadsDone, hbr, RPc.running]
      · simp at hp
    · split at hp
      · rename_i hbj; simp [allThreadsDone, hbj, JPc.running]
      · simp at hp
    · simp at hp
  · subst hl
    obtain ⟨b, _, hx | hx⟩ := stepE_reader hs <;> (obtain ⟨_, hx⟩ := hx; subst hx; simp [h0] at hp)
  · obtain ⟨b, _, hx⟩ := stepE_other hm hr hs
    subst hx
    simp [h0] at hp

/-- … and nobody will ever stop or join it: after the failure the calling thread takes no
    further step of the protocol (it has left `generate()`/`verify()`), the failure is final. -/
theorem C04_main_failure_final {c : CfgE} {x x' : StateE} {l : Label} {p : MainPoint}
    (hp : x.failed = some p) (hs : stepE c x l = some x') : l.tid ≠ .main ∧ x'.failed = some p := by
  rcases stepE_cases hs with hl | hl | ⟨hm, hr⟩
  · subst hl
    obtain ⟨h0, _⟩ := stepE_main hs
    simp [h0] at hp
  · subst hl
    obtain ⟨b, _, hx | hx⟩ := stepE_reader hs <;>
      (obtain ⟨_, hx⟩ := hx; subst hx; exact ⟨by simp, hp⟩)
  · obtain ⟨b, _, hx⟩ := stepE_other hm hr hs
    subst hx
    exact ⟨hm, hp⟩

/-- After a failure in `HasherPool.__init__` (a thread count that is not an integer) the reader
    thread of a torrent with at least `cap` pieces never ends, under any schedule: no hasher will
    ever take a piece, the reader fills the piece queue and blocks. -/
theorem C04_pool_failure_reader_never_ends {c : CfgE} {x : StateE} (h : ReachableE c x)
    (hp : x.failed = some .poolInit) (hnf : c.base.readFault = none)
    (hbig : c.base.cap ≤ c.base.items.length) : x.base.rpc.running = true := by
  have hP := InvP.of_reachable h
  rcases hP.started hp with hr | hd
  · exact hr
  · exfalso
    obtain ⟨q1, q2, _, q4, q5, q6⟩ := hP.quiet (.inl hp)
    have hA := InvA.of_reachable h.base
    have hG := InvG.of_reachable h.base
    have hrx : x.base.rexc = false := by
      cases hx : x.base.rexc with
      | false => rfl
      | true => obtain ⟨r, hr, _⟩ := hG.rexcCfg hx; simp [hnf] at hr
    have hfull := hA.full (.inr hd) q1 hrx
    have hcap := hG.pqcap
    simp only [inFlight, q4, q5, held_nil_of_notStarted q2, List.filterMap_nil, List.append_nil,
      List.nil_append] at hfull
    simp only [hd, ↓reduceIte] at q6
    omega

/-- the full statement: when the call returns or raises, no worker thread is running — for every
    configuration without refused starts, failure windows included -/
def C04_exit_threads_done_full : Prop :=
  ∀ (c : CfgE) (x : StateE), wf c.base = true → c.base.refuse = [] → ReachableE c x →
    terminalE x = true → allThreadsDone x.base = true

/-- three pieces, capacity 1: the thread count makes `HasherPool.__init__` fail -/
private def cfgPool : CfgE := { base := baseOne [.data, .data, .data] 1, mainFail := some .poolInit }

/-- a callback wrapper whose constructor raises (not the code as it is: the seeded change C03-6b) -/
private def cfgBefore : CfgE := { base := baseOne [.data] 1, mainFail := some .beforeCollect }

/-- finding D04c: the call raises from `HasherPool.__init__`, the reader is left behind — here
    blocked for ever on the full piece queue, with no thread able to move -/
theorem C04_exit_threads_done_full_counterexample : ¬ C04_exit_threads_done_full := by
  intro hfull
  have := hfull cfgPool (afterE cfgPool [lM, lM, lR, lR]) (by decide) rfl (reachE_after (by decide))
    (by decide)
  revert this
  decide

example : ReachableE cfgPool (afterE cfgPool [lM, lM, lR, lR]) ∧
    resultE? (afterE cfgPool [lM, lM, lR, lR]) = some (.mainFailed .poolInit) ∧
    (afterE cfgPool [lM, lM, lR, lR]).base.rpc = .putting 1 ∧
    (∀ l ∈ allLabels cfgPool.base, stepE cfgPool (afterE cfgPool [lM, lM, lR, lR]) l = none) :=
  ⟨reachE_after (by decide), by decide, by decide, by decide⟩

/-- the hypotheses of `C04_pool_failure_reader_never_ends` and `C04_main_failure_leaks` are
    satisfiable; a failure before `collect()` leaves all three workers running -/
example : (afterE cfgPool [lM, lM]).failed = some .poolInit ∧ cfgPool.base.readFault = none ∧
    cfgPool.base.cap ≤ cfgPool.base.items.length ∧ ReachableE cfgPool (afterE cfgPool [lM, lM]) :=
  ⟨by decide, rfl, by decide, reachE_after (by decide)⟩

example : stepE cfgBefore (afterE cfgBefore [lM, lM, lM, lM, lM]) lM = some (afterE cfgBefore [lM, lM, lM, lM, lM, lM]) ∧
    (afterE cfgBefore [lM, lM, lM, lM, lM]).failed = none ∧
    (afterE cfgBefore [lM, lM, lM, lM, lM, lM]).failed = some .beforeCollect ∧
    (afterE cfgBefore [lM, lM, lM, lM, lM, lM]).base.rpc.running = true ∧
    hasherRunning (afterE cfgBefore [lM, lM, lM, lM, lM, lM]).base 0 = true ∧
    (afterE cfgBefore [lM, lM, lM, lM, lM, lM]).base.jan.running = true :=
  ⟨by decide, by decide, by decide, by decide, by decide, by decide⟩

/-- the hypotheses of `C04_main_failure_final` are satisfiable: after the failure the reader moves -/
example : (afterE cfgPool [lM, lM]).failed = some .poolInit ∧
    stepE cfgPool (afterE cfgPool [lM, lM]) lR = some (afterE cfgPool [lM, lM, lR]) :=
  ⟨by decide, by decide⟩

end Torf.C04
