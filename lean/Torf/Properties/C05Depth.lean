/-
  C05 — nesting depth: everything the reader accepts must be writable again.

  `read_stream` refuses documents that are nested too deeply for CPython's recursion limit
  (`RecursionError` → `BdecodeError`); `dump` / `write` / `infohash` fail with `MetainfoError` when
  *their* recursion runs out of frames.  `Torf.Model.Depth` makes the limit explicit: `B` frames
  are left below the caller, `Cost` says how many frames each function of the two recursions
  occupies (measured on the code under test by the harness and compared with the model on every
  depth probe).  The theorems say how the two recursions must relate (`Rel`) for the reader's
  guard to protect the writer, that the unchanged code satisfies the relation with a slack of two
  frames, that those two frames are really missing (the full statement is false: finding D05a),
  and that the relation is necessary (one more frame per level on the writer's side and no
  constant slack is enough).
-/
import Torf.Lemmas.Depth
import Torf.Properties.C05
namespace Torf.C05
open Torf Torf.Bencode Torf.Codec Torf.ReadStream Torf.Depth

/-- hypotheses of `C05_dump_read` ⇒ the parsed document has an `info` dict -/
private theorem info_dict_of_read {env : Env} {enc : List (Bytes × BVal)} {validate : Bool}
    {t : List (PyVal × PyVal)} (hc : canon (.dict enc) = true) (hu : utf8Keys (.dict enc) = true)
    (hpieces : PiecesOk enc) (hpriv : PrivateOk enc) (hdate : DateOk env enc)
    (hinfo : validate = true ∨ (lookup kInfo enc).isSome = true)
    (hr : readDict env enc validate = .ok t) : ∃ ikvs, lookup kInfo enc = some (.dict ikvs) := by
  obtain ⟨hrep, _, _⟩ := readDict_rep env enc validate t hc hu hpieces hpriv hdate hinfo hr
  obtain ⟨m, hm⟩ : ∃ m, PyVal.lookupStr "info" t = some m := by
    cases h : PyVal.lookupStr "info" t with
    | some m => exact ⟨m, rfl⟩
    | none =>
      exfalso
      have hn := hrep.lookupStr_none "info" h
      rw [kInfo_eq] at hn
      have hrep0 := rep_decodeTop enc hc (by simpa [utf8Keys] using hu) hpieces
      have hn0 : PyVal.lookupStr "info" (decodeTop enc) = none := by
        cases h0 : PyVal.lookupStr "info" (decodeTop enc) with
        | none => rfl
        | some m0 =>
          obtain ⟨w, hw, _⟩ := hrep0.lookupStr "info" h0
          rw [kInfo_eq, hn] at hw
          exact absurd hw (by simp)
      rcases hinfo with hv | hs
      · unfold readDict at hr
        simp only [assertInfo, hn0, hv, if_true] at hr
        exact absurd hr (by simp)
      · simp [hn] at hs
  -- whatever `t` stores under "info" encodes to what the document has there; `read` asserted a dict
  obtain ⟨w, hw, hew⟩ := hrep.lookupStr "info" hm
  rw [kInfo_eq] at hw
  have hrep0 := rep_decodeTop enc hc (by simpa [utf8Keys] using hu) hpieces
  obtain ⟨m0, hm0, hem0⟩ := hrep0.lookup "info" (kInfo_eq ▸ hw)
  unfold readDict at hr
  simp only [assertInfo, hm0] at hr
  cases m0 with
  | dict D =>
    simp only [encodeValue] at hem0
    split at hem0
    · simp only [Except.ok.injEq] at hem0; exact ⟨_, hem0 ▸ hw⟩
    · exact absurd hem0 (by simp)
  | _ => simp at hr

/-- **Frames.**  Under `Rel C sl se` and the hypotheses of `C05_dump_read`, exporting the read
    torrent needs at most `sl + se` frames more than reading the document needed, and computing
    its info hash needs no more than reading did. -/
theorem C05_depth_need (C : Cost) (sl se : Nat) (hR : Rel C sl se)
    (env : Env) (x : Bytes) (enc : List (Bytes × BVal)) (validate : Bool) (t : List (PyVal × PyVal))
    (hx : parseStrict env.lim x = some (.dict enc))
    (hu : utf8Keys (.dict enc) = true)
    (hpieces : PiecesOk enc) (hpriv : PrivateOk enc) (hdate : DateOk env enc)
    (hinfo : validate = true ∨ (lookup kInfo enc).isSome = true)
    (hr : read env x validate = .ok t) :
    dumpNeed C t ≤ readNeed C enc + sl + se ∧ infoNeed C t ≤ readNeed C enc := by
  obtain ⟨henc, hens⟩ := C05_read_encodes env x enc validate t hx hu hpieces hpriv hdate hinfo hr
  obtain ⟨hp, hc, _⟩ := parseStrict_inv hx
  rw [read_eq] at hr
  split at hr
  · exact absurd hr (by simp)
  simp only [hp] at hr
  obtain ⟨ikvs, hl⟩ := info_dict_of_read hc hu hpieces hpriv hdate hinfo hr
  have hb := bounded_readDict hR env enc validate t hpieces hdate ⟨ikvs, hl⟩ hr
  have hbk := bounded_iff.mp hb
  obtain ⟨X, hX, hXi⟩ := info_mem_popPieces hl
  have hfloor := infoFloor (C := C) hX
  have hdv := (decNeed_le_kvs (C := C) hX).2
  have hser := serNeedKvs_le_popPieces hR enc hpieces
  constructor
  · -- dump: convert, then the serialiser on the converted document (= the parsed document)
    have h1 := hR.entry
    have h2 := hR.entrySer
    have h3 := hR.serX
    simp only [dumpNeed, hens, henc, serNeed, readNeed]
    omega
  · -- infohash: `encode_dict(info)` and the serialiser on it
    obtain ⟨hrep, _, _⟩ := readDict_rep env enc validate t hc hu hpieces hpriv hdate hinfo hr
    obtain ⟨mi, hmi, hemi⟩ := hrep.lookup "info" (kInfo_eq ▸ hl)
    obtain ⟨I, l, rfl, _, _⟩ := encodeValue_dict_inv hemi
    have hI := hb _ (mem_of_lookupStr hmi)
    simp only [encNeed, Nat.max_le] at hI
    -- the serialiser on the info dict against the decoder on the info dict without `pieces`
    have hsi : serNeedKvs C ikvs ≤ max (decNeedKvs C X) C.gen := by
      rw [serNeedKvs_le]
      intro r hr'
      refine ⟨?_, Nat.le_max_right _ _⟩
      rcases hXi with rfl | ⟨rfl, p, hpp⟩
      · exact Nat.le_trans (Nat.le_trans (serNeed_le_decNeed hR r.2) (decNeed_le_kvs hr').1)
          (Nat.le_max_left _ _)
      · obtain ⟨b, rfl⟩ := hpieces ikvs p hl hpp
        rcases mem_erase_or (k := kPieces) hr' with hr'' | ⟨_, hr''⟩
        · exact Nat.le_trans (Nat.le_trans (serNeed_le_decNeed hR r.2) (decNeed_le_kvs hr'').1)
            (Nat.le_max_left _ _)
        · rw [hpp, Option.some.injEq] at hr''
          rw [← hr'']
          simp only [serNeed]
          exact Nat.le_max_right _ _
    have h1 := hR.hashEntry
    have h2 := hR.hashEntrySer
    have h3 := hR.hashSerFloor
    simp only [infoNeed, hens, hmi, encodeDict, hemi, serNeed, readNeed]
    omega

/-- **Reader accepts ⇒ writer does not fail for lack of depth** (given `sl + se` more frames):
    if `read_stream` accepts the canonical document `x` with `B` frames left, `dump` of the result
    with `B + sl + se` frames left returns `x`, byte for byte. -/
theorem C05_depth_dump_read (C : Cost) (sl se B : Nat) (hR : Rel C sl se)
    (env : Env) (x : Bytes) (enc : List (Bytes × BVal)) (validate : Bool) (t : List (PyVal × PyVal))
    (hx : parseStrict env.lim x = some (.dict enc))
    (hu : utf8Keys (.dict enc) = true)
    (hpieces : PiecesOk enc) (hpriv : PrivateOk enc) (hdate : DateOk env enc)
    (hinfo : validate = true ∨ (lookup kInfo enc).isSome = true)
    (hr : readB C B env x validate = .ok t) :
    dumpB C (B + sl + se) env t validate = .ok x := by
  obtain ⟨hp, _, _⟩ := parseStrict_inv hx
  unfold readB at hr
  split at hr
  · exact absurd hr (by simp)
  simp only [hp] at hr
  split at hr
  · exact absurd hr (by simp)
  rename_i hB
  have hn := (C05_depth_need C sl se hR env x enc validate t hx hu hpieces hpriv hdate hinfo hr).1
  have hd := C05_dump_read env x enc validate t hx hu hpieces hpriv hdate hinfo hr
  unfold dumpB
  rw [if_neg (by omega)]
  exact hd

/-- the info hash is available at the *same* budget: no document that `read_stream` accepted
    loses its info hash for lack of frames -/
theorem C05_depth_infohash (C : Cost) (sl se B : Nat) (hR : Rel C sl se)
    (env : Env) (x : Bytes) (enc : List (Bytes × BVal)) (validate : Bool) (t : List (PyVal × PyVal))
    (hx : parseStrict env.lim x = some (.dict enc))
    (hu : utf8Keys (.dict enc) = true)
    (hpieces : PiecesOk enc) (hpriv : PrivateOk enc) (hdate : DateOk env enc)
    (hinfo : validate = true ∨ (lookup kInfo enc).isSome = true)
    (hr : readB C B env x validate = .ok t) :
    infoBytesB C B env t = infoBytes env t := by
  obtain ⟨hp, _, _⟩ := parseStrict_inv hx
  unfold readB at hr
  split at hr
  · exact absurd hr (by simp)
  simp only [hp] at hr
  split at hr
  · exact absurd hr (by simp)
  rename_i hB
  have hn := (C05_depth_need C sl se hR env x enc validate t hx hu hpieces hpriv hdate hinfo hr).2
  unfold infoBytesB
  rw [if_neg (by omega)]

/-- through files: `Torrent.read(path)` accepted with `B` frames left ⇒ `Torrent.write(path)`
    writes `x` with `B + sl + se + (wrf − rdf)` frames left -/
theorem C05_depth_file (C : Cost) (sl se B : Nat) (hR : Rel C sl se) (hf : C.rdf ≤ C.wrf)
    (env : Env) (x : Bytes) (enc : List (Bytes × BVal)) (validate : Bool) (t : List (PyVal × PyVal))
    (hx : parseStrict env.lim x = some (.dict enc))
    (hu : utf8Keys (.dict enc) = true)
    (hpieces : PiecesOk enc) (hpriv : PrivateOk enc) (hdate : DateOk env enc)
    (hinfo : validate = true ∨ (lookup kInfo enc).isSome = true)
    (hr : readFileB C B env x validate = .ok t) :
    writeFileB C (B + sl + se + (C.wrf - C.rdf)) env t validate = .ok x := by
  unfold readFileB at hr
  split at hr
  · exact absurd hr (by simp)
  rename_i hB
  have := C05_depth_dump_read C sl se (B - C.rdf) hR env x enc validate t hx hu hpieces hpriv hdate
    hinfo hr
  unfold writeFileB
  rw [if_neg (by omega)]
  have he : B + sl + se + (C.wrf - C.rdf) - C.wrf = B - C.rdf + sl + se := by omega
  rw [he]
  exact this

/-- the unchanged code (costs as measured) satisfies the relation with one frame of leaf slack
    and one frame of entry slack -/
theorem C05_depth_clean_rel : Rel Cost.clean 1 1 := by
  constructor <;> decide

/-- **What holds for the unchanged code:** two more frames always suffice. -/
theorem C05_depth_partial (B : Nat)
    (env : Env) (x : Bytes) (enc : List (Bytes × BVal)) (validate : Bool) (t : List (PyVal × PyVal))
    (hx : parseStrict env.lim x = some (.dict enc))
    (hu : utf8Keys (.dict enc) = true)
    (hpieces : PiecesOk enc) (hpriv : PrivateOk enc) (hdate : DateOk env enc)
    (hinfo : validate = true ∨ (lookup kInfo enc).isSome = true)
    (hr : readB Cost.clean B env x validate = .ok t) :
    dumpB Cost.clean (B + 2) env t validate = .ok x ∧
      infoBytesB Cost.clean B env t = infoBytes env t :=
  ⟨C05_depth_dump_read Cost.clean 1 1 B C05_depth_clean_rel env x enc validate t hx hu hpieces hpriv
      hdate hinfo hr,
   C05_depth_infohash Cost.clean 1 1 B C05_depth_clean_rel env x enc validate t hx hu hpieces hpriv
      hdate hinfo hr⟩

/-- the full statement: what the reader accepts, the writer writes *at the same budget* -/
def C05_depth_full (C : Cost) : Prop :=
  ∀ (B : Nat) (env : Env) (x : Bytes) (enc : List (Bytes × BVal)) (validate : Bool)
    (t : List (PyVal × PyVal)),
    parseStrict env.lim x = some (.dict enc) → utf8Keys (.dict enc) = true →
    PiecesOk enc → PrivateOk enc → DateOk env enc →
    (validate = true ∨ (lookup kInfo enc).isSome = true) →
    readB C B env x validate = .ok t → dumpB C B env t validate = .ok x

/-- `d4:infod4:name1:a6:pieces2:\xff\xfee1:xll1:aeee`: an unknown top-level key holding a text
    leaf inside two lists -/
def dwX : Bytes :=
  [100, 52, 58, 105, 110, 102, 111, 100, 52, 58, 110, 97, 109, 101, 49, 58, 97, 54, 58, 112, 105,
   101, 99, 101, 115, 50, 58, 255, 254, 101, 49, 58, 120, 108, 108, 49, 58, 97, 101, 101, 101]
def dwInfo : List (Bytes × BVal) := [([110, 97, 109, 101], .bytes [97]), (kPieces, .bytes [255, 254])]
def dwEnc : List (Bytes × BVal) := [(kInfo, .dict dwInfo), ([120], .list [.list [.bytes [97]]])]

/-- read, then dump with `B'` frames: `some none` = read succeeded and dump raised -/
def readThenDump (C : Cost) (B B' : Nat) (env : Env) (x : Bytes) (v : Bool) : Option (Option Bytes) :=
  match readB C B env x v with
  | .ok t => some (dumpB C B' env t v).toOption
  | .error _ => none

private theorem dw_hyps : parseStrict rtEnv.lim dwX = some (.dict dwEnc) ∧
    utf8Keys (.dict dwEnc) = true ∧ PiecesOk dwEnc ∧ PrivateOk dwEnc ∧ DateOk rtEnv dwEnc := by
  have hi : lookup kInfo dwEnc = some (.dict dwInfo) := by rfl
  refine ⟨(C05_strict_iff _ _ _ (by decide +kernel)).mpr ⟨by decide, by decide +kernel⟩,
    by decide +kernel, ?_, ?_, ?_⟩
  · intro ikvs p h1 h2
    rw [hi] at h1
    simp only [Option.some.injEq, BVal.dict.injEq] at h1
    subst h1
    have : lookup kPieces dwInfo = some (.bytes [255, 254]) := by rfl
    rw [this] at h2
    exact ⟨_, (Option.some.inj h2).symm⟩
  · intro ikvs p h1 h2
    rw [hi] at h1
    simp only [Option.some.injEq, BVal.dict.injEq] at h1
    subst h1
    have : lookup kPrivate dwInfo = none := by rfl
    rw [this] at h2
    exact absurd h2 (by simp)
  · intro cd h
    have : lookup kCreationDate dwEnc = none := by rfl
    rw [this] at h
    exact absurd h (by simp)

/-- non-vacuity of `C05_depth_need` / `_dump_read` / `_infohash` / `_file` / `_partial`: `dwX`
    satisfies every hypothesis and is accepted with 7 frames left (8 through `Torrent.read`) -/
example : parseStrict rtEnv.lim dwX = some (.dict dwEnc) ∧
    utf8Keys (.dict dwEnc) = true ∧ PiecesOk dwEnc ∧ PrivateOk dwEnc ∧ DateOk rtEnv dwEnc ∧
    (∃ t, readB Cost.clean 7 rtEnv dwX true = .ok t) ∧
    (∃ t, readFileB Cost.clean 8 rtEnv dwX true = .ok t) ∧
    Cost.clean.rdf ≤ Cost.clean.wrf := by
  obtain ⟨h1, h2, h3, h4, h5⟩ := dw_hyps
  exact ⟨h1, h2, h3, h4, h5, exists_ok_of_toBool (by decide +kernel),
    exists_ok_of_toBool (by decide +kernel), by decide⟩

/-- **The full statement is false for the unchanged code (finding D05a):** the document `dwX`
    needs 7 frames to be read and 9 to be dumped; with 7 or 8 frames left `read_stream` accepts it
    and `dump` raises `MetainfoError`. -/
theorem C05_depth_counterexample : ¬ C05_depth_full Cost.clean := by
  intro h
  obtain ⟨hx, hu, hp, hpr, hd⟩ := dw_hyps
  have hrd : readThenDump Cost.clean 7 7 rtEnv dwX true = some none := by decide +kernel
  unfold readThenDump at hrd
  split at hrd
  · rename_i t ht
    have := h 7 rtEnv dwX dwEnc true t hx hu hp hpr hd (Or.inl rfl) ht
    rw [this] at hrd
    simp [Except.toOption] at hrd
  · exact absurd hrd (by simp)

/-- the slack of `C05_depth_partial` is tight: one more frame is not enough for `dwX` -/
theorem C05_depth_slack_tight :
    readThenDump Cost.clean 7 8 rtEnv dwX true = some none ∧
    readThenDump Cost.clean 7 9 rtEnv dwX true = some (some dwX) := by
  constructor <;> decide +kernel

/-- `n` lists around a leaf -/
def nestL : Nat → BVal → BVal
  | 0, leaf => leaf
  | n + 1, leaf => .list [nestL n leaf]

/-- **The window at every depth:** for a text leaf inside `n` lists the writer's recursion
    (`dump` → `convert` → `encode_dict` → …) needs exactly two frames more than the reader's
    (`read_stream` → `decode_dict` → …) on the unchanged code — whatever the recursion limit and
    the caller's stack depth, the deepest such document the reader accepts cannot be dumped. -/
theorem C05_depth_window (n : Nat) :
    Cost.clean.dp + Cost.clean.ed + encNeed Cost.clean (decodeValue (nestL n (.bytes [97]))) =
      Cost.clean.rd + Cost.clean.dd + decNeed Cost.clean (nestL n (.bytes [97])) + 2 ∧
    decNeed Cost.clean (nestL n (.bytes [97])) = 2 * n + 1 := by
  have h : ∀ n, decNeed Cost.clean (nestL n (.bytes [97])) = 2 * n + 1 ∧
      encNeed Cost.clean (decodeValue (nestL n (.bytes [97]))) = 2 * n + 2 := by
    intro n
    induction n with
    | zero => exact ⟨by decide, by decide +kernel⟩
    | succ k ih =>
      simp only [nestL, decNeed, decNeedList, decodeValue, decodeList, encNeed, encNeedList, ih.1, ih.2]
      simp only [Cost.clean]
      omega
  obtain ⟨h1, h2⟩ := h n
  refine ⟨?_, h1⟩
  rw [h1, h2]
  simp only [Cost.clean]
  omega

/-- **The per-level relation is necessary:** if `encode_value` occupies one more frame before it
    reaches its converter (the seeded helper extraction: `ev = 2`), the writer needs `n` frames
    more than the reader on `n` nested lists — no constant slack protects it. -/
theorem C05_depth_rel_needed (s : Nat) :
    ∃ v : BVal, decNeed { Cost.clean with ev := 2 } v + s <
      encNeed { Cost.clean with ev := 2 } (decodeValue v) := by
  have h : ∀ n, decNeed { Cost.clean with ev := 2 } (nestL n (.bytes [255])) = 2 * n + 1 ∧
      encNeed { Cost.clean with ev := 2 } (decodeValue (nestL n (.bytes [255]))) = 3 * n + 1 := by
    intro n
    induction n with
    | zero => exact ⟨by decide, by decide +kernel⟩
    | succ k ih =>
      simp only [nestL, decNeed, decNeedList, decodeValue, decodeList, encNeed, encNeedList, ih.1, ih.2]
      simp only [Cost.clean]
      omega
  refine ⟨nestL (s + 1) (.bytes [255]), ?_⟩
  obtain ⟨h1, h2⟩ := h (s + 1)
  rw [h1, h2]
  omega

end Torf.C05
