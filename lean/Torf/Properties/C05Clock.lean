/-
  C05 — the creation date and the process's time zone.

  `read_stream` stores `datetime.fromtimestamp(i)` for an integer `creation date` and `dump`
  writes `int(dt.timestamp())`.  The byte-exact round trip needs int → datetime → int to be the
  identity on every int the setter accepts (`Clock.Lawful`).

  Proved here: *if* the process's clock obeys that law (at the document's date), the setter/encoder
  pair is the identity and `C05_dump_read` holds with "creation date absent or an int" in place of
  the representability hypothesis; the law holds in every zone with one change of the UTC offset
  (DST on / off, any offsets, gap and fold: `Zone2`); the epoch-relative shortcut
  `fromtimestamp(0) + timedelta(seconds=i)` breaks it exactly when the offset at `i` differs from
  the offset at the epoch.
  Oracle (measured by the harness, not proved): that CPython's `fromtimestamp` / `timestamp` in the
  real zone obey the law at the document's date (flag `lawful` per case; grid around every
  transition of every zone of the run in the evidence), and that torf's setter and encoder are
  these two calls (correspondence of the stored datetime's timestamp and of the dump).
-/
import Torf.Model.Clock
import Torf.Properties.C05
namespace Torf.C05
open Torf Torf.Bencode Torf.Codec Torf.ReadStream Torf.Clock

/-- **int → datetime → int is the identity** for every int the setter accepts, in every process
    whose clock is lawful: what `creation_date = i` stores is written back as `i`. -/
theorem C05_date_setter_getter {Nv : Type} (c : Clock Nv) (hl : c.Lawful) (i : Int) (d : PyVal)
    (h : fromTsOf c i = some d) : encodeValue d = .ok (.int i) := by
  unfold fromTsOf at h
  cases hloc : c.local i with
  | none => simp [hloc] at h
  | some nv =>
    simp only [hloc, Option.map_some, Option.some.injEq] at h
    subst h
    rw [hl i nv hloc]
    rfl

/-- the same from the law at the one instant `i` (what is measured per document) -/
theorem C05_date_setter_getter_at {Nv : Type} (c : Clock Nv) (i : Int) (d : PyVal)
    (hl : c.lawfulAt i = true) (h : fromTsOf c i = some d) : d = .datetime (some i) := by
  unfold fromTsOf at h
  unfold Clock.lawfulAt at hl
  cases hloc : c.local i with
  | none => simp [hloc] at h
  | some nv =>
    simp only [hloc, Option.map_some, Option.some.injEq, beq_iff_eq] at h hl
    rw [← h, hl]

/-- `creation date`, if present, is an integer -/
def DateInt (enc : List (Bytes × BVal)) : Prop :=
  ∀ cd, lookup kCreationDate enc = some cd → ∃ i, cd = .int i

private theorem fromTs_some_of_readDict {env : Env} {enc : List (Bytes × BVal)} {validate : Bool}
    {t : List (PyVal × PyVal)} {i : Int} (hcd : lookup kCreationDate enc = some (.int i))
    (hr : readDict env enc validate = .ok t) : ∃ d, env.fromTs i = some d := by
  cases h : env.fromTs i with
  | some d => exact ⟨d, rfl⟩
  | none =>
    exfalso
    unfold readDict at hr
    simp only [hcd, setCreationDate, h] at hr
    split at hr <;> simp at hr

/-- **`C05_dump_read` with the clock explicit:** in a process with clock `c`, for every canonical
    document whose `creation date` is absent or an integer at which the clock is lawful (other
    hypotheses as in `C05_dump_read`), `read_stream(x).dump() == x`. -/
theorem C05_dump_read_clock {Nv : Type} (c : Clock Nv) (vo : PyVal → Bool) (x : Bytes)
    (enc : List (Bytes × BVal)) (validate : Bool) (t : List (PyVal × PyVal))
    (hx : parseStrict (envOf c vo).lim x = some (.dict enc))
    (hu : utf8Keys (.dict enc) = true)
    (hpieces : PiecesOk enc) (hpriv : PrivateOk enc) (hint : DateInt enc)
    (hlaw : ∀ i, lookup kCreationDate enc = some (.int i) → c.lawfulAt i = true)
    (hinfo : validate = true ∨ (lookup kInfo enc).isSome = true)
    (hr : read (envOf c vo) x validate = .ok t) :
    dump (envOf c vo) t validate = .ok x := by
  have hdate : DateOk (envOf c vo) enc := by
    intro cd hcd
    obtain ⟨i, rfl⟩ := hint cd hcd
    refine ⟨i, rfl, ?_⟩
    obtain ⟨hp, _, _⟩ := parseStrict_inv hx
    have hr' := hr
    rw [read_eq] at hr'
    split at hr'
    · exact absurd hr' (by simp)
    simp only [hp] at hr'
    obtain ⟨d, hd⟩ := fromTs_some_of_readDict hcd hr'
    have := C05_date_setter_getter_at c i d (hlaw i hcd) hd
    rw [hd, this]
  exact C05_dump_read (envOf c vo) x enc validate t hx hu hpieces hpriv hdate hinfo hr

/-- every zone with one change of the UTC offset obeys the law: whatever the offsets, whichever
    direction the clocks jump (gap or fold), before and after 1970 -/
theorem C05_date_zone2_lawful (z : Zone2) : z.clock.Lawful := by
  intro i d h
  simp only [Zone2.clock, Option.some.injEq] at h ⊢
  subst h
  simp only [Zone2.stamp, Zone2.local, Zone2.off]
  by_cases h1 : i < z.T
  · simp only [h1, if_true]
    have hf : decide (z.T ≤ i ∧ i + z.a < z.T + z.a) = false := by
      simp only [decide_eq_false_iff_not]; omega
    split <;> split <;> simp_all <;> omega
  · simp only [h1, if_false]
    by_cases h2 : i + z.b < z.T + z.a
    · have hf : decide (z.T ≤ i ∧ i + z.b < z.T + z.a) = true := by
        simp only [decide_eq_true_eq]; omega
      simp only [hf, if_true]
      split <;> split <;> omega
    · have hf : decide (z.T ≤ i ∧ i + z.b < z.T + z.a) = false := by
        simp only [decide_eq_false_iff_not]; omega
      simp only [hf]
      split <;> split <;> simp_all <;> omega

/-- the epoch-relative shortcut is right in a zone whose offset never changes (UTC, …) -/
theorem C05_date_epoch_relative_constant (z : Zone2) (h : z.a = z.b) : z.erClock.Lawful := by
  intro i d hd
  simp only [Zone2.erClock, Option.some.injEq] at hd ⊢
  subst hd
  simp only [Zone2.stamp, Zone2.erLocal, Zone2.local, Zone2.off, h]
  split <;> split <;> split <;> simp_all <;> omega

/-- **… and wrong as soon as the offset at a pre-1970 instant differs from the offset at the
    epoch:** UTC−4 (DST) until 1969-12-02, UTC−5 afterwards; the creation date −14182940
    (1969-07-20T20:17:40Z) comes back as −14186540, an hour earlier on every load and save. -/
theorem C05_date_epoch_relative_counterexample :
    ¬ (Zone2.erClock ⟨-2592000, -14400, -18000⟩).Lawful ∧
    (Zone2.erClock ⟨-2592000, -14400, -18000⟩).lawfulAt (-14182940) = false ∧
    Zone2.stamp ⟨-2592000, -14400, -18000⟩ (Zone2.erLocal ⟨-2592000, -14400, -18000⟩ (-14182940)) = -14186540 ∧
    (Zone2.clock ⟨-2592000, -14400, -18000⟩).lawfulAt (-14182940) = true := by
  refine ⟨fun h => ?_, by decide, by decide, by decide⟩
  have := h (-14182940) _ rfl
  simp only [Zone2.erClock, Option.some.injEq] at this
  exact absurd this (by decide)

/-- non-vacuity of `C05_dump_read_clock` (and of `C05_date_setter_getter`): the document `rtX`
    (creation date 5) in the zone "UTC−5 with DST until 1969-12-02" -/
example : ∃ t, read (envOf (Zone2.clock ⟨-2592000, -14400, -18000⟩) (fun _ => true)) rtX true = .ok t ∧
    (Zone2.clock ⟨-2592000, -14400, -18000⟩).lawfulAt 5 = true ∧
    fromTsOf (Zone2.clock ⟨-2592000, -14400, -18000⟩) 5 = some (.datetime (some 5)) := by
  obtain ⟨t, ht⟩ := exists_ok_of_toBool
    (x := read (envOf (Zone2.clock ⟨-2592000, -14400, -18000⟩) (fun _ => true)) rtX true) (by decide +kernel)
  exact ⟨t, ht, by decide, rfl⟩

end Torf.C05
