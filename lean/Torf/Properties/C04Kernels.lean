/-
  C04 — bridge theorems to the kernels translated from `Reader._handle_oom` (regenerated from the
  source on every run): the out-of-memory handler of the reader shrinks the bound of the piece queue.

  `queue.Queue` reads a bound of 0 (or less) as "unbounded".  The pipeline theorems (C03/C04: bounded
  work after a stop request, termination) hold for every capacity ≥ 1; these theorems show that the
  handler keeps the bound inside that range for ever, strictly shrinks it while it is above 1, and
  gives up (raises `ReadError(ENOMEM)`) exactly when the bound has reached 1 — after at most
  `cap - 1` effective calls, so a persistent shortage of memory always ends the run.
-/
import Torf.Generated.Kernels
namespace Torf.C04
open Torf.Generated

/-- the bound never becomes 0 (= unbounded), whatever it was -/
theorem C04_kernel_oom_positive (old : Int) : 1 ≤ oomNewMaxsize old := by
  unfold oomNewMaxsize
  omega

/-- a bound above 1 strictly shrinks (and the handler goes on) -/
theorem C04_kernel_oom_shrinks (old : Int) (h : 2 ≤ old) :
    oomNewMaxsize old < old ∧ oomGoesOn (oomNewMaxsize old) old = true := by
  unfold oomGoesOn oomNewMaxsize
  have : max (1 : Int) (old * 9 / 10) < old := by omega
  exact ⟨this, by simp; omega⟩

/-- at a bound of 1 the handler gives up: the bound stays and `ReadError(ENOMEM)` is raised -/
theorem C04_kernel_oom_gives_up : oomNewMaxsize 1 = 1 ∧ oomGoesOn (oomNewMaxsize 1) 1 = false := by
  decide

/-- the handler goes on iff the bound is above 1 (for every valid bound) -/
theorem C04_kernel_oom_goes_on_iff (old : Int) (h : 1 ≤ old) :
    oomGoesOn (oomNewMaxsize old) old = true ↔ 2 ≤ old := by
  constructor
  · intro hg
    by_cases h2 : 2 ≤ old
    · exact h2
    · have : old = 1 := by omega
      subst this
      exact absurd hg (by decide)
  · intro h2
    exact (C04_kernel_oom_shrinks old h2).2

/-- the bound after `n` effective calls of the handler -/
def oomAfter : Nat → Int → Int
  | 0, cap => cap
  | n + 1, cap => oomAfter n (oomNewMaxsize cap)

/-- a persistent shortage always ends the run: from a bound `cap ≥ 1`, after `cap - 1` effective calls
    (or any larger number) the bound is 1, where the handler gives up -/
theorem C04_kernel_oom_terminates (n : Nat) (cap : Int) (h1 : 1 ≤ cap) (hn : cap ≤ n + 1) :
    oomAfter n cap = 1 := by
  induction n generalizing cap with
  | zero =>
    simp only [oomAfter]
    omega
  | succ k ih =>
    simp only [oomAfter]
    apply ih
    · exact C04_kernel_oom_positive cap
    · by_cases h2 : 2 ≤ cap
      · have := (C04_kernel_oom_shrinks cap h2).1
        omega
      · have : cap = 1 := by omega
        subst this
        have := C04_kernel_oom_gives_up.1
        omega

/-- … and every bound on the way is a valid capacity of the transition system -/
theorem C04_kernel_oom_always_bounded (n : Nat) (cap : Int) (h1 : 1 ≤ cap) :
    1 ≤ oomAfter n cap ∧ oomAfter n cap ≤ cap := by
  induction n generalizing cap with
  | zero => simp only [oomAfter]; omega
  | succ k ih =>
    simp only [oomAfter]
    have hp := C04_kernel_oom_positive cap
    have := ih (oomNewMaxsize cap) hp
    refine ⟨this.1, ?_⟩
    have hle : oomNewMaxsize cap ≤ cap := by
      unfold oomNewMaxsize; omega
    omega

/-! Non-vacuity: the bounds the code goes through for one and two hasher threads (3·N) -/
example : (List.range 4).map (fun n => oomAfter n 3) = [3, 2, 1, 1] := by decide
example : (List.range 7).map (fun n => oomAfter n 6) = [6, 5, 4, 3, 2, 1, 1] := by decide

end Torf.C04
