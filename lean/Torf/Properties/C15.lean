/-
  C15 — the torrent created from a path depends on the content tree and the settings only.
  Property theorems only (helper lemmas live in Torf.Lemmas.Create / Torf.Lemmas.Sort).

  * `C15_created_partial` … the refinement `pathSetter = Spec.created` under `Spec.hypB`;
  * `C15_no_empty_file(_addressed)` … empty files are never stored: every spelling, every cwd,
    every pattern set (the repair of D15a, /repo d89a92e, at full strength);
  * `C15_created_full`, `C15_independent_full` … the unrestricted statements, each refuted by
    concrete witnesses (recorded defects D15b–D15d; D15a's witnesses are regression examples).
-/
import Torf.Lemmas.Create
namespace Torf.C15
open Torf Torf.Paths Torf.Create

/-- Under `hypB` (well-formed tree, covered spelling, the path leads to the tree, what the walk
    listed exists, `commonpath` of the non-empty files is the tree's top or harmless)
    `Torrent.path = spelling` computes exactly the specified torrent — and raises nothing.
    Nothing in `hypB` restricts the working directory or the rest of the file system any more
    (before /repo d89a92e: `probeOK`, i.e. cwd = the tree's parent or no empty file, and no
    same-named empty file below the cwd). -/
theorem C15_created_partial (o : Oracles) (st : Settings) (env : Env) (t : Tree)
    (h : Spec.hypB st env t = true) :
    pathSetter o st env = .ok (Spec.created o st t) :=
  pathSetter_eq_created o st env t h

/-- … hence working directory, spelling, walk order and the rest of the file system do not
    matter (within `hypB`). -/
theorem C15_independent_partial (o : Oracles) (st : Settings) (t : Tree) (env₁ env₂ : Env)
    (h₁ : Spec.hypB st env₁ t = true) (h₂ : Spec.hypB st env₂ t = true) :
    pathSetter o st env₁ = pathSetter o st env₂ := by
  rw [C15_created_partial o st env₁ t h₁, C15_created_partial o st env₂ t h₂]

theorem C15_no_internal_error (o : Oracles) (st : Settings) (env : Env) (t : Tree)
    (h : Spec.hypB st env t = true) : ∃ c, pathSetter o st env = .ok c :=
  ⟨_, C15_created_partial o st env t h⟩

/-- Which files are stored: exactly the non-hidden, non-empty ones that are not (excluded and not
    included), patterns being matched against `name/rel/path`. -/
theorem C15_filter_spec (o : Oracles) (st : Settings) (env : Env) (t : Tree)
    (h : Spec.hypB st env t = true) (f : FileEnt) (hf : f ∈ t.files) :
    (f.rel, f.size) ∈ filesOf (pathSetter o st env) ↔
      (isHidden f.rel = false ∧ f.size ≠ 0 ∧
        ¬ (Spec.excluded o st (Spec.patPath t.name f) = true ∧
           Spec.included o st (Spec.patPath t.name f) = false)) := by
  rw [C15_created_partial o st env t h, mem_filesOf_created, mem_kept, keep_iff]
  exact ⟨fun h => h.2, fun h => ⟨hf, h⟩⟩

/-- … and they are stored in the order of their component lists, whatever the walk order. -/
theorem C15_stored_order (o : Oracles) (st : Settings) (env : Env) (t : Tree)
    (h : Spec.hypB st env t = true) :
    filesOf (pathSetter o st env) = (Spec.kept o st t).map fun f => (f.rel, f.size) := by
  rw [C15_created_partial o st env t h, filesOf_created]

/-- Glob patterns and the path are only seen case-folded. -/
theorem C15_glob_case (o : Oracles) (st st' : Settings) (p p' : String)
    (hp : o.cf p = o.cf p') (hex : st.exGlobs.map o.cf = st'.exGlobs.map o.cf)
    (hin : st.inGlobs.map o.cf = st'.inGlobs.map o.cf)
    (hr : st.exRegexs = [] ∧ st.inRegexs = [] ∧ st'.exRegexs = [] ∧ st'.inRegexs = []) :
    isExcluded o st p = isExcluded o st' p' := by
  obtain ⟨h1, h2, h3, h4⟩ := hr
  unfold isExcluded
  simp only [any_glob_cf, h1, h2, h3, h4, hp, hex, hin, List.any_nil]

theorem C15_glob_case_spec (o : Oracles) (st st' : Settings) (p p' : String)
    (hp : o.cf p = o.cf p') (hex : st.exGlobs.map o.cf = st'.exGlobs.map o.cf)
    (hin : st.inGlobs.map o.cf = st'.inGlobs.map o.cf)
    (hr : st.exRegexs = [] ∧ st.inRegexs = [] ∧ st'.exRegexs = [] ∧ st'.inRegexs = []) :
    Spec.excluded o st p = Spec.excluded o st' p' ∧
    Spec.included o st p = Spec.included o st' p' := by
  obtain ⟨h1, h2, h3, h4⟩ := hr
  unfold Spec.excluded Spec.included
  simp only [any_glob_cf, h1, h2, h3, h4, hp, hex, hin, List.any_nil, and_self]

/-- Regular expressions see the path as it is: case folding (`cf`) and `fnmatch` play no role. -/
theorem C15_regex_case (o o' : Oracles) (st : Settings) (p : String) (ho : o.rex = o'.rex)
    (hg : st.exGlobs = [] ∧ st.inGlobs = []) :
    isExcluded o st p = isExcluded o' st p ∧
    isExcluded o st p =
      (!(st.inRegexs.any fun r => o.rex r p) && st.exRegexs.any fun r => o.rex r p) := by
  obtain ⟨h1, h2⟩ := hg
  unfold isExcluded
  simp only [h1, h2, ho, List.any_nil]
  generalize st.inRegexs.any (fun r => o'.rex r p) = a
  generalize st.exRegexs.any (fun r => o'.rex r p) = b
  cases a <;> cases b <;> simp

/-- case matters for a regular expression (here: literal match), not for the glob beside it -/
example :
    let o : Oracles := ⟨fun s => if s == "T/B.txt" then "T/b.txt" else s, fun text pat => text == pat, fun pat text => pat == text⟩
    isExcluded o ⟨[], ["T/b.txt"], [], []⟩ "T/B.txt" = false ∧
    isExcluded o ⟨[], ["T/b.txt"], [], []⟩ "T/b.txt" = true ∧
    isExcluded o ⟨["T/b.txt"], [], [], []⟩ "T/B.txt" = true := by decide

/-! ### the unrestricted statements and their counterexamples (recorded defects D15a–D15d) -/

/-- the environment in which file system `fs` is seen from `cwd` -/
def envOf (fs : FS) (cwd : Comps) (sp : PPath) (order : List FileEnt) : Env :=
  ⟨cwd, sp, order, fsExists fs cwd⟩

/-- the spelling `sp`, read in `cwd`, leads to a place of file system `fs` that holds exactly
    tree `t` -/
def Addresses (fs : FS) (cwd : Comps) (sp : PPath) (t : Tree) : Bool :=
  let loc := normpath true (if sp.abs then sp.comps else cwd ++ sp.comps)
  loc.getLast? == some t.name &&
  t.files.all (fun f => fs.contains (loc ++ f.rel, some f.size)) &&
  fs.all (fun e => !(loc.isPrefixOf e.1) || e.2.isNone ||
    t.files.any (fun f => e == (loc ++ f.rel, some f.size)))

/-- C15 as documented: wherever the tree is and however it is spelled, the result is the
    specified one.  FALSE for the code as modelled (counterexamples below). -/
def C15_created_full : Prop :=
  ∀ (o : Oracles) (st : Settings) (t : Tree) (fs : FS) (cwd : Comps) (sp : PPath)
    (ord : List FileEnt),
    Spec.cleanTree t = true → Addresses fs cwd sp t = true → ord.Perm t.files →
    pathSetter o st (envOf fs cwd sp ord) = .ok (Spec.created o st t)

/-- … in particular two ways of addressing the same tree give the same torrent.  FALSE. -/
def C15_independent_full : Prop :=
  ∀ (o : Oracles) (st : Settings) (t : Tree) (fs₁ fs₂ : FS) (cwd₁ cwd₂ : Comps)
    (sp₁ sp₂ : PPath) (ord₁ ord₂ : List FileEnt),
    Spec.cleanTree t = true → Addresses fs₁ cwd₁ sp₁ t = true → Addresses fs₂ cwd₂ sp₂ t = true →
    ord₁.Perm t.files → ord₂.Perm t.files →
    pathSetter o st (envOf fs₁ cwd₁ sp₁ ord₁) = pathSetter o st (envOf fs₂ cwd₂ sp₂ ord₂)

/-- witness oracles: no case folding, glob and regex are literal equality -/
def witO : Oracles := ⟨fun s => s, fun text pat => text == pat, fun pat text => pat == text⟩
def witNoPat : Settings := ⟨[], [], [], []⟩
def witExA : Settings := ⟨["T/a.txt"], [], [], []⟩

def witTa : Tree := ⟨"T", [⟨["a"], 3⟩, ⟨["e"], 0⟩]⟩
def witFSa : FS := [(["r", "P", "T", "a"], some 3), (["r", "P", "T", "e"], some 0)]

/-! D15a (repaired by /repo d89a92e): the empty-file test used to probe `name/rel` relative to the
    cwd.  Its witnesses are now positive regression examples: from inside the tree, from an
    unrelated cwd by absolute path, and with an unrelated empty `T/a` below the cwd the model gives
    the specified torrent `[T/a]`. -/

/-- an unrelated cwd `/r/U` that holds a same-named *empty* `T/a` and a non-empty `T/e` -/
def witFSa' : FS := witFSa ++ [(["r", "U", "T", "a"], some 0), (["r", "U", "T", "e"], some 5)]

/-- formerly `C15_created_counterexample_D15a` / `C15_independent_counterexample` -/
example :
    Spec.created witO witNoPat witTa = .multi "T" [(["a"], 3)] ∧
    -- `cd T; path = "."` (was: `[a, e(0)]`)
    pathSetter witO witNoPat (envOf witFSa ["r", "P", "T"] ⟨false, ["."]⟩ witTa.files)
      = .ok (Spec.created witO witNoPat witTa) ∧
    -- `cd P; path = "T"`
    pathSetter witO witNoPat (envOf witFSa ["r", "P"] ⟨false, ["T"]⟩ witTa.files)
      = .ok (Spec.created witO witNoPat witTa) ∧
    -- `cd /r/U; path = "/r/P/T"` with the decoys `U/T/a` (empty) and `U/T/e` (not empty) below the
    -- cwd (was: `a` dropped because `U/T/a` is empty → no file at all)
    pathSetter witO witNoPat (envOf witFSa' ["r", "U"] ⟨true, ["r", "P", "T"]⟩ witTa.files)
      = .ok (Spec.created witO witNoPat witTa) ∧
    pathSetter witO witNoPat (envOf witFSa' ["r", "U"] ⟨false, ["..", "P", "T"]⟩ witTa.files.reverse)
      = .ok (Spec.created witO witNoPat witTa) := by decide

example : Spec.hypB witNoPat (envOf witFSa ["r", "P", "T"] ⟨false, ["."]⟩ witTa.files) witTa = true ∧
    Spec.hypB witNoPat (envOf witFSa' ["r", "U"] ⟨true, ["r", "P", "T"]⟩ witTa.files) witTa = true ∧
    Spec.hypB witNoPat (envOf witFSa' ["r", "U"] ⟨false, ["..", "P", "T"]⟩ witTa.files.reverse) witTa
      = true := by decide

def witTb : Tree := ⟨"T", [⟨["a.txt"], 3⟩, ⟨["sub", "b.txt"], 1⟩]⟩
def witFSb : FS := [(["r", "P", "T", "a.txt"], some 3), (["r", "P", "T", "sub", "b.txt"], some 1)]

/-- D15b: `cd T/sub; path = ".."` — the exclude pattern `T/a.txt` is matched against
    `../a.txt`, so `a.txt` stays. -/
theorem C15_created_counterexample_D15b : ¬ C15_created_full := by
  intro h
  exact absurd (h witO witExA witTb witFSb ["r", "P", "T", "sub"] ⟨false, [".."]⟩ witTb.files
    (by decide) (by decide) (List.Perm.refl _)) (by decide)

/-- D15b: `cd T/sub; path = ".."` and `cd P; path = "T"` give different torrents. -/
theorem C15_independent_counterexample : ¬ C15_independent_full := by
  intro h
  exact absurd (h witO witExA witTb witFSb witFSb ["r", "P", "T", "sub"] ["r", "P"]
    ⟨false, [".."]⟩ ⟨false, ["T"]⟩ witTb.files witTb.files
    (by decide) (by decide) (by decide) (List.Perm.refl _) (List.Perm.refl _)) (by decide)

def witTc : Tree := ⟨"T", [⟨["a.txt"], 3⟩]⟩
def witFSc : FS := [(["r", "P", "T", "a.txt"], some 3)]

/-- D15c: a directory with one file — `commonpath` is the file itself, the pattern `T/a.txt` is
    matched against `T/T/a.txt`, and the file that should be excluded is kept. -/
theorem C15_created_counterexample_D15c : ¬ C15_created_full := by
  intro h
  exact absurd (h witO witExA witTc witFSc ["r", "P"] ⟨false, ["T"]⟩ witTc.files
    (by decide) (by decide) (List.Perm.refl _)) (by decide)

def witTc' : Tree := ⟨"T", [⟨[".hid", "a"], 3⟩, ⟨[".hid", "b"], 1⟩]⟩
def witFSc' : FS := [(["r", "P", "T", ".hid", "a"], some 3), (["r", "P", "T", ".hid", "b"], some 1)]

/-- D15c, hidden rule: all files share the hidden directory `.hid`, the hidden test starts below
    it, and both files are kept (specification: no file, `.empty`). -/
theorem C15_created_counterexample_D15c_hidden : ¬ C15_created_full := by
  intro h
  exact absurd (h witO witNoPat witTc' witFSc' ["r", "P"] ⟨false, ["T"]⟩ witTc'.files
    (by decide) (by decide) (List.Perm.refl _)) (by decide)

def witTcE : Tree := ⟨"T", [⟨["a.txt"], 3⟩, ⟨["e"], 0⟩]⟩
def witFScE : FS := [(["r", "P", "T", "a.txt"], some 3), (["r", "P", "T", "e"], some 0)]

/-- D15c as it reaches since d89a92e: the empty files are dropped *before* `filter_files` takes
    the `commonpath`, so one non-empty file beside an empty one is enough — `commonpath` is
    `T/a.txt`, the pattern is matched against `T/T/a.txt`, the file is kept. -/
theorem C15_created_counterexample_D15c_beside_empty : ¬ C15_created_full := by
  intro h
  exact absurd (h witO witExA witTcE witFScE ["r", "P"] ⟨false, ["T"]⟩ witTcE.files
    (by decide) (by decide) (List.Perm.refl _)) (by decide)

def witTd : Tree := ⟨"T", [⟨["a"], 3⟩, ⟨["sub", "b"], 1⟩]⟩
def witFSd : FS := [(["r", "P", "T", "a"], some 3), (["r", "P", "T", "sub", "b"], some 1)]

/-- D15d: `cd T; path = "sub/.."` — the torrent's name is `""`. -/
theorem C15_created_counterexample_D15d : ¬ C15_created_full := by
  intro h
  exact absurd (h witO witNoPat witTd witFSd ["r", "P", "T"] ⟨false, ["sub", ".."]⟩ witTd.files
    (by decide) (by decide) (List.Perm.refl _)) (by decide)

theorem C15_independent_counterexample_D15d : ¬ C15_independent_full := by
  intro h
  exact absurd (h witO witNoPat witTd witFSd witFSd ["r", "P", "T"] ["r", "P"]
    ⟨false, ["sub", ".."]⟩ ⟨false, ["T"]⟩ witTd.files witTd.files
    (by decide) (by decide) (by decide) (List.Perm.refl _) (List.Perm.refl _)) (by decide)

/-- what the model answers on the witnesses -/
example :
  pathSetter witO witExA (envOf witFSb ["r", "P", "T", "sub"] ⟨false, [".."]⟩ witTb.files)
    = .ok (.multi "T" [(["a.txt"], 3), (["sub", "b.txt"], 1)]) ∧
  Spec.created witO witExA witTb = .multi "T" [(["sub", "b.txt"], 1)] ∧
  pathSetter witO witExA (envOf witFSc ["r", "P"] ⟨false, ["T"]⟩ witTc.files)
    = .ok (.multi "T" [(["a.txt"], 3)]) ∧
  Spec.created witO witExA witTc = .empty ∧
  pathSetter witO witExA (envOf witFScE ["r", "P"] ⟨false, ["T"]⟩ witTcE.files)
    = .ok (.multi "T" [(["a.txt"], 3)]) ∧
  Spec.created witO witExA witTcE = .empty ∧
  pathSetter witO witNoPat (envOf witFSc' ["r", "P"] ⟨false, ["T"]⟩ witTc'.files)
    = .ok (.multi "T" [([".hid", "a"], 3), ([".hid", "b"], 1)]) ∧
  Spec.created witO witNoPat witTc' = .empty ∧
  pathSetter witO witNoPat (envOf witFSd ["r", "P", "T"] ⟨false, ["sub", ".."]⟩ witTd.files)
    = .ok (.multi "" [(["a"], 3), (["sub", "b"], 1)]) := by decide

/-! ### empty files are never stored (every spelling, cwd, pattern set) -/

/-- `_set_files` drops a file of size 0 when `os.path.exists` of the path it was listed with says
    yes.  For `Torrent.path = …` those are the paths `list_files` has just found, so — with no
    condition on the spelling (`..`, `sub/..` included), the cwd, the patterns or the shape of the
    tree — no stored entry has length 0. -/
theorem C15_no_empty_file (o : Oracles) (st : Settings) (env : Env)
    (hex : ∀ f ∈ env.order, f.size = 0 →
      env.pathExists (listedPath (pathlibNorm env.spelling) f) = true) :
    ∀ e ∈ filesOf (pathSetter o st env), e.2 ≠ 0 :=
  pathSetter_no_empty o st env hex

/-- what the walk listed exists, wherever the tree is and however it is addressed -/
theorem C15_listedExist_of_addresses (fs : FS) (cwd : Comps) (sp : PPath) (t : Tree)
    (ord : List FileEnt) (hct : Spec.cleanTree t = true) (hadr : Addresses fs cwd sp t = true) :
    Spec.listedExist (envOf fs cwd sp ord) t = true := by
  unfold Spec.cleanTree at hct
  simp only [Bool.and_eq_true, List.all_eq_true] at hct
  unfold Addresses at hadr
  simp only [Bool.and_eq_true, List.all_eq_true] at hadr
  unfold Spec.listedExist
  rw [List.all_eq_true]
  intro f hf
  exact fsExists_listed fs cwd sp f (List.all_eq_true.mpr (hct.1.1.2 f hf)) (hadr.1.2 f hf)

/-- the same over the environments of the full statement: the tree anywhere in a file system,
    any cwd, any spelling that leads to it -/
theorem C15_no_empty_file_addressed (o : Oracles) (st : Settings) (t : Tree) (fs : FS)
    (cwd : Comps) (sp : PPath) (ord : List FileEnt) (hct : Spec.cleanTree t = true)
    (hadr : Addresses fs cwd sp t = true) (hord : ord.Perm t.files) :
    ∀ e ∈ filesOf (pathSetter o st (envOf fs cwd sp ord)), e.2 ≠ 0 := by
  apply C15_no_empty_file
  intro f hf _
  have h := C15_listedExist_of_addresses fs cwd sp t ord hct hadr
  unfold Spec.listedExist at h
  rw [List.all_eq_true] at h
  exact h f (hord.mem_iff.mp hf)

/-- non-vacuity and reach: the D15d spelling `sub/..` from inside a tree with an empty file —
    the name is lost (D15d, open) but the empty file is not stored -/
example :
    Addresses witFSa ["r", "P", "T"] ⟨false, ["."]⟩ witTa = true ∧
    pathSetter witO witNoPat
      (envOf (witFSa ++ [(["r", "P", "T", "sub", "b"], some 1)]) ["r", "P", "T"]
        ⟨false, ["sub", ".."]⟩ [⟨["a"], 3⟩, ⟨["e"], 0⟩, ⟨["sub", "b"], 1⟩])
      = .ok (.multi "" [(["a"], 3), (["sub", "b"], 1)]) := by decide

/-! ### sufficient conditions for `nameOK` in terms of the place the spelling leads to -/

/-- `_set_files` computes the absolute path as `cwd / normpath(p)` — not `normpath(cwd / p)`.
    The two end in the same name when the working directory has real component names and
    `normpath(p)` ends in a real name (`T`, `../P/T`, `x/../T`, …; not `..`, `sub/..`). -/
theorem C15_nameOK_of_denotes (cwd bc : Comps) (c : String) (hcwd : cwd.all isClean = true)
    (hlast : (normpath false bc).getLast? = some c) (hc : isClean c = true) :
    (cwd ++ normpath false bc).getLast? = (normpath true (cwd ++ bc)).getLast? :=
  getLast?_abspath_eq_normpath cwd bc c hcwd hlast hc

/-- hence `nameOK` holds whenever the spelling leads to the tree (`Addresses`) and is absolute,
    or relative from a clean working directory with `normpath` ending in a real name -/
theorem C15_nameOK_of_addresses (fs : FS) (cwd : Comps) (sp : PPath) (t : Tree)
    (ord : List FileEnt)
    (hsp : sp.abs = true ∨ (cwd.all isClean = true ∧
      (normpath false sp.comps).getLast?.any isClean = true))
    (hadr : Addresses fs cwd sp t = true) :
    Spec.nameOK (envOf fs cwd sp ord) t = true := by
  unfold Addresses at hadr
  simp only [Bool.and_eq_true] at hadr
  have hloc := hadr.1.1
  unfold Spec.nameOK envOf abspath
  simp only [normpath_pathlibNorm]
  have hab : (pathlibNorm sp).abs = sp.abs := rfl
  rw [hab]
  rcases hsp with h | ⟨h1, h2⟩
  · simpa [h] using hloc
  · cases ha : sp.abs with
    | true => simpa [ha] using hloc
    | false =>
      simp only [Option.any_eq_true] at h2
      obtain ⟨c, hc1, hc2⟩ := h2
      simp only [ha, Bool.false_eq_true, if_false] at hloc ⊢
      rw [getLast?_abspath_eq_normpath cwd sp.comps c h1 hc1 hc2]
      exact hloc

/-! ### non-vacuity of `hypB` -/

/-- hidden entries at both levels, an excluded file, an excluded-but-included file -/
def witTm : Tree := ⟨"T", [⟨["a.txt"], 3⟩, ⟨["sub", "b.txt"], 1⟩, ⟨["sub", "c.log"], 2⟩,
  ⟨[".hid", "x"], 5⟩, ⟨["sub", ".h"], 4⟩]⟩
def witStm : Settings := ⟨["T/sub/b.txt", "T/sub/c.log"], [], ["T/sub/c.log"], []⟩
def witFSm : FS := [(["r", "P", "T", "a.txt"], some 3), (["r", "P", "T", "sub", "b.txt"], some 1),
  (["r", "P", "T", "sub", "c.log"], some 2), (["r", "P", "T", ".hid", "x"], some 5),
  (["r", "P", "T", "sub", ".h"], some 4), (["r", "P", "other"], some 0)]
/-- `cd /r/P; path = "../P/T"` -/
def witE1 : Env := envOf witFSm ["r", "P"] ⟨false, ["..", "P", "T"]⟩ witTm.files
/-- `cd /r/P/T; path = "/."` read relative, i.e. `.`; reversed walk order -/
def witE2 : Env := envOf witFSm ["r", "P", "T"] ⟨false, ["", "."]⟩ witTm.files.reverse
/-- `cd /r/P; path = "/r/P/x/../T"` -/
def witE3 : Env := envOf witFSm ["r", "P"] ⟨true, ["r", "P", "x", "..", "T"]⟩ witTm.files
/-- `cd /r/Q; path = "/r/P/T/"`, a cwd that does not exist in `witFSm`, reversed walk order -/
def witE4 : Env := envOf witFSm ["r", "Q"] ⟨true, ["r", "P", "T", ""]⟩ witTm.files.reverse

example : Spec.hypB witStm witE1 witTm = true := by decide
example : Spec.hypB witStm witE2 witTm = true := by decide
example : Spec.hypB witStm witE3 witTm = true := by decide
example : Spec.hypB witStm witE4 witTm = true := by decide
example : Spec.created witO witStm witTm = .multi "T" [(["a.txt"], 3), (["sub", "c.log"], 2)] := by
  decide
example : pathSetter witO witStm witE1 = pathSetter witO witStm witE2 :=
  C15_independent_partial witO witStm witTm witE1 witE2 (by decide) (by decide)
example : pathSetter witO witStm witE3 = .ok (.multi "T" [(["a.txt"], 3), (["sub", "c.log"], 2)]) :=
  C15_created_partial witO witStm witE3 witTm (by decide)

/-- a tree with an empty and a hidden file: from its parent directory (two spellings/orders),
    from inside, from its hidden-file-free child-less self by absolute path elsewhere -/
def witTn : Tree := ⟨"T", [⟨["a"], 3⟩, ⟨["e"], 0⟩, ⟨[".h"], 2⟩]⟩
def witFSn : FS := [(["r", "P", "T", "a"], some 3), (["r", "P", "T", "e"], some 0),
  (["r", "P", "T", ".h"], some 2)]
example : Spec.hypB witNoPat (envOf witFSn ["r", "P"] ⟨false, ["T"]⟩ witTn.files) witTn = true := by
  decide
example : Spec.hypB witNoPat (envOf witFSn ["r", "P"] ⟨false, [".", "T", ""]⟩ witTn.files.reverse)
    witTn = true := by decide
example : Spec.hypB witNoPat (envOf witFSn ["r", "P", "T"] ⟨false, [".", ""]⟩ witTn.files) witTn = true := by
  decide
example : Spec.hypB witNoPat (envOf witFSn ["x"] ⟨true, ["r", "P", "T"]⟩ witTn.files) witTn = true := by
  decide
example : Spec.created witO witNoPat witTn = .multi "T" [(["a"], 3)] := by decide

/-- all files empty, the only file empty (directory and single-file tree): nothing is created -/
example :
    Spec.hypB witNoPat (envOf [(["r", "P", "T", "e"], some 0), (["r", "P", "T", "s", "f"], some 0)]
      ["r", "P", "T", "s"] ⟨true, ["r", "P", "T"]⟩ [⟨["e"], 0⟩, ⟨["s", "f"], 0⟩])
      ⟨"T", [⟨["e"], 0⟩, ⟨["s", "f"], 0⟩]⟩ = true ∧
    Spec.created witO witNoPat ⟨"T", [⟨["e"], 0⟩, ⟨["s", "f"], 0⟩]⟩ = .empty ∧
    Spec.hypB witNoPat (envOf [(["r", "P", "e.bin"], some 0)] ["r"] ⟨false, ["P", "e.bin"]⟩ [⟨[], 0⟩])
      ⟨"e.bin", [⟨[], 0⟩]⟩ = true ∧
    Spec.created witO witNoPat ⟨"e.bin", [⟨[], 0⟩]⟩ = .empty := by decide

/-- an empty file that an include pattern matches is still left out (cwd inside the tree) -/
example :
    let t : Tree := ⟨"T", [⟨["a"], 3⟩, ⟨["b"], 2⟩, ⟨["e"], 0⟩]⟩
    let fs : FS := [(["r", "P", "T", "a"], some 3), (["r", "P", "T", "b"], some 2),
      (["r", "P", "T", "e"], some 0)]
    Spec.created witO ⟨["T/b"], [], ["T/e"], []⟩ t = .multi "T" [(["a"], 3)] ∧
    Spec.hypB ⟨["T/b"], [], ["T/e"], []⟩ (envOf fs ["r", "P", "T"] ⟨false, ["."]⟩ t.files) t
      = true := by decide

/-! ### `Torrent.files = …` (outside C15's statement): what is left of the cwd dependence

  The `File` objects of the `files` setter carry torrent-relative paths, so `os.path.exists(f)` is
  a probe below the cwd: `File('T/e', 0)` is dropped where something called `T/e` exists and kept
  (with length 0) elsewhere.  The sizes themselves are no longer re-read from the file system
  (before d89a92e a non-empty `File('T/a', 3)` was dropped where an empty `T/a` existed). -/
example :
    filesSetter witO witNoPat ["r", "P"] (fsExists witFSa' ["r", "P"])
      [(["T", "a"], 3), (["T", "e"], 0), (["T", "zz"], 0)]
      = .ok (.multi "T" [(["a"], 3), (["zz"], 0)]) ∧
    filesSetter witO witNoPat ["r", "Q"] (fsExists witFSa' ["r", "Q"])
      [(["T", "a"], 3), (["T", "e"], 0), (["T", "zz"], 0)]
      = .ok (.multi "T" [(["a"], 3), (["e"], 0), (["zz"], 0)]) ∧
    -- the decoy `U/T/a` is empty, the given size 3 is what counts
    filesSetter witO witNoPat ["r", "U"] (fsExists witFSa' ["r", "U"])
      [(["T", "a"], 3), (["T", "e"], 0), (["T", "zz"], 0)]
      = .ok (.multi "T" [(["a"], 3), (["zz"], 0)]) := by decide

/-- a tree that is a single file -/
example : Spec.hypB witNoPat (envOf [(["r", "P", "f.bin"], some 7)] ["r", "P"] ⟨false, ["f.bin"]⟩
    [⟨[], 7⟩]) ⟨"f.bin", [⟨[], 7⟩]⟩ = true := by decide
example : Spec.created witO witNoPat ⟨"f.bin", [⟨[], 7⟩]⟩ = .single "f.bin" 7 := by decide

end Torf.C15
