/-
  C15 — the torrent created from a path depends on the content tree and the settings only.
  Property theorems only (helper lemmas live in Torf.Lemmas.Create / Torf.Lemmas.Sort).

  * `C15_created` … wherever the tree is, whatever the working directory is and however the path
    is spelled, `Torrent.path = spelling` computes `Spec.created tree settings` (which mentions no
    environment) and raises nothing; `C15_independent` … so two ways of addressing the same tree
    give the same torrent.  Proved for the code as of /repo 1742c6d (before the repairs d89a92e,
    42ec9ba, 1742c6d these were the defs `C15_created_full` / `C15_independent_full`, refuted by
    the witnesses of D15a–D15d, which are now positive regression `example`s below).
  * `C15_created_env` … the same refinement over abstract environments under `Spec.hypB`.
  * `C15_no_empty_file(_addressed)` … empty files are never stored.
-/
import Torf.Lemmas.Create
namespace Torf.C15
open Torf Torf.Paths Torf.Create

/-- Under `hypB` — nothing but well-formedness of (environment, tree): real names, the spelled path
    leads to something called like the tree, what the walk listed exists, the walk listed the tree
    — `Torrent.path = spelling` computes exactly the specified torrent and raises nothing.
    No conjunct restricts the working directory, the spelling (`..`, `sub/..`, `../..` included),
    the shape of the tree or the patterns. -/
theorem C15_created_env (o : Oracles) (st : Settings) (env : Env) (t : Tree)
    (h : Spec.hypB env t = true) :
    pathSetter o st env = .ok (Spec.created o st t) :=
  pathSetter_eq_created o st env t h

/-- … hence working directory, spelling, walk order and the rest of the file system do not
    matter. -/
theorem C15_independent_env (o : Oracles) (st : Settings) (t : Tree) (env₁ env₂ : Env)
    (h₁ : Spec.hypB env₁ t = true) (h₂ : Spec.hypB env₂ t = true) :
    pathSetter o st env₁ = pathSetter o st env₂ := by
  rw [C15_created_env o st env₁ t h₁, C15_created_env o st env₂ t h₂]

theorem C15_no_internal_error (o : Oracles) (st : Settings) (env : Env) (t : Tree)
    (h : Spec.hypB env t = true) : ∃ c, pathSetter o st env = .ok c :=
  ⟨_, C15_created_env o st env t h⟩

/-- Which files are stored: exactly the non-hidden, non-empty ones that are not (excluded and not
    included), patterns being matched against `name/rel/path`. -/
theorem C15_filter_spec (o : Oracles) (st : Settings) (env : Env) (t : Tree)
    (h : Spec.hypB env t = true) (f : FileEnt) (hf : f ∈ t.files) :
    (f.rel, f.size) ∈ filesOf (pathSetter o st env) ↔
      (isHidden f.rel = false ∧ f.size ≠ 0 ∧
        ¬ (Spec.excluded o st (Spec.patPath t.name f) = true ∧
           Spec.included o st (Spec.patPath t.name f) = false)) := by
  rw [C15_created_env o st env t h, mem_filesOf_created, mem_kept, keep_iff]
  exact ⟨fun h => h.2, fun h => ⟨hf, h⟩⟩

/-- … and they are stored in the order of their component lists, whatever the walk order. -/
theorem C15_stored_order (o : Oracles) (st : Settings) (env : Env) (t : Tree)
    (h : Spec.hypB env t = true) :
    filesOf (pathSetter o st env) = (Spec.kept o st t).map fun f => (f.rel, f.size) := by
  rw [C15_created_env o st env t h, filesOf_created]

/-- Glob patterns and the path are only seen case-folded. -/
theorem C15_glob_case (o : Oracles) (st st' : Settings) (p p' : String)
    (hp : o.cf p = o.cf p') (hex : st.exGlobs.map o.cf = st'.exGlobs.map o.cf)
    (hin : st.inGlobs.map o.cf = st'.inGlobs.map o.cf)
    (hr : st.exRegexs = [] ∧ st.inRegexs = [] ∧ st'.exRegexs = [] ∧ st'.inRegexs = []) :
    isExcluded o st p = isExcluded o st' p' := by
  obtain ⟨h1, h2, h3, h4⟩ := hr
  unfold isExcluded
  simp only [any_glob_cf, h1, h2, h3, h4, hp, hex, hin, List.any_nil]

theorem C15_glob_case_spec (o : Oracles) (st st' : Settings) (p p' : String)
    (hp : o.cf p = o.cf p') (hex : st.exGlobs.map o.cf = st'.exGlobs.map o.cf)
    (hin : st.inGlobs.map o.cf = st'.inGlobs.map o.cf)
    (hr : st.exRegexs = [] ∧ st.inRegexs = [] ∧ st'.exRegexs = [] ∧ st'.inRegexs = []) :
    Spec.excluded o st p = Spec.excluded o st' p' ∧
    Spec.included o st p = Spec.included o st' p' := by
  obtain ⟨h1, h2, h3, h4⟩ := hr
  unfold Spec.excluded Spec.included
  simp only [any_glob_cf, h1, h2, h3, h4, hp, hex, hin, List.any_nil, and_self]

/-- Regular expressions see the path as it is: case folding (`cf`) and `fnmatch` play no role. -/
theorem C15_regex_case (o o' : Oracles) (st : Settings) (p : String) (ho : o.rex = o'.rex)
    (hg : st.exGlobs = [] ∧ st.inGlobs = []) :
    isExcluded o st p = isExcluded o' st p ∧
    isExcluded o st p =
      (!(st.inRegexs.any fun r => o.rex r p) && st.exRegexs.any fun r => o.rex r p) := by
  obtain ⟨h1, h2⟩ := hg
  unfold isExcluded
  simp only [h1, h2, ho, List.any_nil]
  generalize st.inRegexs.any (fun r => o'.rex r p) = a
  generalize st.exRegexs.any (fun r => o'.rex r p) = b
  cases a <;> cases b <;> simp

/-- case matters for a regular expression (here: literal match), not for the glob beside it -/
example :
    let o : Oracles := ⟨fun s => if s == "T/B.txt" then "T/b.txt" else s, fun text pat => text == pat, fun pat text => pat == text⟩
    isExcluded o ⟨[], ["T/b.txt"], [], []⟩ "T/B.txt" = false ∧
    isExcluded o ⟨[], ["T/b.txt"], [], []⟩ "T/b.txt" = true ∧
    isExcluded o ⟨["T/b.txt"], [], [], []⟩ "T/B.txt" = true := by decide

/-! ### the statement over concrete file systems: every location, cwd and spelling -/

/-- the environment in which file system `fs` is seen from `cwd` -/
def envOf (fs : FS) (cwd : Comps) (sp : PPath) (order : List FileEnt) : Env :=
  ⟨cwd, sp, order, fsExists fs cwd⟩

/-- the spelling `sp`, read in `cwd`, leads to a place of file system `fs` that holds exactly
    tree `t`; a tree that is a single file is spelled with its name last (no file system resolves
    `f.bin/x/..`; on component lists it would lead to the file) -/
def Addresses (fs : FS) (cwd : Comps) (sp : PPath) (t : Tree) : Bool :=
  let loc := normpath true (if sp.abs then sp.comps else cwd ++ sp.comps)
  loc.getLast? == some t.name &&
  t.files.all (fun f => fs.contains (loc ++ f.rel, some f.size)) &&
  fs.all (fun e => !(loc.isPrefixOf e.1) || e.2.isNone ||
    t.files.any (fun f => e == (loc ++ f.rel, some f.size))) &&
  (!t.files.any (·.rel.isEmpty) || isClean (name (pathlibNorm sp).comps))

/-- the spelled path, made absolute as `_set_files` does it (`normpath(join(cwd, p))`), is the
    place the spelling leads to — for every spelling and every cwd -/
theorem C15_nameOK_of_addresses (fs : FS) (cwd : Comps) (sp : PPath) (t : Tree)
    (ord : List FileEnt) (hadr : Addresses fs cwd sp t = true) :
    Spec.nameOK (envOf fs cwd sp ord) t = true := by
  unfold Addresses at hadr
  simp only [Bool.and_eq_true] at hadr
  have hloc := hadr.1.1.1
  unfold Spec.nameOK envOf abspath
  have hab : (pathlibNorm sp).abs = sp.abs := rfl
  simp only [hab]
  cases ha : sp.abs with
  | true =>
    simp only [ha, if_true] at hloc ⊢
    rw [normpath_pathlibNorm]; exact hloc
  | false =>
    simp only [ha, Bool.false_eq_true, if_false] at hloc ⊢
    rw [normpath_append_pathlibNorm]; exact hloc

/-- what the walk listed exists, wherever the tree is and however it is addressed -/
theorem C15_listedExist_of_addresses (fs : FS) (cwd : Comps) (sp : PPath) (t : Tree)
    (ord : List FileEnt) (hct : Spec.cleanTree t = true) (hadr : Addresses fs cwd sp t = true) :
    Spec.listedExist (envOf fs cwd sp ord) t = true := by
  unfold Spec.cleanTree at hct
  simp only [Bool.and_eq_true, List.all_eq_true] at hct
  unfold Addresses at hadr
  simp only [Bool.and_eq_true, List.all_eq_true] at hadr
  unfold Spec.listedExist
  rw [List.all_eq_true]
  intro f hf
  exact fsExists_listed fs cwd sp f (List.all_eq_true.mpr (hct.1.1.2 f hf)) (hadr.1.1.2 f hf)

/-- a tree that is addressed satisfies the hypothesis of the refinement -/
theorem C15_hypB_of_addresses (fs : FS) (cwd : Comps) (sp : PPath) (t : Tree)
    (ord : List FileEnt) (hct : Spec.cleanTree t = true) (hadr : Addresses fs cwd sp t = true)
    (hord : ord.Perm t.files) : Spec.hypB (envOf fs cwd sp ord) t = true := by
  have h1 := C15_nameOK_of_addresses fs cwd sp t ord hadr
  have h2 := C15_listedExist_of_addresses fs cwd sp t ord hct hadr
  have h3 : Spec.fileSpellOK (envOf fs cwd sp ord) t = true := by
    unfold Addresses at hadr
    simp only [Bool.and_eq_true] at hadr
    exact hadr.2
  have h4 : (envOf fs cwd sp ord).order.isPerm t.files = true := List.isPerm_iff.mpr hord
  unfold Spec.hypB
  simp only [hct, h1, h2, h3, h4, Bool.and_self]

/-- **C15.**  Wherever the tree is (`fs`), whatever the working directory is and however the
    path is spelled — relative, absolute, with `.` or `..` (`..`, `sub/..`, `../..`, `x/../T`), a
    trailing slash — and in whatever order the file system lists the entries: the created torrent
    is the specified one, a function of the tree and the settings only; nothing is raised. -/
theorem C15_created (o : Oracles) (st : Settings) (t : Tree) (fs : FS) (cwd : Comps) (sp : PPath)
    (ord : List FileEnt)
    (hct : Spec.cleanTree t = true) (hadr : Addresses fs cwd sp t = true) (hord : ord.Perm t.files) :
    pathSetter o st (envOf fs cwd sp ord) = .ok (Spec.created o st t) :=
  C15_created_env o st _ t (C15_hypB_of_addresses fs cwd sp t ord hct hadr hord)

/-- … in particular two ways of addressing the same tree — two file systems, locations, working
    directories, spellings, listing orders — give the same torrent. -/
theorem C15_independent (o : Oracles) (st : Settings) (t : Tree) (fs₁ fs₂ : FS) (cwd₁ cwd₂ : Comps)
    (sp₁ sp₂ : PPath) (ord₁ ord₂ : List FileEnt)
    (hct : Spec.cleanTree t = true) (h₁ : Addresses fs₁ cwd₁ sp₁ t = true)
    (h₂ : Addresses fs₂ cwd₂ sp₂ t = true) (ho₁ : ord₁.Perm t.files) (ho₂ : ord₂.Perm t.files) :
    pathSetter o st (envOf fs₁ cwd₁ sp₁ ord₁) = pathSetter o st (envOf fs₂ cwd₂ sp₂ ord₂) := by
  rw [C15_created o st t fs₁ cwd₁ sp₁ ord₁ hct h₁ ho₁, C15_created o st t fs₂ cwd₂ sp₂ ord₂ hct h₂ ho₂]

/-! ### empty files are never stored (every spelling, cwd, pattern set) -/

/-- `_set_files` drops a file of size 0 when `os.path.exists` of the path it was listed with says
    yes.  For `Torrent.path = …` those are the paths `list_files` has just found, so — with no
    condition on the spelling, the cwd, the patterns or the shape of the tree — no stored entry
    has length 0. -/
theorem C15_no_empty_file (o : Oracles) (st : Settings) (env : Env)
    (hex : ∀ f ∈ env.order, f.size = 0 →
      env.pathExists (listedPath (pathlibNorm env.spelling) f) = true) :
    ∀ e ∈ filesOf (pathSetter o st env), e.2 ≠ 0 :=
  pathSetter_no_empty o st env hex

theorem C15_no_empty_file_addressed (o : Oracles) (st : Settings) (t : Tree) (fs : FS)
    (cwd : Comps) (sp : PPath) (ord : List FileEnt) (hct : Spec.cleanTree t = true)
    (hadr : Addresses fs cwd sp t = true) (hord : ord.Perm t.files) :
    ∀ e ∈ filesOf (pathSetter o st (envOf fs cwd sp ord)), e.2 ≠ 0 := by
  apply C15_no_empty_file
  intro f hf _
  have h := C15_listedExist_of_addresses fs cwd sp t ord hct hadr
  unfold Spec.listedExist at h
  rw [List.all_eq_true] at h
  exact h f (hord.mem_iff.mp hf)

/-! ### regression: the witnesses of the repaired defects D15a–D15d

  Each of these refuted `C15_created_full` / `C15_independent_full` while the defect was in /repo
  (theorems `C15_created_counterexample_D15a/b/c/c_hidden/c_beside_empty/d`,
  `C15_independent_counterexample(_D15d)`).  Now the model answers the specified torrent on every
  one of them, and each environment satisfies `Addresses`. -/

/-- witness oracles: no case folding, glob and regex are literal equality -/
def witO : Oracles := ⟨fun s => s, fun text pat => text == pat, fun pat text => pat == text⟩
def witNoPat : Settings := ⟨[], [], [], []⟩
def witExA : Settings := ⟨["T/a.txt"], [], [], []⟩

def witTa : Tree := ⟨"T", [⟨["a"], 3⟩, ⟨["e"], 0⟩]⟩
def witFSa : FS := [(["r", "P", "T", "a"], some 3), (["r", "P", "T", "e"], some 0)]
/-- an unrelated cwd `/r/U` that holds a same-named *empty* `T/a` and a non-empty `T/e` -/
def witFSa' : FS := witFSa ++ [(["r", "U", "T", "a"], some 0), (["r", "U", "T", "e"], some 5)]

/-- D15a (d89a92e): the empty-file test probed `name/rel` relative to the cwd -/
example :
    Spec.created witO witNoPat witTa = .multi "T" [(["a"], 3)] ∧
    -- `cd T; path = "."` (was: `[a, e(0)]`)
    pathSetter witO witNoPat (envOf witFSa ["r", "P", "T"] ⟨false, ["."]⟩ witTa.files)
      = .ok (Spec.created witO witNoPat witTa) ∧
    pathSetter witO witNoPat (envOf witFSa ["r", "P"] ⟨false, ["T"]⟩ witTa.files)
      = .ok (Spec.created witO witNoPat witTa) ∧
    -- `cd /r/U; path = "/r/P/T"` with the decoys below the cwd (was: no file at all)
    pathSetter witO witNoPat (envOf witFSa' ["r", "U"] ⟨true, ["r", "P", "T"]⟩ witTa.files)
      = .ok (Spec.created witO witNoPat witTa) ∧
    pathSetter witO witNoPat (envOf witFSa' ["r", "U"] ⟨false, ["..", "P", "T"]⟩ witTa.files.reverse)
      = .ok (Spec.created witO witNoPat witTa) ∧
    Addresses witFSa ["r", "P", "T"] ⟨false, ["."]⟩ witTa = true ∧
    Addresses witFSa' ["r", "U"] ⟨true, ["r", "P", "T"]⟩ witTa = true := by decide

def witTb : Tree := ⟨"T", [⟨["a.txt"], 3⟩, ⟨["sub", "b.txt"], 1⟩]⟩
def witFSb : FS := [(["r", "P", "T", "a.txt"], some 3), (["r", "P", "T", "sub", "b.txt"], some 1)]

/-- D15b (42ec9ba): `cd T/sub; path = ".."` — the exclude pattern `T/a.txt` was matched against
    `../a.txt` and `a.txt` stayed; `..`, `../`, `./..` and `cd P; path = "T"` now agree -/
example :
    Spec.created witO witExA witTb = .multi "T" [(["sub", "b.txt"], 1)] ∧
    pathSetter witO witExA (envOf witFSb ["r", "P", "T", "sub"] ⟨false, [".."]⟩ witTb.files)
      = .ok (Spec.created witO witExA witTb) ∧
    pathSetter witO witExA (envOf witFSb ["r", "P", "T", "sub"] ⟨false, [".", "..", ""]⟩ witTb.files)
      = .ok (Spec.created witO witExA witTb) ∧
    pathSetter witO witExA (envOf witFSb ["r", "P"] ⟨false, ["T"]⟩ witTb.files)
      = .ok (Spec.created witO witExA witTb) ∧
    Addresses witFSb ["r", "P", "T", "sub"] ⟨false, [".."]⟩ witTb = true := by decide

def witTc : Tree := ⟨"T", [⟨["a.txt"], 3⟩]⟩
def witFSc : FS := [(["r", "P", "T", "a.txt"], some 3)]
def witTc' : Tree := ⟨"T", [⟨[".hid", "a"], 3⟩, ⟨[".hid", "b"], 1⟩]⟩
def witFSc' : FS := [(["r", "P", "T", ".hid", "a"], some 3), (["r", "P", "T", ".hid", "b"], some 1)]
def witTcE : Tree := ⟨"T", [⟨["a.txt"], 3⟩, ⟨["e"], 0⟩]⟩
def witFScE : FS := [(["r", "P", "T", "a.txt"], some 3), (["r", "P", "T", "e"], some 0)]

/-- D15c (1742c6d): a directory with one file (pattern saw `T/T/a.txt`), all files below a hidden
    directory (hidden test started below it), one non-empty file beside an empty one (the reach
    d89a92e had added) -/
example :
    Spec.created witO witExA witTc = .empty ∧
    pathSetter witO witExA (envOf witFSc ["r", "P"] ⟨false, ["T"]⟩ witTc.files) = .ok .empty ∧
    Spec.created witO witNoPat witTc' = .empty ∧
    pathSetter witO witNoPat (envOf witFSc' ["r", "P"] ⟨false, ["T"]⟩ witTc'.files) = .ok .empty ∧
    Spec.created witO witExA witTcE = .empty ∧
    pathSetter witO witExA (envOf witFScE ["r", "P"] ⟨false, ["T"]⟩ witTcE.files) = .ok .empty ∧
    -- without the pattern the single file of the directory is a multi-file torrent
    pathSetter witO witNoPat (envOf witFSc ["r", "P"] ⟨false, ["T"]⟩ witTc.files)
      = .ok (.multi "T" [(["a.txt"], 3)]) := by decide

def witTd : Tree := ⟨"T", [⟨["a"], 3⟩, ⟨["sub", "b"], 1⟩]⟩
def witFSd : FS := [(["r", "P", "T", "a"], some 3), (["r", "P", "T", "sub", "b"], some 1)]

/-- D15d (42ec9ba): `cd T; path = "sub/.."` gave the name `""`, `cd T/sub; path = "../sub/.."`
    and `cd T/sub/x; path = "../.."` the name `".."` -/
example :
    Spec.created witO witNoPat witTd = .multi "T" [(["a"], 3), (["sub", "b"], 1)] ∧
    pathSetter witO witNoPat (envOf witFSd ["r", "P", "T"] ⟨false, ["sub", ".."]⟩ witTd.files)
      = .ok (Spec.created witO witNoPat witTd) ∧
    pathSetter witO witNoPat (envOf witFSd ["r", "P", "T", "sub"] ⟨false, ["..", "sub", ".."]⟩ witTd.files)
      = .ok (Spec.created witO witNoPat witTd) ∧
    pathSetter witO witNoPat (envOf witFSd ["r", "P", "T", "sub", "x"] ⟨false, ["..", ".."]⟩ witTd.files)
      = .ok (Spec.created witO witNoPat witTd) ∧
    -- patterns under such a spelling see `T/…` as well
    pathSetter witO ⟨["T/a"], [], [], []⟩
        (envOf witFSd ["r", "P", "T", "sub", "x"] ⟨false, ["..", ".."]⟩ witTd.files)
      = .ok (.multi "T" [(["sub", "b"], 1)]) ∧
    Addresses witFSd ["r", "P", "T"] ⟨false, ["sub", ".."]⟩ witTd = true := by decide

/-- the same through the theorem -/
example : pathSetter witO witExA (envOf witFSb ["r", "P", "T", "sub"] ⟨false, [".."]⟩ witTb.files)
    = pathSetter witO witExA (envOf witFSb ["r", "Q"] ⟨true, ["r", "P", "x", "..", "T", ""]⟩
        witTb.files.reverse) :=
  C15_independent witO witExA witTb witFSb witFSb _ _ _ _ _ _ (by decide) (by decide) (by decide)
    (List.Perm.refl _) (List.reverse_perm _)

/-! ### non-vacuity of `hypB` / `Addresses` -/

/-- hidden entries at both levels, an excluded file, an excluded-but-included file -/
def witTm : Tree := ⟨"T", [⟨["a.txt"], 3⟩, ⟨["sub", "b.txt"], 1⟩, ⟨["sub", "c.log"], 2⟩,
  ⟨[".hid", "x"], 5⟩, ⟨["sub", ".h"], 4⟩]⟩
def witStm : Settings := ⟨["T/sub/b.txt", "T/sub/c.log"], [], ["T/sub/c.log"], []⟩
def witFSm : FS := [(["r", "P", "T", "a.txt"], some 3), (["r", "P", "T", "sub", "b.txt"], some 1),
  (["r", "P", "T", "sub", "c.log"], some 2), (["r", "P", "T", ".hid", "x"], some 5),
  (["r", "P", "T", "sub", ".h"], some 4), (["r", "P", "other"], some 0)]
/-- `cd /r/P; path = "../P/T"` -/
def witE1 : Env := envOf witFSm ["r", "P"] ⟨false, ["..", "P", "T"]⟩ witTm.files
/-- `cd /r/P/T; path = "/."` read relative, i.e. `.`; reversed walk order -/
def witE2 : Env := envOf witFSm ["r", "P", "T"] ⟨false, ["", "."]⟩ witTm.files.reverse
/-- `cd /r/P; path = "/r/P/x/../T"` -/
def witE3 : Env := envOf witFSm ["r", "P"] ⟨true, ["r", "P", "x", "..", "T"]⟩ witTm.files
/-- `cd /r/Q; path = "/r/P/T/"`, a cwd that does not exist in `witFSm`, reversed walk order -/
def witE4 : Env := envOf witFSm ["r", "Q"] ⟨true, ["r", "P", "T", ""]⟩ witTm.files.reverse
/-- `cd /r/P/T/sub; path = ".."` -/
def witE5 : Env := envOf witFSm ["r", "P", "T", "sub"] ⟨false, [".."]⟩ witTm.files

example : Spec.hypB witE1 witTm = true := by decide
example : Spec.hypB witE2 witTm = true := by decide
example : Spec.hypB witE3 witTm = true := by decide
example : Spec.hypB witE4 witTm = true := by decide
example : Spec.hypB witE5 witTm = true := by decide
example : Addresses witFSm ["r", "P", "T", "sub"] ⟨false, [".."]⟩ witTm = true := by decide
example : Spec.created witO witStm witTm = .multi "T" [(["a.txt"], 3), (["sub", "c.log"], 2)] := by
  decide
example : pathSetter witO witStm witE1 = pathSetter witO witStm witE5 :=
  C15_independent_env witO witStm witTm witE1 witE5 (by decide) (by decide)
example : pathSetter witO witStm witE3 = .ok (.multi "T" [(["a.txt"], 3), (["sub", "c.log"], 2)]) :=
  C15_created_env witO witStm witE3 witTm (by decide)

/-- a tree with an empty and a hidden file: from its parent directory (two spellings/orders),
    from inside, by absolute path from elsewhere -/
def witTn : Tree := ⟨"T", [⟨["a"], 3⟩, ⟨["e"], 0⟩, ⟨[".h"], 2⟩]⟩
def witFSn : FS := [(["r", "P", "T", "a"], some 3), (["r", "P", "T", "e"], some 0),
  (["r", "P", "T", ".h"], some 2)]
example : Spec.hypB (envOf witFSn ["r", "P"] ⟨false, ["T"]⟩ witTn.files) witTn = true := by
  decide
example : Spec.hypB (envOf witFSn ["r", "P"] ⟨false, [".", "T", ""]⟩ witTn.files.reverse)
    witTn = true := by decide
example : Spec.hypB (envOf witFSn ["r", "P", "T"] ⟨false, [".", ""]⟩ witTn.files) witTn = true := by
  decide
example : Spec.hypB (envOf witFSn ["x"] ⟨true, ["r", "P", "T"]⟩ witTn.files) witTn = true := by
  decide
example : Spec.created witO witNoPat witTn = .multi "T" [(["a"], 3)] := by decide

/-- all files empty, the only file empty (directory and single-file tree): nothing is created -/
example :
    Spec.hypB (envOf [(["r", "P", "T", "e"], some 0), (["r", "P", "T", "s", "f"], some 0)]
      ["r", "P", "T", "s"] ⟨true, ["r", "P", "T"]⟩ [⟨["e"], 0⟩, ⟨["s", "f"], 0⟩])
      ⟨"T", [⟨["e"], 0⟩, ⟨["s", "f"], 0⟩]⟩ = true ∧
    Spec.created witO witNoPat ⟨"T", [⟨["e"], 0⟩, ⟨["s", "f"], 0⟩]⟩ = .empty ∧
    Spec.hypB (envOf [(["r", "P", "e.bin"], some 0)] ["r"] ⟨false, ["P", "e.bin"]⟩ [⟨[], 0⟩])
      ⟨"e.bin", [⟨[], 0⟩]⟩ = true ∧
    Spec.created witO witNoPat ⟨"e.bin", [⟨[], 0⟩]⟩ = .empty := by decide

/-- an empty file that an include pattern matches is still left out (cwd inside the tree; since
    1742c6d also when it is the only other file) -/
example :
    Spec.created witO ⟨[], [], ["T/e"], []⟩ witTa = .multi "T" [(["a"], 3)] ∧
    pathSetter witO ⟨[], [], ["T/e"], []⟩ (envOf witFSa ["r", "P", "T"] ⟨false, ["."]⟩ witTa.files)
      = .ok (.multi "T" [(["a"], 3)]) := by decide

/-- a tree that is a single file: by name, through `sub/..`, from elsewhere; a hidden file as the
    tree is kept (the top level may be hidden) and patterns see its name -/
example :
    let fs : FS := [(["r", "P", "f.bin"], some 7), (["r", "P", "sub", "x"], some 1),
      (["r", "P", ".h"], some 2)]
    Addresses fs ["r", "P"] ⟨false, ["sub", "..", "f.bin"]⟩ ⟨"f.bin", [⟨[], 7⟩]⟩ = true ∧
    pathSetter witO witNoPat (envOf fs ["r", "P"] ⟨false, ["sub", "..", "f.bin"]⟩ [⟨[], 7⟩])
      = .ok (.single "f.bin" 7) ∧
    pathSetter witO witNoPat (envOf fs ["r", "P", "sub"] ⟨false, ["..", ".h"]⟩ [⟨[], 2⟩])
      = .ok (.single ".h" 2) ∧
    pathSetter witO ⟨["f.bin"], [], [], []⟩ (envOf fs ["r", "Q"] ⟨true, ["r", "P", "f.bin"]⟩ [⟨[], 7⟩])
      = .ok .empty ∧
    -- not addressed: no file system resolves a path through a file
    Addresses fs ["r", "P"] ⟨false, ["f.bin", "x", ".."]⟩ ⟨"f.bin", [⟨[], 7⟩]⟩ = false := by decide

/-! ### `Torrent.files = …` (outside C15's statement): what is left of the cwd dependence

  The `File` objects of the `files` setter carry torrent-relative paths, so `os.path.exists(f)` is
  a probe below the cwd: `File('T/e', 0)` is dropped where something called `T/e` exists and kept
  (with length 0) elsewhere.  The sizes themselves are not re-read from the file system.
  Since 1742c6d the hidden test and the patterns are relative to the common directory of the given
  files (which becomes the torrent's name): a hidden `T/.h/x` is dropped also when it is the only
  file that is left. -/
example :
    filesSetter witO witNoPat ["r", "P"] (fsExists witFSa' ["r", "P"])
      [(["T", "a"], 3), (["T", "e"], 0), (["T", "zz"], 0)]
      = .ok (.multi "T" [(["a"], 3), (["zz"], 0)]) ∧
    filesSetter witO witNoPat ["r", "Q"] (fsExists witFSa' ["r", "Q"])
      [(["T", "a"], 3), (["T", "e"], 0), (["T", "zz"], 0)]
      = .ok (.multi "T" [(["a"], 3), (["e"], 0), (["zz"], 0)]) ∧
    -- the decoy `U/T/a` is empty, the given size 3 is what counts
    filesSetter witO witNoPat ["r", "U"] (fsExists witFSa' ["r", "U"])
      [(["T", "a"], 3), (["T", "e"], 0), (["T", "zz"], 0)]
      = .ok (.multi "T" [(["a"], 3), (["zz"], 0)]) ∧
    filesSetter witO witNoPat ["r", "P"] (fsExists witFSa' ["r", "P"])
      [(["T", ".h", "x"], 4), (["T", "e"], 0)] = .ok .empty := by decide

end Torf.C15
