/-
  C10 — bridge theorems to the kernels translated from the source (regenerated on every run):
  the three-way byte-range test, the piece start/end positions and the skip-bytes computation of
  `_MissingPieces` used by the model are exactly the source's expressions.
-/
import Torf.Generated.Kernels
import Torf.Lemmas.MissingCall
namespace Torf.C10
open Torf Torf.Missing Torf.Generated

/-- `get_files_at_byte_range`: the model's test is the source's comparison chain applied to the
    source's `file_last_byte_index` -/
theorem C10_kernel_byte_range (a b fpos size : Nat) :
    inByteRange a b fpos size =
      byteRangeCond a b fpos (byteRangeFileLast fpos size) := by
  unfold inByteRange byteRangeCond byteRangeFileLast
  all_goals first
    | rfl
    | (rw [Bool.eq_iff_iff]
       simp only [Bool.or_eq_true, Bool.and_eq_true, decide_eq_true_eq] <;> omega)

/-- `get_files_at_piece_index`: the byte range of piece `i` -/
theorem C10_kernel_piece_range (L : Nat) (sizes : List Nat) (i : Nat) (hL : 0 < L) :
    filesAtPieceIndex L sizes i =
      (let fs := (List.range sizes.length).filter fun k =>
          byteRangeCond (pieceStartPos i L) (pieceEndPos i L) (pos sizes k)
            (byteRangeFileLast (pos sizes k) (sizeOf sizes k))
       if fs.isEmpty then none else some fs) := by
  unfold filesAtPieceIndex filesAtByteRange
  have hfun : (fun k => inByteRange (i * L) ((i + 1) * L - 1) (pos sizes k) (sizeOf sizes k)) =
      (fun k => byteRangeCond (pieceStartPos i L) (pieceEndPos i L) (pos sizes k)
        (byteRangeFileLast (pos sizes k) (sizeOf sizes k))) := by
    funext k
    rw [C10_kernel_byte_range]
    unfold pieceStartPos pieceEndPos
    have h1 : (((i + 1) * L - 1 : Nat) : Int) = ((i : Int) + 1) * (L : Int) - 1 := by
      have : 1 ≤ (i + 1) * L := Nat.mul_pos (Nat.succ_pos i) hL
      rw [Int.natCast_sub this, Int.natCast_mul]; simp
    have h2 : ((i * L : Nat) : Int) = (i : Int) * (L : Int) := Int.natCast_mul i L
    rw [h1, h2]
  rw [hfun]

/-- `_MissingPieces.__call__`: where the next piece starts in the next readable file -/
theorem C10_kernel_skip (L : Nat) (sizes : List Nat) (last : Nat) (affected : List Nat) (next : Nat)
    (hnext : affected.getLast? = some next) :
    skipBy L sizes last affected =
      (if missingContinues ((pos sizes next : Int) + sizeOf sizes next - 1) (missingBoundary last L)
       then ((missingSkip (missingBoundary last L) (pos sizes next)).toNat, affected.dropLast)
       else (0, affected)) := by
  unfold skipBy missingContinues missingBoundary missingSkip
  simp only [hnext]
  have h : (((last * L + L : Nat) : Int) - 1) = ((last : Int) * (L : Int) + (L : Int) - 1) := by
    rw [Int.natCast_add, Int.natCast_mul]
  rw [h]
  by_cases hc : (pos sizes next : Int) + sizeOf sizes next - 1 > (last : Int) * L + L - 1
  · simp [hc]
  · simp [hc]

end Torf.C10
