import Torf.Model.ReadStream
namespace Torf.C06
theorem C06_placeholder : True := trivial
end Torf.C06
