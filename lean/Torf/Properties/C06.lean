/-
  C06 — the infohash is the SHA-1 of exactly the info bytes that are written; dumps are
  canonical bencoding.  Property theorems only.
-/
import Torf.Lemmas.Codec
import Torf.Lemmas.CodecLookup
import Torf.Lemmas.Span
import Torf.Lemmas.Magnet
import Torf.Lemmas.Base32
import Torf.Lemmas.Dump
import Torf.Lemmas.BencodeSmallMono
import Torf.Lemmas.Explicit
import Torf.Lemmas.ExplicitValidate
import Torf.Lemmas.WriteInfo
import Torf.Lemmas.CodecKeys
import Torf.Model.ReadStream
namespace Torf.C06
open Torf Torf.Bencode Torf.Codec Torf.ReadStream

/-- `bs` is canonical bencoding: it is the serialisation of a value whose dictionary keys are
    strictly ascending as raw bytes at every level (hence no duplicates), numerals are minimal
    (`ser` only produces those) and the conforming parser consumes all of it. -/
def CanonBytes (lim : Nat) (bs : Bytes) : Prop :=
  ∃ v, canon v = true ∧ small lim v = true ∧ ser v = bs ∧ parseStrict lim bs = some v

/-- Whatever `Torrent.dump()` returns is canonical bencoding — for every metainfo the converter
    accepts (any extra fields and value types), with or without validation. -/
theorem C06_canonical (env : Env) (md : List (PyVal × PyVal)) (validate : Bool) (bs : Bytes)
    (hw : wf (.dict (ensureInfo md)) = true) (h : dump env md validate = .ok bs) :
    CanonBytes env.lim bs := by
  unfold dump at h
  split at h
  · exact absurd h (by simp)
  · split at h
    · exact absurd h (by simp)
    · rename_i u hu
      split at h
      · rename_i hs
        simp only [Except.ok.injEq] at h; subst h
        unfold convert at hu
        split at hu
        · rename_i u' hu'
          simp only [Except.ok.injEq] at hu; subst hu
          have huniq := uniq_encodeValue _ _ hu' hw
          obtain ⟨v, hc, hsv, he, hp⟩ := ser_canonical env.lim u' huniq hs
          exact ⟨v, hc, hsv, he.symm, hp⟩
        · exact absurd hu (by simp)
      · exact absurd h (by simp)

/-- The bytes that `Torrent.infohash` feeds to SHA-1 are themselves canonical bencoding, produced
    by the same converter and encoder as the whole file (`ser ∘ encode_dict`). -/
theorem C06_info_canonical (env : Env) (md : List (PyVal × PyVal)) (ib : Bytes)
    (h : infoBytes env md = .ok ib) :
    ∃ ikvs iu, PyVal.lookupStr "info" (ensureInfo md) = some (.dict ikvs) ∧
      encodeDict ikvs = .ok iu ∧ ib = ser iu ∧ (wf (.dict ikvs) = true → CanonBytes env.lim ib) := by
  unfold infoBytes at h
  split at h
  · exact absurd h (by simp)
  · split at h
    · rename_i ikvs hl
      split at h
      · exact absurd h (by simp)
      · rename_i iu hiu
        split at h
        · rename_i hs
          simp only [Except.ok.injEq] at h; subst h
          refine ⟨ikvs, iu, hl, hiu, rfl, fun hwi => ?_⟩
          have huniq := uniq_encodeValue _ _ hiu hwi
          obtain ⟨v, hc, hsv, he, hp⟩ := ser_canonical env.lim iu huniq hs
          exact ⟨v, hc, hsv, he.symm, hp⟩
        · exact absurd h (by simp)
    · exact absurd h (by simp)

/-- Every conforming parser computes the same value from canonical bytes: the canonical value
    with a given serialisation is unique (no digit limit involved). -/
theorem C06_conforming_unique (bs : Bytes) (v w : BVal)
    (hv : canon v = true) (hw : canon w = true)
    (h1 : ser v = bs) (h2 : ser w = bs) : v = w :=
  ser_inj_canon v w hv hw (h1.trans h2.symm)

/-- `infohash` is the lower-case hex of `H` applied to exactly the info bytes. -/
theorem C06_infohash_def (env : Env) (H : Bytes → Bytes) (md : List (PyVal × PyVal)) (h : Bytes)
    (hh : infohash env H md = .ok h) :
    ∃ ib, infoBytes env md = .ok ib ∧ h = Base32.hexLower (H ib) := by
  unfold infohash at hh
  split at hh
  · rename_i ib hib
    simp only [Except.ok.injEq] at hh
    exact ⟨ib, hib, hh.symm⟩
  · exact absurd hh (by simp)

/-- **The hashed bytes are a slice of the written file, at the place where a conforming parser
    finds the value of the top-level key `info`.**  For every metainfo that is a Python dict
    (`wf`), whenever `dump()` returns `bs` and `infohash` returns `h`: `bs` splits as
    `pre ++ ser (encode_dict info) ++ post`, the strict parser's span (offset, length) of the
    value of top-level key `info` in `bs` is exactly `(|pre|, |ser (encode_dict info)|)`, and `h`
    is the hex digest of that slice. -/
theorem C06_span (env : Env) (H : Bytes → Bytes) (md : List (PyVal × PyVal)) (validate : Bool)
    (bs h : Bytes) (hw : wf (.dict (ensureInfo md)) = true)
    (hd : dump env md validate = .ok bs) (hh : infohash env H md = .ok h) :
    ∃ pre post ikvs iu, PyVal.lookupStr "info" (ensureInfo md) = some (.dict ikvs) ∧
      encodeDict ikvs = .ok iu ∧
      bs = pre ++ ser iu ++ post ∧
      spanOf env.lim kInfo bs = some (pre.length, (ser iu).length) ∧
      (bs.drop pre.length).take (ser iu).length = ser iu ∧
      h = Base32.hexLower (H (ser iu)) := by
  obtain ⟨ib, hib, hh'⟩ := C06_infohash_def env H md h hh
  obtain ⟨ikvs, iu, hl, hiu, hibs, _⟩ := C06_info_canonical env md ib hib
  obtain ⟨u, hu, hs, hbs⟩ := dump_ok hd
  obtain ⟨ukvs, v, hukvs, hv, hm⟩ := mem_encodeDict "info" (.dict ikvs) _ u hu hl
  have hviu : v = iu := by
    have : Except.ok v = Except.ok iu := hv.symm.trans hiu
    exact Except.ok.inj this
  subst hviu
  have huniq := uniq_encodeValue _ _ hu hw
  subst hukvs
  have hk : utf8Enc "info" = kInfo := by decide
  rw [hk] at hm
  obtain ⟨pre, post, hsplit, hspan⟩ := spanOf_ser_dict env.lim kInfo v ukvs huniq hs hm
  refine ⟨pre, post, ikvs, v, hl, hiu, by rw [hbs, hsplit], by rw [hbs, hspan], ?_, by rw [hh', hibs]⟩
  rw [hbs, hsplit]
  simp

/-- **`magnet().xt` is `'urn:btih:'` followed by the infohash** — whenever the `xt` setter
    accepts it (otherwise `MagnetError`; see `C06_magnet_ok`). -/
theorem C06_magnet (env : Env) (H : Bytes → Bytes) (md : List (PyVal × PyVal)) (g h : Bytes)
    (hg : magnetXtOf env H md = .ok g) (hh : infohash env H md = .ok h) :
    g = urnBtih ++ h := by
  simp only [magnetXtOf, hh, magnetXt_urn] at hg
  split at hg
  · exact (Except.ok.inj hg).symm
  · exact absurd hg (by simp)

/-- **No `MagnetError`:** for a 20-byte digest function `magnet().xt` exists (and by `C06_magnet`
    is `'urn:btih:' + infohash`). -/
theorem C06_magnet_ok (env : Env) (H : Bytes → Bytes) (md : List (PyVal × PyVal)) (h : Bytes)
    (hH : ∀ x, (H x).length = 20) (hh : infohash env H md = .ok h) :
    magnetXtOf env H md = .ok (urnBtih ++ h) := by
  obtain ⟨ib, _, rfl⟩ := C06_infohash_def env H md h hh
  simp only [magnetXtOf, hh, magnetXt_urn, matchesInfohash_hexLower _ (hH ib), if_true]

/-- **`b32decode(infohash_base32) == bytes.fromhex(infohash)` (= the digest).**  For every digest
    function `H` (any output length, in particular all 20-byte digests): `infohash_base32`
    never raises once `infohash` succeeds, and decoding it with `base64.b32decode` gives the
    same bytes as un-hexing `infohash`, namely `H(info bytes)`.  Proved from the general
    regrouping lemmas `Base32.b32decode_b32encode` (40-bit quanta ↔ 8 base-32 digits ↔ 5
    base-256 digits, all four padded tails) and `b16decode_upper_hexLower`; no enumeration. -/
theorem C06_base32 (env : Env) (H : Bytes → Bytes) (md : List (PyVal × PyVal)) (h : Bytes)
    (hh : infohash env H md = .ok h) :
    ∃ ib e, infoBytes env md = .ok ib ∧ infohashBase32 env H md = .ok e ∧
      Base32.b32decode e = some (H ib) ∧ Base32.unhexLower h = some (H ib) := by
  obtain ⟨ib, hib, rfl⟩ := C06_infohash_def env H md h hh
  refine ⟨ib, Base32.b32encode (H ib), hib, ?_, Base32.b32decode_b32encode _,
    Base32.unhexLower_hexLower _⟩
  simp only [infohashBase32, hh, Base32.b16decode_upper_hexLower]

/-- for 20-byte digests `infohash_base32` is 32 characters of `A-Z2-7` without padding (what
    `_INFOHASH_REGEX` and BEP 9 expect) -/
theorem C06_base32_shape (env : Env) (H : Bytes → Bytes) (md : List (PyVal × PyVal)) (e : Bytes)
    (hH : ∀ x, (H x).length = 20) (he : infohashBase32 env H md = .ok e) :
    e.length = 32 ∧ ∀ c ∈ e, (65 ≤ c.toNat ∧ c.toNat ≤ 90) ∨ (50 ≤ c.toNat ∧ c.toNat ≤ 55) := by
  unfold infohashBase32 at he
  split at he
  · rename_i h hh
    obtain ⟨ib, _, rfl⟩ := C06_infohash_def env H md h hh
    simp only [Base32.b16decode_upper_hexLower, Except.ok.injEq] at he
    subst he
    have h5 : (H ib).length % 5 = 0 := by rw [hH]
    exact ⟨by rw [Base32.b32encode_length_of_dvd _ h5, hH], Base32.b32encode_all_alpha_of_dvd _ h5⟩
  · exact absurd he (by simp)

/-! ### objects that carry an explicitly stored hash (`Torrent._infohash`, set by `Magnet.torrent()`)

  `infohashOf env H md explicit` is `Torrent.infohash` with its `try`/`except` structure; `explicit`
  ranges over *all* strings (and `none` = no such attribute), `md` over all metainfo.  `ValidInfoDict`
  is what `Torrent.validate()` guarantees about the shape of `info` (proved for the C07 model of
  `validate` in `C06_explicit_validate_model`; evaluated by the driver as part of `hyp`). -/

/-- validation only accepts a metainfo whose `info` entry is a dict -/
def ValidInfoDict (env : Env) (md : List (PyVal × PyVal)) : Prop :=
  env.validate (.dict (ensureInfo md)) = true →
    ∃ ikvs, PyVal.lookupStr "info" (ensureInfo md) = some (.dict ikvs)

/-- An object without `_infohash` (every Torrent that does not come from `Magnet.torrent()` on a
    magnet without metadata): the three reports are those of the earlier theorems. -/
theorem C06_explicit_absent (env : Env) (H : Bytes → Bytes) (md : List (PyVal × PyVal)) :
    infohashOf env H md none = infohash env H md ∧
    infohashBase32Of env H md none = infohashBase32 env H md ∧
    magnetXtOfE env H md none = magnetXtOf env H md := by
  have h1 : infohashOf env H md none = infohash env H md := by
    unfold infohashOf
    split
    · rename_i h hh; exact hh.symm
    · rename_i hh; exact hh.symm
    · rename_i e hh; exact hh.symm
  refine ⟨h1, ?_, ?_⟩
  · simp only [infohashBase32Of, infohashBase32, h1]
  · simp only [magnetXtOfE, magnetXtOf, h1]

/-- **Precisely when the stored hash is reported.**  `infohash` returns `h` on an object with
    stored hash `x` iff the calculation succeeds with `h`, or the calculation fails (always with
    `MetainfoError`) and `h` is `x`.  In particular a calculable hash always wins. -/
theorem C06_explicit_iff (env : Env) (H : Bytes → Bytes) (md : List (PyVal × PyVal)) (x h : Bytes) :
    infohashOf env H md (some x) = .ok h ↔
      (∃ ib, infoBytes env md = .ok ib ∧ h = Base32.hexLower (H ib)) ∨
      (infoBytes env md = .error .metainfo ∧ h = x) := by
  unfold infohashOf
  split
  · rename_i h' hh
    obtain ⟨ib, hib, rfl⟩ := C06_infohash_def env H md h' hh
    constructor
    · intro e; exact .inl ⟨ib, hib, (Except.ok.inj e).symm⟩
    · rintro (⟨ib', hib', rfl⟩ | ⟨he, _⟩)
      · have : ib = ib' := Except.ok.inj (hib.symm.trans hib')
        rw [this]
      · rw [hib] at he; exact absurd he (by simp)
  · rename_i hh
    obtain ⟨hib, _⟩ := infohash_err hh
    constructor
    · intro e; exact .inr ⟨hib, (Except.ok.inj e).symm⟩
    · rintro (⟨ib', hib', _⟩ | ⟨_, rfl⟩)
      · rw [hib] at hib'; exact absurd hib' (by simp)
      · rfl
  · rename_i e hne hh
    exact absurd (infohash_err hh).2 hne

/-- **When the hash cannot be calculated** (the only situations in which a stored hash is
    reported): validation refuses the metainfo, or `info` is no dict, or the converter refuses a
    value inside `info`, or a numeral inside `info` exceeds the digit limit.  Every such failure is
    a `MetainfoError`. -/
theorem C06_incalculable_iff (env : Env) (md : List (PyVal × PyVal)) :
    infoBytes env md = .error .metainfo ↔
      (env.validate (.dict (ensureInfo md)) = false ∨
       (∀ ikvs, PyVal.lookupStr "info" (ensureInfo md) ≠ some (.dict ikvs)) ∨
       ∃ ikvs, PyVal.lookupStr "info" (ensureInfo md) = some (.dict ikvs) ∧
         ((∃ e, encodeDict ikvs = .error e) ∨ ∃ iu, encodeDict ikvs = .ok iu ∧ small env.lim iu = false)) := by
  constructor
  · intro h
    by_cases hv : env.validate (.dict (ensureInfo md)) = true
    · right
      by_cases hd : ∃ ikvs, PyVal.lookupStr "info" (ensureInfo md) = some (.dict ikvs)
      · obtain ⟨ikvs, hl⟩ := hd
        right
        refine ⟨ikvs, hl, ?_⟩
        cases hiu : encodeDict ikvs with
        | error e => exact .inl ⟨e, rfl⟩
        | ok iu =>
          right
          refine ⟨iu, rfl, ?_⟩
          cases hs : small env.lim iu with
          | false => rfl
          | true =>
            have := (infoBytes_ok_iff env md (ser iu)).mpr ⟨ikvs, iu, hv, hl, hiu, hs, rfl⟩
            rw [this] at h; exact absurd h (by simp)
      · left
        intro ikvs hl; exact hd ⟨ikvs, hl⟩
    · left; simpa using hv
  · intro h
    cases hib : infoBytes env md with
    | error e => rw [infoBytes_err hib]
    | ok ib =>
      obtain ⟨ikvs, iu, hv, hl, hiu, hs, _⟩ := infoBytes_ok hib
      rcases h with h | h | ⟨ikvs', hl', h⟩
      · rw [hv] at h; exact absurd h (by simp)
      · exact absurd hl (h ikvs)
      · have : ikvs' = ikvs := by
          have := hl'.symm.trans hl
          simpa using this
        subst this
        rcases h with ⟨e, he⟩ | ⟨iu', hiu', hs'⟩
        · rw [hiu] at he; exact absurd he (by simp)
        · have : iu' = iu := Except.ok.inj (hiu'.symm.trans hiu)
          subst this
          rw [hs] at hs'; exact absurd hs' (by simp)

/-- **A torrent that can be written has a calculable hash — the stored one is never reported for
    it.**  For all metainfo and all stored hashes: if validation accepts and `dump` (with either
    value of its `validate` argument) returns bytes, `infohash` is the calculated one. -/
theorem C06_explicit_unused (env : Env) (H : Bytes → Bytes) (md : List (PyVal × PyVal))
    (explicit : Option Bytes) (validate : Bool) (bs : Bytes)
    (hval : ValidInfoDict env md) (hv : env.validate (.dict (ensureInfo md)) = true)
    (hd : dump env md validate = .ok bs) :
    ∃ ib, infoBytes env md = .ok ib ∧
      infohashOf env H md explicit = .ok (Base32.hexLower (H ib)) ∧
      infohash env H md = .ok (Base32.hexLower (H ib)) := by
  obtain ⟨ib, hib⟩ := infoBytes_of_dump hv hval hd
  have hh := infohash_of_infoBytes (H := H) hib
  exact ⟨ib, hib, by simp only [infohashOf, hh], hh⟩

/-- **The headline for magnet-born torrents.**  For every metainfo that is a Python dict, every
    stored hash `explicit` (any string, or none), every digest function: whenever validation
    accepts and `dump()` returns `bs`, then `bs = pre ++ ser (encode_dict info) ++ post`, the
    conforming parser finds the value of `info` at exactly that span, and
    * `infohash` is the hex digest of that span (not the stored hash),
    * `infohash_base32` does not raise and decodes to the digest of that span,
    * `magnet().xt` is `'urn:btih:'` + that hex digest whenever the `xt` setter accepts it, and it
      accepts whenever digests are 20 bytes long. -/
theorem C06_explicit_span (env : Env) (H : Bytes → Bytes) (md : List (PyVal × PyVal))
    (explicit : Option Bytes) (validate : Bool) (bs : Bytes)
    (hw : wf (.dict (ensureInfo md)) = true) (hval : ValidInfoDict env md)
    (hv : env.validate (.dict (ensureInfo md)) = true)
    (hd : dump env md validate = .ok bs) :
    ∃ pre post ikvs iu e, PyVal.lookupStr "info" (ensureInfo md) = some (.dict ikvs) ∧
      encodeDict ikvs = .ok iu ∧
      bs = pre ++ ser iu ++ post ∧
      spanOf env.lim kInfo bs = some (pre.length, (ser iu).length) ∧
      (bs.drop pre.length).take (ser iu).length = ser iu ∧
      infohashOf env H md explicit = .ok (Base32.hexLower (H (ser iu))) ∧
      infohashBase32Of env H md explicit = .ok e ∧ Base32.b32decode e = some (H (ser iu)) ∧
      (∀ g, magnetXtOfE env H md explicit = .ok g → g = urnBtih ++ Base32.hexLower (H (ser iu))) ∧
      ((∀ x, (H x).length = 20) →
        magnetXtOfE env H md explicit = .ok (urnBtih ++ Base32.hexLower (H (ser iu)))) := by
  obtain ⟨ib, hib, hx, hh⟩ := C06_explicit_unused env H md explicit validate bs hval hv hd
  obtain ⟨pre, post, ikvs, iu, hl, hiu, hsplit, hspan, hslice, hhex⟩ :=
    C06_span env H md validate bs _ hw hd hh
  obtain ⟨ib', e, hib', he, hdec, _⟩ := C06_base32 env H md _ hh
  have hibeq : ib' = ib := Except.ok.inj (hib'.symm.trans hib)
  subst hibeq
  have hser : ib' = ser iu := by
    obtain ⟨ikvs', iu', _, hl', hiu', _, hibs⟩ := infoBytes_ok hib
    have h1 : ikvs' = ikvs := by simpa using hl'.symm.trans hl
    subst h1
    have h2 : iu' = iu := Except.ok.inj (hiu'.symm.trans hiu)
    subst h2
    exact hibs
  subst hser
  have hb : infohashBase32Of env H md explicit = infohashBase32 env H md := by
    simp only [infohashBase32Of, infohashBase32, hx, hh]
  have hm : magnetXtOfE env H md explicit = magnetXtOf env H md := by
    simp only [magnetXtOfE, magnetXtOf, hx, hh]
  refine ⟨pre, post, ikvs, iu, e, hl, hiu, hsplit, hspan, hslice, hx, by rw [hb, he], hdec, ?_, ?_⟩
  · intro g hg
    rw [hm] at hg
    exact C06_magnet env H md g _ hg hh
  · intro hH
    rw [hm]
    exact C06_magnet_ok env H md _ hH hh

/-- the same for `dump(validate=True)`: its success already says that validation accepted -/
theorem C06_explicit_span_validated (env : Env) (H : Bytes → Bytes) (md : List (PyVal × PyVal))
    (explicit : Option Bytes) (bs : Bytes)
    (hw : wf (.dict (ensureInfo md)) = true) (hval : ValidInfoDict env md)
    (hd : dump env md true = .ok bs) :
    ∃ o l e, spanOf env.lim kInfo bs = some (o, l) ∧
      infohashOf env H md explicit = .ok (Base32.hexLower (H ((bs.drop o).take l))) ∧
      infohashBase32Of env H md explicit = .ok e ∧
      Base32.b32decode e = some (H ((bs.drop o).take l)) ∧
      ((∀ x, (H x).length = 20) →
        magnetXtOfE env H md explicit = .ok (urnBtih ++ Base32.hexLower (H ((bs.drop o).take l)))) := by
  obtain ⟨pre, post, ikvs, iu, e, _, _, _, hspan, hslice, hx, he, hdec, _, hm⟩ :=
    C06_explicit_span env H md explicit true bs hw hval (validate_of_dump_true hd) hd
  exact ⟨pre.length, (ser iu).length, e, hspan, by rw [hslice]; exact hx, he, by rw [hslice]; exact hdec,
    by rw [hslice]; exact hm⟩

/-- **Histories on one object.**  Start from whatever `Magnet.torrent()` returns (metadata adopted
    or not, any magnet hash), apply any sequence of metainfo changes and `copy()`s: in the state
    reached, whenever `dump(validate=True)` succeeds the three reports are those of the SHA-1 of
    the info span of the dumped bytes. -/
theorem C06_history (env : Env) (H : Bytes → Bytes) (md0 : List (PyVal × PyVal)) (adopted : Bool)
    (base16 : Bytes) (steps : List Step) (bs : Bytes)
    (hw : wf (.dict (ensureInfo ((ofMagnet md0 adopted base16).run steps).md)) = true)
    (hval : ValidInfoDict env ((ofMagnet md0 adopted base16).run steps).md)
    (hd : dump env ((ofMagnet md0 adopted base16).run steps).md true = .ok bs) :
    ∃ o l e, spanOf env.lim kInfo bs = some (o, l) ∧
      ((ofMagnet md0 adopted base16).run steps).infohash env H =
        .ok (Base32.hexLower (H ((bs.drop o).take l))) ∧
      ((ofMagnet md0 adopted base16).run steps).infohashBase32 env H = .ok e ∧
      Base32.b32decode e = some (H ((bs.drop o).take l)) ∧
      ((∀ x, (H x).length = 20) →
        ((ofMagnet md0 adopted base16).run steps).magnetXt env H =
          .ok (urnBtih ++ Base32.hexLower (H ((bs.drop o).take l)))) :=
  C06_explicit_span_validated env H _ _ bs hw hval hd

/-- the stored hash along a history: it is the magnet's hash until the first `copy()`, absent
    afterwards and absent throughout if the magnet had adopted metadata — no metainfo change
    touches it -/
theorem C06_history_explicit (md0 : List (PyVal × PyVal)) (adopted : Bool) (base16 : Bytes)
    (steps : List Step) :
    ((ofMagnet md0 adopted base16).run steps).explicit =
      if adopted || steps.any (fun s => match s with | .copy => true | .mutate _ => false)
      then none else some base16 := by
  have key : ∀ (steps : List Step) (o : Obj), (o.run steps).explicit =
      if steps.any (fun s => match s with | .copy => true | .mutate _ => false) then none
      else o.explicit := by
    intro steps
    induction steps with
    | nil => intro o; simp [Obj.run]
    | cons s t ih =>
      intro o
      have : o.run (s :: t) = (o.step s).run t := by simp [Obj.run]
      rw [this, ih]
      cases s with
      | mutate md => simp [Obj.step]
      | copy => simp [Obj.step]
  rw [key]
  cases adopted <;> simp [ofMagnet]

/-- the hypothesis `ValidInfoDict` holds for the model of `Torrent.validate()` that C07 reasons
    about, for every URL oracle and every file-system oracle -/
theorem C06_explicit_validate_model (urlOk : List UInt8 → Bool) (fs : Validate.FsOracle)
    (fromTs : Int → Option PyVal) (md : List (PyVal × PyVal)) :
    ValidInfoDict { fromTs := fromTs, validate := validateOracle urlOk fs } md :=
  validateOracle_info_dict urlOk fs md

/-- The boundary is sharp: for a metainfo that validation refuses, an *unvalidated* dump succeeds
    and the reported hash is the stored one, not the digest of the dumped info span (this is the
    state `Magnet.torrent()` returns for a magnet without metadata; such a metainfo is not an
    exportable torrent).  Hence the hypothesis "validation accepts" cannot be dropped. -/
def C06_explicit_any_dump_full : Prop :=
  ∀ (env : Env) (H : Bytes → Bytes) (md : List (PyVal × PyVal)) (x bs : Bytes) (o l : Nat),
    wf (.dict (ensureInfo md)) = true → dump env md false = .ok bs →
    spanOf env.lim kInfo bs = some (o, l) →
    infohashOf env H md (some x) = .ok (Base32.hexLower (H ((bs.drop o).take l)))

/-- `Magnet('urn:btih:4141…41', dn='n', xl=1).torrent()`: `dump(validate=False)` is
    `d4:infod6:lengthi1e4:name1:nee`, `infohash` is the magnet's -/
def stubMd : List (PyVal × PyVal) := [(.str "info", .dict [(.str "name", .str "n"), (.str "length", .int 1)])]
def stubEnv : Env := { fromTs := fun _ => none, validate := fun _ => false }
def stubDump : Bytes :=
  [100, 52, 58, 105, 110, 102, 111, 100, 54, 58, 108, 101, 110, 103, 116, 104, 105, 49, 101, 52, 58,
   110, 97, 109, 101, 49, 58, 110, 101, 101]

theorem C06_explicit_any_dump_counterexample : ¬ C06_explicit_any_dump_full := by
  intro h
  have hd : dump stubEnv stubMd false = .ok stubDump := ok_of_toOption (by decide +kernel)
  have hs : spanOf stubEnv.lim kInfo stubDump = some (7, 22) := by decide +kernel
  have := h stubEnv exH stubMd (List.replicate 40 65) stubDump 7 22 (by decide) hd hs
  have hx : infohashOf stubEnv exH stubMd (some (List.replicate 40 65)) = .ok (List.replicate 40 65) := by
    simp [infohashOf, infohash, infoBytes, stubEnv]
  rw [hx] at this
  have h2 := Except.ok.inj this
  revert h2
  decide +kernel

/-! ### "…inside the dumped *or written* file": `Torrent.write()` when the operating system may refuse
    or take only part of the bytes

  `WriteInfo.writeFile env md validate ov t` is C17's effect model of `Torrent.write` (what is at the
  path, the answer of `os.path.exists`, `open` fails, the opened file accepts `k` bytes, `close`
  fails — all of them universally quantified inputs `t`) fed with this property's `dump`. -/

/-- **A normal return of `write()` means the file holds exactly `dump()`'s bytes** — whatever was at
    the path (where a regular file can be) and whatever the operating system answered; and every
    other outcome is `WriteError`, or `dump`'s `MetainfoError` with the target untouched. -/
theorem C06_write_exact_or_error (env : Env) (md : List (PyVal × PyVal)) (validate ov : Bool)
    (t t' : Write.Target) (r : Except Export.ErrKind Unit) (log : List Write.Eff)
    (hreg : t.node.regular = true)
    (h : WriteInfo.writeFile env md validate ov t = (r, t', log)) :
    (r = .ok () ∧ ∃ bs, dump env md validate = .ok bs ∧ t'.node = .file bs) ∨
    r = .error .write ∨
    (r = .error .metainfo ∧ t' = t ∧ dump env md validate = .error .metainfo) := by
  rcases WriteInfo.writeFile_cases env md validate ov t t' r log h with h1 | h2 | ⟨h3, c, hd, hn, _⟩
  · exact .inr (.inl h1)
  · exact .inr (.inr h2)
  · refine .inl ⟨h3, c, hd, ?_⟩
    rw [hn]; simp [Write.Node.store, hreg]

/-- a short write is never a success: if the opened file accepts fewer bytes than `dump()` produced
    (file size limit, full disk, quota), `write()` raises `WriteError` -/
theorem C06_write_short_is_error (env : Env) (md : List (PyVal × PyVal)) (validate ov : Bool)
    (t t' : Write.Target) (r : Except Export.ErrKind Unit) (log : List Write.Eff) (bs : Bytes) (q : Nat)
    (hd : dump env md validate = .ok bs) (hq : t.env.quota = some q) (hlt : q < bs.length)
    (h : WriteInfo.writeFile env md validate ov t = (r, t', log)) : r = .error .write := by
  rcases WriteInfo.writeFile_cases env md validate ov t t' r log h with h1 | ⟨_, _, h2⟩ | ⟨_, c, hc, _, hacc, _⟩
  · exact h1
  · rw [hd] at h2; exact absurd h2 (by simp)
  · have : c = bs := Except.ok.inj (hc.symm.trans hd)
    subst this
    simp only [Write.Env.accepts, hq] at hacc
    omega

/-- **The written file carries the info dictionary whose SHA-1 is reported.**  For every metainfo
    that is a Python dict, every stored hash, every target and every behaviour of the operating
    system: if `write(filepath)` (validating) returns normally, the file content `bs` is canonical
    bencoding, the strict parser finds the value of `info` at a span `(o, l)`, and `infohash`,
    `infohash_base32`, `magnet().xt` are those of the SHA-1 of exactly `bs[o : o+l]`. -/
theorem C06_written_file (env : Env) (H : Bytes → Bytes) (md : List (PyVal × PyVal))
    (explicit : Option Bytes) (ov : Bool) (t t' : Write.Target) (log : List Write.Eff)
    (hw : wf (.dict (ensureInfo md)) = true) (hval : ValidInfoDict env md)
    (hreg : t.node.regular = true)
    (h : WriteInfo.writeFile env md true ov t = (.ok (), t', log)) :
    ∃ bs o l e, t'.node = .file bs ∧ CanonBytes env.lim bs ∧
      spanOf env.lim kInfo bs = some (o, l) ∧
      infohashOf env H md explicit = .ok (Base32.hexLower (H ((bs.drop o).take l))) ∧
      infohashBase32Of env H md explicit = .ok e ∧
      Base32.b32decode e = some (H ((bs.drop o).take l)) ∧
      ((∀ x, (H x).length = 20) →
        magnetXtOfE env H md explicit = .ok (urnBtih ++ Base32.hexLower (H ((bs.drop o).take l)))) := by
  rcases C06_write_exact_or_error env md true ov t t' _ log hreg h with ⟨_, bs, hd, hn⟩ | h2 | ⟨h3, _⟩
  · obtain ⟨o, l, e, hs, hi, hb, hdec, hm⟩ := C06_explicit_span_validated env H md explicit bs hw hval hd
    exact ⟨bs, o, l, e, hn, C06_canonical env md true bs hw hd, hs, hi, hb, hdec, hm⟩
  · exact absurd h2 (by simp)
  · exact absurd h3 (by simp)

/-! ### the keys of the metainfo and the keys of the output

  A Python mapping may hold keys of any hashable type; `'info'` and `b'info'` are two keys of
  `Torrent.metainfo` but would be one key of the output.  In the model a dict is a list of
  (key, value) pairs whose keys range over *all* of `PyVal` (str, bytes, int, bool, None, float,
  tuple, …); `encodeKvs` has the code's refusal of every key that is not a `str`
  (torf/_utils.py:852-857 `if not isinstance(key, str): raise ValueError`).  So the claims below
  were already consequences of the model (`C06_canonical` gives "no key twice in the bytes"); they
  are stated here so that the property says them, and the generator now produces such keys. -/

/-- **Keys are neither merged nor dropped nor invented.**  If `encode_dict` returns for a dict whose
    `str` keys are pairwise distinct (a Python dict): every key of the dict is a `str`; the output
    has exactly as many entries as the dict has keys; no output key occurs twice; and every output
    entry `(kb, v)` is `(k.encode('utf8'), encoding of d[k])` for a `str` key `k` of the dict.
    (The converse — every `d[k]` is emitted under `k.encode()` — is `mem_encodeDict`, used by
    `C06_span` for `k = 'info'`.) -/
theorem C06_keys_unique (kvs : List (PyVal × PyVal)) (u : BVal)
    (h : encodeDict kvs = .ok u) (hn : (strKeys kvs).Nodup) :
    ∃ ukvs, u = .dict ukvs ∧
      (∀ p ∈ kvs, ∃ k, p.1 = .str k) ∧
      ukvs.length = kvs.length ∧
      (ukvs.map (·.1)).Nodup ∧
      (∀ kb v, (kb, v) ∈ ukvs →
        ∃ k m, PyVal.lookupStr k kvs = some m ∧ kb = utf8Enc k ∧ encodeValue m = .ok v) ∧
      (∀ k m, PyVal.lookupStr k kvs = some m → ∃ v, encodeValue m = .ok v ∧ (utf8Enc k, v) ∈ ukvs) := by
  obtain ⟨ukvs, hu, h1, h2, h3, h4⟩ := encodeDict_keys kvs u h hn
  refine ⟨ukvs, hu, h1, h2, h3, h4, fun k m hl => ?_⟩
  obtain ⟨ukvs', v, hu', hv, hm⟩ := mem_encodeDict k m kvs u h hl
  have : ukvs' = ukvs := by rw [hu] at hu'; exact (BVal.dict.inj hu').symm
  subst this
  exact ⟨v, hv, hm⟩

/-- **A key of any other type makes every export raise** (`bytes` — equal to an encoded `str` key or
    not, valid UTF-8 or not —, `int`, `bool`, `None`, `float`, `tuple`, …): at top level `dump` is a
    `MetainfoError`; inside `info` so is the calculation of the hash (`infohash` then raises, or
    reports the stored hash of a magnet-born object — `C06_explicit_iff`). -/
theorem C06_nonstr_key_refused (env : Env) (md : List (PyVal × PyVal)) (validate : Bool)
    (p : PyVal × PyVal) (hk : ∀ k, p.1 ≠ .str k) :
    (p ∈ ensureInfo md → dump env md validate = .error .metainfo) ∧
    (∀ ikvs, PyVal.lookupStr "info" (ensureInfo md) = some (.dict ikvs) → p ∈ ikvs →
      infoBytes env md = .error .metainfo) := by
  constructor
  · intro hp
    obtain ⟨e, he⟩ := encodeDict_nonstr_key _ p hp hk
    cases hd : dump env md validate with
    | error e' => rw [WriteInfo.dump_err hd]
    | ok bs =>
      obtain ⟨u, hu, _⟩ := dump_ok hd
      rw [he] at hu; exact absurd hu (by simp)
  · intro ikvs hl hp
    obtain ⟨e, he⟩ := encodeDict_nonstr_key _ p hp hk
    cases hib : infoBytes env md with
    | error e' => rw [infoBytes_err hib]
    | ok ib =>
      obtain ⟨ikvs', iu, _, hl', hiu, _⟩ := infoBytes_ok hib
      have : ikvs' = ikvs := by simpa using hl'.symm.trans hl
      subst this
      rw [he] at hiu; exact absurd hiu (by simp)

/-- `dump()` returned ⇒ the top-level dict and the `info` dict both went through `encode_dict`
    with the guarantees of `C06_keys_unique`: in particular `metainfo` has only `str` keys, so no
    `b'info'` next to `'info'`, and the entry emitted under `info` is the encoding of
    `metainfo['info']` — the value the hash is calculated from. -/
theorem C06_dump_keys (env : Env) (md : List (PyVal × PyVal)) (validate : Bool) (bs : Bytes)
    (hw : wf (.dict (ensureInfo md)) = true) (hd : dump env md validate = .ok bs) :
    ∃ ukvs, bs = ser (.dict ukvs) ∧
      (∀ p ∈ ensureInfo md, ∃ k, p.1 = .str k) ∧
      ukvs.length = (ensureInfo md).length ∧ (ukvs.map (·.1)).Nodup ∧
      (∀ iv, PyVal.lookupStr "info" (ensureInfo md) = some iv →
        ∃ v, encodeValue iv = .ok v ∧ (kInfo, v) ∈ ukvs ∧ ∀ v', (kInfo, v') ∈ ukvs → v' = v) := by
  obtain ⟨u, hu, _, hbs⟩ := dump_ok hd
  have hn : (strKeys (ensureInfo md)).Nodup := by
    have := hw; simp only [wf, Bool.and_eq_true, decide_eq_true_eq] at this; exact this.1
  obtain ⟨ukvs, rfl, h1, h2, h3, _, h5⟩ := C06_keys_unique _ u hu hn
  refine ⟨ukvs, hbs, h1, h2, h3, fun iv hl => ?_⟩
  obtain ⟨v, hv, hm⟩ := h5 "info" iv hl
  have hk : utf8Enc "info" = kInfo := by decide
  rw [hk] at hm
  refine ⟨v, hv, hm, fun v' hm' => ?_⟩
  -- two entries with the same key in a list whose keys are pairwise distinct are one entry
  have key : ∀ (l : List (Bytes × BVal)), (l.map (·.1)).Nodup → (kInfo, v) ∈ l → (kInfo, v') ∈ l → v' = v := by
    intro l
    induction l with
    | nil => intro _ h; simp at h
    | cons q r ih =>
      intro hnd ha hb
      simp only [List.map_cons, List.nodup_cons] at hnd
      rcases List.mem_cons.mp ha with ha1 | ha1
      · rcases List.mem_cons.mp hb with hb1 | hb1
        · exact (Prod.mk.inj (hb1.trans ha1.symm)).2
        · have : kInfo ∈ r.map (·.1) := List.mem_map.mpr ⟨(kInfo, v'), hb1, rfl⟩
          rw [← ha1] at hnd
          exact absurd this hnd.1
      · rcases List.mem_cons.mp hb with hb1 | hb1
        · have : kInfo ∈ r.map (·.1) := List.mem_map.mpr ⟨(kInfo, v), ha1, rfl⟩
          rw [← hb1] at hnd
          exact absurd this hnd.1
        · exact ih hnd.2 ha1 hb1
  exact key ukvs h3 hm hm'

/-! ### non-vacuity -/

/-- non-vacuity of `C06_span`, `C06_magnet`, `C06_magnet_ok`, `C06_base32`, `C06_base32_shape`:
    their hypotheses hold together on `exMd` — `dump`, `infohash`, `infohash_base32` succeed, the
    digest function is 20 bytes long — and the span reported for `info` is (13, 33):
    `d4:name…16384e` starts right after `d1:ai5e4:info`. -/
example : wf (.dict (ensureInfo exMd)) = true ∧ (∀ x, (exH x).length = 20) ∧
    dump exEnv exMd true = .ok exDump ∧
    infohash exEnv exH exMd = .ok (List.replicate 20 [50, 49]).flatten ∧
    infohashBase32 exEnv exH exMd = .ok ((List.replicate 4 [69, 69, 81, 83, 67, 73, 74, 66]).flatten) ∧
    spanOf exEnv.lim kInfo exDump = some (13, 33) :=
  ⟨by decide, fun x => by simp [exH], ok_of_toOption (by decide +kernel),
   ok_of_toOption (by decide +kernel), ok_of_toOption (by decide +kernel), by decide +kernel⟩

/-- non-vacuity of `C06_canonical`: a metainfo with a bool, a float, a datetime, a tuple and a
    non-ASCII key is well-formed and dumps successfully. -/
example : wf (.dict (ensureInfo [(.str "é", .tuple [.bool true, .float (.fin 1 false false)]),
                                  (.str "a", .datetime (some 5))])) = true := by decide

/-- non-vacuity of `C06_explicit_unused`, `C06_explicit_span`, `C06_explicit_span_validated`,
    `C06_history`: on `exMd` validation accepts, `ValidInfoDict` holds, `dump` succeeds, and with a
    stored hash `"AAAA…"` the report is the calculated `"2121…"`; and of the second disjunct of
    `C06_explicit_iff` / `C06_incalculable_iff`: on the magnet stub the calculation fails and the
    stored hash is reported. -/
example : ValidInfoDict exEnv exMd ∧ exEnv.validate (.dict (ensureInfo exMd)) = true ∧
    dump exEnv exMd true = .ok exDump ∧
    infohashOf exEnv exH exMd (some (List.replicate 40 65)) = .ok (List.replicate 20 [50, 49]).flatten ∧
    ((ofMagnet exMd false (List.replicate 40 65)).run [.mutate stubMd, .mutate exMd]).infohash exEnv exH
      = .ok (List.replicate 20 [50, 49]).flatten ∧
    infoBytes stubEnv stubMd = .error .metainfo ∧
    infohashOf stubEnv exH stubMd (some (List.replicate 40 65)) = .ok (List.replicate 40 65) :=
  ⟨fun _ => ⟨[(.str "name", .str "a"), (.str "piece length", .int 16384)], rfl⟩, rfl, ok_of_toOption (by decide +kernel), ok_of_toOption (by decide +kernel),
   ok_of_toOption (by decide +kernel), by simp [infoBytes, stubEnv], by simp [infohashOf, infohash, infoBytes, stubEnv]⟩

/-- non-vacuity of `C06_write_exact_or_error` (first disjunct), `C06_written_file` and
    `C06_write_short_is_error`: on `exMd`, writing over an existing file succeeds when the
    operating system takes everything and leaves `exDump`; with a quota of 10 bytes it is an error. -/
example :
    (WriteInfo.writeFile exEnv exMd true true ⟨.file [1, 2, 3], { existsAns := true }⟩).1.toBool = true ∧
    (WriteInfo.writeFile exEnv exMd true true ⟨.file [1, 2, 3], { existsAns := true }⟩).2.1.node = .file exDump ∧
    (WriteInfo.writeFile exEnv exMd true true ⟨.absent, { existsAns := false, quota := some 10 }⟩).1.toBool = false :=
  ⟨by decide +kernel, by decide +kernel, by decide +kernel⟩

/-- non-vacuity of `C06_keys_unique` / `C06_dump_keys` (hypotheses hold on `exMd`, see above) and of
    `C06_nonstr_key_refused`: `{'info': …, b'info': …}` — the colliding bytes key — is refused, and so
    are `{1: 2}`, `{True: 0}`, `{None: 0}`, `{('t',): 1}`. -/
example :
    (encodeDict [(.str "info", .dict []), (.bytes kInfo, .dict [(.str "name", .str "x")])]).toBool = false ∧
    (encodeDict [(.int 1, .int 2)]).toBool = false ∧ (encodeDict [(.bool true, .int 0)]).toBool = false ∧
    (encodeDict [(.none, .int 0)]).toBool = false ∧ (encodeDict [(.tuple [.str "t"], .int 1)]).toBool = false ∧
    (strKeys (ensureInfo exMd)).Nodup ∧ (encodeDict (ensureInfo exMd)).toBool = true :=
  ⟨by decide +kernel, by decide +kernel, by decide +kernel, by decide +kernel, by decide +kernel, by decide,
   by decide +kernel⟩

end Torf.C06
