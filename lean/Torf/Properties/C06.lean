/-
  C06 — the infohash is the SHA-1 of exactly the info bytes that are written; dumps are
  canonical bencoding.  Property theorems only.
-/
import Torf.Lemmas.Codec
import Torf.Lemmas.CodecLookup
import Torf.Lemmas.Span
import Torf.Lemmas.Magnet
import Torf.Lemmas.Base32
import Torf.Lemmas.Dump
import Torf.Lemmas.BencodeSmallMono
import Torf.Model.ReadStream
namespace Torf.C06
open Torf Torf.Bencode Torf.Codec Torf.ReadStream

/-- `bs` is canonical bencoding: it is the serialisation of a value whose dictionary keys are
    strictly ascending as raw bytes at every level (hence no duplicates), numerals are minimal
    (`ser` only produces those) and the conforming parser consumes all of it. -/
def CanonBytes (lim : Nat) (bs : Bytes) : Prop :=
  ∃ v, canon v = true ∧ small lim v = true ∧ ser v = bs ∧ parseStrict lim bs = some v

/-- Whatever `Torrent.dump()` returns is canonical bencoding — for every metainfo the converter
    accepts (any extra fields and value types), with or without validation. -/
theorem C06_canonical (env : Env) (md : List (PyVal × PyVal)) (validate : Bool) (bs : Bytes)
    (hw : wf (.dict (ensureInfo md)) = true) (h : dump env md validate = .ok bs) :
    CanonBytes env.lim bs := by
  unfold dump at h
  split at h
  · exact absurd h (by simp)
  · split at h
    · exact absurd h (by simp)
    · rename_i u hu
      split at h
      · rename_i hs
        simp only [Except.ok.injEq] at h; subst h
        unfold convert at hu
        split at hu
        · rename_i u' hu'
          simp only [Except.ok.injEq] at hu; subst hu
          have huniq := uniq_encodeValue _ _ hu' hw
          obtain ⟨v, hc, hsv, he, hp⟩ := ser_canonical env.lim u' huniq hs
          exact ⟨v, hc, hsv, he.symm, hp⟩
        · exact absurd hu (by simp)
      · exact absurd h (by simp)

/-- The bytes that `Torrent.infohash` feeds to SHA-1 are themselves canonical bencoding, produced
    by the same converter and encoder as the whole file (`ser ∘ encode_dict`). -/
theorem C06_info_canonical (env : Env) (md : List (PyVal × PyVal)) (ib : Bytes)
    (h : infoBytes env md = .ok ib) :
    ∃ ikvs iu, PyVal.lookupStr "info" (ensureInfo md) = some (.dict ikvs) ∧
      encodeDict ikvs = .ok iu ∧ ib = ser iu ∧ (wf (.dict ikvs) = true → CanonBytes env.lim ib) := by
  unfold infoBytes at h
  split at h
  · exact absurd h (by simp)
  · split at h
    · rename_i ikvs hl
      split at h
      · exact absurd h (by simp)
      · rename_i iu hiu
        split at h
        · rename_i hs
          simp only [Except.ok.injEq] at h; subst h
          refine ⟨ikvs, iu, hl, hiu, rfl, fun hwi => ?_⟩
          have huniq := uniq_encodeValue _ _ hiu hwi
          obtain ⟨v, hc, hsv, he, hp⟩ := ser_canonical env.lim iu huniq hs
          exact ⟨v, hc, hsv, he.symm, hp⟩
        · exact absurd h (by simp)
    · exact absurd h (by simp)

/-- Every conforming parser computes the same value from canonical bytes: the canonical value
    with a given serialisation is unique (no digit limit involved). -/
theorem C06_conforming_unique (bs : Bytes) (v w : BVal)
    (hv : canon v = true) (hw : canon w = true)
    (h1 : ser v = bs) (h2 : ser w = bs) : v = w :=
  ser_inj_canon v w hv hw (h1.trans h2.symm)

/-- `infohash` is the lower-case hex of `H` applied to exactly the info bytes. -/
theorem C06_infohash_def (env : Env) (H : Bytes → Bytes) (md : List (PyVal × PyVal)) (h : Bytes)
    (hh : infohash env H md = .ok h) :
    ∃ ib, infoBytes env md = .ok ib ∧ h = Base32.hexLower (H ib) := by
  unfold infohash at hh
  split at hh
  · rename_i ib hib
    simp only [Except.ok.injEq] at hh
    exact ⟨ib, hib, hh.symm⟩
  · exact absurd hh (by simp)

/-- **The hashed bytes are a slice of the written file, at the place where a conforming parser
    finds the value of the top-level key `info`.**  For every metainfo that is a Python dict
    (`wf`), whenever `dump()` returns `bs` and `infohash` returns `h`: `bs` splits as
    `pre ++ ser (encode_dict info) ++ post`, the strict parser's span (offset, length) of the
    value of top-level key `info` in `bs` is exactly `(|pre|, |ser (encode_dict info)|)`, and `h`
    is the hex digest of that slice. -/
theorem C06_span (env : Env) (H : Bytes → Bytes) (md : List (PyVal × PyVal)) (validate : Bool)
    (bs h : Bytes) (hw : wf (.dict (ensureInfo md)) = true)
    (hd : dump env md validate = .ok bs) (hh : infohash env H md = .ok h) :
    ∃ pre post ikvs iu, PyVal.lookupStr "info" (ensureInfo md) = some (.dict ikvs) ∧
      encodeDict ikvs = .ok iu ∧
      bs = pre ++ ser iu ++ post ∧
      spanOf env.lim kInfo bs = some (pre.length, (ser iu).length) ∧
      (bs.drop pre.length).take (ser iu).length = ser iu ∧
      h = Base32.hexLower (H (ser iu)) := by
  obtain ⟨ib, hib, hh'⟩ := C06_infohash_def env H md h hh
  obtain ⟨ikvs, iu, hl, hiu, hibs, _⟩ := C06_info_canonical env md ib hib
  obtain ⟨u, hu, hs, hbs⟩ := dump_ok hd
  obtain ⟨ukvs, v, hukvs, hv, hm⟩ := mem_encodeDict "info" (.dict ikvs) _ u hu hl
  have hviu : v = iu := by
    have : Except.ok v = Except.ok iu := hv.symm.trans hiu
    exact Except.ok.inj this
  subst hviu
  have huniq := uniq_encodeValue _ _ hu hw
  subst hukvs
  have hk : utf8Enc "info" = kInfo := by decide
  rw [hk] at hm
  obtain ⟨pre, post, hsplit, hspan⟩ := spanOf_ser_dict env.lim kInfo v ukvs huniq hs hm
  refine ⟨pre, post, ikvs, v, hl, hiu, by rw [hbs, hsplit], by rw [hbs, hspan], ?_, by rw [hh', hibs]⟩
  rw [hbs, hsplit]
  simp

/-- **`magnet().xt` is `'urn:btih:'` followed by the infohash** — whenever the `xt` setter
    accepts it (otherwise `MagnetError`; see `C06_magnet_ok`). -/
theorem C06_magnet (env : Env) (H : Bytes → Bytes) (md : List (PyVal × PyVal)) (g h : Bytes)
    (hg : magnetXtOf env H md = .ok g) (hh : infohash env H md = .ok h) :
    g = urnBtih ++ h := by
  simp only [magnetXtOf, hh, magnetXt_urn] at hg
  split at hg
  · exact (Except.ok.inj hg).symm
  · exact absurd hg (by simp)

/-- **No `MagnetError`:** for a 20-byte digest function `magnet().xt` exists (and by `C06_magnet`
    is `'urn:btih:' + infohash`). -/
theorem C06_magnet_ok (env : Env) (H : Bytes → Bytes) (md : List (PyVal × PyVal)) (h : Bytes)
    (hH : ∀ x, (H x).length = 20) (hh : infohash env H md = .ok h) :
    magnetXtOf env H md = .ok (urnBtih ++ h) := by
  obtain ⟨ib, _, rfl⟩ := C06_infohash_def env H md h hh
  simp only [magnetXtOf, hh, magnetXt_urn, matchesInfohash_hexLower _ (hH ib), if_true]

/-- **`b32decode(infohash_base32) == bytes.fromhex(infohash)` (= the digest).**  For every digest
    function `H` (any output length, in particular all 20-byte digests): `infohash_base32`
    never raises once `infohash` succeeds, and decoding it with `base64.b32decode` gives the
    same bytes as un-hexing `infohash`, namely `H(info bytes)`.  Proved from the general
    regrouping lemmas `Base32.b32decode_b32encode` (40-bit quanta ↔ 8 base-32 digits ↔ 5
    base-256 digits, all four padded tails) and `b16decode_upper_hexLower`; no enumeration. -/
theorem C06_base32 (env : Env) (H : Bytes → Bytes) (md : List (PyVal × PyVal)) (h : Bytes)
    (hh : infohash env H md = .ok h) :
    ∃ ib e, infoBytes env md = .ok ib ∧ infohashBase32 env H md = .ok e ∧
      Base32.b32decode e = some (H ib) ∧ Base32.unhexLower h = some (H ib) := by
  obtain ⟨ib, hib, rfl⟩ := C06_infohash_def env H md h hh
  refine ⟨ib, Base32.b32encode (H ib), hib, ?_, Base32.b32decode_b32encode _,
    Base32.unhexLower_hexLower _⟩
  simp only [infohashBase32, hh, Base32.b16decode_upper_hexLower]

/-- for 20-byte digests `infohash_base32` is 32 characters of `A-Z2-7` without padding (what
    `_INFOHASH_REGEX` and BEP 9 expect) -/
theorem C06_base32_shape (env : Env) (H : Bytes → Bytes) (md : List (PyVal × PyVal)) (e : Bytes)
    (hH : ∀ x, (H x).length = 20) (he : infohashBase32 env H md = .ok e) :
    e.length = 32 ∧ ∀ c ∈ e, (65 ≤ c.toNat ∧ c.toNat ≤ 90) ∨ (50 ≤ c.toNat ∧ c.toNat ≤ 55) := by
  unfold infohashBase32 at he
  split at he
  · rename_i h hh
    obtain ⟨ib, _, rfl⟩ := C06_infohash_def env H md h hh
    simp only [Base32.b16decode_upper_hexLower, Except.ok.injEq] at he
    subst he
    have h5 : (H ib).length % 5 = 0 := by rw [hH]
    exact ⟨by rw [Base32.b32encode_length_of_dvd _ h5, hH], Base32.b32encode_all_alpha_of_dvd _ h5⟩
  · exact absurd he (by simp)

/-! ### non-vacuity -/

/-- non-vacuity of `C06_span`, `C06_magnet`, `C06_magnet_ok`, `C06_base32`, `C06_base32_shape`:
    their hypotheses hold together on `exMd` — `dump`, `infohash`, `infohash_base32` succeed, the
    digest function is 20 bytes long — and the span reported for `info` is (13, 33):
    `d4:name…16384e` starts right after `d1:ai5e4:info`. -/
example : wf (.dict (ensureInfo exMd)) = true ∧ (∀ x, (exH x).length = 20) ∧
    dump exEnv exMd true = .ok exDump ∧
    infohash exEnv exH exMd = .ok (List.replicate 20 [50, 49]).flatten ∧
    infohashBase32 exEnv exH exMd = .ok ((List.replicate 4 [69, 69, 81, 83, 67, 73, 74, 66]).flatten) ∧
    spanOf exEnv.lim kInfo exDump = some (13, 33) :=
  ⟨by decide, fun x => by simp [exH], ok_of_toOption (by decide +kernel),
   ok_of_toOption (by decide +kernel), ok_of_toOption (by decide +kernel), by decide +kernel⟩

/-- non-vacuity of `C06_canonical`: a metainfo with a bool, a float, a datetime, a tuple and a
    non-ASCII key is well-formed and dumps successfully. -/
example : wf (.dict (ensureInfo [(.str "é", .tuple [.bool true, .float (.fin 1 false false)]),
                                  (.str "a", .datetime (some 5))])) = true := by decide

end Torf.C06
