/-
  C06 — the infohash is the SHA-1 of exactly the info bytes that are written; dumps are
  canonical bencoding.  Property theorems only.
-/
import Torf.Lemmas.Codec
import Torf.Model.ReadStream
namespace Torf.C06
open Torf Torf.Bencode Torf.Codec Torf.ReadStream

/-- `bs` is canonical bencoding: it is the serialisation of a value whose dictionary keys are
    strictly ascending as raw bytes at every level (hence no duplicates), numerals are minimal
    (`ser` only produces those) and the conforming parser consumes all of it. -/
def CanonBytes (lim : Nat) (bs : Bytes) : Prop :=
  ∃ v, canon v = true ∧ small lim v = true ∧ ser v = bs ∧ parseStrict lim bs = some v

/-- Whatever `Torrent.dump()` returns is canonical bencoding — for every metainfo the converter
    accepts (any extra fields and value types), with or without validation. -/
theorem C06_canonical (env : Env) (md : List (PyVal × PyVal)) (validate : Bool) (bs : Bytes)
    (hw : wf (.dict (ensureInfo md)) = true) (h : dump env md validate = .ok bs) :
    CanonBytes env.lim bs := by
  unfold dump at h
  split at h
  · exact absurd h (by simp)
  · split at h
    · exact absurd h (by simp)
    · rename_i u hu
      split at h
      · rename_i hs
        simp only [Except.ok.injEq] at h; subst h
        unfold convert at hu
        split at hu
        · rename_i u' hu'
          simp only [Except.ok.injEq] at hu; subst hu
          have huniq := uniq_encodeValue _ _ hu' hw
          obtain ⟨v, hc, hsv, he, hp⟩ := ser_canonical env.lim u' huniq hs
          exact ⟨v, hc, hsv, he.symm, hp⟩
        · exact absurd hu (by simp)
      · exact absurd h (by simp)

/-- The bytes that `Torrent.infohash` feeds to SHA-1 are themselves canonical bencoding, produced
    by the same converter and encoder as the whole file (`ser ∘ encode_dict`). -/
theorem C06_info_canonical (env : Env) (md : List (PyVal × PyVal)) (ib : Bytes)
    (h : infoBytes env md = .ok ib) :
    ∃ ikvs iu, PyVal.lookupStr "info" (ensureInfo md) = some (.dict ikvs) ∧
      encodeDict ikvs = .ok iu ∧ ib = ser iu ∧ (wf (.dict ikvs) = true → CanonBytes env.lim ib) := by
  unfold infoBytes at h
  split at h
  · exact absurd h (by simp)
  · split at h
    · rename_i ikvs hl
      split at h
      · exact absurd h (by simp)
      · rename_i iu hiu
        split at h
        · rename_i hs
          simp only [Except.ok.injEq] at h; subst h
          refine ⟨ikvs, iu, hl, hiu, rfl, fun hwi => ?_⟩
          have huniq := uniq_encodeValue _ _ hiu hwi
          obtain ⟨v, hc, hsv, he, hp⟩ := ser_canonical env.lim iu huniq hs
          exact ⟨v, hc, hsv, he.symm, hp⟩
        · exact absurd h (by simp)
    · exact absurd h (by simp)

/-- Every conforming parser computes the same value from canonical bytes: the canonical value
    with a given serialisation is unique. -/
theorem C06_conforming_unique (lim : Nat) (bs : Bytes) (v w : BVal)
    (hv : canon v = true) (hw : canon w = true) (sv : small lim v = true) (sw : small lim w = true)
    (h1 : ser v = bs) (h2 : ser w = bs) : v = w := by
  have p1 := parse_ser lim v hv sv
  have p2 := parse_ser lim w hw sw
  rw [h1] at p1; rw [h2] at p2
  exact Option.some.inj (p1.symm.trans p2)

/-- `infohash` is the lower-case hex of `H` applied to exactly the info bytes. -/
theorem C06_infohash_def (env : Env) (H : Bytes → Bytes) (md : List (PyVal × PyVal)) (h : Bytes)
    (hh : infohash env H md = .ok h) :
    ∃ ib, infoBytes env md = .ok ib ∧ h = Base32.hexLower (H ib) := by
  unfold infohash at hh
  split at hh
  · rename_i ib hib
    simp only [Except.ok.injEq] at hh
    exact ⟨ib, hib, hh.symm⟩
  · exact absurd hh (by simp)

/-- non-vacuity of `C06_canonical`: a metainfo with a bool, a float, a datetime, a tuple and a
    non-ASCII key is well-formed and dumps successfully. -/
example : wf (.dict (ensureInfo [(.str "é", .tuple [.bool true, .float (.fin 1 false false)]),
                                  (.str "a", .datetime (some 5))])) = true := by decide

end Torf.C06
