/-
  C02 — content verification is exact.  Property theorems only.

  `verifySeq` is the sequential reference of `Torrent.verify` on a torrent that passed
  `validate()`; `H` is the digest function (SHA-1 is a parameter, so "a changed byte is detected"
  carries the explicit hypothesis that `H` separates the two piece contents).

  Theorems (helper lemmas live in Torf.Lemmas.Verify*):
  * `C02_iff`                   no callback: `True` ⇔ all files good ∧ all digests match
  * `C02_files_superset`        a content error names every file with a byte in the piece
  * `C02_wrong_path_kind`       VerifyIsDirectoryError / VerifyNotDirectoryError
  * `C02_callback`              with a callback: result = `SpecOk`, never raises; exactly one
                                read/size error per bad file, one content error per mismatching
                                data piece, nothing else; progress arguments
  * `C02_nocb_first_exception`  no callback: raises the first exception the callback would get
  * `C02_nocb_documented`       no callback: `True`, or a documented error (never `False`)
  * `C02_bad_files_only`        good files unchanged ⇒ only the bad files are reported
  * `C02_single_bad_file`       one missing / mis-sized file ⇒ exactly that error
  * `C02_single_flip`           one changed byte ⇒ exactly the content error of its piece
  Hypotheses: `0 < L`, a proper path kind, `pieces` of the right length, and (as in C10) no *bad*
  zero-length entry (`NoBadEmpty`, finding D10a).
-/
import Torf.Lemmas.VerifyFlip
namespace Torf.C02
open Torf Torf.Missing Torf.Verify

variable {α δ : Type} [DecidableEq δ]

/-- the path kind fits the torrent's mode (a directory for multi-file, not a directory for
    single-file); otherwise `verify` reports VerifyIsDirectoryError / VerifyNotDirectoryError -/
def ProperPath (single pathIsDir : Bool) : Prop := single = !pathIsDir

/-- **Exactness (iff).** Without a callback `verify` returns `True` if and only if every listed
    file exists with exactly the recorded size and the digests of the consecutive chunks of the
    content equal the stored ones — for every layout, piece length and disk state. -/
theorem C02_iff (H : List α → δ) (L : Nat) (hL : 0 < L) (sizes : List Nat)
    (disk : List (Option (List α))) (stored : List δ) (single pathIsDir : Bool)
    (hp : ProperPath single pathIsDir) :
    (verifySeq H L sizes disk stored false single pathIsDir).1 = .ok true ↔
      SpecOk H L sizes disk stored = true := by
  unfold ProperPath at hp
  have hp1 : (single && pathIsDir) = false := by subst hp; cases pathIsDir <;> rfl
  have hp2 : (!single && !pathIsDir) = false := by subst hp; cases pathIsDir <;> rfl
  unfold verifySeq
  simp only [hp1, hp2, Bool.false_eq_true, if_false]
  by_cases hgood : AllGood sizes disk = true
  · -- undamaged disk: items are the chunks
    rw [iterItems_all_good L hL sizes disk hgood]
    simp only
    obtain ⟨h1, h2⟩ := fold_data_nocb H L sizes stored (chunks L (diskStream sizes disk)) 0 {} rfl
    simp only [Nat.zero_add] at h1 h2
    by_cases hall : ∀ i, (hi : i < (chunks L (diskStream sizes disk)).length) →
        stored[i]? = some (H (chunks L (diskStream sizes disk))[i])
    · obtain ⟨hr, hc, _⟩ := h1 hall
      simp only [hr]
      have hc' : (List.foldl (collectItem H L sizes stored false) {}
          ((chunks L (diskStream sizes disk)).map dataItem).zipIdx).collected
          = (chunks L (diskStream sizes disk)).map H := by simpa using hc
      rw [hc']
      unfold SpecOk
      simp [hgood]
    · have hr := h2 hall
      have hne : ∀ x, (List.foldl (collectItem H L sizes stored false) {}
          ((chunks L (diskStream sizes disk)).map dataItem).zipIdx).raised = some x →
          (VResult.error x = VResult.ok true) = False := by intros; simp
      cases hx : (List.foldl (collectItem H L sizes stored false) {}
          ((chunks L (diskStream sizes disk)).map dataItem).zipIdx).raised with
      | none => simp [hx] at hr
      | some e =>
        simp only
        constructor
        · intro h; cases h
        · intro hs
          exfalso
          apply hall
          unfold SpecOk at hs
          simp only [hgood, Bool.true_and, beq_iff_eq] at hs
          intro i hi
          rw [← hs]
          simp [hi]
  · -- a bad file exists: the first one is reported (or an internal error escapes)
    have hspec : SpecOk H L sizes disk stored = false := by
      unfold SpecOk; simp [hgood]
    simp only [hspec, Bool.false_eq_true, iff_false]
    -- find the first bad file
    have hex : ∃ j, j < sizes.length ∧ (fileError sizes disk j).isSome = true := by
      unfold AllGood at hgood
      simp only [List.all_eq_true, List.mem_range, Classical.not_forall] at hgood
      obtain ⟨j, hj, hb⟩ := hgood
      refine ⟨j, hj, ?_⟩
      cases hf : fileError sizes disk j with
      | none => simp [hf] at hb
      | some _ => rfl
    -- least such index
    have hleast : ∃ j0, j0 < sizes.length ∧ (fileError sizes disk j0).isSome = true ∧
        ∀ k < j0, fileError sizes disk k = none := by
      obtain ⟨j, hj, hb⟩ := hex
      induction j using Nat.strongRecOn with
      | _ j ih =>
        by_cases hall : ∀ k < j, fileError sizes disk k = none
        · exact ⟨j, hj, hb, hall⟩
        · simp only [Classical.not_forall] at hall
          obtain ⟨k, hk, hkb⟩ := hall
          exact ih k hk (by omega) (by
            cases hf : fileError sizes disk k with
            | none => exact absurd hf hkb
            | some _ => rfl)
    obtain ⟨j0, hj0, hb0, hfirst⟩ := hleast
    obtain ⟨e, he⟩ := Option.isSome_iff_exists.mp hb0
    rcases iterItems_first_bad L sizes disk j0 e hj0 he hfirst with hnone | ⟨pre, first, rest, hit, hd, hx⟩
    · rw [hnone]; simp
    · rw [hit]
      simp only
      -- fold over pre (data), then `first` raises (unless something was raised before)
      have hz : (pre.map dataItem ++ first :: rest).zipIdx
          = (pre.map dataItem).zipIdx ++ (first, pre.length) :: (rest.zipIdx (pre.length + 1)) := by
        rw [List.zipIdx_append]; simp
      rw [hz, List.foldl_append, List.foldl_cons]
      obtain ⟨_, h2⟩ := fold_data_nocb H L sizes stored pre 0 {} rfl
      generalize hacc : (pre.map dataItem).zipIdx.foldl (collectItem H L sizes stored false) {} = acc at h2
      have hraised : (collectItem H L sizes stored false acc (first, pre.length)).raised.isSome = true := by
        cases hr : acc.raised with
        | some x =>
          rw [collectItem_raised _ _ _ _ _ _ _ (by simp [hr])]; simp [hr]
        | none =>
          rw [collectItem_exc_nocb H L sizes stored acc first pre.length (j0, e) hr hx]; rfl
      rw [fold_raised _ _ _ _ _ _ _ hraised]
      obtain ⟨x, hx'⟩ := Option.isSome_iff_exists.mp hraised
      rw [hx']
      simp

/-- **Files named by a content error.** Every file that has a byte in the corrupt piece is among
    the files the content error names (so a changed byte of file `k` in piece `i` is reported
    with a file set containing `k`). -/
theorem C02_files_superset (L : Nat) (hL : 0 < L) (sizes : List Nat) (k i : Nat)
    (hk : k < sizes.length) (hov : overlaps L sizes k i = true) :
    k ∈ corruptFiles L sizes i := by
  unfold corruptFiles
  by_cases h1 : sizes.length = 1
  · simp only [h1, if_true, List.mem_singleton]; omega
  · simp only [h1, if_false, List.mem_filter, List.mem_range, hk, true_and]
    unfold overlaps at hov
    simp only [Bool.and_eq_true, decide_eq_true_eq] at hov
    obtain ⟨⟨h0, ha⟩, hb⟩ := hov
    have e : (i + 1) * L = i * L + L := Nat.succ_mul i L
    simp only [Bool.or_eq_true, Bool.and_eq_true, decide_eq_true_eq]
    -- interval intersection: [fBeg, fEnd) ∩ [iL, iL+L) ≠ ∅
    by_cases c1 : pos sizes k ≤ i * L
    · left; left; exact ⟨c1, hb⟩
    · by_cases c2 : i * L + L ≤ pos sizes k + sizeOf sizes k
      · left; right; exact ⟨by omega, c2⟩
      · right; exact ⟨by omega, by omega⟩

/-- non-vacuity / concrete instances (computed by the kernel) -/
example : (verifySeq (fun p : List Nat => p) 3 [2, 4, 0, 2]
    [some [1, 2], some [3, 4, 5, 6], some [], some [7, 8]] [[1, 2, 3], [4, 5, 6], [7, 8]]
    false false true).1 = .ok true := by decide
example : (verifySeq (fun p : List Nat => p) 3 [2, 4, 0, 2]
    [some [1, 2], some [3, 9, 5, 6], some [], some [7, 8]] [[1, 2, 3], [4, 5, 6], [7, 8]]
    false false true).1 = .error (.content 1 [1]) := by decide
example : (verifySeq (fun p : List Nat => p) 3 [2, 4, 0, 2]
    [some [1, 2], none, some [], some [7, 8]] [[1, 2, 3], [4, 5, 6], [7, 8]]
    false false true).1 = .error (.read 1) := by decide

/-! ### the wrong kind of path -/

/-- **Wrong path kind.** A single-file torrent whose path is a directory is reported as
    VerifyIsDirectoryError, a multi-file torrent whose path is not a directory as
    VerifyNotDirectoryError: raised without a callback; with a callback it is handed to the
    callback once (`pieces_done = 0`) and `verify` returns `False`. -/
theorem C02_wrong_path_kind (H : List α → δ) (L : Nat) (sizes : List Nat)
    (disk : List (Option (List α))) (stored : List δ) :
    verifySeq H L sizes disk stored false true true = (.error .isDir, []) ∧
    verifySeq H L sizes disk stored true true true =
      (.ok false, [⟨0, 0, none, some .isDir⟩]) ∧
    verifySeq H L sizes disk stored false false false = (.error .notDir, []) ∧
    verifySeq H L sizes disk stored true false false =
      (.ok false, [⟨0, 0, none, some .notDir⟩]) := by
  refine ⟨?_, ?_, ?_, ?_⟩ <;> simp [verifySeq]

/-! ### with a callback -/

/-- **Callback run.** For a proper path, any layout, piece length and disk state (no bad
    zero-length entry, as in C10) and a `pieces` field of the right length, `verify` with a
    (passive) callback
    * never raises and returns exactly `SpecOk`;
    * hands the callback, in call order, exactly one ReadError / VerifyFileSizeError per bad file
      (in file order) …
    * … and exactly one VerifyContentError per piece that carries data and whose digest differs
      from the stored one (in piece order), naming `corruptFiles` of that piece, in a call whose
      `piece_index` is that piece;
    * hands it no other kind of exception;
    * reports at least one exception whenever it returns `False`;
    * and every call has `pieces_done = piece_index + 1 ≥ 1`, `piece_index < nPieces`. -/
theorem C02_callback (H : List α → δ) (L : Nat) (hL : 0 < L) (sizes : List Nat)
    (disk : List (Option (List α))) (stored : List δ) (single pathIsDir : Bool)
    (hp : ProperPath single pathIsDir) (hyp : NoBadEmpty sizes disk = true)
    (hlen : stored.length = nPieces L sizes.sum) :
    let r := verifySeq H L sizes disk stored true single pathIsDir
    r.1 = .ok (SpecOk H L sizes disk stored) ∧
    (excsOf r.2).filter isFileErr = (badFiles sizes disk).map excOf ∧
    (excsOf r.2).filter isContentErr =
      (mismatches H L sizes disk stored).map (fun p => VErr.content p (corruptFiles L sizes p)) ∧
    (∀ e ∈ excsOf r.2, isFileErr e = true ∨ isContentErr e = true) ∧
    (∀ c ∈ r.2, ∀ p fs, c.exc = some (.content p fs) → c.piece = p) ∧
    (SpecOk H L sizes disk stored = false → ∃ c ∈ r.2, c.exc.isSome = true) ∧
    (∀ c ∈ r.2, 1 ≤ c.done ∧ c.piece < nPieces L sizes.sum ∧ c.done = c.piece + 1) := by
  obtain ⟨items, run⟩ := run_exists H L hL sizes disk stored hyp hlen
  intro r
  have hr : r = (.ok (SpecOk H L sizes disk stored),
      items.zipIdx.flatMap (itemCalls H L sizes stored)) :=
    verifySeq_cb H L sizes disk stored items hlen run single pathIsDir hp
  rw [hr]
  refine ⟨rfl, ?_, ?_, ?_, ?_, ?_, ?_⟩
  · rw [excs_file, run.rep]
  · rw [excs_content H L sizes stored items 0 run.clean, mismatches_eq, run.data]
  · exact excs_kinds H L sizes stored _
  · intro c hc p fs he
    exact ((calls_progress H L sizes stored items c hc).2.2 p fs he).1.symm
  · intro hs
    have hne := run.exc hs
    obtain ⟨e, he⟩ := List.exists_mem_of_ne_nil _ hne
    obtain ⟨c, hc, hce⟩ := List.mem_filterMap.mp he
    exact ⟨c, hc, by rw [hce]; rfl⟩
  · intro c hc
    obtain ⟨h1, h2, _⟩ := calls_progress H L sizes stored items c hc
    rw [run.len] at h2
    exact ⟨by omega, h2, h1⟩

/-! ### without a callback -/

/-- **First exception.** Without a callback `verify` raises the first exception the callback
    would have been handed, and returns `True` if there is none. -/
theorem C02_nocb_first_exception (H : List α → δ) (L : Nat) (hL : 0 < L) (sizes : List Nat)
    (disk : List (Option (List α))) (stored : List δ) (single pathIsDir : Bool)
    (hp : ProperPath single pathIsDir) (hyp : NoBadEmpty sizes disk = true)
    (hlen : stored.length = nPieces L sizes.sum) :
    verifySeq H L sizes disk stored false single pathIsDir =
      (match (excsOf (verifySeq H L sizes disk stored true single pathIsDir).2).head? with
        | some e => .error e
        | none => .ok true, []) := by
  obtain ⟨items, run⟩ := run_exists H L hL sizes disk stored hyp hlen
  rw [verifySeq_cb H L sizes disk stored items hlen run single pathIsDir hp,
    verifySeq_nocb H L sizes disk stored items hlen run single pathIsDir hp]
  rfl

/-- **Only documented outcomes.** Without a callback `verify` returns `True` or raises a
    ReadError / VerifyFileSizeError naming a bad file or a VerifyContentError for a piece whose
    digest differs — never `False`, never an undocumented exception, never a path-kind error. -/
theorem C02_nocb_documented (H : List α → δ) (L : Nat) (hL : 0 < L) (sizes : List Nat)
    (disk : List (Option (List α))) (stored : List δ) (single pathIsDir : Bool)
    (hp : ProperPath single pathIsDir) (hyp : NoBadEmpty sizes disk = true)
    (hlen : stored.length = nPieces L sizes.sum) :
    let r := (verifySeq H L sizes disk stored false single pathIsDir).1
    r = .ok true ∨
    (∃ f, (f, ErrKind.read) ∈ badFiles sizes disk ∧ r = .error (.read f)) ∨
    (∃ f, (f, ErrKind.size) ∈ badFiles sizes disk ∧ r = .error (.size f)) ∨
    (∃ p ∈ mismatches H L sizes disk stored, r = .error (.content p (corruptFiles L sizes p))) := by
  intro r
  have h1 := C02_nocb_first_exception H L hL sizes disk stored single pathIsDir hp hyp hlen
  obtain ⟨_, hfile, hcont, hkinds, _⟩ :=
    C02_callback H L hL sizes disk stored single pathIsDir hp hyp hlen
  have hr : r = (match (excsOf (verifySeq H L sizes disk stored true single pathIsDir).2).head? with
        | some e => VResult.error e
        | none => VResult.ok true) := by
    show (verifySeq H L sizes disk stored false single pathIsDir).1 = _
    rw [h1]
  generalize excsOf (verifySeq H L sizes disk stored true single pathIsDir).2 = es
    at hr hfile hcont hkinds
  cases es with
  | nil => left; exact hr
  | cons e es =>
    right
    simp only [List.head?_cons] at hr
    rcases hkinds e List.mem_cons_self with hk | hk
    · have hmem : e ∈ (badFiles sizes disk).map excOf := by
        rw [← hfile]; exact List.mem_filter.mpr ⟨List.mem_cons_self, hk⟩
      obtain ⟨⟨f, k⟩, hb, rfl⟩ := List.mem_map.mp hmem
      cases k with
      | read => left; exact ⟨f, hb, hr⟩
      | size => right; left; exact ⟨f, hb, hr⟩
    · right; right
      have hmem : e ∈ (mismatches H L sizes disk stored).map
          (fun p => VErr.content p (corruptFiles L sizes p)) := by
        rw [← hcont]; exact List.mem_filter.mpr ⟨List.mem_cons_self, hk⟩
      obtain ⟨p, hp', rfl⟩ := List.mem_map.mp hmem
      exact ⟨p, hp', hr⟩

/-! non-vacuity of the hypotheses of `C02_callback` / `C02_nocb_documented` /
    `C02_nocb_first_exception`, and a concrete callback trace: file 1 is missing (pieces 0 and 1
    carry no data), piece 2 carries data but its digest differs from the stored one -/
example : ProperPath false true ∧
    NoBadEmpty [2, 4, 0, 2] [some [1, 2], none, some [], some [7, 9]] = true ∧
    [[1, 2, 3], [4, 5, 6], [7, 8]].length = nPieces 3 [2, 4, 0, 2].sum :=
  ⟨rfl, by decide, by decide⟩
example : verifySeq (fun p : List Nat => p) 3 [2, 4, 0, 2]
    [some [1, 2], none, some [], some [7, 9]] [[1, 2, 3], [4, 5, 6], [7, 8]]
    true false true =
    (.ok false, [⟨1, 0, none, some (.read 1)⟩, ⟨2, 1, none, none⟩,
                 ⟨3, 2, some [7, 9], some (.content 2 [2, 3])⟩]) := by decide
example : badFiles [2, 4, 0, 2] [some [1, 2], none, some [], some [7, 9]] = [(1, .read)] := by
  decide

/-! ### a torrent created from `orig`, verified against a damaged copy -/

/-- **Only bad files.** The torrent was created from `orig`; on disk some files are missing or
    have the wrong size (none of them a zero-length entry) and every other file has its original
    content.  Then no content error is ever reported: with a callback `verify` returns whether
    all files are good and hands the callback exactly one ReadError / VerifyFileSizeError per bad
    file, in file order, and nothing else; without a callback it raises the error of the first
    bad file (or returns `True`). -/
theorem C02_bad_files_only (H : List α → δ) (L : Nat) (hL : 0 < L) (orig : List (List α))
    (disk : List (Option (List α))) (single pathIsDir : Bool) (hp : ProperPath single pathIsDir)
    (hyp : NoBadEmpty (orig.map List.length) disk = true)
    (hsame : ∀ k (hk : k < orig.length), fileError (orig.map List.length) disk k = none →
      disk.getD k none = some orig[k]) :
    let sizes := orig.map List.length
    let stored := (chunks L orig.flatten).map H
    let cb := verifySeq H L sizes disk stored true single pathIsDir
    cb.1 = .ok (AllGood sizes disk) ∧
    excsOf cb.2 = (badFiles sizes disk).map excOf ∧
    (verifySeq H L sizes disk stored false single pathIsDir).1 =
      (match (badFiles sizes disk).head? with
        | some e => .error (excOf e)
        | none => .ok true) := by
  intro sizes stored cb
  have hlen : stored.length = nPieces L sizes.sum := length_stored H L hL orig
  obtain ⟨hres, hfile, hcont, hkinds, _, hexc, _⟩ :=
    C02_callback H L hL sizes disk stored single pathIsDir hp hyp hlen
  have hnocb := C02_nocb_first_exception H L hL sizes disk stored single pathIsDir hp hyp hlen
  rw [mismatches_eq_nil H L hL orig disk hsame, List.map_nil] at hcont
  have hexcs : excsOf cb.2 = (badFiles sizes disk).map excOf :=
    eq_of_filters _ _ _ _ hfile hcont hkinds
  refine ⟨?_, hexcs, ?_⟩
  · show cb.1 = _
    rw [hres]
    congr 1
    by_cases hg : AllGood sizes disk = true
    · rw [hg]
      cases hs : SpecOk H L sizes disk stored with
      | true => rfl
      | false =>
        obtain ⟨c, hc, hce⟩ := hexc hs
        obtain ⟨e, he⟩ := Option.isSome_iff_exists.mp hce
        have : e ∈ excsOf cb.2 := List.mem_filterMap.mpr ⟨c, hc, he⟩
        rw [hexcs, badFiles_eq_nil_of_good sizes disk hg] at this
        cases this
    · unfold SpecOk; simp [hg]
  · rw [hnocb]
    show (match (excsOf cb.2).head? with
        | some e => VResult.error e
        | none => VResult.ok true) = _
    rw [hexcs]
    cases badFiles sizes disk with
    | nil => rfl
    | cons e es => rfl

/-- **One bad file.** The torrent was created from `orig`; on disk every file but `j` is as in
    `orig`, and file `j` (not a zero-length entry) is missing, resp. has a different length.
    Then without a callback `verify` raises ReadError, resp. VerifyFileSizeError, naming file `j`;
    with a callback it returns `False` and the only exception handed to the callback is that
    one, exactly once. -/
theorem C02_single_bad_file (H : List α → δ) (L : Nat) (hL : 0 < L) (orig : List (List α))
    (disk : List (Option (List α))) (single pathIsDir : Bool) (hp : ProperPath single pathIsDir)
    (j : Nat) (hj : j < orig.length) (hpos : 0 < orig[j].length)
    (hrest : ∀ k (hk : k < orig.length), k ≠ j → disk[k]? = some (some orig[k])) :
    let sizes := orig.map List.length
    let stored := (chunks L orig.flatten).map H
    let nocb := verifySeq H L sizes disk stored false single pathIsDir
    let cb := verifySeq H L sizes disk stored true single pathIsDir
    (disk.getD j none = none →
      nocb.1 = .error (.read j) ∧ cb.1 = .ok false ∧ excsOf cb.2 = [.read j]) ∧
    (∀ c, disk.getD j none = some c → c.length ≠ orig[j].length →
      nocb.1 = .error (.size j) ∧ cb.1 = .ok false ∧ excsOf cb.2 = [.size j]) := by
  intro sizes stored nocb cb
  have key : ∀ e, fileError sizes disk j = some e →
      nocb.1 = .error (excOf (j, e)) ∧ cb.1 = .ok false ∧ excsOf cb.2 = [excOf (j, e)] := by
    intro e hbad
    obtain ⟨hyp, hsame, hbf⟩ := single_bad_setup orig disk j hj hpos e hrest hbad
    obtain ⟨h1, h2, h3⟩ := C02_bad_files_only H L hL orig disk single pathIsDir hp hyp hsame
    refine ⟨?_, ?_, ?_⟩
    · show (verifySeq H L sizes disk stored false single pathIsDir).1 = _
      rw [h3, hbf]; rfl
    · show (verifySeq H L sizes disk stored true single pathIsDir).1 = _
      rw [h1]
      congr 1
      cases hg : AllGood (orig.map List.length) disk with
      | false => rfl
      | true =>
        have := badFiles_eq_nil_of_good _ disk hg
        rw [hbf] at this; cases this
    · show excsOf (verifySeq H L sizes disk stored true single pathIsDir).2 = _
      rw [h2, hbf]; rfl
  constructor
  · intro hnone
    exact key .read (by unfold fileError; rw [hnone])
  · intro c hc hne
    exact key .size (by
      unfold fileError; rw [hc]
      simp only [sizes, sizeOf_map_length orig j hj, hne, if_false])

/-! non-vacuity of `C02_single_bad_file` / `C02_bad_files_only`: file 1 missing, resp. too short -/
def exOrig : List (List Nat) := [[1, 2], [3, 4, 5, 6], [], [7, 8]]

example : (1 < exOrig.length) ∧ (∃ h : 1 < exOrig.length, 0 < exOrig[1].length) ∧
    (∀ k (hk : k < exOrig.length), k ≠ 1 →
      [some [1, 2], none, some [], some [7, 8]][k]? = some (some exOrig[k])) ∧
    ([some [1, 2], none, some [], some [7, 8]] : List (Option (List Nat))).getD 1 none = none := by
  decide
example : (∀ k (hk : k < exOrig.length), k ≠ 1 →
      [some [1, 2], some [3, 4], some [], some [7, 8]][k]? = some (some exOrig[k])) ∧
    ([some [1, 2], some [3, 4], some [], some [7, 8]] : List (Option (List Nat))).getD 1 none
      = some [3, 4] ∧ [3, 4].length ≠ exOrig[1].length := by
  decide
example : NoBadEmpty (exOrig.map List.length) [some [1, 2], none, some [], none] = true ∧
    (∀ k (hk : k < exOrig.length),
      fileError (exOrig.map List.length) [some [1, 2], none, some [], none] k = none →
      ([some [1, 2], none, some [], none] : List (Option (List Nat))).getD k none
        = some exOrig[k]) := by
  decide

/-- **One changed byte.** The torrent was created from `orig`; on disk every file has the
    recorded size and the content is `orig` except for the byte at stream position `p`; `i` is
    the piece that holds position `p`, and `H` separates the two contents of piece `i`
    (`hsep` — for SHA-1 this is collision resistance).  Then without a callback `verify` raises
    the VerifyContentError of piece `i`; with a callback it returns `False` and that error is the
    only exception handed to the callback, exactly once, in a call with `piece_index = i`; and
    the file that owns position `p` (it exists) is among the files the error names. -/
theorem C02_single_flip (H : List α → δ) (L : Nat) (hL : 0 < L) (orig : List (List α))
    (disk : List (Option (List α))) (single pathIsDir : Bool) (hp : ProperPath single pathIsDir)
    (hgood : AllGood (orig.map List.length) disk = true)
    (p : Nat) (b : α) (hlt : p < orig.flatten.length)
    (hflip : diskStream (orig.map List.length) disk = orig.flatten.set p b)
    (hsep : ((chunks L (diskStream (orig.map List.length) disk))[p / L]?).map H ≠
      ((chunks L orig.flatten)[p / L]?).map H) :
    let sizes := orig.map List.length
    let stored := (chunks L orig.flatten).map H
    let i := p / L
    let err := VErr.content i (corruptFiles L sizes i)
    let cb := verifySeq H L sizes disk stored true single pathIsDir
    (verifySeq H L sizes disk stored false single pathIsDir).1 = .error err ∧
    cb.1 = .ok false ∧
    excsOf cb.2 = [err] ∧
    (∀ c ∈ cb.2, c.exc = some err → c.piece = i) ∧
    (∀ j, j < sizes.length → pos sizes j ≤ p → p < pos sizes j + Missing.sizeOf sizes j →
      j ∈ corruptFiles L sizes i) ∧
    (∃ j, j < sizes.length ∧ pos sizes j ≤ p ∧ p < pos sizes j + Missing.sizeOf sizes j) := by
  intro sizes stored i err cb
  have hlen : stored.length = nPieces L sizes.sum := length_stored H L hL orig
  have hall : ∀ k < sizes.length, fileError sizes disk k = none := by
    intro k hk
    have := List.all_eq_true.mp hgood k (List.mem_range.mpr hk)
    simpa using this
  have hyp := noBadEmpty_of_good sizes disk hall
  obtain ⟨hres, hfile, hcont, hkinds, hpiece, _, _⟩ :=
    C02_callback H L hL sizes disk stored single pathIsDir hp hyp hlen
  have hnocb := C02_nocb_first_exception H L hL sizes disk stored single pathIsDir hp hyp hlen
  rw [badFiles_eq_nil_of_good sizes disk hgood, List.map_nil] at hfile
  rw [mismatches_flip H L hL orig disk hgood p b hlt hflip hsep] at hcont
  have hexcs : excsOf cb.2 = [err] :=
    eq_of_filters _ _ _ _ hcont hfile (fun e he => (hkinds e he).symm)
  refine ⟨?_, ?_, hexcs, ?_, ?_, ?_⟩
  · rw [hnocb]
    show (match (excsOf cb.2).head? with
        | some e => VResult.error e
        | none => VResult.ok true) = _
    rw [hexcs]; rfl
  · show cb.1 = _
    rw [hres, specOk_flip H L orig disk p hsep]
  · intro c hc he
    exact hpiece c hc _ _ he
  · intro j hj h1 h2
    exact C02_files_superset L hL sizes j i hj (owner_overlaps L hL sizes j p h1 h2)
  · exact exists_owner sizes p (by rw [sum_map_length]; exact hlt)

/-! non-vacuity of `C02_single_flip` (byte 3 of the stream, in piece 1, owned by file 1) and the
    resulting callback trace -/
example : AllGood (exOrig.map List.length) [some [1, 2], some [3, 9, 5, 6], some [], some [7, 8]]
      = true ∧ 3 < exOrig.flatten.length ∧
    diskStream (exOrig.map List.length) [some [1, 2], some [3, 9, 5, 6], some [], some [7, 8]]
      = exOrig.flatten.set 3 9 := by decide
example : ((chunks 3 ([1, 2, 3, 9, 5, 6, 7, 8] : List Nat))[3 / 3]?).map (fun p => p) ≠
    ((chunks 3 [1, 2, 3, 4, 5, 6, 7, 8])[3 / 3]?).map (fun p => p) := by
  simp [chunks_cons_of_ne]
example : verifySeq (fun p : List Nat => p) 3 (exOrig.map List.length)
    [some [1, 2], some [3, 9, 5, 6], some [], some [7, 8]] [[1, 2, 3], [4, 5, 6], [7, 8]]
    true false true =
    (.ok false, [⟨1, 0, some [1, 2, 3], none⟩, ⟨2, 1, some [9, 5, 6], some (.content 1 [1])⟩,
                 ⟨3, 2, some [7, 8], none⟩]) := by decide

end Torf.C02
