/-
  C16 — tracker and seed lists stay in sync with the metainfo under any edit history.
  Property theorems only (helper lemmas live in Torf.Lemmas.Lists*).

  Model: `Torf.Lists.step` (Torf/Model/Lists.lean), specification: `Torf.Lists.Spec.holds`
  (Torf/Spec/Lists.lean).  `isUrl` is `utils.is_url`, an arbitrary parameter (no assumption on it:
  `URL()` validates the given AND the stored (space→plus) string, /repo ae2b587).

  Since /repo e62ce6d index and slice assignment on a URL list (`lst[i] = u`, `lst[a:b:st] = us`:
  coerce, assign on a copy, clear, add every item again through the de-duplication filter) are
  inside the theorems, and since /repo 41bec34 `Trackers.replace` validates before it clears.  The
  Since /repo 3d3793a `reverse()` is part of the operation alphabet: on a URL list it is one slice
  assignment of the reversed list (`C16_reverse*`); on the tiers container it reverses `_tiers` in
  place since /repo f86a28a (`C16_tiers_reverse`; the inherited `MutableSequence.reverse` silently did
  nothing — regression examples below).  The
  code still falsifies the full statement in ONE way (open finding D16b: slice assignment on the
  tiers container, `torrent.trackers[a:b] = …`), so the full statement is kept as
  `def …_full : Prop`, the `_partial` theorems are proved for histories without that operation
  (`Op.affected = false`), and the witness of the finding is proved to falsify the full statement
  (the same witness is replayed on the implementation).  The theorems about a `Trackers` object
  that the caller holds have no excluded operation any more (`C16_held_sync*`); the former
  findings D16a and D16d are regression examples below.
-/
import Torf.Lemmas.Lists
import Torf.Lemmas.ListsReject
namespace Torf.C16
open Torf.Lists

/-- the property as stated: after EVERY history from the empty torrent the metainfo and the lists
    read back through the getters satisfy `Spec.holds` (announce = first URL of first tier or
    absent; announce-list = tiers iff more than one URL; url-list / httpseeds mirror the seed lists;
    no duplicates; no empty tier; every URL well-formed; the getters do not fail) -/
def C16_inv_reachable_full : Prop :=
  ∀ (isUrl : String → Bool) (ops : List Op),
    Spec.holds isUrl (run isUrl MI.init ops) (readBack isUrl (run isUrl MI.init ops)) = true

/-- one step: the inductive invariant `Inv` (the fields are exactly what the write-back callbacks
    produce for duplicate-free, valid, space-free lists without an empty tier) is preserved by
    every operation other than slice assignment on the tiers container — index and slice assignment
    on the seed lists and on a tier included — whether it succeeds or raises, for every `is_url` -/
theorem C16_inv_step_partial (isUrl : String → Bool) (s : MI) (op : Op)
    (hs : Inv isUrl s) (hop : op.affected = false) :
    Inv isUrl (step isUrl s op).1 ∧
    Spec.holds isUrl (step isUrl s op).1 (readBack isUrl (step isUrl s op).1) = true :=
  ⟨step_inv hs hop, Inv_holds (step_inv hs hop)⟩

/-- every history (any length, any operations other than `trackers[a:b] = …`, failed operations
    included) from the empty torrent ends in a state that satisfies the property -/
theorem C16_inv_reachable_partial (isUrl : String → Bool) (ops : List Op)
    (hops : ∀ op ∈ ops, op.affected = false) :
    Spec.holds isUrl (run isUrl MI.init ops) (readBack isUrl (run isUrl MI.init ops)) = true :=
  Inv_holds (run_inv Inv_init hops)

/-- … and from every state that satisfies the invariant (e.g. the non-trivial start states of
    the correspondence run) -/
theorem C16_inv_from_partial (isUrl : String → Bool) (s : MI) (ops : List Op)
    (hs : Inv isUrl s) (hops : ∀ op ∈ ops, op.affected = false) :
    Spec.holds isUrl (run isUrl s ops) (readBack isUrl (run isUrl s ops)) = true :=
  Inv_holds (run_inv hs hops)

/-- the seed lists have no excluded operation at all: every history of operations on
    `torrent.webseeds` / `torrent.httpseeds` (assignment, every in-place edit, index and slice
    assignment with any step) keeps the property -/
theorem C16_inv_seeds_reachable (isUrl : String → Bool) (ops : List Op)
    (hops : ∀ op ∈ ops, (∃ o, op = .webseeds o) ∨ (∃ o, op = .httpseeds o)) :
    Spec.holds isUrl (run isUrl MI.init ops) (readBack isUrl (run isUrl MI.init ops)) = true := by
  apply C16_inv_reachable_partial
  intro op hop
  rcases hops op hop with ⟨o, rfl⟩ | ⟨o, rfl⟩ <;> rfl

/-- read-back is total and faithful on invariant states: the getters return exactly the stored
    tiers / seed lists (nothing is dropped, re-ordered or re-coerced) -/
theorem C16_readback_total (isUrl : String → Bool) (s : MI) (hs : Inv isUrl s) :
    ∃ rb, readBack isUrl s = some rb ∧
      s.announceList = (if rb.trackers.flatten.length ≤ 1 then none else some rb.trackers) ∧
      s.urlList = writeSeeds rb.webseeds ∧ s.httpseeds = writeSeeds rb.httpseeds := by
  obtain ⟨⟨T, hT, ha, hl⟩, ⟨W, hW, hw⟩, ⟨H, hH, hh⟩⟩ := hs
  refine ⟨⟨T, W, H⟩, ?_, hl, hw, hh⟩
  simp only [readBack, getTrackers_eq hT ha hl, hw, hh, getSeeds_writeSeeds hW,
    getSeeds_writeSeeds hH]

/-- an operation that tries to store a URL that `URL()` does not accept — invalid as given OR
    invalid after its spaces were replaced by '+' (`accepts`) — raises the URL error, whatever the
    state, whatever else it was given (index/slice assignment included, also with an index out of
    range or an extended slice of the wrong size: the coercion comes first), and, unless it is
    extend / += (which store value by value), leaves the metainfo untouched.  With
    `C16_inv_step_partial` (every stored URL is valid) the invalid URL is never stored. -/
theorem C16_reject (isUrl : String → Bool) (s : MI) (op : Op) (u : String)
    (hu : u ∈ op.urls) (hinv : accepts isUrl u = false)
    (hti : ∀ T, getTrackers isUrl s = .ok T → op.tierInRange T = true) :
    (step isUrl s op).2 = .error .url ∧ (op.atomic = true → (step isUrl s op).1 = s) :=
  step_reject hu hinv hti

/-- `replace` on a URL list (webseeds, httpseeds, a tier) can only raise while it coerces its
    argument for the first time, i.e. BEFORE the list is cleared: the second coercion (by `insert`,
    callback disabled) of an accepted item cannot fail (this was the second half of D16c/D14g) -/
theorem C16_url_replace_raises_before_clear (isUrl : String → Bool) (known us : List String) (e : Err)
    (hr : urlsReplace isUrl known us = .error e) : coerceAll isUrl us = .error e :=
  urlsReplace_error_before_clear hr

/-- in particular for a URL that `is_url` itself rejects -/
theorem C16_reject_invalid (isUrl : String → Bool) (s : MI) (op : Op) (u : String)
    (hu : u ∈ op.urls) (hinv : isUrl u = false)
    (hti : ∀ T, getTrackers isUrl s = .ok T → op.tierInRange T = true) :
    (step isUrl s op).2 = .error .url ∧ (op.atomic = true → (step isUrl s op).1 = s) :=
  step_reject hu (by simp [accepts, hinv]) hti

/-- index / slice assignment on a URL list is all-or-nothing: when it raises (URL error, index out
    of range, extended slice of the wrong size, step 0) the callback is not called — nothing is
    written — and when it succeeds the list handed to the callback is duplicate-free, has only good
    URLs and none that lives in another tier (`known`) -/
theorem C16_setitem_atomic_and_deduplicated (isUrl : String → Bool) (known items : List String)
    (op : UOp) (hop : (∃ i u, op = .setItem i u) ∨ (∃ a b st us, op = .setSlice a b st us))
    (hk : UOK isUrl known items) :
    match urlsOp isUrl known items op with
    | (none, out) => out ≠ .ok
    | (some r, out) => out = .ok ∧ r.Nodup ∧ (∀ u ∈ r, isUrl u = true ∧ u ∉ known) := by
  rcases h : urlsOp isUrl known items op with ⟨last, out⟩
  have hok : ∀ r, last = some r → UOK isUrl known r := fun r hr => urlsOp_ok hk (hr ▸ h)
  have hout : (last = none → out ≠ .ok) ∧ (∀ r, last = some r → out = .ok) := by
    rcases hop with ⟨i, u, rfl⟩ | ⟨a, b, st, us, rfl⟩
    · simp only [urlsOp] at h
      split at h
      · cases h; simp
      · split at h <;> (cases h; simp)
    · simp only [urlsOp, urlsSetSlice] at h
      split at h
      · cases h; simp
      · split at h <;> (cases h; simp)
  cases last with
  | none => exact hout.1 rfl
  | some r =>
    have := hok r rfl
    exact ⟨hout.2 r rfl, this.1, fun u hu => ⟨(this.2.1 u hu).1, this.2.2 u hu⟩⟩

/-- assigning a good list to itself changes nothing: `l[:] = l`, `l[i] = l[i]`
    (`torrent.webseeds[:] = torrent.webseeds` used to store `None`s — former finding D16a) -/
theorem C16_setslice_self_identity (isUrl : String → Bool) (known items : List String)
    (hk : UOK isUrl known items) :
    urlsOp isUrl known items (.setSlice none none none items) = (some items, .ok) := by
  simp only [urlsOp]
  exact urlsSetSlice_whole hk

/-! ### `reverse()` (in the alphabet since /repo 3d3793a) -/

/-- `MonitoredList.reverse()` on a URL list (webseeds, httpseeds, a tier; `known` = the URLs of the
    other tiers) whose items are good: the callback is called exactly ONCE, with exactly the
    reversed list, and no error is raised -/
theorem C16_reverse (isUrl : String → Bool) (known items : List String) (hk : UOK isUrl known items) :
    urlsOp isUrl known items .reverse = (some items.reverse, .ok) :=
  urlsOp_reverse hk

/-- … on `torrent.webseeds` (and, with the fields exchanged, `httpseeds`) of any state that
    satisfies the invariant: no error, `url-list` is the reversed list (absent when empty), nothing
    else changes, and reading the list back gives exactly the reversed list -/
theorem C16_reverse_seeds (isUrl : String → Bool) (s : MI) (W : List String)
    (hW : UOK isUrl [] W) (hw : s.urlList = writeSeeds W) :
    step isUrl s (.webseeds (.edit .reverse)) = ({ s with urlList := writeSeeds W.reverse }, .ok) ∧
    getSeeds isUrl (writeSeeds W.reverse) = .ok W.reverse := by
  refine ⟨?_, getSeeds_writeSeeds (UOK_reverse hW)⟩
  simp only [step, seedsOp, hw, getSeeds_writeSeeds hW, urlsOp_reverse hW, lastSeeds]

theorem C16_reverse_httpseeds (isUrl : String → Bool) (s : MI) (H : List String)
    (hH : UOK isUrl [] H) (hh : s.httpseeds = writeSeeds H) :
    step isUrl s (.httpseeds (.edit .reverse)) = ({ s with httpseeds := writeSeeds H.reverse }, .ok) ∧
    getSeeds isUrl (writeSeeds H.reverse) = .ok H.reverse := by
  refine ⟨?_, getSeeds_writeSeeds (UOK_reverse hH)⟩
  simp only [step, seedsOp, hh, getSeeds_writeSeeds hH, urlsOp_reverse hH, lastSeeds]

/-- … on a tier `trackers[ti]` of good tiers: the callback gets the tiers with exactly that tier
    reversed (a tier is never empty, so nothing is removed), no error -/
theorem C16_reverse_tier (isUrl : String → Bool) (T : Tiers) (ti : Int) (k : Nat) (tier : Tier)
    (hT : TiersOK isUrl T) (hpi : pyIndex T.length ti = some k) (hget : T[k]? = some tier) :
    tierOp isUrl T ti .reverse = (some (wOf (splice T k (k + 1) [tier.reverse])), .ok) := by
  have hu := tier_UOK_others hT hget
  have hne : tier.reverse ≠ [] := by
    have := hT.1 tier (List.mem_of_getElem? hget)
    simpa using this
  simp only [tierOp, hpi, hget, urlsOp_reverse hu, Option.map_some, afterTier, hne, if_false]

/-- `torrent.trackers.reverse()` (/repo f86a28a; the former `def C16_tiers_reverse_full`, which the
    inherited `MutableSequence.reverse` falsified by doing nothing): whatever the tiers `T` of the
    object are, the callback is called exactly ONCE, with exactly `T.reverse`, and no error is
    raised; on a held object the tiers are `T.reverse` afterwards, the metainfo mirrors them —
    `announce` is the first URL of the NEW first tier (the old last one), `announce-list` the reversed
    tiers iff there is more than one URL — and nothing else changes; good tiers stay good -/
theorem C16_tiers_reverse (isUrl : String → Bool) (s : MI) (T : Tiers) :
    tiersOp isUrl T .reverse = (some (wOf T.reverse), .ok) ∧
    (heldOp isUrl s T .reverse).2 = (T.reverse, .ok) ∧
    Mirrors (heldOp isUrl s T .reverse).1 T.reverse ∧
    (heldOp isUrl s T .reverse).1.announce = T.getLast?.bind List.head? ∧
    (heldOp isUrl s T .reverse).1.urlList = s.urlList ∧
    (heldOp isUrl s T .reverse).1.httpseeds = s.httpseeds ∧
    (TiersOK isUrl T → TiersOK isUrl T.reverse) := by
  refine ⟨rfl, rfl, ⟨rfl, rfl⟩, ?_, rfl, rfl, TiersOK_reverse⟩
  simp [heldOp, tiersOp, writeTrackers, wOf, List.head?_reverse]

/-- … at state level, through a fresh getter call, from any state that mirrors good tiers `T`:
    no error, `announce` / `announce-list` are what the write-back produces for `T.reverse`, and a
    fresh `torrent.trackers` afterwards returns exactly `T.reverse` -/
theorem C16_tiers_reverse_state (isUrl : String → Bool) (s : MI) (T : Tiers)
    (hT : TiersOK isUrl T) (hm : Mirrors s T) :
    step isUrl s (.trackers .reverse) = (writeTrackers s (wOf T.reverse), .ok) ∧
    getTrackers isUrl (writeTrackers s (wOf T.reverse)) = .ok T.reverse := by
  refine ⟨?_, getTrackers_eq (TiersOK_reverse hT) rfl rfl⟩
  simp only [step, trackersOp, getTrackers_eq hT hm.1 hm.2, tiersOp, applyWritten]

/-- what is LEFT of the old no-op: `tr[i] = v` with a tier value whose URLs are all stored already
    (in any tier, the one that is to be replaced included) assigns nothing — `Trackers.__setitem__`
    de-duplicates the new tier against ALL current URLs, so moving a tier by assignment
    (`tr[0] = tr[1]`) is impossible; no error, the callback runs with the unchanged tiers.  (This
    is why the inherited swap loop did nothing.)  Everything stays in sync. -/
theorem C16_tiers_setitem_stored_noop (isUrl : String → Bool) (T : Tiers) (i : Int) (x : Tier)
    (hT : TiersOK isUrl T) (hx : x ∈ T) :
    tiersOp isUrl T (.setItem i (.list x)) = (some (wOf T), .ok) := by
  simp only [tiersOp, tiersSetItem, tiersSetItemT_stored hT hx]

/-! ### non-vacuity -/

/-- `is_url` restricted to the strings of the witnesses (agrees with the real function there) -/
def wIsUrl (s : String) : Bool :=
  s == "http://a/1" || s == "http://b/2" || s == "udp://c:80/3" || s == "http://a b" || s == "http://a+b"

/-- the hypotheses of the `_partial` theorems are satisfiable by a non-trivial history that
    exercises de-duplication by coercion, a failing operation, tier removal, `+=`, index and slice
    assignment (duplicate among the new items, a URL of another tier, an extended slice, a tier
    emptied by an assignment) -/
def wClean : List Op :=
  [.trackers (.set (.list [.list ["http://a/1", "http://a b"], .str "http://b/2"])),
   .trackers (.tier 0 (.append "http://a+b")),          -- duplicate after coercion: ignored
   .trackers (.tier 1 (.append "foo")),                 -- URL error
   .trackers (.tier 0 (.setItem 1 "http://b/2")),       -- lives in tier 1: dropped, tier 0 = [a]
   .trackers (.tier (-1) (.setSlice none none none ["http://a/1"])),   -- tier 1 emptied: removed
   .webseeds (.edit (.iadd ["http://b/2", "http://a b"])),
   .webseeds (.edit (.insert (-1) "http://a/1")),       -- [b, a, a+b]
   .webseeds (.edit (.setSlice none none (some 2) ["http://a+b", "udp://c:80/3"])),   -- [a+b, a, c]
   .webseeds (.edit (.setSlice (some 0) (some 0) none ["http://b/2", "http://b/2", "http://a/1"])),
   .webseeds (.edit (.setSlice none none (some 2) ["http://b/2"])),    -- wrong size: ValueError
   .webseeds (.edit (.setItem 7 "http://b/2"))]                        -- IndexError

example : (∀ op ∈ wClean, op.affected = false) ∧
    run wIsUrl MI.init wClean =
      { announce := some "http://a/1", announceList := none,
        urlList := some ["http://b/2", "http://a/1", "http://a+b", "udp://c:80/3"], httpseeds := none } := by
  decide

example : (step wIsUrl MI.init (.webseeds (.set (.list ["http://a/1", "foo"])))) =
    (MI.init, .error .url) := by decide

/-- the order of the errors of an index / slice assignment: URL error before IndexError /
    ValueError; every one of them leaves the state untouched -/
example :
    let s := run wIsUrl MI.init [.webseeds (.set (.list ["http://a/1", "http://b/2", "udp://c:80/3"]))]
    [step wIsUrl s (.webseeds (.edit (.setItem 9 "foo"))),
     step wIsUrl s (.webseeds (.edit (.setItem 9 "http://a/1"))),
     step wIsUrl s (.webseeds (.edit (.setItem (-4) "http://a/1"))),
     step wIsUrl s (.webseeds (.edit (.setSlice none none (some 2) ["http://a/1", "foo"]))),
     step wIsUrl s (.webseeds (.edit (.setSlice none none (some 2) ["http://a/1"]))),
     step wIsUrl s (.webseeds (.edit (.setSlice none none (some 0) ["http://a/1"]))),
     step wIsUrl s (.webseeds (.edit (.setSlice (some 1) (some 2) none ["http://a/1", "foo", "http://b/2"])))]
    = [(s, .error .url), (s, .error .index), (s, .error .index), (s, .error .url), (s, .error .value),
       (s, .error .value), (s, .error .url)] := by decide

/-- reversing through an extended slice works (`l[::-1] = list(l)`), a swap through two index
    assignments cannot (the first assignment creates a duplicate, which is dropped) -/
example :
    let s := run wIsUrl MI.init [.webseeds (.set (.list ["http://a/1", "http://b/2", "udp://c:80/3"]))]
    (step wIsUrl s (.webseeds (.edit (.setSlice none none (some (-1)) ["http://a/1", "http://b/2", "udp://c:80/3"])))).1.urlList
      = some ["udp://c:80/3", "http://b/2", "http://a/1"] ∧
    (step wIsUrl s (.webseeds (.edit (.setItem 0 "udp://c:80/3")))).1.urlList
      = some ["udp://c:80/3", "http://b/2"] := by decide

/-- `reverse()`: on a seed list, on a tier and on the tiers container it reverses (one write-back),
    on an empty list it does nothing, on a tier that does not exist it is the
    IndexError of `trackers[ti]`; `Spec.holds` afterwards -/
example :
    let s := run wIsUrl MI.init [.trackers (.set (.list [.list ["http://a/1", "http://b/2"], .str "udp://c:80/3"])),
      .webseeds (.set (.list ["http://a/1", "http://b/2", "udp://c:80/3"]))]
    (step wIsUrl s (.webseeds (.edit .reverse))) =
      ({ s with urlList := some ["udp://c:80/3", "http://b/2", "http://a/1"] }, .ok) ∧
    (step wIsUrl s (.trackers (.tier 0 .reverse))) =
      ({ s with announce := some "http://b/2",
                announceList := some [["http://b/2", "http://a/1"], ["udp://c:80/3"]] }, .ok) ∧
    (step wIsUrl s (.trackers .reverse)) =
      ({ s with announce := some "udp://c:80/3",
                announceList := some [["udp://c:80/3"], ["http://a/1", "http://b/2"]] }, .ok) ∧
    -- regression: the inherited swap loop left `s` as it was (`reverse()` silently did nothing)
    (step wIsUrl s (.trackers .reverse)).1 ≠ s ∧
    -- … because each half of a swap is an assignment of a stored tier, which still assigns nothing
    (step wIsUrl s (.trackers (.setItem 0 (.list ["udp://c:80/3"])))) = (s, .ok) ∧
    (step wIsUrl MI.init (.webseeds (.edit .reverse))) = (MI.init, .ok) ∧
    (step wIsUrl MI.init (.trackers .reverse)) = (MI.init, .ok) ∧
    (step wIsUrl MI.init (.trackers (.tier 0 .reverse))) = (MI.init, .error .index) ∧
    (∀ op ∈ [Op.webseeds (.edit .reverse), .trackers (.tier 0 .reverse), .trackers .reverse],
      op.affected = false ∧
      Spec.holds wIsUrl (step wIsUrl s op).1 (readBack wIsUrl (step wIsUrl s op).1) = true) := by
  decide +kernel

/-! ### regression: the former finding D16a (repaired in /repo e62ce6d) -/

/-- `webseeds = [a, b]; webseeds[0] = b` (stored 'None', read-back failed): now `[b]` -/
def wD16a : List Op :=
  [.webseeds (.set (.list ["http://a/1", "http://b/2"])),
   .webseeds (.edit (.setItem 0 "http://b/2"))]

/-- `webseeds[0:0] = [b, b]` (stored the duplicate): now `[b]` -/
def wD16aSlice : List Op :=
  [.webseeds (.edit (.setSlice (some 0) (some 0) none ["http://b/2", "http://b/2"]))]

/-- `trackers = a; trackers[0][1:1] = [b, b]` -/
def wD16aTier : List Op :=
  [.trackers (.set (.str "http://a/1")),
   .trackers (.tier 0 (.setSlice (some 1) (some 1) none ["http://b/2", "http://b/2"]))]

example : run wIsUrl MI.init wD16a = { urlList := some ["http://b/2"] } ∧
    run wIsUrl MI.init wD16aSlice = { urlList := some ["http://b/2"] } ∧
    run wIsUrl MI.init wD16aTier =
      { announce := some "http://a/1", announceList := some [["http://a/1", "http://b/2"]] } ∧
    (∀ w ∈ [wD16a, wD16aSlice, wD16aTier],
      Spec.holds wIsUrl (run wIsUrl MI.init w) (readBack wIsUrl (run wIsUrl MI.init w)) = true) := by
  decide

/-! ### counterexample (open finding D16b; the same history is replayed on the code) -/

/-- D16b: `trackers[0:0] = [[a, b]]` stores the URL strings as tiers -/
def wD16b : List Op :=
  [.trackers (.setSlice (some 0) (some 0) [.list ["http://a/1", "http://b/2"]])]

theorem C16_inv_reachable_counterexample : ¬ C16_inv_reachable_full := by
  intro h
  have := h wIsUrl wD16b
  revert this
  decide

theorem C16_tiers_setslice_counterexample :
    (run wIsUrl MI.init wD16b).announce = some "h" ∧
    readBack wIsUrl (run wIsUrl MI.init wD16b) = none := by
  refine ⟨by decide, by decide⟩

/-- the excluded operation is exactly that one -/
example : (wD16b.map Op.affected) = [true] ∧ (wD16a ++ wD16aSlice ++ wD16aTier).all (fun o => !o.affected) = true := by
  decide

/-! ### regression: the former finding D16c (repaired in /repo ae2b587) -/

/-- an `is_url` that accepts a string with leading white space (as urllib does) while its
    space→plus image is not a URL -/
def wIsUrlLead (s : String) : Bool := s == " http://l/" || s == "http://a/1"

/-- `webseeds.append(' http://l/')` (formerly stored as the invalid '+http://l/'): URL error,
    nothing stored; the same on a tier, by assignment, by `replace` (which no longer clears the
    list before it fails) and by index / slice assignment; the property holds after the whole
    history -/
def wLead : List Op :=
  [.webseeds (.edit (.append " http://l/")),
   .webseeds (.set (.list ["http://a/1"])),
   .webseeds (.edit (.replace ["http://a/1", " http://l/"])),
   .webseeds (.edit (.extend ["http://a/1", " http://l/"])),
   .trackers (.set (.str "http://a/1")),
   .trackers (.tier 0 (.append " http://l/")),
   .trackers (.append (.str " http://l/")),
   .webseeds (.edit (.setItem 0 " http://l/")),
   .trackers (.tier 0 (.setSlice none none none ["http://a/1", " http://l/"]))]

example : step wIsUrlLead MI.init (.webseeds (.edit (.append " http://l/"))) = (MI.init, .error .url) := by
  decide

example : (∀ op ∈ wLead, op.affected = false) ∧
    run wIsUrlLead MI.init wLead = { announce := some "http://a/1", urlList := some ["http://a/1"] } ∧
    Spec.holds wIsUrlLead (run wIsUrlLead MI.init wLead) (readBack wIsUrlLead (run wIsUrlLead MI.init wLead)) = true ∧
    (wLead.map fun op => (step wIsUrlLead (run wIsUrlLead MI.init [.webseeds (.set (.list ["http://a/1"])),
        .trackers (.set (.str "http://a/1"))]) op).2) =
      [.error .url, .ok, .error .url, .error .url, .ok, .error .url, .error .url, .error .url, .error .url] := by
  decide

/-! ### a list object that the caller holds -/

/-- no operation — successful or raising — switches the change callback of a held `Trackers`
    object off (or on): `_callback_disabled()` restores it in a `finally` clause (/repo 37d74d0) -/
theorem C16_held_callback_kept (isUrl : String → Bool) (s : MI) (h : HeldTr) (op : HOp) :
    (heldStep isUrl s h op).2.1.cb = h.cb := by
  cases op with
  | replace vs =>
    simp only [heldStep, heldReplace]
    split
    · rfl
    · split <;> rfl
  | append v => simp only [heldStep, heldAppend]; split <;> rfl
  | clear => rfl

/-- the loop of `Trackers.replace` that runs after the object was cleared adds the tiers of the
    already validated `Trackers(tiers)` object again: it cannot raise and rebuilds exactly those
    tiers — `replace` is atomic since /repo 41bec34 (it raises before the object is touched, or not
    at all) -/
theorem C16_held_replace_second_pass_total (isUrl : String → Bool) (vs : List TierVal) (T1 : Tiers)
    (h1 : tiersAddAll isUrl [] vs = .ok T1) :
    heldReplaceLoop isUrl [] (T1.map .list) = (T1, .ok) := by
  have hT1 : TiersOK isUrl ([] ++ T1) := by simpa using tiersAddAll_ok TiersOK_nil h1
  have := tiersAddAll_id (acc := []) (T := T1) hT1
  exact heldReplaceLoop_of_addAll (by simpa using this)

/-- an operation on a held object that raises changes NOTHING: neither the metainfo nor the object
    (`replace` included — this was the open finding D16d) -/
theorem C16_held_error_changes_nothing (isUrl : String → Bool) (s : MI) (h : HeldTr) (op : HOp)
    (e : Err) (herr : (heldStep isUrl s h op).2.2 = .error e) :
    (heldStep isUrl s h op).1 = s ∧ (heldStep isUrl s h op).2.1 = h := by
  cases op with
  | replace vs =>
    simp only [heldStep, heldReplace] at herr ⊢
    cases h1 : tiersAddAll isUrl [] vs with
    | error e' => exact ⟨rfl, rfl⟩
    | ok T1 =>
      rw [h1] at herr
      simp only [C16_held_replace_second_pass_total isUrl vs T1 h1] at herr
      cases herr
  | append v =>
    simp only [heldStep, heldAppend] at herr ⊢
    split at herr
    · simp [*]
    · cases herr
  | clear => simp [heldStep, heldClear] at herr

/-- every operation on a held object (callback set) that SUCCEEDS leaves the metainfo mirroring
    the object — whatever the state was before -/
theorem C16_held_resync_on_success (isUrl : String → Bool) (s : MI) (h : HeldTr) (op : HOp)
    (hcb : h.cb = true) (hok : (heldStep isUrl s h op).2.2 = .ok) :
    Mirrors (heldStep isUrl s h op).1 (heldStep isUrl s h op).2.1.tiers := by
  cases op with
  | replace vs =>
    simp only [heldStep, heldReplace] at hok ⊢
    split at hok
    · cases hok
    · split at hok
      · cases hok
      · simp [hcb, Mirrors, writeTrackers, wOf]
  | append v =>
    simp only [heldStep, heldAppend] at hok ⊢
    split at hok
    · cases hok
    · simp [hcb, Mirrors, writeTrackers, wOf]
  | clear => simp [heldStep, heldClear, hcb, Mirrors, writeTrackers, wOf]

/-- one step on a held object whose callback is set and which the metainfo mirrors: after ANY
    operation — successful or raising, a `replace` that raises included — the metainfo mirrors the
    object again (was `C16_held_sync_step_partial`, which excluded a failing `replace`) -/
theorem C16_held_sync_step (isUrl : String → Bool) (s : MI) (h : HeldTr) (op : HOp)
    (hcb : h.cb = true) (hm : Mirrors s h.tiers) :
    Mirrors (heldStep isUrl s h op).1 (heldStep isUrl s h op).2.1.tiers := by
  cases hout : (heldStep isUrl s h op).2.2 with
  | ok => exact C16_held_resync_on_success isUrl s h op hcb hout
  | error e =>
    have hw := C16_held_error_changes_nothing isUrl s h op e hout
    rw [hw.1, hw.2]; exact hm

/-- every history of any length of `replace` / `append` / `clear` on a `Trackers` object obtained
    from a state it mirrors ends with the metainfo mirroring the object (failing operations
    included; no operation is excluded any more) -/
theorem C16_held_sync_reachable (isUrl : String → Bool) (s : MI) (h : HeldTr) (ops : List HOp)
    (hcb : h.cb = true) (hm : Mirrors s h.tiers) :
    Mirrors (heldRun isUrl s h ops).1 (heldRun isUrl s h ops).2.tiers := by
  induction ops generalizing s h with
  | nil => exact hm
  | cons op ops ih =>
    simp only [heldRun]
    have h1 := C16_held_sync_step isUrl s h op hcb hm
    have h2 := C16_held_callback_kept isUrl s h op
    rcases hst : heldStep isUrl s h op with ⟨s', h', out⟩
    rw [hst] at h1 h2
    exact ih s' h' (h2.trans hcb) h1

/-- the property for a held `Trackers` object as stated (the former `def C16_held_sync_full`, which
    the code falsified — D16d): after every history of operations on the object obtained from the
    empty torrent the metainfo mirrors the object -/
theorem C16_held_sync (isUrl : String → Bool) (ops : List HOp) :
    Mirrors (heldRun isUrl MI.init ⟨[], true⟩ ops).1 (heldRun isUrl MI.init ⟨[], true⟩ ops).2.tiers :=
  C16_held_sync_reachable isUrl MI.init ⟨[], true⟩ ops rfl (by decide)

/-- regression of the former finding D16d: `t.trackers = [[a]]; tr = t.trackers;
    tr.replace([[b], ['foo']])` raises the URL error and leaves the object `[[a]]` (it was `[[b]]`),
    the metainfo keeps `a`; a later append writes `[[a], [a+b]]` (it wrote `[[b], [a+b]]`: `a` lost) -/
def wD16d : List HOp :=
  [.append (.list ["http://a/1"]), .replace [.list ["http://b/2"], .list ["foo"]]]

example : heldRun wIsUrl MI.init ⟨[], true⟩ wD16d =
      ({ announce := some "http://a/1" }, ⟨[["http://a/1"]], true⟩) ∧
    (heldStep wIsUrl { announce := some "http://a/1" } ⟨[["http://a/1"]], true⟩
      (.replace [.list ["http://b/2"], .list ["foo"]])).2.2 = .error .url ∧
    heldRun wIsUrl MI.init ⟨[], true⟩ (wD16d ++ [.append (.str "http://a b")]) =
      ({ announce := some "http://a/1", announceList := some [["http://a/1"], ["http://a+b"]] },
       ⟨[["http://a/1"], ["http://a+b"]], true⟩) ∧
    heldRun wIsUrl MI.init ⟨[], true⟩ (wD16d ++ [.replace [.list ["http://b/2", "http://a b"], .str "http://a+b", .str ""]]) =
      ({ announce := some "http://b/2", announceList := some [["http://b/2", "http://a+b"]] },
       ⟨[["http://b/2", "http://a+b"]], true⟩) := by
  refine ⟨?_, ?_, ?_, ?_⟩ <;> decide +kernel

/-! ### any operation on a held `Trackers` object (the fresh-getter translation of the harness) -/

/-- ONE operation of the whole tiers state machine (insert, append, extend, +=, delete, slice
    delete, clear, remove, pop, replace, `tr[i] = v`, every operation on one of its tiers — index /
    slice assignment included — but not `tr[a:b] = …`, D16b) on a held `Trackers` object with good
    tiers that the metainfo mirrors: the object has good tiers again and the metainfo mirrors it,
    whether the operation succeeded or raised -/
theorem C16_held_any_step_partial (isUrl : String → Bool) (s : MI) (T : Tiers) (op : TOp)
    (hT : TiersOK isUrl T) (hm : Mirrors s T) (hop : (Op.trackers op).affected = false) :
    TiersOK isUrl (heldOp isUrl s T op).2.1 ∧ Mirrors (heldOp isUrl s T op).1 (heldOp isUrl s T op).2.1 := by
  have hc : op.clean = true := affected_false_iff.1 hop
  unfold heldOp
  rcases ho : tiersOp isUrl T op with ⟨last, out⟩
  cases last with
  | none => exact ⟨hT, hm⟩
  | some w =>
    obtain ⟨T', hT', rfl⟩ := tiersOp_ok hT hc ho
    exact ⟨hT', rfl, rfl⟩

/-- … and every history of such operations -/
theorem C16_held_any_reachable_partial (isUrl : String → Bool) (s : MI) (T : Tiers) (ops : List TOp)
    (hT : TiersOK isUrl T) (hm : Mirrors s T) (hops : ∀ op ∈ ops, (Op.trackers op).affected = false) :
    TiersOK isUrl (heldOps isUrl s T ops).2 ∧ Mirrors (heldOps isUrl s T ops).1 (heldOps isUrl s T ops).2 := by
  induction ops generalizing s T with
  | nil => exact ⟨hT, hm⟩
  | cons op ops ih =>
    simp only [heldOps]
    have h1 := C16_held_any_step_partial isUrl s T op hT hm (hops op (by simp))
    rcases hst : heldOp isUrl s T op with ⟨s', T', out⟩
    rw [hst] at h1
    exact ih s' T' h1.1 h1.2 (fun o ho => hops o (by simp [ho]))

/-- the full statement for ANY history of operations on a held `Trackers` object obtained from the
    empty torrent — falsified by the code through `tr[a:b] = …` (D16b) -/
def C16_held_any_reachable_full : Prop :=
  ∀ (isUrl : String → Bool) (ops : List TOp),
    TiersOK isUrl (heldOps isUrl MI.init [] ops).2 ∧
      Mirrors (heldOps isUrl MI.init [] ops).1 (heldOps isUrl MI.init [] ops).2

/-- D16b on a held object: `tr = t.trackers; tr[0:0] = [[a, b]]` leaves the URL strings as tiers in
    the object (its "tiers" are the characters 'h', 't', …) -/
theorem C16_held_any_reachable_counterexample : ¬ C16_held_any_reachable_full := by
  intro h
  have h1 := (h wIsUrl [.setSlice (some 0) (some 0) [.list ["http://a/1", "http://b/2"]]]).1.2.2 "h"
    (by decide)
  have h2 := h1.1
  revert h2
  decide

/-- "callback alive ⇒ same state machine": on a state that mirrors good tiers `T`, an operation on
    the held object (`heldOp`) and the same operation through a fresh getter call
    (`torrent.trackers.<op>`, `trackersOp`) write the same metainfo and return the same outcome, and
    a fresh `torrent.trackers` afterwards returns exactly the tiers of the held object — this is the
    translation the correspondence harness uses for held-object histories -/
theorem C16_held_same_as_fresh_partial (isUrl : String → Bool) (s : MI) (T : Tiers) (op : TOp)
    (hT : TiersOK isUrl T) (hm : Mirrors s T) (hset : ∀ v, op ≠ .set v)
    (hop : (Op.trackers op).affected = false) :
    trackersOp isUrl s op = ((heldOp isUrl s T op).1, (heldOp isUrl s T op).2.2) ∧
    getTrackers isUrl (heldOp isUrl s T op).1 = .ok (heldOp isUrl s T op).2.1 := by
  have hstep := C16_held_any_step_partial isUrl s T op hT hm hop
  refine ⟨?_, getTrackers_eq hstep.1 hstep.2.1 hstep.2.2⟩
  rw [trackersOp_generic hset, getTrackers_eq hT hm.1 hm.2]
  unfold heldOp
  rcases ho : tiersOp isUrl T op with ⟨last, out⟩
  cases last <;> simp [applyWritten, ho]

/-- non-vacuity: a held history with failing operations, an index assignment on a tier that removes
    the tier, and a failing `replace` -/
example :
    let ops : List TOp := [.append (.list ["http://a/1", "http://b/2"]), .append (.str "udp://c:80/3"),
      .replace [.list ["http://a b"], .list ["foo"]], .tier 1 (.setItem 0 "http://b/2"),
      .tier 0 (.setSlice none none (some (-1)) ["http://a/1", "http://a b"]), .tier 5 .clear]
    (∀ op ∈ ops, (Op.trackers op).affected = false) ∧
    heldOps wIsUrl MI.init [] ops =
      ({ announce := some "http://a+b", announceList := some [["http://a+b", "http://a/1"]] },
       [["http://a+b", "http://a/1"]]) := by decide

end Torf.C16
