/-
  C16 — tracker and seed lists stay in sync with the metainfo under any edit history.
  Property theorems only (helper lemmas live in Torf.Lemmas.Lists*).

  Model: `Torf.Lists.step` (Torf/Model/Lists.lean), specification: `Torf.Lists.Spec.holds`
  (Torf/Spec/Lists.lean).  `isUrl` is `utils.is_url`, an arbitrary parameter: since /repo ae2b587
  `URL()` validates the given AND the stored (space→plus) string (`Torf.Lists.accepts`), so the
  former assumption `isUrl u → isUrl (spaceToPlus u)` is no longer needed anywhere.

  The code falsifies the full statement in two ways (findings D16a, D16b), so the full statement
  is kept as `def …_full : Prop`, the theorems are proved for histories without index/slice
  assignment on a URL list and without slice assignment on the tiers (`Op.affected = false`), and
  the witnesses of the findings are proved to falsify the full statement (the same witnesses are
  replayed on the implementation).  For a list object that the caller holds, a `Trackers.replace`
  that raises leaves the object half replaced (finding D16d, `C16_held_*`).
-/
import Torf.Lemmas.Lists
import Torf.Lemmas.ListsReject
namespace Torf.C16
open Torf.Lists

/-- the property as stated: after EVERY history from the empty torrent the metainfo and the lists
    read back through the getters satisfy `Spec.holds` (announce = first URL of first tier or
    absent; announce-list = tiers iff more than one URL; url-list / httpseeds mirror the seed lists;
    no duplicates; no empty tier; every URL well-formed; the getters do not fail) -/
def C16_inv_reachable_full : Prop :=
  ∀ (isUrl : String → Bool) (ops : List Op),
    Spec.holds isUrl (run isUrl MI.init ops) (readBack isUrl (run isUrl MI.init ops)) = true

/-- one step: the inductive invariant `Inv` (the fields are exactly what the write-back callbacks
    produce for duplicate-free, valid, space-free lists without an empty tier) is preserved by
    every operation other than index/slice assignment, whether it succeeds or raises — for every
    `is_url` whatsoever -/
theorem C16_inv_step_partial (isUrl : String → Bool) (s : MI) (op : Op)
    (hs : Inv isUrl s) (hop : op.affected = false) :
    Inv isUrl (step isUrl s op).1 ∧
    Spec.holds isUrl (step isUrl s op).1 (readBack isUrl (step isUrl s op).1) = true :=
  ⟨step_inv hs hop, Inv_holds (step_inv hs hop)⟩

/-- every history (any length, any operations other than index/slice assignment, failed
    operations included) from the empty torrent ends in a state that satisfies the property -/
theorem C16_inv_reachable_partial (isUrl : String → Bool) (ops : List Op)
    (hops : ∀ op ∈ ops, op.affected = false) :
    Spec.holds isUrl (run isUrl MI.init ops) (readBack isUrl (run isUrl MI.init ops)) = true :=
  Inv_holds (run_inv Inv_init hops)

/-- … and from every state that satisfies the invariant (e.g. the non-trivial start states of
    the correspondence run) -/
theorem C16_inv_from_partial (isUrl : String → Bool) (s : MI) (ops : List Op)
    (hs : Inv isUrl s) (hops : ∀ op ∈ ops, op.affected = false) :
    Spec.holds isUrl (run isUrl s ops) (readBack isUrl (run isUrl s ops)) = true :=
  Inv_holds (run_inv hs hops)

/-- read-back is total and faithful on invariant states: the getters return exactly the stored
    tiers / seed lists (nothing is dropped, re-ordered or re-coerced) -/
theorem C16_readback_total (isUrl : String → Bool) (s : MI) (hs : Inv isUrl s) :
    ∃ rb, readBack isUrl s = some rb ∧
      s.announceList = (if rb.trackers.flatten.length ≤ 1 then none else some rb.trackers) ∧
      s.urlList = writeSeeds rb.webseeds ∧ s.httpseeds = writeSeeds rb.httpseeds := by
  obtain ⟨⟨T, hT, ha, hl⟩, ⟨W, hW, hw⟩, ⟨H, hH, hh⟩⟩ := hs
  refine ⟨⟨T, W, H⟩, ?_, hl, hw, hh⟩
  simp only [readBack, getTrackers_eq hT ha hl, hw, hh, getSeeds_writeSeeds hW,
    getSeeds_writeSeeds hH]

/-- an operation that tries to store a URL that `URL()` does not accept — invalid as given OR
    invalid after its spaces were replaced by '+' (`accepts`) — raises the URL error, whatever the
    state, whatever else it was given (index/slice assignment included), and, unless it is
    extend / += (which store value by value), leaves the metainfo untouched.  With
    `C16_inv_step_partial` (every stored URL is valid) the invalid URL is never stored. -/
theorem C16_reject (isUrl : String → Bool) (s : MI) (op : Op) (u : String)
    (hu : u ∈ op.urls) (hinv : accepts isUrl u = false)
    (hti : ∀ T, getTrackers isUrl s = .ok T → op.tierInRange T = true) :
    (step isUrl s op).2 = .error .url ∧ (op.atomic = true → (step isUrl s op).1 = s) :=
  step_reject hu hinv hti

/-- `replace` on a URL list (webseeds, httpseeds, a tier) can only raise while it coerces its
    argument for the first time, i.e. BEFORE the list is cleared: the second coercion (by `insert`,
    callback disabled) of an accepted item cannot fail (this was the second half of D16c/D14g) -/
theorem C16_url_replace_raises_before_clear (isUrl : String → Bool) (known us : List String) (e : Err)
    (hr : urlsReplace isUrl known us = .error e) : coerceAll isUrl us = .error e :=
  urlsReplace_error_before_clear hr

/-- in particular for a URL that `is_url` itself rejects -/
theorem C16_reject_invalid (isUrl : String → Bool) (s : MI) (op : Op) (u : String)
    (hu : u ∈ op.urls) (hinv : isUrl u = false)
    (hti : ∀ T, getTrackers isUrl s = .ok T → op.tierInRange T = true) :
    (step isUrl s op).2 = .error .url ∧ (op.atomic = true → (step isUrl s op).1 = s) :=
  step_reject hu (by simp [accepts, hinv]) hti

/-! ### non-vacuity -/

/-- `is_url` restricted to the strings of the witnesses (agrees with the real function there) -/
def wIsUrl (s : String) : Bool :=
  s == "http://a/1" || s == "http://b/2" || s == "http://a b" || s == "http://a+b"

/-- the hypotheses of the `_partial` theorems are satisfiable by a non-trivial history that
    exercises de-duplication by coercion, a failing operation, tier removal and `+=` -/
def wClean : List Op :=
  [.trackers (.set (.list [.list ["http://a/1", "http://a b"], .str "http://b/2"])),
   .trackers (.tier 0 (.append "http://a+b")),          -- duplicate after coercion: ignored
   .trackers (.tier 1 (.append "foo")),                 -- URL error
   .trackers (.tier (-1) .clear),                       -- tier removed
   .webseeds (.edit (.iadd ["http://b/2", "http://a b"])),
   .webseeds (.edit (.insert (-1) "http://a/1"))]

example : (∀ op ∈ wClean, op.affected = false) ∧
    run wIsUrl MI.init wClean =
      { announce := some "http://a/1", announceList := some [["http://a/1", "http://a+b"]],
        urlList := some ["http://b/2", "http://a/1", "http://a+b"], httpseeds := none } := by
  decide

example : (step wIsUrl MI.init (.webseeds (.set (.list ["http://a/1", "foo"])))) =
    (MI.init, .error .url) := by decide

/-! ### counterexamples (known findings; the same histories are replayed on the code) -/

/-- D16a, index assignment: `webseeds = [a, b]; webseeds[0] = b` stores 'None' -/
def wD16a : List Op :=
  [.webseeds (.set (.list ["http://a/1", "http://b/2"])),
   .webseeds (.edit (.setItem 0 "http://b/2"))]

theorem C16_inv_reachable_counterexample : ¬ C16_inv_reachable_full := by
  intro h
  have := h wIsUrl wD16a
  revert this
  decide

example : run wIsUrl MI.init wD16a = { urlList := some ["None", "http://b/2"] } ∧
    readBack wIsUrl (run wIsUrl MI.init wD16a) = none := by decide

/-- D16a, slice assignment: `webseeds[0:0] = [b, b]` stores the duplicate -/
def wD16aSlice : List Op := [.webseeds (.edit (.setSlice (some 0) (some 0) ["http://b/2", "http://b/2"]))]

theorem C16_setslice_duplicates_counterexample :
    run wIsUrl MI.init wD16aSlice = { urlList := some ["http://b/2", "http://b/2"] } ∧
    Spec.holds wIsUrl (run wIsUrl MI.init wD16aSlice) (readBack wIsUrl (run wIsUrl MI.init wD16aSlice)) = false := by
  decide

/-- D16b: `trackers[0:0] = [[a, b]]` stores the URL strings as tiers -/
def wD16b : List Op :=
  [.trackers (.setSlice (some 0) (some 0) [.list ["http://a/1", "http://b/2"]])]

theorem C16_tiers_setslice_counterexample :
    (run wIsUrl MI.init wD16b).announce = some "h" ∧
    readBack wIsUrl (run wIsUrl MI.init wD16b) = none ∧
    ¬ C16_inv_reachable_full := by
  refine ⟨by decide, by decide, ?_⟩
  intro h
  have := h wIsUrl wD16b
  revert this
  decide

/-! ### regression: the former finding D16c (repaired in /repo ae2b587) -/

/-- an `is_url` that accepts a string with leading white space (as urllib does) while its
    space→plus image is not a URL -/
def wIsUrlLead (s : String) : Bool := s == " http://l/" || s == "http://a/1"

/-- `webseeds.append(' http://l/')` (formerly stored as the invalid '+http://l/'): URL error,
    nothing stored; the same on a tier, by assignment and by `replace` (which no longer clears the
    list before it fails); the property holds after the whole history -/
def wLead : List Op :=
  [.webseeds (.edit (.append " http://l/")),
   .webseeds (.set (.list ["http://a/1"])),
   .webseeds (.edit (.replace ["http://a/1", " http://l/"])),
   .webseeds (.edit (.extend ["http://a/1", " http://l/"])),
   .trackers (.set (.str "http://a/1")),
   .trackers (.tier 0 (.append " http://l/")),
   .trackers (.append (.str " http://l/"))]

example : step wIsUrlLead MI.init (.webseeds (.edit (.append " http://l/"))) = (MI.init, .error .url) := by
  decide

example : (∀ op ∈ wLead, op.affected = false) ∧
    run wIsUrlLead MI.init wLead = { announce := some "http://a/1", urlList := some ["http://a/1"] } ∧
    Spec.holds wIsUrlLead (run wIsUrlLead MI.init wLead) (readBack wIsUrlLead (run wIsUrlLead MI.init wLead)) = true ∧
    (wLead.map fun op => (step wIsUrlLead (run wIsUrlLead MI.init [.webseeds (.set (.list ["http://a/1"])),
        .trackers (.set (.str "http://a/1"))]) op).2) =
      [.error .url, .ok, .error .url, .error .url, .ok, .error .url, .error .url] := by
  decide

/-! ### a list object that the caller holds (finding D16d) -/

/-- the property for a held `Trackers` object as stated: after every history of operations on the
    object obtained from the empty torrent the metainfo mirrors the object -/
def C16_held_sync_full : Prop :=
  ∀ (isUrl : String → Bool) (ops : List HOp),
    Mirrors (heldRun isUrl MI.init ⟨[], true⟩ ops).1 (heldRun isUrl MI.init ⟨[], true⟩ ops).2.tiers

/-- no operation — successful or raising — switches the change callback of a held `Trackers`
    object off (or on): `_callback_disabled()` restores it in a `finally` clause (/repo 37d74d0) -/
theorem C16_held_callback_kept (isUrl : String → Bool) (s : MI) (h : HeldTr) (op : HOp) :
    (heldStep isUrl s h op).2.1.cb = h.cb := by
  cases op with
  | replace vs => simp only [heldStep, heldReplace]; split <;> rfl
  | append v => simp only [heldStep, heldAppend]; split <;> rfl
  | clear => rfl

/-- an operation on a held object that raises writes nothing; unless it is `replace`, it does not
    change the object either -/
theorem C16_held_error_writes_nothing (isUrl : String → Bool) (s : MI) (h : HeldTr) (op : HOp)
    (e : Err) (herr : (heldStep isUrl s h op).2.2 = .error e) :
    (heldStep isUrl s h op).1 = s ∧
      ((∀ vs, op ≠ .replace vs) → (heldStep isUrl s h op).2.1 = h) := by
  cases op with
  | replace vs =>
    simp only [heldStep, heldReplace] at herr ⊢
    split at herr
    · simp
    · cases herr
  | append v =>
    simp only [heldStep, heldAppend] at herr ⊢
    split at herr
    · simp
    · cases herr
  | clear => simp [heldStep, heldClear] at herr

/-- every operation on a held object (callback set) that SUCCEEDS leaves the metainfo mirroring
    the object — whatever the state was before, in particular after a `replace` that raised: the
    deviation of D16d lasts until the next successful edit through the object -/
theorem C16_held_resync_on_success (isUrl : String → Bool) (s : MI) (h : HeldTr) (op : HOp)
    (hcb : h.cb = true) (hok : (heldStep isUrl s h op).2.2 = .ok) :
    Mirrors (heldStep isUrl s h op).1 (heldStep isUrl s h op).2.1.tiers := by
  cases op with
  | replace vs =>
    simp only [heldStep, heldReplace] at hok ⊢
    split at hok
    · cases hok
    · simp [hcb, Mirrors, writeTrackers, wOf]
  | append v =>
    simp only [heldStep, heldAppend] at hok ⊢
    split at hok
    · cases hok
    · simp [hcb, Mirrors, writeTrackers, wOf]
  | clear => simp [heldStep, heldClear, hcb, Mirrors, writeTrackers, wOf]

/-- one step on a held object whose callback is set and which the metainfo mirrors: after any
    operation other than a `replace` that raises — successful or raising — the metainfo mirrors
    the object again -/
theorem C16_held_sync_step_partial (isUrl : String → Bool) (s : MI) (h : HeldTr) (op : HOp)
    (hcb : h.cb = true) (hm : Mirrors s h.tiers) (hop : op.failingReplace isUrl = false) :
    Mirrors (heldStep isUrl s h op).1 (heldStep isUrl s h op).2.1.tiers := by
  cases hout : (heldStep isUrl s h op).2.2 with
  | ok => exact C16_held_resync_on_success isUrl s h op hcb hout
  | error e =>
    have hw := C16_held_error_writes_nothing isUrl s h op e hout
    cases op with
    | replace vs =>
      exfalso
      simp only [heldStep, heldReplace] at hout
      simp only [HOp.failingReplace, ne_eq, decide_eq_false_iff_not, Decidable.not_not] at hop
      split at hout
      · rename_i T' e' heq; rw [heq] at hop; cases hop
      · cases hout
    | append v => rw [hw.1, hw.2 (fun vs => by simp)]; exact hm
    | clear => rw [hw.1, hw.2 (fun vs => by simp)]; exact hm

/-- every history of any length of `replace` / `append` / `clear` on a `Trackers` object obtained
    from a state it mirrors, without a `replace` that raises, ends with the metainfo mirroring the
    object (failing `append`s included) -/
theorem C16_held_sync_reachable_partial (isUrl : String → Bool) (s : MI) (h : HeldTr) (ops : List HOp)
    (hcb : h.cb = true) (hm : Mirrors s h.tiers) (hops : ∀ op ∈ ops, op.failingReplace isUrl = false) :
    Mirrors (heldRun isUrl s h ops).1 (heldRun isUrl s h ops).2.tiers := by
  induction ops generalizing s h with
  | nil => exact hm
  | cons op ops ih =>
    simp only [heldRun]
    have h1 := C16_held_sync_step_partial isUrl s h op hcb hm (hops op (by simp))
    have h2 := C16_held_callback_kept isUrl s h op
    rcases hst : heldStep isUrl s h op with ⟨s', h', out⟩
    rw [hst] at h1 h2
    exact ih s' h' (h2.trans hcb) h1 (fun o ho => hops o (by simp [ho]))

/-- D16d: `t.trackers = [[a]]; tr = t.trackers; tr.replace([[b], ['foo']])` raises the URL error
    with the object half replaced (`[[b]]`) while the metainfo keeps `a` -/
def wD16d : List HOp :=
  [.append (.list ["http://a/1"]), .replace [.list ["http://b/2"], .list ["foo"]]]

theorem C16_held_replace_counterexample : ¬ C16_held_sync_full := by
  intro h
  have := h wIsUrl wD16d
  revert this
  decide

example : heldRun wIsUrl MI.init ⟨[], true⟩ wD16d =
    ({ announce := some "http://a/1" }, ⟨[["http://b/2"]], true⟩) := by decide

/-- … and the next successful edit writes the half-replaced object (`a` is gone for good) -/
example : heldRun wIsUrl MI.init ⟨[], true⟩ (wD16d ++ [.append (.str "http://a b")]) =
    ({ announce := some "http://b/2", announceList := some [["http://b/2"], ["http://a+b"]] },
     ⟨[["http://b/2"], ["http://a+b"]], true⟩) := by decide

/-- non-vacuity of `C16_held_sync_reachable_partial`: a history with a failing `append` and a
    successful `replace` -/
example : (∀ op ∈ ([.append (.list ["http://a/1"]), .append (.list ["foo"]),
      .replace [.list ["http://b/2"], .str "http://a b"], .append (.str "http://a+b")] : List HOp),
      op.failingReplace wIsUrl = false) ∧
    (wD16d.map (HOp.failingReplace wIsUrl)) = [false, true] := by decide

end Torf.C16
