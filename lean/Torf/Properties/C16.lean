/-
  C16 — tracker and seed lists stay in sync with the metainfo under any edit history.
  Property theorems only (helper lemmas live in Torf.Lemmas.Lists*).

  Model: `Torf.Lists.step` (Torf/Model/Lists.lean), specification: `Torf.Lists.Spec.holds`
  (Torf/Spec/Lists.lean).  `isUrl` is `utils.is_url` (a parameter); `UrlAssumption isUrl` is the
  recorded assumption `isUrl u → isUrl (spaceToPlus u)`.

  The code falsifies the full statement in three ways (findings D16a, D16b, D16c), so the full
  statements are kept as `def …_full : Prop`, the theorems are proved for histories without
  index/slice assignment on a URL list and without slice assignment on the tiers
  (`Op.affected = false`) under `UrlAssumption`, and the witnesses of the findings are proved to
  falsify the full statements (the same witnesses are replayed on the implementation).
-/
import Torf.Lemmas.Lists
import Torf.Lemmas.ListsReject
namespace Torf.C16
open Torf.Lists

/-- the property as stated: after EVERY history from the empty torrent the metainfo and the lists
    read back through the getters satisfy `Spec.holds` (announce = first URL of first tier or
    absent; announce-list = tiers iff more than one URL; url-list / httpseeds mirror the seed lists;
    no duplicates; no empty tier; every URL well-formed; the getters do not fail) -/
def C16_inv_reachable_full : Prop :=
  ∀ (isUrl : String → Bool), UrlAssumption isUrl → ∀ ops : List Op,
    Spec.holds isUrl (run isUrl MI.init ops) (readBack isUrl (run isUrl MI.init ops)) = true

/-- the same without the assumption on `is_url`, for histories without index/slice assignment -/
def C16_inv_reachable_noassumption_full : Prop :=
  ∀ (isUrl : String → Bool) (ops : List Op), (∀ op ∈ ops, op.affected = false) →
    Spec.holds isUrl (run isUrl MI.init ops) (readBack isUrl (run isUrl MI.init ops)) = true

/-- one step: the inductive invariant `Inv` (the fields are exactly what the write-back callbacks
    produce for duplicate-free, valid, space-free lists without an empty tier) is preserved by
    every operation other than index/slice assignment, whether it succeeds or raises -/
theorem C16_inv_step_partial (isUrl : String → Bool) (h : UrlAssumption isUrl) (s : MI) (op : Op)
    (hs : Inv isUrl s) (hop : op.affected = false) :
    Inv isUrl (step isUrl s op).1 ∧
    Spec.holds isUrl (step isUrl s op).1 (readBack isUrl (step isUrl s op).1) = true :=
  ⟨step_inv h hs hop, Inv_holds (step_inv h hs hop)⟩

/-- every history (any length, any operations other than index/slice assignment, failed
    operations included) from the empty torrent ends in a state that satisfies the property -/
theorem C16_inv_reachable_partial (isUrl : String → Bool) (h : UrlAssumption isUrl) (ops : List Op)
    (hops : ∀ op ∈ ops, op.affected = false) :
    Spec.holds isUrl (run isUrl MI.init ops) (readBack isUrl (run isUrl MI.init ops)) = true :=
  Inv_holds (run_inv h Inv_init hops)

/-- … and from every state that satisfies the invariant (e.g. the non-trivial start states of
    the correspondence run) -/
theorem C16_inv_from_partial (isUrl : String → Bool) (h : UrlAssumption isUrl) (s : MI) (ops : List Op)
    (hs : Inv isUrl s) (hops : ∀ op ∈ ops, op.affected = false) :
    Spec.holds isUrl (run isUrl s ops) (readBack isUrl (run isUrl s ops)) = true :=
  Inv_holds (run_inv h hs hops)

/-- read-back is total and faithful on invariant states: the getters return exactly the stored
    tiers / seed lists (nothing is dropped, re-ordered or re-coerced) -/
theorem C16_readback_total (isUrl : String → Bool) (s : MI) (hs : Inv isUrl s) :
    ∃ rb, readBack isUrl s = some rb ∧
      s.announceList = (if rb.trackers.flatten.length ≤ 1 then none else some rb.trackers) ∧
      s.urlList = writeSeeds rb.webseeds ∧ s.httpseeds = writeSeeds rb.httpseeds := by
  obtain ⟨⟨T, hT, ha, hl⟩, ⟨W, hW, hw⟩, ⟨H, hH, hh⟩⟩ := hs
  refine ⟨⟨T, W, H⟩, ?_, hl, hw, hh⟩
  simp only [readBack, getTrackers_eq hT ha hl, hw, hh, getSeeds_writeSeeds hW,
    getSeeds_writeSeeds hH]

/-- an operation that tries to store an invalid URL raises the URL error — whatever the state,
    whatever else it was given (index/slice assignment included) — and, unless it is extend / +=
    (which store value by value), leaves the metainfo untouched.  With `C16_inv_step_partial`
    (every stored URL is valid) the invalid URL is never stored. -/
theorem C16_reject (isUrl : String → Bool) (s : MI) (op : Op) (u : String)
    (hu : u ∈ op.urls) (hinv : isUrl u = false)
    (hti : ∀ T, getTrackers isUrl s = .ok T → op.tierInRange T = true) :
    (step isUrl s op).2 = .error .url ∧ (op.atomic = true → (step isUrl s op).1 = s) :=
  step_reject hu hinv hti

/-! ### non-vacuity -/

/-- `is_url` restricted to the strings of the witnesses (agrees with the real function there) -/
def wIsUrl (s : String) : Bool :=
  s == "http://a/1" || s == "http://b/2" || s == "http://a b" || s == "http://a+b"

theorem wIsUrl_assumption : UrlAssumption wIsUrl := by
  intro u hu
  simp only [wIsUrl, Bool.or_eq_true, beq_iff_eq] at hu
  rcases hu with ((rfl | rfl) | rfl) | rfl <;> decide

/-- the hypotheses of the `_partial` theorems are satisfiable by a non-trivial history that
    exercises de-duplication by coercion, a failing operation, tier removal and `+=` -/
def wClean : List Op :=
  [.trackers (.set (.list [.list ["http://a/1", "http://a b"], .str "http://b/2"])),
   .trackers (.tier 0 (.append "http://a+b")),          -- duplicate after coercion: ignored
   .trackers (.tier 1 (.append "foo")),                 -- URL error
   .trackers (.tier (-1) .clear),                       -- tier removed
   .webseeds (.edit (.iadd ["http://b/2", "http://a b"])),
   .webseeds (.edit (.insert (-1) "http://a/1"))]

example : (∀ op ∈ wClean, op.affected = false) ∧
    run wIsUrl MI.init wClean =
      { announce := some "http://a/1", announceList := some [["http://a/1", "http://a+b"]],
        urlList := some ["http://b/2", "http://a/1", "http://a+b"], httpseeds := none } := by
  decide

example : (step wIsUrl MI.init (.webseeds (.set (.list ["http://a/1", "foo"])))) =
    (MI.init, .error .url) := by decide

/-! ### counterexamples (known findings; the same histories are replayed on the code) -/

/-- D16a, index assignment: `webseeds = [a, b]; webseeds[0] = b` stores 'None' -/
def wD16a : List Op :=
  [.webseeds (.set (.list ["http://a/1", "http://b/2"])),
   .webseeds (.edit (.setItem 0 "http://b/2"))]

theorem C16_inv_reachable_counterexample : ¬ C16_inv_reachable_full := by
  intro h
  have := h wIsUrl wIsUrl_assumption wD16a
  revert this
  decide

example : run wIsUrl MI.init wD16a = { urlList := some ["None", "http://b/2"] } ∧
    readBack wIsUrl (run wIsUrl MI.init wD16a) = none := by decide

/-- D16a, slice assignment: `webseeds[0:0] = [b, b]` stores the duplicate -/
def wD16aSlice : List Op := [.webseeds (.edit (.setSlice (some 0) (some 0) ["http://b/2", "http://b/2"]))]

theorem C16_setslice_duplicates_counterexample :
    run wIsUrl MI.init wD16aSlice = { urlList := some ["http://b/2", "http://b/2"] } ∧
    Spec.holds wIsUrl (run wIsUrl MI.init wD16aSlice) (readBack wIsUrl (run wIsUrl MI.init wD16aSlice)) = false := by
  decide

/-- D16b: `trackers[0:0] = [[a, b]]` stores the URL strings as tiers -/
def wD16b : List Op :=
  [.trackers (.setSlice (some 0) (some 0) [.list ["http://a/1", "http://b/2"]])]

theorem C16_tiers_setslice_counterexample :
    (run wIsUrl MI.init wD16b).announce = some "h" ∧
    readBack wIsUrl (run wIsUrl MI.init wD16b) = none ∧
    ¬ C16_inv_reachable_full := by
  refine ⟨by decide, by decide, ?_⟩
  intro h
  have := h wIsUrl wIsUrl_assumption wD16b
  revert this
  decide

/-- D16c: without the assumption on `is_url` the statement fails even without index/slice
    assignment: `webseeds.append(' http://l/')` (accepted by `is_url`, which strips leading white
    space) stores '+http://l/', which is not a URL -/
def wIsUrlLead (s : String) : Bool := s == " http://l/"

theorem C16_assumption_needed_counterexample : ¬ C16_inv_reachable_noassumption_full := by
  intro h
  have := h wIsUrlLead [.webseeds (.edit (.append " http://l/"))] (by decide)
  revert this
  decide

/-! ### a list object that the caller holds (finding D16d) -/

/-- the property for a held `Trackers` object as stated: after every history of operations on the
    object obtained from the empty torrent the metainfo mirrors the object -/
def C16_held_sync_full : Prop :=
  ∀ (isUrl : String → Bool), UrlAssumption isUrl → ∀ ops : List HOp,
    Mirrors (heldRun isUrl MI.init ⟨[], true⟩ ops).1 (heldRun isUrl MI.init ⟨[], true⟩ ops).2.tiers

/-- one step on a held object whose callback is set: if the callback is still set afterwards, the
    metainfo mirrors the object again — whatever the operation, successful or raising, from any
    state in which it mirrored the object before -/
theorem C16_held_sync_step_partial (isUrl : String → Bool) (s : MI) (h : HeldTr) (op : HOp)
    (hcb : h.cb = true) (hm : Mirrors s h.tiers) :
    (heldStep isUrl s h op).2.1.cb = true →
      Mirrors (heldStep isUrl s h op).1 (heldStep isUrl s h op).2.1.tiers := by
  cases op with
  | replace vs =>
    simp only [heldStep, heldReplace]
    split
    · intro hc; simp at hc
    · intro _; simp [hcb, Mirrors, writeTrackers, wOf]
  | append v =>
    simp only [heldStep, heldAppend]
    split
    · intro _; exact hm
    · intro _; simp [hcb, Mirrors, writeTrackers, wOf]
  | clear =>
    intro _; simp [heldStep, heldClear, hcb, Mirrors, writeTrackers, wOf]

/-- the callback is lost only by a `replace` that raises -/
theorem C16_held_callback_lost_only_by_failed_replace (isUrl : String → Bool) (s : MI) (h : HeldTr)
    (op : HOp) (hcb : h.cb = true) (hlost : (heldStep isUrl s h op).2.1.cb = false) :
    ∃ vs e, op = .replace vs ∧ (heldStep isUrl s h op).2.2 = .error e := by
  cases op with
  | replace vs =>
    refine ⟨vs, ?_⟩
    simp only [heldStep, heldReplace] at hlost ⊢
    split at hlost
    · rename_i T' e heq
      refine ⟨e, ?_⟩
      simp [heq]
    · simp [hcb] at hlost
  | append v =>
    simp only [heldStep, heldAppend] at hlost
    split at hlost <;> simp [hcb] at hlost
  | clear => simp [heldStep, heldClear, hcb] at hlost

/-- D16d: `t.trackers = [[a]]; tr = t.trackers; tr.replace([[b], ['foo']])` raises the URL error
    with the object half replaced and its callback gone; `tr.append('http://a b')` is then not written -/
def wD16d : List HOp :=
  [.append (.list ["http://a/1"]), .replace [.list ["http://b/2"], .list ["foo"]], .append (.str "http://a b")]

theorem C16_held_replace_counterexample : ¬ C16_held_sync_full := by
  intro h
  have := h wIsUrl wIsUrl_assumption wD16d
  revert this
  decide

example : heldRun wIsUrl MI.init ⟨[], true⟩ wD16d =
    ({ announce := some "http://a/1" }, ⟨[["http://b/2"], ["http://a+b"]], false⟩) := by decide

end Torf.C16
