/-
  C05 — bridge theorems to the type dispatch of `utils.encode_value`, translated from the source on
  every run: `ENCODE_ALLOWED_TYPES` (the exact types that pass unchanged) and the keys of
  `ENCODE_CONVERTERS` **in source order** (`isinstance` is tried in this order — `str` must come before
  `Sequence`, or a string would be written as a list of characters; `bool` is never reached through
  `int` because the pass-through test is on the exact type). The model's `Codec.encodeValue`, about
  which the round-trip theorems of C05 are proved, takes for every value the branch of the first entry
  of the generated tables that applies, under the instance relation of the Python classes spelled out
  below (`isinst`: which PyVal constructors are instances of which class — trusted facts about CPython's
  class hierarchy; values outside PyVal are instances of nothing, as everywhere in the model).
-/
import Torf.Generated.Kernels
import Torf.Model.Codec
namespace Torf.C05
open Torf Torf.Generated Torf.Codec

/-- `type(v) is <name>` for the pass-through test (`type(value) in ENCODE_ALLOWED_TYPES`) -/
def exactType : PyVal → String → Bool
  | .other _, _ => false            -- values outside PyVal are not `bytes` / `int` objects
  | v, name => v.typeName == name

/-- `isinstance(v, <class>)` for the classes named in `ENCODE_CONVERTERS` -/
def isinst : PyVal → String → Bool
  | .str _, c => c == "str" || c == "collections.abc.Sequence" || c == "collections.abc.Collection"
  | .float _, c => c == "float"
  | .bool _, c => c == "bool" || c == "int"
  | .int _, c => c == "int"
  | .bytes _, c => c == "bytes" || c == "collections.abc.Sequence" || c == "collections.abc.Collection"
  | .dict _, c => c == "dict" || c == "collections.abc.Mapping" || c == "collections.abc.Collection"
  | .list _, c => c == "list" || c == "collections.abc.Sequence" || c == "collections.abc.Collection"
  | .tuple _, c => c == "tuple" || c == "collections.abc.Sequence" || c == "collections.abc.Collection"
  | .datetime _, c => c == "datetime"
  | .none, _ => false
  | .other _, _ => false

/-- the branch `encode_value` takes, read off the generated tables: `"="` = returned unchanged,
    a class name = that converter, `none` = `ValueError` -/
def dispatch (v : PyVal) : Option String :=
  if encodeAllowedTypes.any (exactType v) then some "="
  else encodeConverterOrder.find? (isinst v)

/-- the branch the model takes, as its `match` is written -/
def modelBranch : PyVal → Option String
  | .bytes _ | .int _ => some "="
  | .str _ => some "str"
  | .float _ => some "float"
  | .bool _ => some "bool"
  | .dict _ => some "collections.abc.Mapping"
  | .list _ | .tuple _ => some "collections.abc.Sequence"
  | .datetime _ => some "datetime"
  | .none | .other _ => none

/-- for every value the model takes the branch the source's tables prescribe -/
theorem C05_kernel_dispatch (v : PyVal) : dispatch v = modelBranch v := by
  cases v <;> first | rfl | (simp [dispatch, modelBranch, isinst, exactType, encodeAllowedTypes, encodeConverterOrder, PyVal.typeName])

/-- … and each branch of the model does what that converter does: unchanged / UTF-8 / `int(float)` /
    `int(bool)` / `encode_dict` / `encode_list` / `int(dt.timestamp())` / `ValueError` -/
theorem C05_kernel_branches (v : PyVal) :
    match modelBranch v with
    | some "=" => (∃ b, v = .bytes b ∧ encodeValue v = .ok (.bytes b)) ∨ (∃ i, v = .int i ∧ encodeValue v = .ok (.int i))
    | some "str" => ∃ s, v = .str s ∧ encodeValue v = .ok (.bytes (utf8Enc s))
    | some "bool" => ∃ b, v = .bool b ∧ encodeValue v = .ok (.int (if b then 1 else 0))
    | some "float" => ∃ f, v = .float f
    | some "collections.abc.Mapping" => ∃ kvs, v = .dict kvs ∧ encodeValue v = encodeDict kvs
    | some "collections.abc.Sequence" =>
        ∃ l, (v = .list l ∨ v = .tuple l) ∧
          encodeValue v = (match encodeList l with | .ok l' => .ok (.list l') | .error e => .error e)
    | some "datetime" => ∃ ts, v = .datetime ts
    | some _ => False
    | none => encodeValue v = .error .value := by
  cases v with
  | none => simp [modelBranch, encodeValue]
  | other t => simp [modelBranch, encodeValue]
  | bool b => exact ⟨b, rfl, by simp [encodeValue]⟩
  | int i => exact Or.inr ⟨i, rfl, by simp [encodeValue]⟩
  | float f => exact ⟨f, rfl⟩
  | str s => exact ⟨s, rfl, by simp [encodeValue]⟩
  | bytes b => exact Or.inl ⟨b, rfl, by simp [encodeValue]⟩
  | list l => exact ⟨l, Or.inl rfl, by rw [encodeValue]; cases encodeList l <;> rfl⟩
  | tuple l => exact ⟨l, Or.inr rfl, by rw [encodeValue]; cases encodeList l <;> rfl⟩
  | dict kvs => exact ⟨kvs, rfl, rfl⟩
  | datetime ts => exact ⟨ts, rfl⟩

/-- why the order matters (non-vacuity of the tie): with `Sequence` tried before `str`, a string would be
    handed to `encode_list` -/
example : (["collections.abc.Sequence", "str"].find? (isinst (.str "ab"))) = some "collections.abc.Sequence" := by decide

end Torf.C05
