/-
  C01 — `generate()` depends only on the bytes the listed files contain when it runs
  (`Model/GenHistory.lean`): not on other `TorrentFileStream` objects that are open on the same
  files, not on what they have read, not on handles that still name replaced inodes, not on
  earlier `generate()` runs.  For EVERY history of the process.
-/
import Torf.Properties.C01
import Torf.Lemmas.GenHistory
namespace Torf.C01
open Torf Torf.Stream Torf.Generate Torf.GenHistory

/-- One `generate()` in an arbitrary world (any inode store, any other streams with any tables,
    any class-level leftovers): the private stream reads the current bytes, and the run stores
    `map H (chunks L (current stream))`. -/
theorem C01_generate_reads_current (H : List α → δ) (L cap : Nat) (hL : 0 < L) (w : World α)
    (hne : 0 < (w.cur.map List.length).sum) :
    (step false H L cap w .generate).2 = some (.stored ((chunks L w.cur.flatten).map H)) ∧
      (step false H L cap w .generate).1 = w := by
  simp only [step, readAll_private]
  exact ⟨congrArg some (C01_generate_spec H L hL w.cur hne _ (List.Perm.refl _)), by trivial⟩

/-- … in particular the result does not change when the other streams' handle tables are replaced
    by anything else. -/
theorem C01_generate_ignores_other_streams (H : List α → δ) (L cap : Nat) (w : World α)
    (streams' : List Table) (cls' : Table) :
    (step false H L cap { w with streams := streams', cls := cls' } .generate).2 =
      (step false H L cap w .generate).2 := by
  simp only [step, readAll_private]
  rfl

/-- **History independence.**  Start from the files `files₀`; let the process do anything:
    create stream objects, let them open any files (`touch`), close them, replace listed files
    atomically or rewrite them in place (same size), run `generate()` any number of times.  Every
    `generate()` returns True and stores the SHA-1 (`H`) of the consecutive chunks of the bytes
    the files contain *at that moment* — the sequence of outcomes is the one computed by the
    specification `specHist`, whose only state is the list of current contents. -/
theorem C01_generate_history (H : List α → δ) (L cap : Nat) (hL : 0 < L) (files₀ : List (List α))
    (hne : 0 < (files₀.map List.length).sum) (ops : List (Op α))
    (hsz : sizesKept (files₀.map List.length) ops = true) :
    runHist false H L cap (World.init files₀) ops = specHist H L files₀ ops := by
  suffices ∀ (ops : List (Op α)) (w : World α), WF w → w.cur.map List.length = files₀.map List.length →
      sizesKept (files₀.map List.length) ops = true →
      runHist false H L cap w ops = specHist H L w.cur ops by
    have h := this ops (World.init files₀) (WF.init files₀) (by rw [cur_init]) hsz
    rw [cur_init] at h
    exact h
  intro ops
  induction ops with
  | nil => intro w _ _ _; rfl
  | cons op ops ih =>
    intro w hw hlen hk
    obtain ⟨h1, h2, h3⟩ := step_private H L cap hw op
    unfold runHist
    simp only
    cases op with
    | replace j b =>
      simp only [sizesKept, Bool.and_eq_true, beq_iff_eq] at hk
      simp only at h2 h3
      rw [h3]
      simp only [specHist]
      rw [← h2]
      exact ih _ h1 (by rw [h2]; exact map_length_set_kept _ _ hlen j b hk.1) hk.2
    | rewrite j b =>
      simp only [sizesKept, Bool.and_eq_true, beq_iff_eq] at hk
      simp only at h2 h3
      rw [h3]
      simp only [specHist]
      rw [← h2]
      exact ih _ h1 (by rw [h2]; exact map_length_set_kept _ _ hlen j b hk.1) hk.2
    | newStream =>
      simp only at h2 h3
      rw [h3]; simp only [specHist]; rw [← h2]
      exact ih _ h1 (by rw [h2]; exact hlen) hk
    | touch s j =>
      simp only at h2 h3
      rw [h3]; simp only [specHist]; rw [← h2]
      exact ih _ h1 (by rw [h2]; exact hlen) hk
    | close s =>
      simp only at h2 h3
      rw [h3]; simp only [specHist]; rw [← h2]
      exact ih _ h1 (by rw [h2]; exact hlen) hk
    | generate =>
      simp only at h2 h3
      rw [h3]
      simp only [specHist]
      have hne' : 0 < (w.cur.map List.length).sum := by rw [hlen]; exact hne
      have hseq : seq H L w.cur = .stored ((chunks L w.cur.flatten).map H) :=
        C01_generate_spec H L hL w.cur hne' _ (List.Perm.refl _)
      rw [hseq, ← h2]
      congr 1
      exact ih _ h1 (by rw [h2]; exact hlen) hk

/-- **One run, code as it is (no memo).**  In any well-formed world, with any other streams and
    any memo slot, the run is the specification's function of the Torrent's current metainfo and
    the current bytes; the world and the Torrent object are unchanged. -/
theorem C01_generate_one_run_current_metainfo (fp : Meta → List Nat) (H : List α → δ) (cap : Nat) (w : World α) (t : Tor)
    (hL : 0 < t.info.L) :
    genM false fp H cap w t = (specGen H t.info w.cur, w, t) := by
  unfold genM specGen filesOf
  simp only [Bool.false_eq_true, ↓reduceIte]
  -- the size checks in terms of the current contents
  simp only [sizeOnDisk_eq_cur]
  by_cases hall : (t.info.files.all fun e => (w.cur[e.path]?).map List.length == some e.length) = true
  · -- every listed file exists with the listed size
    have hmem : ∀ e ∈ t.info.files, (w.cur[e.path]?).map List.length = some e.length := by
      intro e he
      have := List.all_eq_true.1 hall e he
      simpa using this
    have hex : (t.info.files.all fun e => ((w.cur[e.path]?).map List.length).isSome) = true := by
      rw [List.all_eq_true]
      intro e he
      rw [hmem e he]; rfl
    have hsum : (t.info.files.map fun e => ((w.cur[e.path]?).map List.length).getD 0).sum =
        (t.info.files.map (·.length)).sum :=
      sum_map_congr _ _ _ (fun e he => by rw [hmem e he]; rfl)
    simp only [hex, Bool.not_true, Bool.false_or, hsum, hall, Bool.true_and, Bool.not_true,
      Bool.false_eq_true, ↓reduceIte, decide_eq_true_eq]
    by_cases hpos : 1 ≤ (t.info.files.map (·.length)).sum
    · have hnlt : ¬ (t.info.files.map (·.length)).sum < 1 := by omega
      simp only [hnlt, ↓reduceIte, hpos, readPaths_private]
      -- what the private stream read
      have hlt : ∀ e ∈ t.info.files, e.path < w.dir.length := by
        intro e he
        have h1 := hmem e he
        rcases Nat.lt_or_ge e.path w.dir.length with h | h
        · exact h
        · have : w.cur[e.path]? = none := by
            apply List.getElem?_eq_none
            simpa [World.cur] using h
          rw [this] at h1; simp at h1
      have hcont : (t.info.files.map (·.path)).map (fun j => w.inodes.getD (w.dir.getD j 0) []) =
          t.info.files.map fun e => w.cur.getD e.path [] := by
        rw [List.map_map]
        apply List.map_congr_left
        intro e he
        have h := hlt e he
        simp [World.cur, List.getD_eq_getElem?_getD, List.getElem?_eq_getElem h]
      rw [hcont]
      -- the listed sizes are the sizes read
      have hlen : (t.info.files.map fun e => w.cur.getD e.path []).map List.length =
          t.info.files.map (·.length) := by
        rw [List.map_map]
        apply List.map_congr_left
        intro e he
        have h1 := hmem e he
        have h := hlt e he
        have hc : e.path < w.cur.length := by simpa [World.cur] using h
        rw [List.getElem?_eq_getElem hc] at h1
        simp only [Option.map_some, Option.some.injEq] at h1
        simp [List.getD_eq_getElem?_getD, List.getElem?_eq_getElem hc, h1]
      have hne : 0 < ((t.info.files.map fun e => w.cur.getD e.path []).map List.length).sum := by
        rw [hlen]; omega
      have hspec := C01_generate_spec H t.info.L hL
        (t.info.files.map fun e => w.cur.getD e.path []) hne _ (List.Perm.refl _)
      unfold Generate.run at hspec
      rw [hlen] at hspec
      rw [hspec, List.flatMap_def]
    · have hlt1 : (t.info.files.map (·.length)).sum < 1 := by omega
      simp [hlt1, hpos]
  · -- some listed file is missing or has another size: the run fails (in either check)
    have hall' : (t.info.files.all fun e => (w.cur[e.path]?).map List.length == some e.length) = false := by
      simpa using hall
    simp only [hall', Bool.false_and, Bool.false_eq_true, ↓reduceIte, Bool.not_false]
    split <;> rfl

/-- **History independence on the metainfo side.**  Any number of Torrent objects over one content
    directory; the process edits their metainfo between runs in any way (in place or not: re-order,
    swap, edit a path or a length, replace the list, change the piece length, the name, `copy()`),
    calls getters, creates / replaces / rewrites files (any size), opens and closes other streams,
    and runs `generate()` on any object any number of times.  Every run is the specification's
    function of *that object's metainfo at that moment* and *the bytes on disk at that moment*:
    True with the SHA-1 (`H`) of the chunks of the listed files in list order at the listed piece
    length when disk and metainfo agree, a failure that stores nothing when they do not.  The
    specification's state has no handles, inodes, list identities or remembered file lists. -/
theorem C01_generate_reads_current_metainfo (fp : Meta → List Nat) (H : List α → δ) (cap : Nat)
    (files₀ : List (List α)) (metas₀ : List Meta) (ops : List (MOp α))
    (hL : metasOk metas₀ ops = true) :
    runHistM false fp H cap (MWorld.init files₀ metas₀) ops = specHistM H metas₀ files₀ ops := by
  suffices ∀ (ops : List (MOp α)) (w : MWorld α), WF w.disk →
      metasOk (infos w.tors) ops = true →
      runHistM false fp H cap w ops = specHistM H (infos w.tors) w.disk.cur ops by
    have h := this ops (MWorld.init files₀ metas₀) (WF.init files₀)
      (by simp only [MWorld.init, infos_init]; exact hL)
    simp only [MWorld.init, infos_init, cur_init] at h
    exact h
  intro ops
  induction ops with
  | nil => intro w _ _; rfl
  | cons op ops ih =>
    intro w hw hk
    unfold runHistM
    cases op with
    | disk dop =>
      obtain ⟨h1, h2⟩ := diskStep_private cap hw dop
      simp only [mstep]
      simp only [metasOk] at hk
      have h3 := ih { w with disk := diskStep cap w.disk dop } h1 hk
      simp only at h3
      rw [h3, h2]
      cases dop <;> simp only [specHistM]
    | create b =>
      simp only [mstep, specHistM]
      simp only [metasOk] at hk
      have h3 := ih { w with disk := { w.disk with inodes := w.disk.inodes ++ [b],
                                                   dir := w.disk.dir ++ [w.disk.inodes.length] } }
        (hw.create b) hk
      simp only at h3
      rw [h3, cur_create hw b]
    | setMeta k m =>
      simp only [mstep, specHistM]
      simp only [metasOk, Bool.and_eq_true, decide_eq_true_eq] at hk
      have h3 := ih { w with tors := modifyTor w.tors k fun t => { t with info := m } } hw
        (by simp only [infos_setMeta]; exact metasOk_set _ _ _ _ hk.1 hk.2)
      simp only [infos_setMeta] at h3
      exact h3
    | newTor m =>
      simp only [mstep, specHistM]
      simp only [metasOk, Bool.and_eq_true, decide_eq_true_eq] at hk
      have h3 := ih { w with tors := w.tors ++ [{ info := m }] } hw
        (by simp only [infos_append]; exact metasOk_append _ _ _ hk.1 hk.2)
      simp only [infos_append] at h3
      exact h3
    | get k =>
      simp only [mstep, specHistM, tors_get_same]
      simp only [metasOk] at hk
      exact ih w hw hk
    | generate k =>
      simp only [metasOk] at hk
      simp only [mstep, specHistM, infos_getElem?]
      cases hk' : w.tors[k]? with
      | none =>
        simp only [Option.map_none]
        rw [ih w hw hk]
      | some t =>
        have hLt : 0 < t.info.L := metasOk_pos _ _ hk t.info
          (List.mem_map.2 ⟨t, List.mem_of_getElem? hk', rfl⟩)
        simp only [Option.map_some, C01_generate_one_run_current_metainfo fp H cap w.disk t hLt,
          set_of_getElem? hk']
        rw [ih w hw hk]

/-- The variant whose `Torrent.files` keeps the tuple it built under the cheap fingerprint
    (name, id of the list object, length of the list) is not a function of the current metainfo:
    read `files`, reverse `info['files']` in place, `generate()` — the digests follow the old
    order.  (Model-level image of the seeded change C01/b of round 3.) -/
def C01_memo_files_full : Prop :=
  ∀ (cap : Nat) (files₀ : List (List Nat)) (metas₀ : List Meta) (ops : List (MOp Nat)),
    metasOk metas₀ ops = true →
    runHistM true fpSeed (fun p => p) cap (MWorld.init files₀ metas₀) ops =
      specHistM (fun p => p) metas₀ files₀ ops

theorem C01_memo_files_counterexample : ¬ C01_memo_files_full := by
  intro h
  have h0 := h 10 [[1, 2, 3], [4, 5]]
    [{ L := 2, files := [⟨0, 3⟩, ⟨1, 2⟩], listId := 7 }]
    [.get 0, .setMeta 0 { L := 2, files := [⟨1, 2⟩, ⟨0, 3⟩], listId := 7 }, .generate 0] (by decide)
  -- the memoised tuple still lists file 0 first
  have h1 : runHistM true fpSeed (fun p : List Nat => p) 10
      (MWorld.init [[1, 2, 3], [4, 5]] [{ L := 2, files := [⟨0, 3⟩, ⟨1, 2⟩], listId := 7 }])
      [.get 0, .setMeta 0 { L := 2, files := [⟨1, 2⟩, ⟨0, 3⟩], listId := 7 }, .generate 0] =
      [.out (seq (fun p : List Nat => p) 2 [[1, 2, 3], [4, 5]])] := by rfl
  have h2 : specHistM (fun p : List Nat => p) [{ L := 2, files := [⟨0, 3⟩, ⟨1, 2⟩], listId := 7 }]
      [[1, 2, 3], [4, 5]]
      [.get 0, .setMeta 0 { L := 2, files := [⟨1, 2⟩, ⟨0, 3⟩], listId := 7 }, .generate 0] =
      [.out (.stored ((chunks 2 [[4, 5], [1, 2, 3]].flatten).map fun p => p))] := by rfl
  have h3 := C01_generate_spec (fun p : List Nat => p) 2 (by decide) [[1, 2, 3], [4, 5]] (by decide) _
    (List.Perm.refl _)
  rw [h1, h2] at h0
  have h4 := Res.out.inj (List.head_eq_of_cons_eq h0)
  unfold seq at h4
  rw [h3] at h4
  have h5 := Outcome.stored.inj h4
  simp only [List.map_id'] at h5
  rw [← C01_iter_eq_chunks 2 (by decide), ← C01_iter_eq_chunks 2 (by decide)] at h5
  revert h5
  decide

/-- A memoising `Torrent.files` is harmless exactly when its key is faithful: if the fingerprint
    determines the file list (`fp m = fp m' → m.files = m'.files`), every history still meets the
    specification.  (The seeded key (name, id of the list, length of the list) is not faithful,
    nor is the id alone, nor the paths without the lengths.) -/
theorem C01_memo_files_faithful (fp : Meta → List Nat)
    (hfp : ∀ m m' : Meta, fp m = fp m' → m.files = m'.files) (H : List α → δ) (cap : Nat)
    (files₀ : List (List α)) (metas₀ : List Meta) (ops : List (MOp α))
    (hL : metasOk metas₀ ops = true) :
    runHistM true fp H cap (MWorld.init files₀ metas₀) ops = specHistM H metas₀ files₀ ops := by
  suffices ∀ (ops : List (MOp α)) (w : MWorld α), WF w.disk → (∀ t ∈ w.tors, MemoOk fp t) →
      metasOk (infos w.tors) ops = true →
      runHistM true fp H cap w ops = specHistM H (infos w.tors) w.disk.cur ops by
    have h := this ops (MWorld.init files₀ metas₀) (WF.init files₀)
      (by
        intro t ht f es hm
        simp only [MWorld.init, List.mem_map] at ht
        obtain ⟨m, _, rfl⟩ := ht
        simp at hm)
      (by simp only [MWorld.init, infos_init]; exact hL)
    simp only [MWorld.init, infos_init, cur_init] at h
    exact h
  intro ops
  induction ops with
  | nil => intro w _ _ _; rfl
  | cons op ops ih =>
    intro w hw hmemo hk
    unfold runHistM
    cases op with
    | disk dop =>
      obtain ⟨h1, h2⟩ := diskStep_private cap hw dop
      simp only [mstep]
      simp only [metasOk] at hk
      have h3 := ih { w with disk := diskStep cap w.disk dop } h1 hmemo hk
      simp only at h3
      rw [h3, h2]
      cases dop <;> simp only [specHistM]
    | create b =>
      simp only [mstep, specHistM]
      simp only [metasOk] at hk
      have h3 := ih { w with disk := { w.disk with inodes := w.disk.inodes ++ [b],
                                                   dir := w.disk.dir ++ [w.disk.inodes.length] } }
        (hw.create b) hmemo hk
      simp only at h3
      rw [h3, cur_create hw b]
    | setMeta k m =>
      simp only [mstep, specHistM]
      simp only [metasOk, Bool.and_eq_true, decide_eq_true_eq] at hk
      have h3 := ih { w with tors := modifyTor w.tors k fun t => { t with info := m } } hw
        (by
          intro x hx
          rcases mem_modifyTor hx with h | ⟨t, ht, rfl⟩
          · exact hmemo x h
          · exact hmemo t ht)
        (by simp only [infos_setMeta]; exact metasOk_set _ _ _ _ hk.1 hk.2)
      simp only [infos_setMeta] at h3
      exact h3
    | newTor m =>
      simp only [mstep, specHistM]
      simp only [metasOk, Bool.and_eq_true, decide_eq_true_eq] at hk
      have h3 := ih { w with tors := w.tors ++ [{ info := m }] } hw
        (by
          intro x hx
          rcases List.mem_append.1 hx with h | h
          · exact hmemo x h
          · simp only [List.mem_singleton] at h; subst h
            intro f es hm; simp at hm)
        (by simp only [infos_append]; exact metasOk_append _ _ _ hk.1 hk.2)
      simp only [infos_append] at h3
      exact h3
    | get k =>
      simp only [mstep, specHistM]
      simp only [metasOk] at hk
      have hinfo : infos (modifyTor w.tors k fun t => (filesOf true fp t).2) = infos w.tors := by
        unfold infos modifyTor
        cases hk' : w.tors[k]? with
        | none => rfl
        | some t =>
          simp only [List.map_set, (filesOf_memo hfp (hmemo t (List.mem_of_getElem? hk'))).2.1]
          exact set_of_getElem? (by simp [hk'])
      have h3 := ih { w with tors := modifyTor w.tors k fun t => (filesOf true fp t).2 } hw
        (by
          intro x hx
          rcases mem_modifyTor hx with h | ⟨t, ht, rfl⟩
          · exact hmemo x h
          · exact (filesOf_memo hfp (hmemo t ht)).2.2)
        (by rw [hinfo]; exact hk)
      rw [hinfo] at h3
      exact h3
    | generate k =>
      simp only [metasOk] at hk
      simp only [mstep, specHistM, infos_getElem?]
      cases hk' : w.tors[k]? with
      | none =>
        simp only [Option.map_none]
        rw [ih w hw hmemo hk]
      | some t =>
        have htm := hmemo t (List.mem_of_getElem? hk')
        obtain ⟨hf1, hf2, hf3⟩ := filesOf_memo hfp htm
        have hLt : 0 < t.info.L := metasOk_pos _ _ hk t.info
          (List.mem_map.2 ⟨t, List.mem_of_getElem? hk', rfl⟩)
        simp only [Option.map_some, genM_memo fp H cap w.disk t hf1,
          C01_generate_one_run_current_metainfo fp H cap w.disk t hLt]
        have hinfo : infos (w.tors.set k (filesOf true fp t).2) = infos w.tors := by
          unfold infos
          rw [List.map_set, hf2]
          exact set_of_getElem? (by simp [hk'])
        have h3 := ih { disk := w.disk, tors := w.tors.set k (filesOf true fp t).2 } hw
          (by
            intro x hx
            rcases List.mem_or_eq_of_mem_set hx with h | h
            · exact hmemo x h
            · subst h; exact hf3)
          (by rw [hinfo]; exact hk)
        rw [hinfo] at h3
        rw [h3]

/-- The variant with ONE class-level handle table for all streams is not history independent:
    another stream opens file 0, the file is replaced atomically, `generate()` hashes the bytes
    of the old inode.  (Model-level image of the seeded change C01/a of round 2.) -/
def C01_shared_cache_full : Prop :=
  ∀ (L cap : Nat) (files₀ : List (List Nat)) (ops : List (Op Nat)),
    0 < L → 0 < (files₀.map List.length).sum → sizesKept (files₀.map List.length) ops = true →
    runHist true (fun p => p) L cap (World.init files₀) ops = specHist (fun p => p) L files₀ ops

theorem C01_shared_cache_counterexample : ¬ C01_shared_cache_full := by
  intro h
  have h0 := h 2 10 [[1, 2, 3], [4]] [.newStream, .touch 0 0, .replace 0 [7, 8, 9], .generate]
    (by decide) (by decide) (by decide)
  -- the shared table still holds the handle on the old inode of file 0
  have h1 : runHist true (fun p : List Nat => p) 2 10 (World.init [[1, 2, 3], [4]])
      [.newStream, .touch 0 0, .replace 0 [7, 8, 9], .generate] =
      [seq (fun p : List Nat => p) 2 [[1, 2, 3], [4]]] := by rfl
  have h2 : specHist (fun p : List Nat => p) 2 [[1, 2, 3], [4]]
      [.newStream, .touch 0 0, .replace 0 [7, 8, 9], .generate] =
      [.stored ((chunks 2 [[7, 8, 9], [4]].flatten).map fun p => p)] := by rfl
  have h3 := C01_generate_spec (fun p : List Nat => p) 2 (by decide) [[1, 2, 3], [4]] (by decide) _
    (List.Perm.refl _)
  rw [h1, h2] at h0
  have h4 := List.head_eq_of_cons_eq h0
  unfold seq at h4
  rw [h3] at h4
  have h5 := Outcome.stored.inj h4
  simp only [List.map_id'] at h5
  rw [← C01_iter_eq_chunks 2 (by decide), ← C01_iter_eq_chunks 2 (by decide)] at h5
  revert h5
  decide

/-! Non-vacuity: the hypotheses of `C01_generate_history` hold for a history with two other
    streams, an atomic replacement, an in-place rewrite and three runs; in the model the second
    and third run see the new bytes (`#eval` of both sides gives
    `[stored [3, 7], stored [15, 13], stored [15, 14]]` for `H = sum`). -/
example : sizesKept ([[1, 2, 3], [4]].map List.length)
    ([.generate, .newStream, .touch 0 0, .touch 0 1, .replace 0 [7, 8, 9], .newStream, .touch 1 0,
      .generate, .rewrite 1 [5], .close 0, .generate] : List (Op Nat)) = true := by decide

example : runHist false (fun p : List Nat => p.sum) 2 10 (World.init [[1, 2, 3], [4]])
    [.generate, .newStream, .touch 0 0, .touch 0 1, .replace 0 [7, 8, 9], .newStream, .touch 1 0,
     .generate, .rewrite 1 [5], .close 0, .generate] =
    specHist (fun p : List Nat => p.sum) 2 [[1, 2, 3], [4]]
    [.generate, .newStream, .touch 0 0, .touch 0 1, .replace 0 [7, 8, 9], .newStream, .touch 1 0,
     .generate, .rewrite 1 [5], .close 0, .generate] :=
  C01_generate_history _ 2 10 (by decide) _ (by decide) _ (by decide)

end Torf.C01
