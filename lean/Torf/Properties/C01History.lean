/-
  C01 — `generate()` depends only on the bytes the listed files contain when it runs
  (`Model/GenHistory.lean`): not on other `TorrentFileStream` objects that are open on the same
  files, not on what they have read, not on handles that still name replaced inodes, not on
  earlier `generate()` runs.  For EVERY history of the process.
-/
import Torf.Properties.C01
import Torf.Lemmas.GenHistory
namespace Torf.C01
open Torf Torf.Stream Torf.Generate Torf.GenHistory

/-- One `generate()` in an arbitrary world (any inode store, any other streams with any tables,
    any class-level leftovers): the private stream reads the current bytes, and the run stores
    `map H (chunks L (current stream))`. -/
theorem C01_generate_reads_current (H : List α → δ) (L cap : Nat) (hL : 0 < L) (w : World α)
    (hne : 0 < (w.cur.map List.length).sum) :
    (step false H L cap w .generate).2 = some (.stored ((chunks L w.cur.flatten).map H)) ∧
      (step false H L cap w .generate).1 = w := by
  simp only [step, readAll_private]
  exact ⟨congrArg some (C01_generate_spec H L hL w.cur hne _ (List.Perm.refl _)), by trivial⟩

/-- … in particular the result does not change when the other streams' handle tables are replaced
    by anything else. -/
theorem C01_generate_ignores_other_streams (H : List α → δ) (L cap : Nat) (w : World α)
    (streams' : List Table) (cls' : Table) :
    (step false H L cap { w with streams := streams', cls := cls' } .generate).2 =
      (step false H L cap w .generate).2 := by
  simp only [step, readAll_private]
  rfl

/-- **History independence.**  Start from the files `files₀`; let the process do anything:
    create stream objects, let them open any files (`touch`), close them, replace listed files
    atomically or rewrite them in place (same size), run `generate()` any number of times.  Every
    `generate()` returns True and stores the SHA-1 (`H`) of the consecutive chunks of the bytes
    the files contain *at that moment* — the sequence of outcomes is the one computed by the
    specification `specHist`, whose only state is the list of current contents. -/
theorem C01_generate_history (H : List α → δ) (L cap : Nat) (hL : 0 < L) (files₀ : List (List α))
    (hne : 0 < (files₀.map List.length).sum) (ops : List (Op α))
    (hsz : sizesKept (files₀.map List.length) ops = true) :
    runHist false H L cap (World.init files₀) ops = specHist H L files₀ ops := by
  suffices ∀ (ops : List (Op α)) (w : World α), WF w → w.cur.map List.length = files₀.map List.length →
      sizesKept (files₀.map List.length) ops = true →
      runHist false H L cap w ops = specHist H L w.cur ops by
    have h := this ops (World.init files₀) (WF.init files₀) (by rw [cur_init]) hsz
    rw [cur_init] at h
    exact h
  intro ops
  induction ops with
  | nil => intro w _ _ _; rfl
  | cons op ops ih =>
    intro w hw hlen hk
    obtain ⟨h1, h2, h3⟩ := step_private H L cap hw op
    unfold runHist
    simp only
    cases op with
    | replace j b =>
      simp only [sizesKept, Bool.and_eq_true, beq_iff_eq] at hk
      simp only at h2 h3
      rw [h3]
      simp only [specHist]
      rw [← h2]
      exact ih _ h1 (by rw [h2]; exact map_length_set_kept _ _ hlen j b hk.1) hk.2
    | rewrite j b =>
      simp only [sizesKept, Bool.and_eq_true, beq_iff_eq] at hk
      simp only at h2 h3
      rw [h3]
      simp only [specHist]
      rw [← h2]
      exact ih _ h1 (by rw [h2]; exact map_length_set_kept _ _ hlen j b hk.1) hk.2
    | newStream =>
      simp only at h2 h3
      rw [h3]; simp only [specHist]; rw [← h2]
      exact ih _ h1 (by rw [h2]; exact hlen) hk
    | touch s j =>
      simp only at h2 h3
      rw [h3]; simp only [specHist]; rw [← h2]
      exact ih _ h1 (by rw [h2]; exact hlen) hk
    | close s =>
      simp only at h2 h3
      rw [h3]; simp only [specHist]; rw [← h2]
      exact ih _ h1 (by rw [h2]; exact hlen) hk
    | generate =>
      simp only at h2 h3
      rw [h3]
      simp only [specHist]
      have hne' : 0 < (w.cur.map List.length).sum := by rw [hlen]; exact hne
      have hseq : seq H L w.cur = .stored ((chunks L w.cur.flatten).map H) :=
        C01_generate_spec H L hL w.cur hne' _ (List.Perm.refl _)
      rw [hseq, ← h2]
      congr 1
      exact ih _ h1 (by rw [h2]; exact hlen) hk

/-- The variant with ONE class-level handle table for all streams is not history independent:
    another stream opens file 0, the file is replaced atomically, `generate()` hashes the bytes
    of the old inode.  (Model-level image of the seeded change C01/a of round 2.) -/
def C01_shared_cache_full : Prop :=
  ∀ (L cap : Nat) (files₀ : List (List Nat)) (ops : List (Op Nat)),
    0 < L → 0 < (files₀.map List.length).sum → sizesKept (files₀.map List.length) ops = true →
    runHist true (fun p => p) L cap (World.init files₀) ops = specHist (fun p => p) L files₀ ops

theorem C01_shared_cache_counterexample : ¬ C01_shared_cache_full := by
  intro h
  have h0 := h 2 10 [[1, 2, 3], [4]] [.newStream, .touch 0 0, .replace 0 [7, 8, 9], .generate]
    (by decide) (by decide) (by decide)
  -- the shared table still holds the handle on the old inode of file 0
  have h1 : runHist true (fun p : List Nat => p) 2 10 (World.init [[1, 2, 3], [4]])
      [.newStream, .touch 0 0, .replace 0 [7, 8, 9], .generate] =
      [seq (fun p : List Nat => p) 2 [[1, 2, 3], [4]]] := by rfl
  have h2 : specHist (fun p : List Nat => p) 2 [[1, 2, 3], [4]]
      [.newStream, .touch 0 0, .replace 0 [7, 8, 9], .generate] =
      [.stored ((chunks 2 [[7, 8, 9], [4]].flatten).map fun p => p)] := by rfl
  have h3 := C01_generate_spec (fun p : List Nat => p) 2 (by decide) [[1, 2, 3], [4]] (by decide) _
    (List.Perm.refl _)
  rw [h1, h2] at h0
  have h4 := List.head_eq_of_cons_eq h0
  unfold seq at h4
  rw [h3] at h4
  have h5 := Outcome.stored.inj h4
  simp only [List.map_id'] at h5
  rw [← C01_iter_eq_chunks 2 (by decide), ← C01_iter_eq_chunks 2 (by decide)] at h5
  revert h5
  decide

/-! Non-vacuity: the hypotheses of `C01_generate_history` hold for a history with two other
    streams, an atomic replacement, an in-place rewrite and three runs; in the model the second
    and third run see the new bytes (`#eval` of both sides gives
    `[stored [3, 7], stored [15, 13], stored [15, 14]]` for `H = sum`). -/
example : sizesKept ([[1, 2, 3], [4]].map List.length)
    ([.generate, .newStream, .touch 0 0, .touch 0 1, .replace 0 [7, 8, 9], .newStream, .touch 1 0,
      .generate, .rewrite 1 [5], .close 0, .generate] : List (Op Nat)) = true := by decide

example : runHist false (fun p : List Nat => p.sum) 2 10 (World.init [[1, 2, 3], [4]])
    [.generate, .newStream, .touch 0 0, .touch 0 1, .replace 0 [7, 8, 9], .newStream, .touch 1 0,
     .generate, .rewrite 1 [5], .close 0, .generate] =
    specHist (fun p : List Nat => p.sum) 2 [[1, 2, 3], [4]]
    [.generate, .newStream, .touch 0 0, .touch 0 1, .replace 0 [7, 8, 9], .newStream, .touch 1 0,
     .generate, .rewrite 1 [5], .close 0, .generate] :=
  C01_generate_history _ 2 10 (by decide) _ (by decide) _ (by decide)

end Torf.C01
