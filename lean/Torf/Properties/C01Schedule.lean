/-
  C01 — the thread-count / schedule axis: composition of the pipeline theorems (C03) with the
  sequential chunking theorems (C01).  For every number of hasher threads, every queue capacity
  and EVERY schedule of the pipeline (a reachable terminal state of the transition system), a
  hashing run over undamaged content returns with all pieces collected, and what
  `Torrent.generate` stores for that arrival order is `map H (chunks L stream)`.
-/
import Torf.Properties.C01
import Torf.Properties.C03
namespace Torf.C01
open Torf Torf.Stream Torf.Generate Torf.Pipeline Torf.C03

/- `arrivalOf tasks c` (the arrival order of the digests, as `(index, piece)` tasks, for the order
   `c` in which the collector received the piece indexes) is defined in `Model/Generate.lean`. -/

theorem arrivalOf_range (tasks : List (Nat × List α)) :
    arrivalOf tasks (List.range tasks.length) = tasks := by
  unfold arrivalOf
  apply List.ext_getElem?
  intro i
  by_cases hi : i < tasks.length
  · have h1 : ∀ (n : Nat), n ≤ tasks.length →
        (List.range n).filterMap (fun i => tasks[i]?) = tasks.take n := by
      intro n
      induction n with
      | zero => intro _; simp
      | succ n ih =>
        intro hn
        rw [List.range_succ, List.filterMap_append, ih (by omega)]
        have hlt : n < tasks.length := by omega
        simp only [List.filterMap_cons, List.filterMap_nil, List.getElem?_eq_getElem hlt]
        rw [List.take_succ, List.getElem?_eq_getElem hlt]
        simp
    rw [h1 tasks.length (Nat.le_refl _), List.take_length]
  · have h1 : ∀ (n : Nat), n ≤ tasks.length →
        (List.range n).filterMap (fun i => tasks[i]?) = tasks.take n := by
      intro n
      induction n with
      | zero => intro _; simp
      | succ n ih =>
        intro hn
        rw [List.range_succ, List.filterMap_append, ih (by omega)]
        have hlt : n < tasks.length := by omega
        simp only [List.filterMap_cons, List.filterMap_nil, List.getElem?_eq_getElem hlt]
        rw [List.take_succ, List.getElem?_eq_getElem hlt]
        simp
    rw [h1 tasks.length (Nat.le_refl _), List.take_length]

/-- **Schedule independence of hashing.**  `cfg` describes a run over undamaged content (every
    item is a data piece, as many as there are chunks), without faults and with a passive callback.
    In every reachable terminal state of the pipeline — whatever the number of hashers, the queue
    capacity, the interleaving and the timeouts — `collect()` has returned a permutation of all
    piece indexes, and the tail of `Torrent.generate` stores exactly the SHA-1 (`H`) of the
    consecutive chunks of the concatenated files, in stream order. -/
theorem C01_any_schedule (H : List α → δ) (L : Nat) (hL : 0 < L) (files : List (List α))
    (hne : 0 < (files.map List.length).sum)
    (cfg : Cfg) (hitems : cfg.items = List.replicate (readerTasks L files).length .data)
    (hwf : wf cfg = true) (hnf : noFaults cfg = true) (hcb : ∀ k d, cfg.cb k d = .pass)
    (s : State) (hreach : Reachable cfg s) (hterm : terminal s = true) :
    ∃ c, result? s = some (.returned c) ∧
      run H L files (arrivalOf (readerTasks L files) c) = .stored ((chunks L files.flatten).map H) := by
  obtain ⟨r, hr, hok⟩ := C03_outcome hwf hnf hcb hreach hterm
  -- no item raises, so the result is a returned one
  have hbad : badItems cfg = [] := by
    unfold badItems
    rw [List.filter_eq_nil_iff]
    intro k hk
    simp only [List.mem_range] at hk
    unfold isRaising
    have : cfg.items.getD k .nodata = .data := by
      rw [hitems] at hk ⊢
      simp only [List.length_replicate] at hk
      simp [List.getD_eq_getElem?_getD, List.getElem?_replicate, hk]
    rw [this]
    simp
  cases r with
  | raised e =>
    exfalso
    cases e <;> simp [outcomeOk, hbad] at hok
  | returned c =>
    refine ⟨c, hr, ?_⟩
    obtain ⟨_, hperm⟩ := C03_returned_complete hwf hnf hcb hreach hr
    have hhashed : hashedItems cfg = List.range (readerTasks L files).length := by
      unfold hashedItems
      rw [hitems, List.length_replicate, List.filter_eq_self]
      intro k hk
      simp only [List.mem_range] at hk
      simp [List.getD_eq_getElem?_getD, List.getElem?_replicate, hk]
    rw [hhashed] at hperm
    apply C01_generate_spec H L hL files hne
    have h1 : (arrivalOf (readerTasks L files) c).Perm
        (arrivalOf (readerTasks L files) (List.range (readerTasks L files).length)) :=
      hperm.filterMap _
    rw [arrivalOf_range] at h1
    exact h1

end Torf.C01
