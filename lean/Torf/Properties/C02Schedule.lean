/-
  C02 ∘ C03 — content verification gives the sequential verdict under every schedule.

  `Verify.verifySeq` (C02) consumes the reader's items in piece order; the real `Torrent.verify`
  runs them through the threaded pipeline.  This file composes the two models: the pipeline
  configuration whose item kinds are those of the reader's items (`kindOf`) reaches, under every
  interleaving, number of hashers, queue capacity and timing of the timeouts, a terminal state
  whose result is the one of the sequential reference — the same Boolean when it returns, the
  error of *one of* the bad pieces when the reference raises the error of the first (C03: "if
  several files are damaged and no callback is given, any one of the corresponding errors").
-/
import Torf.Lemmas.VerifySchedule
import Torf.Properties.C03
namespace Torf.C02
open Torf Torf.Missing Torf.Verify Torf.Pipeline

variable {α δ : Type} [DecidableEq δ]

/-- **Verification gives the sequential verdict under every schedule.**  Let `items` be what the
    reader's generator yields for the disk (`iterItems`, C10), `stored` the torrent's piece hashes
    (at least one per item, as `validate()` guarantees) and `cfg` any pipeline configuration whose
    item kinds are those of `items` (any number of hashers, any queue capacity), run without
    faults and with a passive callback or none.  In every reachable terminal state:
    * if the sequential reference `verifySeq` returns `b`, `collect()` returned and comparing the
      digests in piece order with the stored hashes gives the same `b` (with a callback it always
      returns; the callback trace is C12's subject);
    * if the reference raises — the documented error of the first bad piece — the threaded run
      raises the error of one of the bad pieces. -/
theorem C02_any_schedule (H : List α → δ) (L : Nat) (sizes : List Nat)
    (disk : List (Option (List α))) (stored : List δ) (hasCb : Bool) (items : List (Item α))
    (hit : iterItems L sizes disk = some items) (hlen : items.length ≤ stored.length)
    (cfg : Cfg) (hcfg : cfg.items = items.zipIdx.map (kindOf H stored))
    (hraise : cfg.raiseOnBad = !hasCb)
    (hwf : wf cfg = true) (hnf : noFaults cfg = true) (hcb : ∀ k d, cfg.cb k d = .pass)
    (s : State) (hreach : Reachable cfg s) (hterm : terminal s = true) :
    match (verifySeq H L sizes disk stored hasCb false true).1 with
    | .ok b => ∃ c, result? s = some (.returned c) ∧
        b = ((c.mergeSort (fun a b => decide (a ≤ b))).filterMap (digestAt H items) == stored)
    | .error e => ∃ k0 k, itemErr L sizes items k0 = some e ∧ isBad H stored items k0 = true ∧
        (∀ j, j < k0 → isBad H stored items j = false) ∧
        result? s = some (.raised (.item k)) ∧ isBad H stored items k = true := by
  have hinv := seqInv_items H L sizes stored hasCb items hlen
  obtain ⟨r, hr, hok⟩ := Torf.C03.C03_outcome hwf hnf hcb hreach hterm
  simp only [verifySeq, Bool.false_and, Bool.false_eq_true, if_false, Bool.not_false, Bool.not_true,
    Bool.true_and, hit]
  generalize hacc : items.zipIdx.foldl (Verify.collectItem H L sizes stored hasCb) {} = acc at hinv
  cases hra : acc.raised with
  | none =>
    -- the reference returns: no piece is bad for this run
    simp only
    have hnb := hinv.raised_none.mp hra
    have hbad : badItems cfg = [] := by
      rw [List.eq_nil_iff_forall_not_mem]
      intro k hk
      obtain ⟨hr', hb⟩ := (mem_badItems H stored items cfg hcfg k).mp hk
      rcases hnb with h | h
      · rw [hraise, h] at hr'; exact absurd hr' (by simp)
      · have hk' : k < items.length := by
          unfold isBad at hb
          rcases Nat.lt_or_ge k items.length with h' | h'
          · exact h'
          · rw [List.getElem?_eq_none h'] at hb; exact absurd hb (by simp)
        rw [h k hk'] at hb; exact absurd hb (by simp)
    cases r with
    | raised e =>
      exfalso
      cases e with
      | item k => simp [outcomeOk, hbad] at hok
      | _ => simp [outcomeOk] at hok
    | returned c =>
      simp only [outcomeOk, Bool.and_eq_true, beq_iff_eq] at hok
      refine ⟨c, hr, ?_⟩
      have hsort : c.mergeSort (fun a b => decide (a ≤ b)) = hashedItems cfg := hok.2
      rw [hsort, digests_of_hashed H stored items cfg hcfg, ← hinv.collected hra]
  | some e =>
    simp only
    obtain ⟨k0, hk0, hb0, hmin, herr⟩ := hinv.raised_some e hra
    have hcbf : hasCb = false := by
      cases h : hasCb with
      | false => rfl
      | true => rw [hinv.raised_none.mpr (Or.inl h)] at hra; exact absurd hra (by simp)
    have hrb : cfg.raiseOnBad = true := by rw [hraise, hcbf]; rfl
    have hmem : k0 ∈ badItems cfg := (mem_badItems H stored items cfg hcfg k0).mpr ⟨hrb, hb0⟩
    cases r with
    | returned c =>
      exfalso
      simp only [outcomeOk, Bool.and_eq_true, List.isEmpty_iff] at hok
      rw [hok.1] at hmem
      exact absurd hmem (by simp)
    | raised x =>
      cases x with
      | item k =>
        simp only [outcomeOk, List.contains_iff_mem] at hok
        exact ⟨k0, k, herr, hb0, hmin, hr, ((mem_badItems H stored items cfg hcfg k).mp hok).2⟩
      | _ => simp [outcomeOk] at hok

/-! ### the hypotheses are satisfiable -/

private def lM : Label := ⟨.main, false⟩
private def lR : Label := ⟨.reader, false⟩
private def lH : Label := ⟨.hasher 0, false⟩
private def lJ : Label := ⟨.janitor, false⟩

/-- one file of one piece, read back intact / with a flipped byte; `H` = identity -/
private def exItems (d : List Nat) : List (Item Nat) := [⟨some d, 0, []⟩]

private def exCfg (d : List Nat) (hasCb : Bool) : Cfg :=
  { N := 1, cap := 1, items := (exItems d).zipIdx.map (kindOf id [[1, 2]]), readFault := none,
    refuse := [], raiseOnBad := !hasCb, cb := fun _ _ => .pass }

private def schedOk : List Label :=
  [lM, lM, lM, lM, lM, lM, lR, lR, lH, lH, lR, lH, lH, lH, lH, lJ, lJ, lJ, lJ, lM, lM, lM, lM, lM]

private def schedBad : List Label :=
  [lM, lM, lM, lM, lM, lM, lR, lR, lH, lH, lR, lH, lM, lM, lM, lH, lH, lH, lM, lM, lJ, lJ, lJ, lJ, lM]

private def after (cfg : Cfg) (ls : List Label) : State := (run cfg (init cfg) ls).getD (init cfg)

private theorem reach_after {cfg : Cfg} {ls : List Label}
    (h : (run cfg (init cfg) ls).isSome = true) : Reachable cfg (after cfg ls) := by
  refine ⟨ls, ?_⟩
  unfold after
  cases hr : run cfg (init cfg) ls with
  | none => simp [hr] at h
  | some s => rfl

/-- intact content, with a callback: the reader's generator yields `exItems [1,2]`, the schedule is
    complete, and the theorem's conclusion is "returned, verdict True" -/
example : iterItems 2 [2] [some [1, 2]] = some (exItems [1, 2]) ∧
    Reachable (exCfg [1, 2] true) (after (exCfg [1, 2] true) schedOk) ∧
    terminal (after (exCfg [1, 2] true) schedOk) = true ∧
    (verifySeq id 2 [2] [some [1, 2]] [[1, 2]] true false true).1 = .ok true ∧
    result? (after (exCfg [1, 2] true) schedOk) = some (.returned [0]) :=
  ⟨by rfl, reach_after (by decide), by decide, by decide, by decide⟩

/-- corrupt content, no callback: the reference raises the content error of piece 0 and so does
    the threaded run -/
example : iterItems 2 [2] [some [1, 3]] = some (exItems [1, 3]) ∧
    Reachable (exCfg [1, 3] false) (after (exCfg [1, 3] false) schedBad) ∧
    terminal (after (exCfg [1, 3] false) schedBad) = true ∧
    (verifySeq id 2 [2] [some [1, 3]] [[1, 2]] false false true).1 = .error (.content 0 [0]) ∧
    result? (after (exCfg [1, 3] false) schedBad) = some (.raised (.item 0)) :=
  ⟨by rfl, reach_after (by decide), by decide, by decide, by decide⟩

end Torf.C02
